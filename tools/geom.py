"""Exact polygon geometry for the spec-side judges: winding numbers of polygonal paths (lists of
contours of Fraction points), sample grids away from edges."""
from fractions import Fraction as F

def contours_of(cmds):
    """polygonal command list (M/L/Z absolute) -> list of closed contours (implicitly closed for fills)"""
    out, cur = [], []
    for c, a in cmds:
        if c == 'M':
            if len(cur) > 1: out.append(cur)
            cur = [(F(a[0]), F(a[1]))]
        elif c == 'L': cur.append((F(a[0]), F(a[1])))
        elif c == 'Z':
            if len(cur) > 1: out.append(cur)
            cur = [cur[0]] if cur else []
        else: raise ValueError('not polygonal: ' + c)
    if len(cur) > 1: out.append(cur)
    return out

def winding(contours, pt):
    """winding number of pt w.r.t. the closed contours; None when pt lies on an edge"""
    x, y = pt; w = 0
    for poly in contours:
        n = len(poly)
        for i in range(n):
            (x1, y1), (x2, y2) = poly[i], poly[(i + 1) % n]
            # on-edge test
            cross = (x2 - x1) * (y - y1) - (y2 - y1) * (x - x1)
            if cross == 0 and min(x1, x2) <= x <= max(x1, x2) and min(y1, y2) <= y <= max(y1, y2): return None
            if y1 <= y < y2 and cross > 0: w += 1
            elif y2 <= y < y1 and cross < 0: w -= 1
    return w

def inside(cmds, evenodd, pt):
    w = winding(contours_of(cmds), pt)
    if w is None: return None
    return (w % 2 != 0) if evenodd else (w != 0)

def dist2_to_edges(contours, pt):
    x, y = pt; best = None
    for poly in contours:
        n = len(poly)
        for i in range(n):
            (x1, y1), (x2, y2) = poly[i], poly[(i + 1) % n]
            dx, dy = x2 - x1, y2 - y1
            L = dx * dx + dy * dy
            t = F(0) if L == 0 else max(F(0), min(F(1), ((x - x1) * dx + (y - y1) * dy) / L))
            px, py = x1 + t * dx, y1 + t * dy
            d = (x - px) ** 2 + (y - py) ** 2
            best = d if best is None or d < best else best
    return best

def sample_points(lo, hi, n):
    """(n x n) grid of points with odd denominators so that they avoid lattice edges"""
    step = F(hi - lo, n)
    return [(lo + step * i + step / 3, lo + step * j + step * F(2, 7)) for i in range(n) for j in range(n)]
