#!/usr/bin/env python3
"""tools/shapes_gen.py — translator (T) for the basic shapes of svg_types.py.

Regenerates gen/G_shapes.v from the CURRENT source on every build:
  * BUILDER: for every one-letter builder method of SVGPath (M m H h V v L l C Q ...) the command
    letter it really writes; ARC_TEMPLATE: how `_arc` lays out the seven arc arguments; END_SNIPPET
  * SVGRect.__post_init__ (radius linking and clamping) and the `as_path` bodies of SVGRect,
    SVGEllipse, SVGCircle, SVGLine as Gallina functions over the NumOps record, statement by statement
  * the string constants SVGPolygon / SVGPolyline wrap their `points` in
Fail-closed: any statement or expression outside the small subset handled here aborts the build
(exit 3 of gen_models.py), so a rewritten as_path is never silently mis-modelled."""
import ast, os


class Abort(Exception):
    pass


def chr_(c):
    return '"' + c + '"%char'


def cstr(x):
    return '"' + x.replace('"', '""') + '"%string'


def fields_of(cls):
    """dataclass fields declared in the class body, in order, with their numeric defaults"""
    out = []
    for st in cls.body:
        if isinstance(st, ast.AnnAssign) and isinstance(st.target, ast.Name):
            ann = ast.unparse(st.annotation)
            if ann.startswith('ClassVar'): continue
            out.append((st.target.id, st.value.value if isinstance(st.value, ast.Constant) else None, ann))
    return out


class Tr:
    def __init__(self, classes, builder):
        self.classes, self.builder = classes, builder

    def expr(self, e, env):
        if isinstance(e, ast.Name):
            if e.id not in env: raise Abort(f"unbound name {e.id} (line {e.lineno})")
            return env[e.id]
        if isinstance(e, ast.Attribute) and isinstance(e.value, ast.Name) and e.value.id == 'self':
            if e.attr not in env: raise Abort(f"unknown field self.{e.attr}")
            return env[e.attr]
        if isinstance(e, ast.Constant) and isinstance(e.value, int) and not isinstance(e.value, bool):
            return f"(of_Z N ({e.value})%Z)"
        if isinstance(e, ast.BinOp) and type(e.op) in (ast.Add, ast.Sub, ast.Mult, ast.Div):
            op = {ast.Add: 'add', ast.Sub: 'sub', ast.Mult: 'mul', ast.Div: 'div'}[type(e.op)]
            return f"({op} N {self.expr(e.left, env)} {self.expr(e.right, env)})"
        if isinstance(e, ast.UnaryOp) and isinstance(e.op, ast.USub):
            return f"(opp N {self.expr(e.operand, env)})"
        if isinstance(e, ast.Call) and isinstance(e.func, ast.Name) and e.func.id in ('min', 'max') and len(e.args) == 2 and not e.keywords:
            return f"(py{e.func.id} {self.expr(e.args[0], env)} {self.expr(e.args[1], env)})"
        raise Abort(f"unsupported expression {ast.unparse(e)} (line {e.lineno})")

    def cond(self, e, env):
        if isinstance(e, ast.UnaryOp) and isinstance(e.op, ast.Not):
            return f"(negb (truthy {self.expr(e.operand, env)}))"
        if isinstance(e, ast.Compare) and len(e.ops) == 1:
            a, b = self.expr(e.left, env), self.expr(e.comparators[0], env)
            t = type(e.ops[0])
            if t is ast.Gt: return f"(ltb N {b} {a})"
            if t is ast.Lt: return f"(ltb N {a} {b})"
            if t is ast.GtE: return f"(leb N {b} {a})"
            if t is ast.LtE: return f"(leb N {a} {b})"
            if t is ast.Eq: return f"(eqb N {a} {b})"
            if t is ast.NotEq: return f"(negb (eqb N {a} {b}))"
        if isinstance(e, (ast.Name, ast.Attribute)):
            return f"(truthy {self.expr(e, env)})"
        raise Abort(f"unsupported condition {ast.unparse(e)} (line {e.lineno})")

    def builder_call(self, call, env, pathvar):
        """path.<meth>(args) -> Gallina expression for the new command list, given the old one `p`"""
        f = call.func
        if not (isinstance(f, ast.Attribute) and isinstance(f.value, ast.Name) and f.value.id == pathvar):
            raise Abort(f"unsupported call {ast.unparse(call)} (line {call.lineno})")
        name = f.attr
        if name == '_copy_common_fields': return None
        if name == 'end':
            if call.args or call.keywords: raise Abort("end() takes no arguments")
            return "(b_end p)"
        if name in ('A', 'a'):
            if len(call.args) != 4: raise Abort(f"arc builder with {len(call.args)} positional arguments")
            kw = {k.arg: k.value for k in call.keywords}
            if set(kw) - {'large_arc'}: raise Abort(f"arc builder keyword {set(kw)}")
            large = self.expr(kw['large_arc'], env) if 'large_arc' in kw else self.builder['arc_default_large']
            a = [self.expr(x, env) for x in call.args]
            return f"(b_arc N {chr_(name)} {a[0]} {a[1]} {a[2]} {a[3]} {large} p)"
        if len(name) == 1 and name in self.builder['letters']:
            if call.keywords or any(isinstance(x, ast.Starred) for x in call.args): raise Abort(f"unsupported builder call {ast.unparse(call)}")
            return f"(b_cmd N {chr_(name)} [{'; '.join(self.expr(x, env) for x in call.args)}] p)"
        raise Abort(f"unknown builder method {name} (line {call.lineno})")

    def body(self, stmts, env, pathvar, own_fields):
        """translate statements; returns list of Gallina `let` lines.  env maps python names -> Gallina names"""
        lines = []
        for st in stmts:
            if isinstance(st, ast.Expr) and isinstance(st.value, ast.Constant): continue        # docstring
            if isinstance(st, ast.Assign) and len(st.targets) == 1:
                tg = st.targets[0]
                # *shape_fields, a, b, c = dataclasses.astuple(self)
                if isinstance(tg, ast.Tuple) and ast.unparse(st.value) == 'dataclasses.astuple(self)':
                    if not (tg.elts and isinstance(tg.elts[0], ast.Starred)): raise Abort("astuple unpacking without a starred head")
                    names = [e.id for e in tg.elts[1:]]
                    if len(names) != len(own_fields): raise Abort(f"astuple unpacks {len(names)} own fields, class declares {len(own_fields)}")
                    for n, fld in zip(names, own_fields):
                        env[n] = env[fld]
                    continue
                if isinstance(tg, ast.Name) and ast.unparse(st.value) == 'SVGPath()':
                    if pathvar[0] not in (None, tg.id): raise Abort("two path variables")
                    pathvar[0] = tg.id
                    lines.append("let p := @nil (ascii * list (T N)) in")
                    continue
                # path = SVGEllipse(rx=r, ...).as_path()
                if (isinstance(tg, ast.Name) and isinstance(st.value, ast.Call) and isinstance(st.value.func, ast.Attribute)
                        and st.value.func.attr == 'as_path' and isinstance(st.value.func.value, ast.Call)
                        and isinstance(st.value.func.value.func, ast.Name) and st.value.func.value.func.id in self.classes):
                    cname = st.value.func.value.func.id
                    ctor = st.value.func.value
                    if ctor.args: raise Abort("positional constructor arguments")
                    kw = {k.arg: self.expr(k.value, env) for k in ctor.keywords}
                    args = []
                    for fn, dflt, _ in self.classes[cname]:
                        if fn in kw: args.append(kw.pop(fn))
                        elif isinstance(dflt, (int, float)): args.append(f"(of_Z N ({int(dflt)})%Z)")
                        else: raise Abort(f"{cname}.{fn} has no numeric default")
                    if kw: raise Abort(f"unknown fields {set(kw)} for {cname}")
                    pathvar[0] = tg.id
                    lines.append(f"let p := {cname}_as_path N {' '.join(args)} in")
                    continue
                # self.rx = <expr>
                if isinstance(tg, ast.Attribute) and isinstance(tg.value, ast.Name) and tg.value.id == 'self' and tg.attr in env:
                    lines.append(f"let {tg.attr} := {self.expr(st.value, env)} in")
                    continue
                raise Abort(f"unsupported assignment {ast.unparse(st)} (line {st.lineno})")
            if isinstance(st, ast.Expr) and isinstance(st.value, ast.Call):
                g = self.builder_call(st.value, env, pathvar[0])
                if g: lines.append(f"let p := {g} in")
                continue
            if isinstance(st, ast.If) and not st.orelse:
                c = self.cond(st.test, env)
                # the branch may assign fields or call builders; translate it as a conditional update of each
                inner = self.body(st.body, dict(env), pathvar, own_fields)
                for l in inner:
                    var = l.split()[1]
                    rhs = l[len(f"let {var} := "):-len(" in")]
                    lines.append(f"let {var} := if {c} then {rhs} else {var} in")
                continue
            if isinstance(st, ast.Return):
                continue
            raise Abort(f"unsupported statement {ast.unparse(st)[:60]} (line {st.lineno})")
        return lines


def generate(svg_types_py, out_path):
    tree = ast.parse(open(svg_types_py).read())
    cls = {n.name: n for n in tree.body if isinstance(n, ast.ClassDef)}
    for need in ('SVGPath', 'SVGRect', 'SVGEllipse', 'SVGCircle', 'SVGLine', 'SVGPolygon', 'SVGPolyline'):
        if need not in cls: raise Abort(f"class {need} not found")
    meth = lambda c, m: next((n for n in cls[c].body if isinstance(n, ast.FunctionDef) and n.name == m), None)
    # ---- the builder API of SVGPath
    letters = {}
    for n in cls['SVGPath'].body:
        if isinstance(n, ast.FunctionDef) and len(n.name) == 1 and n.name.upper() not in 'A':
            if len(n.body) != 1 or not isinstance(n.body[0], ast.Expr): raise Abort(f"builder {n.name}: body is not one call")
            c = n.body[0].value
            if not (isinstance(c, ast.Call) and ast.unparse(c.func) == 'self._add_cmd' and len(c.args) == 2
                    and isinstance(c.args[0], ast.Constant) and isinstance(c.args[0].value, str) and len(c.args[0].value) == 1
                    and isinstance(c.args[1], ast.Starred) and ast.unparse(c.args[1].value) == 'args'):
                raise Abort(f"builder {n.name}: not self._add_cmd(<letter>, *args)")
            letters[n.name] = c.args[0].value
    arcs = {}
    for nm in ('A', 'a'):
        n = meth('SVGPath', nm)
        if n is None: raise Abort(f"builder {nm} missing")
        params = [a.arg for a in n.args.args]
        if params != ['self', 'rx', 'ry', 'x', 'y', 'large_arc'] or [ast.unparse(d) for d in n.args.defaults] != ['0']:
            raise Abort(f"builder {nm}: unexpected signature")
        c = n.body[0].value if len(n.body) == 1 and isinstance(n.body[0], ast.Expr) else None
        if not (isinstance(c, ast.Call) and ast.unparse(c.func) == 'self._arc' and [ast.unparse(a) for a in c.args[1:]] == ['rx', 'ry', 'x', 'y', 'large_arc']
                and isinstance(c.args[0], ast.Constant)):
            raise Abort(f"builder {nm}: not self._arc(<letter>, rx, ry, x, y, large_arc)")
        arcs[nm] = c.args[0].value
    n = meth('SVGPath', '_arc')
    c = n.body[0].value if n and len(n.body) == 1 and isinstance(n.body[0], ast.Expr) else None
    if not (isinstance(c, ast.Call) and ast.unparse(c.func) == 'self._add' and len(c.args) == 1 and isinstance(c.args[0], ast.Call)
            and ast.unparse(c.args[0].func) == 'path_segment' and [a.arg for a in n.args.args] == ['self', 'c', 'rx', 'ry', 'x', 'y', 'large_arc']):
        raise Abort("_arc: not self._add(path_segment(...))")
    tmpl = [ast.unparse(a) for a in c.args[0].args]
    if tmpl[0] != 'c' or len(tmpl) != 8: raise Abort(f"_arc: unexpected template {tmpl}")
    def tm(a):
        if a in ('rx', 'ry', 'x', 'y', 'large_arc'): return {'large_arc': 'large'}.get(a, a)
        if a.lstrip('-').isdigit(): return f"(of_Z N ({a})%Z)"
        raise Abort(f"_arc: template entry {a}")
    n = meth('SVGPath', 'end')
    c = n.body[0].value if n and len(n.body) == 1 and isinstance(n.body[0], ast.Expr) else None
    if not (isinstance(c, ast.Call) and ast.unparse(c.func) == 'self._add' and len(c.args) == 1 and isinstance(c.args[0], ast.Constant)):
        raise Abort("end: not self._add(<const>)")
    end_snippet = c.args[0].value
    if len(end_snippet) != 1: raise Abort(f"end writes {end_snippet!r}")
    classes = {k: fields_of(cls[k]) for k in ('SVGRect', 'SVGEllipse', 'SVGCircle', 'SVGLine')}
    tr = Tr(classes, {'letters': letters, 'arc_default_large': "(of_Z N 0%Z)"})

    L = ["(* GENERATED by tools/shapes_gen.py from the current svg_types.py: SVGPath's builder methods, SVGRect.__post_init__",
         "   and the as_path bodies of the basic shapes - do not edit. *)",
         "From Coq Require Import ZArith List Bool Ascii String.",
         "From Pico Require Import Num PyStr.", "Import ListNotations.", "",
         "(* builder method name -> the command letter it writes *)",
         "Definition BUILDER : list (ascii * ascii) := [" + "; ".join(f"({chr_(k)}, {chr_(v)})" for k, v in letters.items()) + "].",
         "Definition ARC_BUILDER : list (ascii * ascii) := [" + "; ".join(f"({chr_(k)}, {chr_(v)})" for k, v in arcs.items()) + "].",
         f"Definition END_LETTER : ascii := {chr_(end_snippet)}.",
         "Definition builder_letter (name : ascii) : ascii := assoc_chr name (BUILDER ++ ARC_BUILDER) name.",
         "Definition b_cmd (N : NumOps) (name : ascii) (args : list (T N)) (p : list (ascii * list (T N))) := p ++ [(builder_letter name, args)].",
         "Definition b_arc (N : NumOps) (name : ascii) (rx ry x y large : T N) (p : list (ascii * list (T N))) :=",
         "  p ++ [(builder_letter name, [" + "; ".join(tm(a) for a in tmpl[1:]) + "])].",
         "Definition b_end {N : NumOps} (p : list (ascii * list (T N))) := p ++ [(END_LETTER, @nil (T N))].", ""]
    # ---- SVGRect.__post_init__
    rf = [f for f, _, _ in classes['SVGRect']]
    pi = meth('SVGRect', '__post_init__')
    if pi is None: raise Abort("SVGRect.__post_init__ missing")
    env = {f: f for f in rf}
    lines = tr.body(pi.body, env, [None], rf)
    L.append(f"Definition SVGRect_post_init (N : NumOps) ({' '.join(rf)} : T N) : list (T N) :=")
    L += ["  " + l for l in lines] + [f"  [{'; '.join(rf)}].", ""]
    # ---- as_path bodies (ellipse before circle: circle calls it)
    for cname in ('SVGEllipse', 'SVGCircle', 'SVGLine', 'SVGRect'):
        fs = [f for f, _, _ in classes[cname]]
        fn = meth(cname, 'as_path')
        if fn is None: raise Abort(f"{cname}.as_path missing")
        env = {f: f for f in fs}
        pv = [None]
        lines = tr.body(fn.body, env, pv, fs)
        if pv[0] is None: raise Abort(f"{cname}.as_path builds no path")
        rets = [s for s in fn.body if isinstance(s, ast.Return)]
        if len(rets) != 1 or ast.unparse(rets[0].value) != pv[0] or fn.body[-1] is not rets[0]: raise Abort(f"{cname}.as_path does not end in `return {pv[0]}`")
        L.append(f"Definition {cname}_as_path (N : NumOps) ({' '.join(fs)} : T N) : list (ascii * list (T N)) :=")
        L += ["  " + l for l in lines] + ["  p.", ""]
    # ---- polygon / polyline string wrappers
    for cname in ('SVGPolygon', 'SVGPolyline'):
        fn = meth(cname, 'as_path')
        consts, tests = [], []
        for nd in ast.walk(fn):
            if isinstance(nd, ast.Call) and ast.unparse(nd.func) == 'SVGPath' and nd.keywords:
                if [k.arg for k in nd.keywords] != ['d']: raise Abort(f"{cname}: SVGPath(...) keywords")
                e = nd.keywords[0].value
                parts = []
                def flat(x):
                    if isinstance(x, ast.BinOp) and isinstance(x.op, ast.Add): flat(x.left); flat(x.right)
                    else: parts.append(x)
                flat(e)
                consts = [p.value if isinstance(p, ast.Constant) else ('<points>' if ast.unparse(p) in ('self.points', 'points') else None) for p in parts]
                if None in consts: raise Abort(f"{cname}: unexpected d expression {ast.unparse(e)}")
            if isinstance(nd, ast.If): tests.append(ast.unparse(nd.test))
        if not consts or consts.count('<points>') != 1: raise Abort(f"{cname}: no SVGPath(d=... points ...)")
        if tests not in (['self.points'], ['points']): raise Abort(f"{cname}: unexpected guard {tests}")
        k = consts.index('<points>')
        L.append(f"Definition {cname}_prefix : string := {cstr(''.join(consts[:k]))}.")
        L.append(f"Definition {cname}_suffix : string := {cstr(''.join(consts[k + 1:]))}.")
    text = "\n".join(L) + "\n"
    if not os.path.exists(out_path) or open(out_path).read() != text:
        open(out_path, 'w').write(text)


if __name__ == '__main__':
    import sys
    try:
        generate(sys.argv[1], sys.argv[2])
    except Abort as e:
        print(f"TRANSLATOR-ABORT: {e}", file=sys.stderr); sys.exit(3)
    print(open(sys.argv[2]).read())
