"""Spec-side SVG renderer for the judges (C02, C03, C04, C05, C06, C14, C19): evaluates, at a sample
point, the composited colour the SVG 1.1 rendering model assigns to a document built from the
supported features.  Independent of picosvg (own XML walk, own cascade, own geometry).

A document becomes a layer tree:  Leaf(inside(pt)->True/False/None, paint(pt)->rgb, alpha) | Group(alpha, clip tests, children)
`None` from an inside test means "within the epsilon band of an edge": the sample point is skipped."""
import math, re
from lxml import etree

SVGNS = 'http://www.w3.org/2000/svg'
XLINK = 'http://www.w3.org/1999/xlink'
COLORS = {'black': (0, 0, 0), 'red': (255, 0, 0), 'blue': (0, 0, 255), 'green': (0, 128, 0), 'white': (255, 255, 255),
          'yellow': (255, 255, 0), 'purple': (128, 0, 128), 'lime': (0, 255, 0), 'gray': (128, 128, 128), 'orange': (255, 165, 0)}
INHERITED = ['fill', 'fill-rule', 'fill-opacity', 'stroke', 'stroke-width', 'stroke-linecap', 'stroke-linejoin', 'stroke-miterlimit',
             'stroke-dasharray', 'stroke-dashoffset', 'stroke-opacity', 'clip-rule']
DEFAULTS = {'fill': 'black', 'fill-rule': 'nonzero', 'fill-opacity': '1', 'stroke': 'none', 'stroke-width': '1', 'stroke-linecap': 'butt',
            'stroke-linejoin': 'miter', 'stroke-miterlimit': '4', 'stroke-dasharray': 'none', 'stroke-dashoffset': '0', 'stroke-opacity': '1',
            'clip-rule': 'nonzero'}

def local(tag):
    return tag.split('}')[1] if isinstance(tag, str) and '}' in tag else tag

# ---------------------------------------------------------------- affine
def mm(A, B):
    return (A[0]*B[0]+A[2]*B[1], A[1]*B[0]+A[3]*B[1], A[0]*B[2]+A[2]*B[3], A[1]*B[2]+A[3]*B[3],
            A[0]*B[4]+A[2]*B[5]+A[4], A[1]*B[4]+A[3]*B[5]+A[5])
IDENT = (1.0, 0.0, 0.0, 1.0, 0.0, 0.0)
def mapp(A, p): return (A[0]*p[0]+A[2]*p[1]+A[4], A[1]*p[0]+A[3]*p[1]+A[5])
def inv(A):
    det = A[0]*A[3]-A[1]*A[2]
    if abs(det) < 1e-300: return None
    a, b, c, d = A[3]/det, -A[1]/det, -A[2]/det, A[0]/det
    return (a, b, c, d, -a*A[4]-c*A[5], -b*A[4]-d*A[5])

def parse_transform(s):
    """SVG 1.1 transform list -> matrix (product in order)"""
    M = IDENT
    for m in re.finditer(r'(matrix|translate|scale|rotate|skewX|skewY)\s*\(([^)]*)\)', s or ''):
        a = [float(x) for x in re.split(r'[\s,]+', m.group(2).strip()) if x]
        op = m.group(1)
        if op == 'matrix': T = tuple(a)
        elif op == 'translate': T = (1, 0, 0, 1, a[0], a[1] if len(a) > 1 else 0)
        elif op == 'scale': T = (a[0], 0, 0, a[1] if len(a) > 1 else a[0], 0, 0)
        elif op == 'rotate':
            r = math.radians(a[0]); c, s_ = math.cos(r), math.sin(r)
            T = (c, s_, -s_, c, 0, 0)
            if len(a) == 3: T = mm(mm((1, 0, 0, 1, a[1], a[2]), T), (1, 0, 0, 1, -a[1], -a[2]))
        elif op == 'skewX': T = (1, 0, math.tan(math.radians(a[0])), 1, 0, 0)
        else: T = (1, math.tan(math.radians(a[0])), 0, 1, 0, 0)
        M = mm(M, T)
    return M

# ---------------------------------------------------------------- geometry: flatten to polylines
import pathsem
def flatten(cmds, n=24):
    """spec-side segments -> list of (points, closed) subpaths in local coordinates"""
    subs, cur = [], None
    for s in pathsem.interp(cmds):
        k = s[0]
        if k == 'move':
            if cur and len(cur[0]) > 0: subs.append(cur)
            cur = ([s[1]], False)
        elif cur is None: cur = ([(0.0, 0.0)], False)
        if k == 'line': cur[0].append(s[2])
        elif k == 'quad':
            p0, c, p1 = s[1], s[2], s[3]
            for i in range(1, n + 1):
                t = i / n; u = 1 - t
                cur[0].append((u*u*p0[0]+2*u*t*c[0]+t*t*p1[0], u*u*p0[1]+2*u*t*c[1]+t*t*p1[1]))
        elif k == 'cubic':
            p0, c1, c2, p1 = s[1:]
            for i in range(1, n + 1):
                t = i / n; u = 1 - t
                cur[0].append((u**3*p0[0]+3*u*u*t*c1[0]+3*u*t*t*c2[0]+t**3*p1[0], u**3*p0[1]+3*u*u*t*c1[1]+3*u*t*t*c2[1]+t**3*p1[1]))
        elif k == 'arc':
            cur[0].extend(arc_polyline(s, n))
        elif k == 'close':
            subs.append((cur[0], True)); cur = ([s[2]], False)
    if cur and len(cur[0]) > 1: subs.append(cur)
    return [(pts, closed) for pts, closed in subs if len(pts) > 1 or closed]

def arc_polyline(s, n):
    """points along an SVG elliptical arc (F.6.5 centre parametrisation), excluding the start point"""
    (x1, y1), rx, ry, phi_deg, fa, fs, (x2, y2) = s[1], abs(float(s[2])), abs(float(s[3])), float(s[4]), s[5], s[6], s[7]
    if (x1, y1) == (x2, y2): return []
    if rx == 0 or ry == 0: return [(x2, y2)]
    phi = math.radians(phi_deg); c, sn = math.cos(phi), math.sin(phi)
    dx, dy = (x1 - x2) / 2, (y1 - y2) / 2
    x1p, y1p = c*dx + sn*dy, -sn*dx + c*dy
    lam = x1p*x1p/(rx*rx) + y1p*y1p/(ry*ry)
    if lam > 1: rx *= math.sqrt(lam); ry *= math.sqrt(lam)
    num = rx*rx*ry*ry - rx*rx*y1p*y1p - ry*ry*x1p*x1p
    den = rx*rx*y1p*y1p + ry*ry*x1p*x1p
    co = math.sqrt(max(0.0, num/den)) * (-1 if bool(fa) == bool(fs) else 1)
    cxp, cyp = co*rx*y1p/ry, -co*ry*x1p/rx
    cx, cy = c*cxp - sn*cyp + (x1+x2)/2, sn*cxp + c*cyp + (y1+y2)/2
    th1 = math.atan2((y1p-cyp)/ry, (x1p-cxp)/rx)
    th2 = math.atan2((-y1p-cyp)/ry, (-x1p-cxp)/rx)
    dth = th2 - th1
    if not fs and dth > 0: dth -= 2*math.pi
    if fs and dth < 0: dth += 2*math.pi
    out = []
    m = max(n, int(abs(dth) / (math.pi / 2) * n) + 1)
    for i in range(1, m + 1):
        t = th1 + dth * i / m
        ex, ey = rx*math.cos(t), ry*math.sin(t)
        out.append((c*ex - sn*ey + cx, sn*ex + c*ey + cy))
    out[-1] = (x2, y2)
    return out

def shape_cmds(el):
    """basic shape -> path commands per SVG 1.1 §9 (floats)"""
    t = local(el.tag); g = lambda k, d=0.0: float(el.get(k, d))
    if t == 'path': return pathsem.parse_simple(el.get('d', '')) if simple_d(el.get('d', '')) else parse_full(el.get('d', ''))
    if t == 'rect':
        x, y, w, h = g('x'), g('y'), g('width'), g('height')
        rx, ry = el.get('rx'), el.get('ry')
        rx = float(rx) if rx is not None else None; ry = float(ry) if ry is not None else None
        if rx is None and ry is None: rx = ry = 0.0
        elif rx is None: rx = ry
        elif ry is None: ry = rx
        rx, ry = min(rx, w/2), min(ry, h/2)
        if w <= 0 or h <= 0: return []
        if rx <= 0 or ry <= 0: return [('M', [x, y]), ('L', [x+w, y]), ('L', [x+w, y+h]), ('L', [x, y+h]), ('Z', [])]
        return [('M', [x+rx, y]), ('L', [x+w-rx, y]), ('A', [rx, ry, 0, 0, 1, x+w, y+ry]), ('L', [x+w, y+h-ry]), ('A', [rx, ry, 0, 0, 1, x+w-rx, y+h]),
                ('L', [x+rx, y+h]), ('A', [rx, ry, 0, 0, 1, x, y+h-ry]), ('L', [x, y+ry]), ('A', [rx, ry, 0, 0, 1, x+rx, y]), ('Z', [])]
    if t in ('circle', 'ellipse'):
        cx, cy = g('cx'), g('cy')
        rx, ry = (g('r'), g('r')) if t == 'circle' else (g('rx'), g('ry'))
        if rx <= 0 or ry <= 0: return []
        return [('M', [cx+rx, cy]), ('A', [rx, ry, 0, 1, 1, cx-rx, cy]), ('A', [rx, ry, 0, 1, 1, cx+rx, cy]), ('Z', [])]
    if t == 'line': return [('M', [g('x1'), g('y1')]), ('L', [g('x2'), g('y2')])]
    if t in ('polygon', 'polyline'):
        pts = [float(v) for v in re.split(r'[\s,]+', el.get('points', '').strip()) if v]
        if len(pts) < 4: return []
        cmds = [('M', pts[0:2])] + [('L', pts[i:i+2]) for i in range(2, len(pts) - 1, 2)]
        if t == 'polygon': cmds.append(('Z', []))
        return cmds
    return []

def simple_d(d): return True
def parse_full(d): return pathsem.parse_simple(d)

# ---------------------------------------------------------------- point tests
def winding(subs, pt):
    x, y = pt; w = 0; mind2 = 1e300
    for pts, _closed in subs:
        n = len(pts)
        for i in range(n):
            (x1, y1), (x2, y2) = pts[i], pts[(i + 1) % n]
            dx, dy = x2 - x1, y2 - y1
            L = dx*dx + dy*dy
            t = 0.0 if L == 0 else max(0.0, min(1.0, ((x-x1)*dx + (y-y1)*dy) / L))
            d2 = (x - x1 - t*dx)**2 + (y - y1 - t*dy)**2
            if d2 < mind2: mind2 = d2
            cross = dx*(y - y1) - dy*(x - x1)
            if y1 <= y < y2 and cross > 0: w += 1
            elif y2 <= y < y1 and cross < 0: w -= 1
    return w, math.sqrt(mind2)

def dist_open(subs, pt):
    """distance from pt to the polylines as drawn (closing segment only for closed subpaths)"""
    x, y = pt; mind2 = 1e300
    for pts, closed in subs:
        n = len(pts)
        rng = range(n) if closed else range(n - 1)
        for i in rng:
            (x1, y1), (x2, y2) = pts[i], pts[(i + 1) % n]
            dx, dy = x2 - x1, y2 - y1
            L = dx*dx + dy*dy
            t = 0.0 if L == 0 else max(0.0, min(1.0, ((x-x1)*dx + (y-y1)*dy) / L))
            d2 = (x - x1 - t*dx)**2 + (y - y1 - t*dy)**2
            mind2 = min(mind2, d2)
    return math.sqrt(mind2)

class Leaf:
    def __init__(self, inside, paint, alpha, label=''):
        self.inside, self.paint, self.alpha, self.label = inside, paint, alpha, label
class Group:
    def __init__(self, alpha, clips, kids, label=''):
        self.alpha, self.clips, self.kids, self.label = alpha, clips, kids, label

def fill_test(subs, evenodd, eps):
    def f(pt):
        if not subs: return False
        w, d = winding(subs, pt)
        if d < eps: return None
        return (w % 2 != 0) if evenodd else (w != 0)
    return f

def parse_color(s, idmap=None, ctx=None):
    s = (s or '').strip()
    if s in COLORS: return lambda pt, c=COLORS[s]: c
    m = re.match(r'^#([0-9a-fA-F]{6})$', s)
    if m: c = tuple(int(m.group(1)[i:i+2], 16) for i in (0, 2, 4)); return lambda pt, c=c: c
    m = re.match(r'^#([0-9a-fA-F]{3})$', s)
    if m: c = tuple(int(ch*2, 16) for ch in m.group(1)); return lambda pt, c=c: c
    m = re.match(r'^url\(#([\w-]+)\)$', s)
    if m and idmap is not None and m.group(1) in idmap:
        import gradients
        return gradients.paint_fn(idmap[m.group(1)], idmap, ctx)
    return lambda pt: ('?', s)

# ---------------------------------------------------------------- document -> layers
class Renderer:
    def __init__(self, xml, eps):
        parser = etree.XMLParser(remove_comments=True)
        self.root = etree.fromstring(xml.encode() if isinstance(xml, str) else xml, parser)
        self.eps = eps
        self.ids = {}
        for el in self.root.iter():
            if isinstance(el.tag, str) and el.get('id'): self.ids.setdefault(el.get('id'), el)
        vb = self.root.get('viewBox')
        self.viewbox = [float(v) for v in re.split(r'[\s,]+', vb.strip())] if vb else None

    def props(self, el, inherited):
        own = dict(el.attrib)
        for decl in (own.pop('style', '') or '').split(';'):
            if ':' in decl:
                k, v = decl.split(':', 1); own[k.strip()] = v.strip()
        p = dict(inherited)
        for k in INHERITED:
            if k in own and own[k] != 'inherit': p[k] = own[k]
        return own, p

    def clip_tests(self, el, own, ctm, depth=0):
        """clip-path on this element -> list of tests (in device space), incl. the clipPath's own clip"""
        ref = own.get('clip-path')
        if not ref or ref == 'none' or depth > 8: return []
        m = re.match(r'^url\(#([\w-]+)\)$', ref.strip())
        if not m or m.group(1) not in self.ids: return [lambda pt: ('?', ref)]
        cp = self.ids[m.group(1)]
        cp_own, cp_props = self.props(cp, dict(DEFAULTS))
        cm = mm(ctm, parse_transform(cp.get('transform')))
        parts = []
        for ch in cp:
            if not isinstance(ch.tag, str): continue
            ch_own, ch_p = self.props(ch, cp_props)
            if ch_own.get('display') == 'none': continue
            target, tm = ch, mm(cm, parse_transform(ch.get('transform')))
            if local(ch.tag) == 'use':
                href = ch.get('{%s}href' % XLINK, ch.get('href', ''))
                if href[1:] not in self.ids: continue
                target = self.ids[href[1:]]
                tm = mm(mm(tm, (1, 0, 0, 1, float(ch.get('x', 0)), float(ch.get('y', 0)))), parse_transform(target.get('transform')))
                _, ch_p = self.props(target, ch_p)
            subs = [([mapp(tm, q) for q in pts], closed) for pts, closed in flatten(shape_cmds(target))]
            parts.append(fill_test(subs, ch_p.get('clip-rule', 'nonzero') == 'evenodd', self.eps))
        def union(pt, parts=parts):
            res = False
            for f in parts:
                r = f(pt)
                if r is None: return None
                res = res or r
            return res
        return [union] + self.clip_tests(cp, cp_own, cm, depth + 1)

    def build(self, el, inherited, ctm, depth=0):
        """-> list of layers for element el (in device space = root user space)"""
        if not isinstance(el.tag, str) or depth > 40: return []
        t = local(el.tag)
        ns = el.tag.split('}')[0][1:] if '}' in el.tag else SVGNS
        if ns != SVGNS: return []
        own, p = self.props(el, inherited)
        if own.get('display') == 'none': return []
        if t in ('defs', 'clipPath', 'linearGradient', 'radialGradient', 'symbol', 'title', 'desc', 'metadata', 'style', 'mask', 'pattern', 'marker'): return []
        alpha = max(0.0, min(1.0, float(own.get('opacity', 1))))
        m = mm(ctm, parse_transform(own.get('transform')))
        if t in ('g', 'svg', 'use', 'a', 'switch'):
            kids = []
            clips = self.clip_tests(el, own, m)
            if t == 'use':
                href = el.get('{%s}href' % XLINK, el.get('href', ''))
                tgt = self.ids.get(href[1:]) if href.startswith('#') else None
                if tgt is None: return []
                m2 = mm(m, (1, 0, 0, 1, float(own.get('x', 0)), float(own.get('y', 0))))
                kids = self.build(tgt, p, m2, depth + 1)
            elif t == 'svg' and el is not self.root:
                x, y = float(own.get('x', 0)), float(own.get('y', 0))
                pw, ph = self.parent_size(el)
                w, h = float(own.get('width', pw)), float(own.get('height', ph))
                vb = own.get('viewBox')
                m2 = mm(m, (1, 0, 0, 1, x, y))
                if vb:
                    bx, by, bw, bh = [float(v) for v in re.split(r'[\s,]+', vb.strip())]
                    m2 = mm(m, viewport_matrix((bx, by, bw, bh), (x, y, w, h), own.get('preserveAspectRatio', 'xMidYMid')))
                if own.get('overflow', 'hidden') != 'visible':
                    rect = [([mapp(m, q) for q in [(x, y), (x + w, y), (x + w, y + h), (x, y + h)]], True)]
                    clips = clips + [fill_test(rect, False, self.eps)]
                for ch in el: kids += self.build(ch, p, m2, depth + 1)
            else:
                for ch in el: kids += self.build(ch, p, m, depth + 1)
            return [Group(alpha, clips, kids, t)]
        if t in ('path', 'rect', 'circle', 'ellipse', 'line', 'polyline', 'polygon'):
            local_subs = flatten(shape_cmds(el))
            subs = [([mapp(m, q) for q in pts], closed) for pts, closed in local_subs]
            layers = []
            fo = float(p.get('fill-opacity', 1)); so = float(p.get('stroke-opacity', 1))
            # percentages of a userSpaceOnUse gradient refer to the nearest viewport: the closest ancestor <svg> of the shape
            nw, nh = self.parent_size(el)
            near_vb = [0.0, 0.0, nw, nh] if (nw or nh) else self.viewbox
            ctx = {'bbox': bbox_of(local_subs), 'ctm': m, 'viewbox': near_vb}
            if p.get('fill', 'black') != 'none':
                layers.append(Leaf(fill_test(subs, p.get('fill-rule') == 'evenodd', self.eps), parse_color(p['fill'], self.ids, ctx), max(0.0, min(1.0, fo)), 'fill'))
            if p.get('stroke', 'none') != 'none' and float(p.get('stroke-width', 1)) > 0:
                layers.append(Leaf(self.stroke_test(local_subs, m, p), parse_color(p['stroke'], self.ids, ctx), max(0.0, min(1.0, so)), 'stroke'))
            return [Group(alpha, self.clip_tests(el, own, m), layers, t)]
        return []

    def parent_size(self, el):
        par = el.getparent()
        while par is not None and local(par.tag) != 'svg': par = par.getparent()
        if par is None: return (0.0, 0.0)
        vb = par.get('viewBox')
        if vb:
            v = [float(x) for x in re.split(r'[\s,]+', vb.strip())]; return (v[2], v[3])
        return (float(par.get('width', 0)), float(par.get('height', 0)))

    def stroke_test(self, local_subs, m, p):
        if getattr(self, 'sharp_strokes', False): return sharp_stroke_test(local_subs, inv(m), p)
        w = float(p.get('stroke-width', 1)); miter = float(p.get('stroke-miterlimit', 4))
        minv = inv(m)
        dashed = p.get('stroke-dasharray', 'none') not in ('none', '')
        has_open = any(not closed for _, closed in local_subs)
        def f(pt):
            if minv is None: return False
            q = mapp(minv, pt)
            d = dist_open(local_subs, q)
            if dashed: return None if d < max(miter, 1.5) * w / 2 + 0.3 else False
            if d < 0.45 * w - 0.26:
                if has_open and any(math.hypot(q[0]-e[0], q[1]-e[1]) < w for pts, closed in local_subs if not closed for e in (pts[0], pts[-1])): return None
                return True
            if d > max(miter, 1.5) * w / 2 + 0.3: return False
            return None
        return f

    def layers(self):
        _, p = self.props(self.root, dict(DEFAULTS))
        own = dict(self.root.attrib)
        out = []
        alpha = max(0.0, min(1.0, float(own.get('opacity', 1)))) if 'opacity' in own else 1.0
        for ch in self.root: out += self.build(ch, p, IDENT, 1)
        return [Group(alpha, [], out, 'root')]

def bbox_of(subs):
    xs = [p[0] for pts, _ in subs for p in pts]; ys = [p[1] for pts, _ in subs for p in pts]
    if not xs: return (0.0, 0.0, 0.0, 0.0)
    return (min(xs), min(ys), max(xs) - min(xs), max(ys) - min(ys))

def viewport_matrix(vb, vp, par):
    bx, by, bw, bh = vb; x, y, w, h = vp
    if bw == 0 or bh == 0: return IDENT
    sx, sy = w / bw, h / bh
    parts = par.strip().split()
    align = parts[0] if parts else 'xMidYMid'; mos = parts[1] if len(parts) > 1 else 'meet'
    if align != 'none':
        s = max(sx, sy) if mos == 'slice' else min(sx, sy); sx = sy = s
    tx, ty = x - bx * sx, y - by * sy
    if align != 'none':
        if 'xMid' in align: tx += (w - bw * sx) / 2
        elif 'xMax' in align: tx += w - bw * sx
        if 'YMid' in align: ty += (h - bh * sy) / 2
        elif 'YMax' in align: ty += h - bh * sy
    return (sx, 0, 0, sy, tx, ty)

# ---------------------------------------------------------------- compositing
def composite(layers, pt):
    """premultiplied source-over of a layer list onto transparent; returns (r,g,b,a) or None (skip point)"""
    acc = (0.0, 0.0, 0.0, 0.0)
    for L in layers:
        if isinstance(L, Leaf):
            ins = L.inside(pt)
            if ins is None: return None
            if not ins or L.alpha == 0: continue
            c = L.paint(pt)
            if c is None: return None
            if c[0] == '?': return ('?',) + tuple(c[1:])
            al = L.alpha * (c[3] if len(c) > 3 else 1.0)
            src = (c[0] / 255 * al, c[1] / 255 * al, c[2] / 255 * al, al)
        else:
            ok = True
            for ct in L.clips:
                r = ct(pt)
                if r is None: return None
                if isinstance(r, tuple): return ('?', 'clip')
                if not r: ok = False; break
            if not ok: continue
            sub = composite(L.kids, pt)
            if sub is None: return None
            if sub and sub[0] == '?': return sub
            src = tuple(v * L.alpha for v in sub)
        acc = tuple(s + a * (1 - src[3]) for s, a in zip(src, acc))
    return acc

def on_pieces(pts, closed, dashes, offset):
    """the 'on' stretches of one subpath as (polyline, starts_at_subpath_start, ends_at_subpath_end); SVG semantics:
    an odd-length list is repeated, the pattern restarts at every subpath, a negative offset shifts forward"""
    seq = list(pts) + ([pts[0]] if closed else [])
    if not dashes or sum(dashes) <= 0 or any(d < 0 for d in dashes): return [(seq, True, True)]
    if len(dashes) % 2: dashes = dashes * 2
    period = sum(dashes)
    pos = offset % period             # position inside the pattern at arc length 0
    k = 0
    while pos >= dashes[k]: pos -= dashes[k]; k = (k + 1) % len(dashes)
    remaining = dashes[k] - pos; on = (k % 2 == 0)
    out, cur = [], ([seq[0]] if on else None)
    first_piece_from_start = on
    for a, b in zip(seq, seq[1:]):
        L = math.hypot(b[0] - a[0], b[1] - a[1]); t = 0.0
        while L - t > remaining + 1e-12:
            t += remaining
            q = (a[0] + (b[0] - a[0]) * t / L, a[1] + (b[1] - a[1]) * t / L)
            if on: cur.append(q); out.append((cur, first_piece_from_start and len(out) == 0, False)); cur = None
            else: cur = [q]
            k = (k + 1) % len(dashes); remaining = dashes[k]; on = not on
            if remaining == 0:
                # zero-length interval: toggles without advancing
                pass
        remaining -= (L - t)
        if on: cur.append(b)
    if on and cur is not None and len(cur) > 1: out.append((cur, first_piece_from_start and len(out) == 0, True))
    return out

def sharp_stroke_test(local_subs, minv, p):
    """three-valued membership in the ideal stroke region, evaluated in the shape's own user space:
    True  - the foot of the perpendicular lies inside an 'on' segment (away from its ends) at distance < w/2 - margin;
    False - farther from every 'on' stretch than the cap/join/miter bound + margin;
    None  - anything else (caps, joins, dash ends, the stroker's resolution band)."""
    w = float(p.get('stroke-width', 1)); miter = float(p.get('stroke-miterlimit', 4))
    cap = p.get('stroke-linecap', 'butt'); join = p.get('stroke-linejoin', 'miter')
    da = p.get('stroke-dasharray', 'none')
    dashes = [float(v) for v in re.split(r'[\s,]+', da.strip()) if v] if da not in ('none', '') else []
    off = float(p.get('stroke-dashoffset', 0) or 0)
    pieces = []
    for pts, closed in local_subs:
        if len(pts) < 2: continue
        pieces += [pc[0] for pc in on_pieces(pts, closed, dashes, off)]
    margin = 0.3
    reach = w / 2 * max(1.0, miter if join == 'miter' else 1.0, math.sqrt(2) if cap == 'square' else 1.0)
    def f(pt):
        if minv is None: return False
        x, y = mapp(minv, pt)
        best = 1e300; inside = False
        for poly in pieces:
            for (x1, y1), (x2, y2) in zip(poly, poly[1:]):
                dx, dy = x2 - x1, y2 - y1
                L2 = dx * dx + dy * dy
                if L2 == 0:
                    best = min(best, math.hypot(x - x1, y - y1)); continue
                t = ((x - x1) * dx + (y - y1) * dy) / L2
                tc = max(0.0, min(1.0, t))
                d = math.hypot(x - x1 - tc * dx, y - y1 - tc * dy)
                best = min(best, d)
                L = math.sqrt(L2)
                if margin / L < t < 1 - margin / L and d < w / 2 - margin: inside = True
        if inside: return True
        if best > reach + margin: return False
        return None
    return f

def compare_documents(src_xml, out_xml, extent, n=17, tol=2e-3, eps_frac=0.004, sharp_strokes=False):
    """returns None when both documents composite to the same colour at every usable sample point,
    else (point, colour_src, colour_out).  extent = (x, y, w, h) region to sample."""
    x0, y0, w, h = extent
    eps = eps_frac * max(w, h)
    RA = Renderer(src_xml, eps); RA.sharp_strokes = sharp_strokes
    A = RA.layers(); B = Renderer(out_xml, eps).layers()
    used = 0
    for i in range(n):
        for j in range(n):
            pt = (x0 + w * (i + 0.37) / n, y0 + h * (j + 0.61) / n)
            ca, cb = composite(A, pt), composite(B, pt)
            if ca is None or cb is None: continue
            if (ca and ca[0] == '?') or (cb and cb[0] == '?'): continue
            used += 1
            if max(abs(a - b) for a, b in zip(ca, cb)) > tol:
                return (pt, ca, cb, used)
    return None if used else ('no usable sample point',)
