"""Spec-side checker of the README picosvg grammar + the attribute-level conditions of property C01,
and of the reference-graph conditions of C08.  Independent of picosvg (own XML walk)."""
import re
from lxml import etree
SVGNS = 'http://www.w3.org/2000/svg'
XLINK = 'http://www.w3.org/1999/xlink'
INHERITABLE_ON_ROOT = {'clip-path', 'clip-rule', 'color', 'display', 'fill', 'fill-opacity', 'fill-rule', 'opacity', 'overflow', 'stroke',
                       'stroke-dasharray', 'stroke-dashoffset', 'stroke-linecap', 'stroke-linejoin', 'stroke-miterlimit', 'stroke-opacity',
                       'stroke-width', 'style', 'transform'}
NUM = r'-?(?:\d+)(?:\.\d+)?(?:e[-+]?\d+)?'

def lname(el): return etree.QName(el).localname
def ns(el): return etree.QName(el).namespace

def check_pico(xml, ndigits=3, allow_text=False):
    """returns a list of violations (empty = conforms)"""
    out = []
    parser = etree.XMLParser(remove_comments=False)
    root = etree.fromstring(xml.encode() if isinstance(xml, str) else xml, parser)
    for n in root.iter():
        if n.tag is etree.Comment: out.append('comment survives')
        elif n.tag is etree.ProcessingInstruction: out.append('processing instruction survives')
        elif isinstance(n.tag, str):
            if ns(n) != SVGNS: out.append(f'foreign-namespace element {n.tag}')
            for a in n.attrib:
                if a.startswith('{'):
                    out.append(f'namespaced attribute {a} on {lname(n)}')
    if lname(root) != 'svg': out.append('root is not svg')
    for a in root.attrib:
        if a in INHERITABLE_ON_ROOT: out.append(f'inheritable presentation attribute {a} on the root')
    kids = [k for k in root if isinstance(k.tag, str)]
    if not kids or lname(kids[0]) != 'defs': out.append('first child of the root is not defs')
    if sum(1 for k in root.iter() if isinstance(k.tag, str) and lname(k) == 'defs') != 1: out.append('not exactly one defs')
    if kids and lname(kids[0]) == 'defs':
        for g in kids[0]:
            if not isinstance(g.tag, str): continue
            if lname(g) not in ('linearGradient', 'radialGradient'): out.append(f'defs holds a {lname(g)}'); continue
            if not g.get('id'): out.append('gradient without id')
            for a, v in g.attrib.items():
                if a in ('id', 'gradientUnits', 'spreadMethod'): continue
                if a == 'gradientTransform':
                    if not re.match(r'^(matrix\((' + NUM + r')( ' + NUM + r'){5}\)|translate\(' + NUM + ', ' + NUM + r'\))$', v): out.append(f'gradientTransform not plain: {v}')
                    continue
                if 'href' in a: out.append('gradient with href'); continue
                if a in ('x1', 'y1', 'x2', 'y2', 'cx', 'cy', 'r', 'fx', 'fy', 'fr'):
                    if not re.match('^' + NUM + '$', v): out.append(f'gradient coordinate {a}={v!r} is not a plain number')
                else: out.append(f'unexpected gradient attribute {a}')
            stops = [s for s in g if isinstance(s.tag, str)]
            if not stops: out.append(f'gradient {g.get("id")} has no stops')
            for s in stops:
                if lname(s) != 'stop': out.append(f'gradient child {lname(s)}')
    def walk(el, top):
        t = lname(el)
        if t == 'g':
            real = [k for k in el if isinstance(k.tag, str)]
            if len(real) < 2: out.append(f'g with {len(real)} children')
            if set(el.attrib) != {'opacity'}: out.append(f'g carries {sorted(el.attrib)} instead of exactly opacity')
            else:
                try:
                    o = float(el.get('opacity'))
                    if not (0 < o < 1): out.append(f'g opacity {o} not strictly between 0 and 1')
                except ValueError: out.append('g opacity not a number')
            for k in real: walk(k, False)
        elif t == 'path':
            for a in el.attrib:
                if a not in ('id', 'd', 'fill', 'opacity', 'fill-opacity'): out.append(f'path attribute {a}')
            if el.get('fill-rule') == 'evenodd': out.append('evenodd path')
            if len([k for k in el if isinstance(k.tag, str)]): out.append('path with children')
            out.extend(check_d(el.get('d', ''), ndigits))
        elif allow_text and t in ('text', 'tspan', 'textPath'):
            pass
        else:
            out.append(f'element {t} after defs')
    for k in kids[1:]: walk(k, True)
    return out

def check_d(d, ndigits):
    out = []
    toks = re.findall(r'[A-Za-z]|' + r'[-+]?(?:\d+\.?\d*|\.\d+)(?:[eE][-+]?\d+)?', d)
    rest = re.sub(r'[A-Za-z]|' + r'[-+]?(?:\d+\.?\d*|\.\d+)(?:[eE][-+]?\d+)?', '', d)
    if rest.strip(' ,'): out.append(f'junk in path data: {rest.strip()[:20]!r}')
    for t in toks:
        if t.isalpha():
            if t not in 'MLCQAZ': out.append(f'path command {t}')
        else:
            from decimal import Decimal
            if Decimal(t).scaleb(ndigits) != Decimal(t).scaleb(ndigits).to_integral_value(): out.append(f'number {t} has more than {ndigits} decimals')
    return out

def check_refs(xml):
    """C08: unique ids, every paint url resolves to a gradient in defs, every gradient is used"""
    out = []
    root = etree.fromstring(xml.encode() if isinstance(xml, str) else xml)
    ids = {}
    for n in root.iter():
        if isinstance(n.tag, str) and n.get('id') is not None:
            if n.get('id') in ids: out.append(f'duplicate id {n.get("id")}')
            ids[n.get('id')] = n
    used = set()
    for n in root.iter():
        if not isinstance(n.tag, str): continue
        for a, v in n.attrib.items():
            for m in re.finditer(r'url\(#([^)]+)\)', v):
                used.add(m.group(1))
                tgt = ids.get(m.group(1))
                if tgt is None: out.append(f'dangling reference {v} on {lname(n)}')
                elif lname(tgt) not in ('linearGradient', 'radialGradient'): out.append(f'{v} points at a {lname(tgt)}')
                elif lname(tgt.getparent()) != 'defs': out.append(f'{v} points at a gradient outside defs')
            if 'href' in a: out.append(f'href attribute survives on {lname(n)}')
    for i, n in ids.items():
        if lname(n) in ('linearGradient', 'radialGradient') and i not in used: out.append(f'unused gradient {i}')
    return out
