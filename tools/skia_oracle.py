"""Answers the model's Skia questions by calling skia-pathops DIRECTLY (never through picosvg):
the extracted model and the implementation then run against the same real engine."""
from fractions import Fraction
import pathops

_FN = {'M': 'moveTo', 'L': 'lineTo', 'Q': 'quadTo', 'C': 'cubicTo', 'Z': 'close'}
_VERB = {pathops.PathVerb.MOVE: 'M', pathops.PathVerb.LINE: 'L', pathops.PathVerb.QUAD: 'Q',
         pathops.PathVerb.CUBIC: 'C', pathops.PathVerb.CLOSE: 'Z'}
_OPS = {'union': pathops.PathOp.UNION, 'intersection': pathops.PathOp.INTERSECTION, 'difference': pathops.PathOp.DIFFERENCE}
_CAP = {'butt': pathops.LineCap.BUTT_CAP, 'round': pathops.LineCap.ROUND_CAP, 'square': pathops.LineCap.SQUARE_CAP}
_JOIN = {'miter': pathops.LineJoin.MITER_JOIN, 'round': pathops.LineJoin.ROUND_JOIN, 'bevel': pathops.LineJoin.BEVEL_JOIN}

def to_skia(cmds, evenodd):
    p = pathops.Path(fillType=pathops.FillType.EVEN_ODD if evenodd else pathops.FillType.WINDING)
    for c, a in cmds:
        getattr(p, _FN[c])(*[float(x) for x in a])
    return p

def from_skia(p):
    out = []
    for verb, pts in p:
        if verb not in _VERB: return None
        out.append([_VERB[verb], [Fraction(c) for pt in pts for c in pt]])
    return out

def skia_oracle(name, arg):
    try:
        if name == 'sk_op':
            op, c1, e1, c2, e2 = arg
            r = pathops.op(to_skia(c1, e1), to_skia(c2, e2), _OPS[op], fix_winding=True)
            return ['ok', from_skia(r)]
        if name == 'sk_simplify':
            p = to_skia(arg[0], arg[1]); p.simplify(fix_winding=True)
            return ['ok', from_skia(p)]
        if name == 'sk_transform':
            p = to_skia(arg[0], False).transform(*[float(v) for v in arg[1]])
            return ['ok', from_skia(p)]
        if name == 'sk_stroke_raw':
            cmds, cap, join, width, miter, tol, dashes, offset = arg
            p = to_skia(cmds, False)
            p.stroke(float(width), _CAP[cap], _JOIN[join], float(miter), [float(d) for d in dashes], float(offset))
            p.convertConicsToQuads(float(tol))
            return ['ok', from_skia(p)]
        if name == 'sk_bounds':
            return ['ok', [Fraction(v) for v in to_skia(arg, False).bounds]]
        if name == 'sk_area':
            return ['ok', Fraction(to_skia(arg[0], arg[1]).area)]
    except pathops.PathOpsError:
        return ['err', 'PathOpsError']
    return None
