#!/usr/bin/env python3
"""tools/seeded_eval.py <ID> <N> [src_dir] — confirm and evaluate one seeded defect.
Copies <src_dir> (default /tmp/wt/<ID>/seeded/<N>) to /verif/seeded/<ID>-<N>/, then on /repo:
applies the patch, runs the test suite, the demo and ./check <ID>, reverts, runs the demo again.
Writes result.json next to the patch.  /repo is always restored."""
import json, os, re, shutil, subprocess, sys
pid, n = sys.argv[1], sys.argv[2]
src = sys.argv[3] if len(sys.argv) > 3 else f'/tmp/wt/{pid}/seeded/{n}'
dst = f'/verif/seeded/{pid}-{n}'
if os.path.abspath(src) != os.path.abspath(dst):
    os.makedirs(dst, exist_ok=True)
    for f in ('patch.diff', 'demo.py', 'meta.json'):
        if os.path.exists(os.path.join(src, f)): shutil.copy(os.path.join(src, f), os.path.join(dst, f))
def sh(cmd, timeout=3000, env=None):
    p = subprocess.run(cmd, shell=True, capture_output=True, text=True, timeout=timeout, env=env)
    return p.returncode, (p.stdout + p.stderr)
res = {'property': pid, 'n': n}
assert sh('git -C /repo status --porcelain')[1].strip() == '', '/repo is not clean'
env = dict(os.environ, PYTHONPATH='/repo/src', PYTHONHASHSEED='0')
try:
    rc, out = sh(f'git -C /repo apply {dst}/patch.diff')
    res['applies'] = rc == 0
    if rc == 0:
        rc, out = sh('cd /repo && /venv/bin/python -m pytest -q -p no:cacheprovider --timeout=900 2>&1 | tail -8', env=env)
        m = re.search(r'(\d+) failed, (\d+) passed', out)
        res['tests'] = m.group(0) if m else out[-200:]
        res['tests_at_baseline'] = bool(m and m.group(1) == '5' and m.group(2) == '356')
        rc, out = sh(f'cd /repo && timeout 600 /venv/bin/python {dst}/demo.py', env=env)
        res['demo_exit_changed'] = rc
        extra = sys.argv[4:] if len(sys.argv) > 4 else []
        checks = [pid] + extra
        res['checks'] = {}
        for c in checks:
            rc, out = sh(f'cd /verif && timeout 3000 ./check {c} 2>&1 | tail -4')
            lines = [l for l in out.splitlines() if l.startswith('VIOLATION') or l.startswith('[')]
            res['checks'][c] = {'rc_line': lines[-1] if lines else out[-200:], 'violation': [l for l in lines if l.startswith('VIOLATION')],
                                'caught': any(l.startswith('VIOLATION') for l in lines), 'failing_input_found': any(l.startswith('VIOLATION') and 'no-failing-input-found' not in l for l in lines)}
            shutil.rmtree(f'/verif/replays/{c}', ignore_errors=True)
finally:
    sh('git -C /repo checkout -- .')
rc, out = sh(f'cd /repo && timeout 600 /venv/bin/python {dst}/demo.py', env=env)
res['demo_exit_unchanged'] = rc
res['confirmed'] = bool(res.get('applies') and res.get('tests_at_baseline') and res.get('demo_exit_changed') == 1 and res.get('demo_exit_unchanged') == 0)
json.dump(res, open(f'{dst}/result.json', 'w'), indent=1)
print(json.dumps(res))
