#!/usr/bin/env python3
"""Regenerate coq gen/*.v from the current /repo sources (translator tie (T)).

usage: gen_models.py <repo_src_dir> <out_dir>
Exit status 0 on success; 3 when a construct outside the translator's grammar
is met ("model cannot be regenerated"), with the reason on stderr.
"""
import os, sys, json
sys.path.insert(0, os.path.dirname(__file__))
from translate import Translator, Module, Abort, write_module


def build(src, out):
    tr = Translator(src)
    P = lambda n: os.path.join(src, 'picosvg', n + '.py')

    # ------------------------------------------------------------ geometric_types
    geom = Module(tr, 'geometric_types', P('geometric_types'), 'G_geom', [])
    for r in ('Point', 'Vector', 'Rect'):
        tr.add_record(geom, r)
    D = lambda *a, **k: tr.declare(geom, *a, **k)
    D('almost_equal', {'c1': 'num', 'c2': 'num', 'tolerance': 'num', 'return': 'bool'})
    D('Point._sub_pt'); D('Point._sub_vec')
    D('Point.__add__', {'return': 'Point'})
    D('Point.round', {'digits': 'int'})
    D('Point.almost_equals', {'tolerance': 'num'})
    D('Vector.__add__'); D('Vector.__sub__')
    D('Vector.__mul__', {'return': 'Vector'})
    D('Vector.perpendicular')
    D('Vector.dot')
    D('Vector.almost_equals', {'tolerance': 'num'})
    D('Rect.empty')
    D('Rect.x_max'); D('Rect.y_max')
    D('Rect.union')
    for f in list(tr.funcs.values()):
        if f.mod is geom: tr.emit(f)
    # Vector.__mul__ has an isinstance guard; Vector.norm uses math.sqrt; both handled below

    # ------------------------------------------------------------ svg_transform
    xf = Module(tr, 'svg_transform', P('svg_transform'), 'G_transform', [geom])
    tr.add_record(xf, 'Affine2D')
    D = lambda *a, **k: tr.declare(xf, *a, **k)
    D('Affine2D.identity', {'return': 'Affine2D'})
    D('Affine2D.degenerate', {'return': 'Affine2D'})
    D('Affine2D.flip_y', {'return': 'Affine2D'})
    D('Affine2D.__matmul__')
    N6 = {k: 'num' for k in 'abcdef'}
    D('Affine2D.matrix', {**N6, 'return': 'Affine2D'})
    D('Affine2D.translate', {'tx': 'num', 'ty': 'num', 'return': 'Affine2D'})
    D('Affine2D.gettranslate')
    D('Affine2D.getscale')
    D('Affine2D.scale', {'sx': 'num', 'sy': '?num', 'return': 'Affine2D'})
    D('Affine2D.rotate', {'a': 'num', 'cx': 'num', 'cy': 'num', 'return': 'Affine2D'})
    D('Affine2D.skewx', {'a': 'num', 'return': 'Affine2D'})
    D('Affine2D.skewy', {'a': 'num', 'return': 'Affine2D'})
    D('Affine2D.skew', {'xAngle': 'num', 'yAngle': 'num', 'return': 'Affine2D'})
    D('Affine2D.determinant')
    D('Affine2D.is_degenerate')
    D('Affine2D.inverse', {'return': 'Affine2D'})
    D('Affine2D.map_point', {'pt': 'Point'})
    D('Affine2D.map_vector', {'vec': 'Vector'})
    D('Affine2D.compose_ltr', {'affines': '[Affine2D]', 'return': 'Affine2D'})
    D('Affine2D.round', {'digits': 'int', 'return': 'Affine2D'})
    D('Affine2D.rect_to_rect', {'src': 'Rect', 'dst': 'Rect', 'preserveAspectRatio': 'str', 'return': 'Affine2D'}, raises=True)
    D('Affine2D.almost_equals', {'tolerance': 'num', 'return': 'bool'})
    D('Affine2D.decompose_scale', {'return': '(Affine2D,Affine2D)'}, raises=True)
    D('Affine2D.decompose_translation', {'return': '(Affine2D,Affine2D)'}, raises=True)
    for f in list(tr.funcs.values()):
        if f.mod is xf: tr.emit(f)

    # ------------------------------------------------------------ arc_to_cubic
    arc = Module(tr, 'arc_to_cubic', P('arc_to_cubic'), 'G_arc', [geom, xf])
    tr.add_record(arc, 'CenterParametrization')
    tr.add_record(arc, 'EllipticalArc')
    D = lambda *a, **k: tr.declare(arc, *a, **k)
    D('EllipticalArc.is_straight_line')
    D('EllipticalArc.is_zero_length', {'return': 'bool'})
    D('EllipticalArc.correct_out_of_range_radii', {'return': 'EllipticalArc'})
    D('EllipticalArc.end_to_center_parametrization', raises=True)
    D('_arc_to_cubic', {'arc': 'EllipticalArc', 'return': '[(Point,Point,Point)]'}, gen=True, raises=True)
    for f in list(tr.funcs.values()):
        if f.mod is arc: tr.emit(f)

    os.makedirs(out, exist_ok=True)
    done = []
    for m in (geom, xf, arc):
        write_module(m, out, done)
        done.append(m.coqfile)
    return done


if __name__ == '__main__':
    src, out = sys.argv[1], sys.argv[2]
    try:
        mods = build(src, out)
    except Abort as e:
        print(f"TRANSLATOR-ABORT: {e}", file=sys.stderr)
        sys.exit(3)
    print(" ".join(mods))
