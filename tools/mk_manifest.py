#!/usr/bin/env python3
"""Regenerates /verif/MANIFEST.json from the table below (kept in one place so it stays valid)."""
import json, os
V = '/verif'
BASE = json.load(open('/root/.vp/BASELINE.json'))['cmd'].replace('<file>', '/tmp/picosvg_baseline.junit.xml')

CLAIMED = {
 'C11': dict(engine='E1', technique='Coq proof over R of definitions regenerated from svg_transform.py by a Python-ast translator; Fraction-exact differential run of the extracted model',
             text='Theorems (Coq, over the reals) about the definitions the translator regenerates from svg_transform.py/geometric_types.py on every run: matrix product is map composition, compose_ltr applies the first transform first for lists of any length, primitive ops are the SVG matrices, inverse undoes every non-degenerate matrix, viewport mapping and decompositions. Any semantic edit changes the generated definitions and breaks a proof; a spec-judged small-scope search then produces the failing input.',
             note='Floats modelled as exact reals (IEEE rounding not modelled); stdlib real-number axioms; translator, extraction and the line-protocol driver are trusted glue validated by exact Fraction correspondence on every run.',
             design='§12.2, §7 C11'),
}
CLAIMED['C12'] = dict(engine='E4', technique='Coq proof over R (closed-form Bezier error identity + interval bounds) of definitions regenerated from arc_to_cubic.py; differential run of the extracted model with CPython math as oracle; spec-side (SVG F.6) judge for the search',
    text='Partial proof. Proved for all arcs about the regenerated code: output shape and segment count, per-segment angle <= pi/2+0.001, the closed-form radial error 16 s^2(1-s)^2(2s-1)^2 u^6/(1+u^2)^2 and hence every cubic point within 0.03% outside the corrected ellipse, continuity, exact final end point, radius correction incl. negative radii, degenerate cases. Not proved: that the centre parametrisation realises the flags and puts the first start on the arc start (covered by the differential run and the spec judge).',
    note='Reals for floats; math.* denote Coq Reals functions (base/Num.v RMath); Coq-Interval used for two numeric bounds; translator + extraction + driver trusted glue; float rounding of the implementation observed (<=2e-6 relative in the sqrt-amplified regime), not bounded.',
    design='§12.2, §7 C12')
CLAIMED['C09'] = dict(engine='E3', technique='Coq proof: generic simulation theorem between the walk state machine (callbacks regenerated from svg_types.py) and an SVG path interpreter written from the standard, instantiated per rewrite by 20-letter case analysis; exhaustive small-scope + random differential run; spec judge',
    text='Partial proof. For command lists of any length: the walk bookkeeping equals the standard current-point rules; explicit_lines, expand_shorthand, absolute, absolute_moveto, relative and move preserve (or shift) the interpreted segment list exactly; target forms; rounding bound. The rewrites compose (as_cmd_seq on arc-free paths). The absolute/relative theorems assume no 1e-9 near miss of the subpath start; when the snap fires, the moved segment (absolute or relative, all 18 drawing letters) is proved to end exactly on the subpath start with its other arguments unchanged, and the resulting drift is judged on near-closing inputs. subpaths(), arcs in as_cmd_seq, basic-shape outlines are covered by the exhaustive correspondence (all sequences of <=2/3 commands over 20 letters) and the spec judge run on every check.',
    note='Reals for floats; model/Walk.v (walk loop) hand-written and correspondence-checked; spec/PathSem.v is the meaning of path data; one known finding (arcs_to_cubics API followed by shorthand).',
    design='§12.2, §7 C09')
CLAIMED['C10'] = dict(engine='E2', technique='Coq model of the regex tokenizer pinned (by provable string equalities) to the regexes regenerated from source, SVG 1.1 grammar as an executable Coq spec; exhaustive-string differential run (all strings <=5/6 chars over a 14-symbol alphabet + token sequences) and grammar judge',
    text='Partial. Machine-checked: the tokenizer model is pinned to the exact regular expressions / lexer tables of the current source (any edit breaks an obligation), totality (command list or ValueError), agreement with the grammar on an adversarial table, and the print/parse round trip: for every exploded command list whose numbers print to lexemes the scanners read back completely (checked for every number the run prints), parsing the printed path returns exactly the list. Soundness against the grammar for all strings is not yet a theorem: it is decided on every run by the exhaustive correspondence (implementation = model on 6*10^5 strings) and the grammar judge evaluated on the implementation.',
    note='Hand model (H) of regex semantics; CPython float()/repr() trusted; ASCII only; one fix commit (leading zeros).',
    design='§12.2, §7 C10')
CLAIMED['C15'] = dict(engine='E6', technique='Coq: static analysis of cache-bookkeeping skeletons (extracted from svg.py on every run) proved sound for every interpretation satisfying the two flush/populate laws; table check by vm_compute; history differential (all histories <=2/3 steps x corpus) against the re-parse reference',
    text='Proof for histories of any length over the methods whose regenerated skeleton passes the verified analysis (all public methods except apply_style_attributes, a recorded finding): lazily cached run = re-parse-between-steps run; copies leave the receiver unchanged; in-place bodies return the receiver (syntactic check of every return). The primitives (what an edit or mutation does, the two conversion laws) are abstract and exercised by the history differential.',
    note='Skeleton extractor (tools/skeletons.py) trusted and fail-closed; laws populate(flush t c)=c and flush(flush t c)c\'=flush t c\' assumed of the dataclass<->element conversion; lxml round trip trusted. Axiom-free.',
    design='§12.2, §7 C15')
CLAIMED['C13'] = dict(engine='E5', technique='Coq proof relative to an explicit engine contract (Section hypotheses) about a hand model of svg_pathops.py; model runs the real Skia through an oracle in the differential run (identical outputs required); contract sampled with exact rational winding numbers',
    text='Proved for operand lists of any length, relative to the stated contract of pathops.op / simplify: the wrappers return the fold of the set operation over the operands each under its own fill rule, rule-independent result, errors propagate (no wrong path on engine failure), stroke fallback keeps the interior, only M L Q C Z reach the engine. That Skia satisfies the contract is NOT proved: it is sampled on every run on lattice polygons with exact winding numbers outside the epsilon band.',
    note='Engine contract assumed (hypotheses op_contract, simplify_contract in props/C13.v); hand model of the wrappers validated by oracle-in-the-loop correspondence (same engine, identical commands).',
    design='§12.2, §7 C13')
CLAIMED['C18'] = dict(engine='E5', technique='Coq proof of the might_paint decision ladder relative to the engine contract for area/simplify; hand model run with the real Skia in the loop; exact-polygon judge for verdicts and subpath pruning',
    text='Proved (relative to the stated contract: simplify preserves the interior, a path without positive area encloses nothing, pen moves paint nothing): might_paint = False implies no fill and no stroke paint anywhere, after style declarations are applied; a visible stroke of non-zero width, a visible fill with positive area, and any engine failure give True; removing unpainted shapes leaves the painted point set of any shape list unchanged. remove_empty_subpaths is decided by the differential run and the exact-polygon judge.',
    note='Engine contract assumed and sampled; Shape.v is a hand model (typed fields, style as parsed declarations) validated by 1500+/30000 oracle-in-the-loop cases; one fix commit (subpath pruning of stroked paths).',
    design='§12.2, §7 C18')
CLAIMED['C19'] = dict(engine='E1/E5', technique='Coq proof over R of Rect.intersection/union regenerated from source; clip theorems relative to the engine contract; oracle-in-the-loop differential run on picosvg documents; exact-polygon and closed-form-extrema judges',
    text='Proved: Rect.intersection returns the overlap exactly when it has positive area (else None), Rect.union is the least box; relative to the engine contract a dropped shape had nothing inside the viewBox and a kept shape is either untouched (entirely inside) or its interior is exactly subject /\\ viewBox /\\ bounds with paint, opacity and id kept and rule reset to nonzero. Tightness of Skia bounds, paint order and the group cleanup are decided by the differential run (identical outputs with the same engine) and the sample-point judge.',
    note='Engine contract assumed (ops, bounds contain interior, rectangle path encloses the open rectangle); Clip.v hand model validated on documents with shapes inside/outside/across every side and corner.',
    design='§12.2, §7 C19')
CLAIMED['C20'] = dict(engine='E6', technique='Coq proof, for arbitrary candidate generators, that every exit of the reuse search is guarded by the verification step (incl. the rounding search); hand model with candidates as coded checked against the implementation; spec-side outline judge',
    text='Partial. Proved: any Some(A) returned is the identity for almost-equal shapes or has passed _try_affine, i.e. the transformed first outline agrees with the second command for command within the tolerance (almost_equals characterised as letter/arity/argument-wise closeness); identical shapes give the identity; nothing is reported when no matrix verifies. The geometric reading of apply_affine and "an exact translation is always found" are judged on the implementation on every run.',
    note='Reuse.v is a hand model (arc-free paths) validated against the implementation incl. candidate matrices; atan2/sqrt from CPython in the differential run.',
    design='§12.2, §7 C20')
CLAIMED['C05'] = dict(engine='E5', technique='Coq: compositing algebra for group flattening and the inheritance loop over the regenerated handler table; hand model of the inheritance helpers checked against the implementation helpers; end-to-end spec-side renderer judge on every run',
    text='Partial. Proved: source-over algebra (associativity; opaque / transparent / single-child groups flatten with the opacity multiplied in; a translucent group with overlapping children must be kept — counterexample), and for the model of _inherit_attrib that each handler touches only its attribute and copied properties resolve to the own value else the context (nearest ancestor); writing a cached shape back and reading it in the same context is the identity while in another context an omitted own value is replaced, and the regenerated skeleton of topicosvg performs no write-back before use is instantiated (fix c7cbe43). Not a theorem: that the whole pipeline realises this for every document — decided on every run by rendering source and converted documents with an independent spec-side renderer at sample points. Two recorded findings (root opacity, unclamped out-of-range shape opacity).',
    note='Inherit.v hand model validated on 1500/30000 random attribute maps against the real helpers; dyadic opacities; renderer is trusted spec-side code.',
    design='§12.2, §7 C05')
CLAIMED['C02'] = dict(engine='E5', technique='Coq proof over R of transform accumulation along ancestor chains of any depth, use and nested-svg transforms (arithmetic regenerated from source); exact differential run of depth_first contexts / resolve_use / resolve_nested_svgs; end-to-end spec-side renderer judge',
    text='Partial. Proved for trees of any depth: the context transform maps through own transform first, ancestors after (parent last); use = translate(x,y) then its transform; nested svg = viewport transform then own transform. Not a theorem: z-order preservation, shape-to-path (C09 judge) and the whole pipeline — decided on every run by rendering source and converted documents (structural grammar incl. rotate/skew, nested use, all alignments) with the independent renderer. One fix commit (viewBox equal to viewport).',
    note='Structure.v hand model validated exactly against depth_first()/resolve_use()/resolve_nested_svgs(); renderer trusted spec-side code; Skia applies the matrices (engine contract).',
    design='§12.2, §7 C02')
CLAIMED['C03'] = dict(engine='E5', technique='Coq proof relative to the engine contract of a hand model of _resolve_clip_path (fuel-indexed recursion over clipPath chains) and of the clipping step; oracle-in-the-loop differential run; spec-side renderer judge on documents with stacked / chained / use clips',
    text='Partial. Proved relative to the contract (ops, simplify, transform, C09 normal form): the resolved clip is the union of the children under their effective clip-rule placed by child.tf . clipPath.tf . referrer CTM, intersected with the clipPath\'s own clip for chains of any length; a clipped leaf is its fill region (fill-rule) inside every clip (nonzero results). Which clips reach which leaf (ancestor stacking, use) and absence of clip-path in the output are decided on every run by the renderer judge. One fix commit (clip-rule inherited from the clipPath element); one recorded finding (clip-path on use).',
    note='Engine contract assumed; Clips.v hand model validated with the real engine (identical commands) on 200/5000 clipPath configurations.',
    design='§12.2, §7 C03')
CLAIMED['C01'] = dict(engine='E5', technique='Coq proof about a hand model of the checkpicosvg gate (allow-list over typed-index element paths, required defs, duplicate ids) tied to the code by a differential run on random element trees; spec-side README-grammar checker judging library and CLI conversions over ndigits x allow_text x drop_unsupported on every run',
    text='Partial. Proved: every element path admitted by the allow-list has one of the five README shapes (root, defs[0], gradient in defs, stop in gradient, chain of g/path), and a tree that passes the gate has only such paths, has /svg[0]/defs[0] and unique ids - topicosvg returns normally only through that gate. With drop_unsupported, whatever the tree, pruning leaves only allowed paths (so the call cannot fail because of unsupported elements). Not proved: attribute-level and path-data conditions (the gate does not check them); these are decided on every run by tools/pico.py applied to conversions of generated documents (library + CLI). One fix commit (groups left underfull / with opacity 0 by late shape removal).',
    note='Gate model validated on 600/12000 random trees (verdict and pruned tree identical); judge covers 260/6000 documents.',
    design='§12.2, §7 C01')
CLAIMED['C08'] = dict(engine='E5', technique='Coq proof about a hand model of the id/reference bookkeeping (_new_id, use instancing, stroke splitting, orphan removal, gate) tied to the code by a differential run; spec-side reference-graph checker on conversions of documents with heavily shared ids on every run',
    text='Partial. Proved: _new_id returns the lowest free id (never one in use); any number of _resolve_use passes, and splitting a stroked shape, keep ids unique; _remove_orphaned_gradients keeps exactly the gradients some fill resolves to (none unused, none referenced removed); a normal return has unique ids (gate). The composition inside topicosvg (which references exist when each step runs) is decided on every run by tools/pico.check_refs on generated documents. One fix commit (gradient orphaned by an invisible sole user).',
    note='Refs.v validated on 900/15000 cases over five mechanisms; judge covers 300/6000 documents with shared ids.',
    design='§12.2, §7 C08')
CLAIMED['C07'] = dict(engine='E3', technique='Coq proof that a document in pico form is a fixed point of the individual rewriting steps (path rewrites over R via the generated walk callbacks, rounding, group decision, orphan removal), models tied to the code by differential runs; byte-level three-pass judge on generated documents x ndigits on every run',
    text='Partial. Proved: explicit_lines, expand_shorthand, absolute and round_floats are the identity on absolute M/L/C/Q/A/Z paths rounded to nd <= 8 digits (absolute because rounded positions cannot be near misses of the subpath start); rounding is idempotent; a kept group (opacity in (0,1), >= 2 children) is kept unchanged; orphan removal is idempotent. Not proved: gradient rewriting, float printing under re-parse, step order - decided by the three-pass byte comparison and checkpicosvg on every run. Two fix commits (underfull groups, orphaned gradients); one recorded finding (defs order).',
    note='Theorems over exact reals; judge covers 220/5000 documents x ndigits 0..6, three passes each.',
    design='§12.2, §7 C07')
CLAIMED['C14'] = dict(engine='E5', technique='Coq proof about a hand model of the cleaning front end (namespaces, comments, PIs, symbols, title/desc/metadata) tied to the code by a differential run on random trees; paired-conversion judge with a spec-side noise inserter on every run',
    text='Partial. Proved: the five cleaning passes equal a one-pass purge; inserting comments, PIs, title/desc/metadata, foreign-namespace elements and id-less symbols (each with arbitrary content, at arbitrary positions and depths, also inside each other) and adding foreign-namespace attributes leaves the cleaned tree unchanged; a tree without such content is returned unchanged. Not proved: bare wrapper groups, whitespace/XML declaration (parser level) and that the rest of the pipeline depends on the cleaned tree only - decided on every run by comparing convert(D) with convert(N(D)) up to gradient ids, defs order and the last digit of gradient numbers.',
    note='Noise.v validated on 700/12000 random trees; judge covers 200/4000 (D, N(D)) pairs with 1-8 insertions over 12 noise kinds.',
    design='§12.2, §7 C14')
CLAIMED['C16'] = dict(engine='E6', technique='Coq proof about the memoisation state machine and the sorted-key iteration of _inherit_attrib; inventory of caches / module state / hash-order constructs regenerated and pinned on every run; the lru_cache discipline observed on real conversions; multi-process judge over hash seeds, fresh vs long-lived processes and batch orders',
    text='Partial. Proved: under clear-before-use (what _update_etree does) the shared lru_cache is invisible for any history of phases and earlier documents; _inherit_attrib does not depend on the order of the attribute map (sorted iteration; insertion sort shown order-free). Pinned: the only cache is _inherited_attrib, no module-level state is mutated at run time, the one sequence built from a set is used for membership only. Hash randomisation, process boundaries and the interpreter cannot be modelled: each run converts documents in fresh processes under 5-9 hash seeds and in permuted batches in one process and compares sha256 with the document converted alone.',
    note='Runtime behaviour (hashing, processes) is exercised, not proved.',
    design='§12.2, §7 C16')
CLAIMED['C17'] = dict(engine='E5', technique='Coq proof about hand models of the reference-following loops (use-graph check and pass structure of _resolve_use, gradient href recursion, fuelled clip recursion) tied to the code by a differential run; watchdogged adversarial judge (time bound, memory limit, grammar of results, external entity marker) on every run',
    text='Partial. Proved: the reference-graph check takes at most one round per id, rejects every self reference and accepts only ranked graphs; on a ranked graph the expansion loop has no live reference after |ids|+1 passes; the tidy loop of topicosvg exits within #groups+1 iterations (removals shrink the group count, observed on every run); href chains end in a result or an exception for every reference table, cyclic ones in RecursionError. Runtime behaviour (wall-clock, memory, lxml entity handling) is decided by the judge: each adversarial document runs in a subprocess under an alarm and an address-space limit and must return a pico document or raise within 2 s + 3 ms per expanded element. One fix commit (use cycles looped forever).',
    note='Bounds on the number of passes / recursion steps are proved; the cost of a pass is measured.',
    design='§12.2, §7 C17')
CLAIMED['C04'] = dict(engine='E5', technique='Coq proof about a hand model of stroke_commands / _stroke (dash-interval equivalence over all interval indices; compositing of the two pieces) with the Skia stroker as an oracle; oracle-in-the-loop differential run; independent three-valued stroke evaluator judging converted documents on every run',
    text='Partial. Proved: the doubled odd-length dash array selects the same on/off interval as the SVG rule for every index; the fill piece below the stroke piece composites like the stroked shape whenever opacity is 1 or only one piece covers the point (and differs otherwise, by example). Not proved: that the Skia outline is the ideal stroke region, and the order stroke-then-transform-then-clip in _simplify - decided on every run by compositing source (ideal stroke region, three-valued) and output at sample points under caps, joins, miter limits, dashes, offsets, inherited properties and non-uniform ancestor transforms.',
    note='Stroke.v validated with the real engine on 260/4000 cases (identical pieces); judge covers 120/2500 documents, 729 sample points each.',
    design='§12.2, §7 C04')
CLAIMED['C06'] = dict(engine='E5', technique='Coq proof (exact reals) about a hand model of the gradient rewriting built on the Affine2D functions translated from svg_transform.py; differential run against _transformed_gradient / _apply_gradient_template; independent gradient evaluator sampling colours of source and output on every run',
    text='Partial. Proved in exact arithmetic: resolving bounding-box units, baking the ancestor transform into gradientTransform and folding the translation into the coordinates send every gradient-space point to a point with the same world image and the same gradient parameter (linear: projection on the gradient vector; radial: any function of point and circles relative to the focal point), given that decompose_translation recomposes exactly - proved for its main branch; template resolution gives own-else-template for the attributes of the gradient\'s own class. Not proved: the 6-decimal rounding, the degenerate decomposition branches, percentages/defaults parsing, and the end-to-end claim - decided on every run by comparing colours of source and converted document at interior sample points (all units, transform lists, spread methods, href chains) and by checking that output gradients are self-contained.',
    note='Gradient.v validated on 400/6000 cases (numbers within 3e-6); judge covers 150/3000 documents, 841 sample points each.',
    design='§12.2, §7 C06')
PENDING = {}

def main():
    props = [json.loads(l) for l in open(V + '/properties.jsonl')]
    checks, na = [], []
    for p in props:
        pid = p['id']
        if pid in CLAIMED:
            c = CLAIMED[pid]
            checks.append({
                'property_id': pid,
                'quick_cmd': f'./check {pid} --tier quick',
                'thorough_cmd': f'./check {pid} --tier thorough',
                'evidence_file': f'/verif/evidence/{pid}.json',
                'replay_cmd_template': f'./check {pid} --replay {{path}}',
                'engine': c['engine'],
                'level_claimed': {'category': 'proof', 'text': c['text'], 'design_ref': c['design']},
                'level_note': c['note'],
                'technique': c['technique'],
            })
        else:
            na.append({'property_id': pid, 'reason': PENDING.get(pid, 'check not built yet in this development (work in progress; see DESIGN.md §10 order)')})
    m = {
        'version': 1,
        'setup_cmd': 'cd /verif && tools/setup.sh',
        'hooks': {'guard': 'GOOGLEFONTS_PICOSVG_VERIF',
                  'enable': 'none needed: the harness observes picosvg only through its public API (PYTHONPATH=/repo/src) and calls pathops itself',
                  'baseline_off_cmd': BASE, 'source_commits': [], 'add_only': True},
        'engines': [
            {'name': 'E5', 'path': 'coq/model/Skia.v coq/model/Doc*.v coq/proofs/E5_*.v tools/skia_oracle.py', 'serves_properties': ['C13', 'C18', 'C19', 'C01', 'C02', 'C03', 'C04', 'C05', 'C06', 'C07', 'C08', 'C14', 'C17'], 'kind_free_text': 'Skia wrappers with the engine as an oracle; document pipeline'},
            {'name': 'E6', 'path': 'coq/gen/G_skeletons.v (generated) coq/model/ObjCache.v coq/proofs/E6_cache.v', 'serves_properties': ['C15', 'C16'], 'kind_free_text': 'cache/tree state machine and verified skeleton analysis'},
            {'name': 'E2', 'path': 'coq/model/Lex.v coq/model/PathParse.v coq/model/TransformParse.v coq/spec/PathGrammar.v coq/gen/G_regex.v coq/proofs/E2_*.v', 'serves_properties': ['C10', 'C11', 'C05'], 'kind_free_text': 'character-level lexers pinned to the source regexes; SVG path grammar'},
            {'name': 'E3', 'path': 'coq/gen/G_types.v coq/gen/G_meta.v (generated) coq/model/Walk.v coq/spec/PathSem.v coq/proofs/E3_*.v', 'serves_properties': ['C09', 'C18', 'C20', 'C01', 'C07'], 'kind_free_text': 'walk state machine and path rewrites vs SVG path semantics'},
            {'name': 'E4', 'path': 'coq/gen/G_arc.v (generated) coq/model/Arc.v coq/proofs/E4_*.v', 'serves_properties': ['C12', 'C09'], 'kind_free_text': 'arc to cubic numerics over R'},
            {'name': 'E1', 'path': 'coq/gen/G_geom.v coq/gen/G_transform.v (generated) coq/proofs/E1_*.v', 'serves_properties': ['C11', 'C06', 'C19', 'C02'], 'kind_free_text': 'affine algebra and rectangles, translated from source'},
        ],
        'checks': checks,
        'not_applicable': na,
        'notes': 'All checks: ./check <ID> [--tier quick|thorough]; shared Coq build in /verif/build (rebuilt from /repo working tree on every run).',
    }
    json.dump(m, open(V + '/MANIFEST.json', 'w'), indent=1)

if __name__ == '__main__':
    main()
