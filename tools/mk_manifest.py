#!/usr/bin/env python3
"""Regenerates /verif/MANIFEST.json from the table below (kept in one place so it stays valid)."""
import json, os
V = '/verif'
BASE = json.load(open('/root/.vp/BASELINE.json'))['cmd'].replace('<file>', '/tmp/picosvg_baseline.junit.xml')

CLAIMED = {
 'C11': dict(engine='E1', technique='Coq proof over R of definitions regenerated from svg_transform.py by a Python-ast translator; Fraction-exact differential run of the extracted model',
             text='Theorems (Coq, over the reals) about the definitions the translator regenerates from svg_transform.py/geometric_types.py on every run: matrix product is map composition, compose_ltr applies the first transform first for lists of any length, primitive ops are the SVG matrices, inverse undoes every non-degenerate matrix, viewport mapping and decompositions. Any semantic edit changes the generated definitions and breaks a proof; a spec-judged small-scope search then produces the failing input.',
             note='Floats modelled as exact reals (IEEE rounding not modelled); stdlib real-number axioms; translator, extraction and the line-protocol driver are trusted glue validated by exact Fraction correspondence on every run.',
             design='§7 C11'),
}
PENDING = {}

def main():
    props = [json.loads(l) for l in open(V + '/properties.jsonl')]
    checks, na = [], []
    for p in props:
        pid = p['id']
        if pid in CLAIMED:
            c = CLAIMED[pid]
            checks.append({
                'property_id': pid,
                'quick_cmd': f'./check {pid} --tier quick',
                'thorough_cmd': f'./check {pid} --tier thorough',
                'evidence_file': f'/verif/evidence/{pid}.json',
                'replay_cmd_template': f'./check {pid} --replay {{path}}',
                'engine': c['engine'],
                'level_claimed': {'category': 'proof', 'text': c['text'], 'design_ref': c['design']},
                'level_note': c['note'],
                'technique': c['technique'],
            })
        else:
            na.append({'property_id': pid, 'reason': PENDING.get(pid, 'check not built yet in this development (work in progress; see DESIGN.md §10 order)')})
    m = {
        'version': 1,
        'setup_cmd': 'cd /verif && tools/setup.sh',
        'hooks': {'guard': 'GOOGLEFONTS_PICOSVG_VERIF',
                  'enable': 'none needed: the harness observes picosvg only through its public API (PYTHONPATH=/repo/src) and calls pathops itself',
                  'baseline_off_cmd': BASE, 'source_commits': [], 'add_only': True},
        'engines': [
            {'name': 'E1', 'path': 'coq/gen/G_geom.v coq/gen/G_transform.v (generated) coq/proofs/E1_*.v', 'serves_properties': ['C11', 'C06', 'C19', 'C02'], 'kind_free_text': 'affine algebra and rectangles, translated from source'},
        ],
        'checks': checks,
        'not_applicable': na,
        'notes': 'All checks: ./check <ID> [--tier quick|thorough]; shared Coq build in /verif/build (rebuilt from /repo working tree on every run).',
    }
    json.dump(m, open(V + '/MANIFEST.json', 'w'), indent=1)

if __name__ == '__main__':
    main()
