#!/usr/bin/env python3
"""Summarise /verif/seeded/*/ (meta.json + result.json) as a markdown table."""
import json, glob, os
rows = []
for d in sorted(glob.glob('/verif/seeded/*-*')):
    try: meta = json.load(open(d + '/meta.json'))
    except Exception: meta = {}
    try: res = json.load(open(d + '/result.json'))
    except Exception: continue
    name = os.path.basename(d)
    checks = res.get('checks', {})
    caught_by = [c for c, r in checks.items() if r.get('caught')]
    with_input = [c for c, r in checks.items() if r.get('failing_input_found')]
    status = 'confirmed' if res.get('confirmed') else f"not confirmed (tests {res.get('tests')}, demo {res.get('demo_exit_changed')}/{res.get('demo_exit_unchanged')})"
    rows.append((name, meta.get('anchor', '?'), (meta.get('summary', '') or '')[:140].replace('|', '/'), status,
                 ', '.join(caught_by) or 'MISSED', ', '.join(with_input) or ('-' if caught_by else '')))
print('| seeded | anchor | change | status | caught by | failing input found by |')
print('|---|---|---|---|---|---|')
for r in rows: print('| ' + ' | '.join(r) + ' |')
tot = len(rows); conf = [r for r in rows if r[3] == 'confirmed']
print(f'\n{len(conf)} confirmed of {tot}; caught {sum(1 for r in conf if r[4] != "MISSED")} / missed {sum(1 for r in conf if r[4] == "MISSED")}; with a concrete failing input {sum(1 for r in conf if r[5] not in ("", "-"))}')
