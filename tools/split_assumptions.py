#!/usr/bin/env python3
"""Parse `make -Otarget` output and cache each props/<ID>.v block (Print Assumptions output)."""
import re, sys, os
out = open(sys.argv[1]).read()
logdir = os.path.dirname(sys.argv[1])
for m in re.finditer(r'COQC (props/(C\d+)\.v)\n(.*?)(?=\nCOQC |\nmake|\Z)', out, re.S):
    body = m.group(3)
    if 'Axioms:' in body or 'Closed under the global context' in body:
        open(os.path.join(logdir, f'assumptions_{m.group(2)}.txt'), 'w').write(body)
