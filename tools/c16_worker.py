"""Worker for the C16 judge: converts the documents given on stdin (JSON list of [doc, ndigits]) in order,
in this one process, and prints a JSON list of [status, sha256-or-exception, output]."""
import sys, json, hashlib
from picosvg.svg import SVG
res = []
for doc, nd in json.load(sys.stdin):
    try:
        out = SVG.fromstring(doc).topicosvg(ndigits=nd).tostring()
        res.append(['ok', hashlib.sha256(out.encode()).hexdigest(), out])
    except Exception as e:
        res.append(['raise', type(e).__name__ + ': ' + str(e)[:200], ''])
json.dump(res, sys.stdout)
