"""Helpers shared by the property modules."""
from fractions import Fraction
import json, time

def canon(v):
    """canonical comparable form: tuples -> lists, ints -> Fractions"""
    if isinstance(v, bool) or v is None or isinstance(v, str): return v
    if isinstance(v, (int, Fraction)): return Fraction(v)
    if isinstance(v, float): return Fraction(v)
    if isinstance(v, (list, tuple)): return [canon(x) for x in v]
    return v

def jsonable(v):
    if isinstance(v, Fraction): return {'q': [str(v.numerator), str(v.denominator)]}
    if isinstance(v, (list, tuple)): return [jsonable(x) for x in v]
    if isinstance(v, dict): return {k: jsonable(x) for k, x in v.items()}
    if isinstance(v, float): return {'f': v.hex()}
    return v

def unjson(v):
    if isinstance(v, dict) and set(v) == {'q'}: return Fraction(int(v['q'][0]), int(v['q'][1]))
    if isinstance(v, dict) and set(v) == {'f'}: return float.fromhex(v['f'])
    if isinstance(v, dict): return {k: unjson(x) for k, x in v.items()}
    if isinstance(v, list): return [unjson(x) for x in v]
    return v

def show(v):
    """compact human-readable rendering for evidence samples"""
    if isinstance(v, Fraction): return str(v)
    if isinstance(v, (list, tuple)): return [show(x) for x in v]
    if isinstance(v, dict): return {k: show(x) for k, x in v.items()}
    return v

def run_corr(ctx, cases, impl_call, model_call=None, approx=None, max_disagreements=10):
    """cases yields ((name, arg), nontrivial: bool). Compares implementation and model exactly
    (or through approx(name, impl, model) -> bool when given)."""
    m = ctx.model()
    stats = {'evaluations': 0, 'nontrivial': set(), 'samples': [], 'disagreements': [], 'distribution': {}}
    for (name, arg), nt in cases:
        stats['evaluations'] += 1
        stats['distribution'][name] = stats['distribution'].get(name, 0) + 1
        impl = canon(impl_call(name, arg))
        mod = canon((model_call or m.call)(name, arg))
        same = (impl == mod) if approx is None else approx(name, impl, mod)
        if isinstance(impl, list) and impl and impl[0] == 'err':
            stats['distribution']['err:' + str(impl[1])] = stats['distribution'].get('err:' + str(impl[1]), 0) + 1
        if nt and not (isinstance(impl, list) and impl and impl[0] == 'err'):
            stats['nontrivial'].add(json.dumps(jsonable([name, arg]), sort_keys=True))
        if len(stats['samples']) < 6 and (nt or stats['evaluations'] % 7 == 0):
            stats['samples'].append({'call': name, 'input': show(arg), 'impl': show(impl), 'model': show(mod)})
        if not same:
            stats['disagreements'].append({'what': f'{name}: model and implementation differ', 'input': jsonable([name, arg]),
                                           'impl': jsonable(impl), 'model': jsonable(mod)})
            if len(stats['disagreements']) >= max_disagreements: break
    return stats
