"""C01 — conversion output conforms to the documented picosvg grammar (E5 gate + end-to-end judge)."""
import random, re, subprocess, sys, os, tempfile
from lxml import etree
from picosvg.svg import SVG
from common import *
import docgen, pico

COQ_TARGETS = ['props/C01.vo', 'proofs/E3_letters.vo']    # the path-data letter clause (converted_letters) is stated in props/C09.v
ALWAYS_JUDGE = True
RULE = ("(a) checkpicosvg(allow_text, drop_unsupported) on random element trees over svg/defs/g/path/gradients/stop/rect/text/tspan/"
        "textPath/foreign tags with ids: emptiness of the violation list and the pruned tree = model gate; (b) topicosvg (library) and the "
        "picosvg CLI on random documents x ndigits 0..6 x allow_text x drop_unsupported: every normal return is checked against the README "
        "grammar and the attribute/path-data conditions of the property by tools/pico.py (independent of picosvg); non-trivial = the document "
        "converts and contains a group, stroke, clip, gradient, use or nested svg")
TRUSTED = ["model/CheckPico.v hand model of checkpicosvg (allow-list regexes pinned by correspondence)", "tools/pico.py (spec-side grammar checker)",
           "tools/docgen.py (document generator)"]
ASSUMES = ["the gate theorem covers structure/ids only; attribute and path-data conditions are decided by the end-to-end judge (partial)"]

TAGS = ['g', 'path', 'g', 'path', 'defs', 'linearGradient', 'radialGradient', 'stop', 'rect', 'text', 'tspan', 'textPath', 'foo', 'svg']
SVGNS = 'http://www.w3.org/2000/svg'

def gen_tree(rng, depth=0, picoish=False):
    """[tag, id|None, kids]"""
    def node(tag, d):
        kids = []
        if d < 4:
            for _ in range(rng.choice([0, 0, 1, 2, 3]) if d else rng.randint(1, 4)):
                if picoish and rng.random() < 0.85:
                    t = rng.choice(['g', 'path']) if tag in ('svg', 'g') else ('stop' if 'Gradient' in tag else rng.choice(['linearGradient', 'radialGradient']) if tag == 'defs' else rng.choice(TAGS))
                elif tag in ('text', 'tspan', 'textPath') and rng.random() < 0.7: t = rng.choice(['text', 'tspan', 'textPath'])
                else: t = rng.choice(TAGS)
                kids.append(node(t, d + 1))
        i = rng.choice(['a', 'b', 'c', 'd', 'e', 'f']) if rng.random() < 0.25 else None
        return [tag, i, kids]
    root = node('svg', 0)
    if rng.random() < 0.8:
        root[2].insert(0 if rng.random() < 0.8 else rng.randint(0, len(root[2])), ['defs', None, [node(rng.choice(['linearGradient', 'radialGradient', 'linearGradient', 'path']), 2) for _ in range(rng.randint(0, 2))]])
    return root

def tree_xml(t, top=True):
    tag, i, kids = t
    a = f' xmlns="{SVGNS}"' if top else ''
    if i is not None: a += f' id="{i}"'
    return f'<{tag}{a}>' + ''.join(tree_xml(k, False) for k in kids) + f'</{tag}>'

def tree_of(el):
    return [etree.QName(el).localname, el.get('id'), [tree_of(k) for k in el if isinstance(k.tag, str)]]

def impl_gate(arg):
    at, drop, tree = arg
    svg = SVG.fromstring(tree_xml(tree))
    errs = svg.checkpicosvg(allow_text=at, drop_unsupported=drop)
    return [errs == (), tree_of(svg.svg_root)]

def corr(ctx):
    rng = ctx.rng
    def cases():
        for i in range(ctx.n(600, 12000)):
            t = gen_tree(rng, picoish=(i % 3 != 0))
            at, drop = rng.random() < 0.4, rng.random() < 0.4
            yield ('gate', [at, drop, t]), True
    st = run_corr(ctx, cases(), lambda name, arg: impl_gate(arg))
    return st

# ---------------------------------------------------------------- end-to-end judge
def convert_lib(doc, nd, at, drop):
    return SVG.fromstring(doc).topicosvg(ndigits=nd, allow_text=at, drop_unsupported=drop).tostring()

def convert_cli(doc, at, drop, clip=False):
    env = dict(os.environ, PYTHONPATH='/repo/src', PYTHONHASHSEED='0')
    cmd = ['/venv/bin/python', '-m', 'picosvg.picosvg'] + (['--allow_text'] if at else []) + (['--drop_unsupported'] if drop else []) + (['--clip_to_viewbox'] if clip else [])
    p = subprocess.run(cmd, input=doc.encode(), capture_output=True, env=env, timeout=120)
    if p.returncode != 0: return None
    return p.stdout.decode()

UNSUPPORTED_TAGS = ('filter', 'mask', 'image', 'foreignObject', 'a', 'pattern', 'style', 'switch', 'marker', 'script', 'animate', 'set')
def strip_unsupported(doc, allow_text):
    root = etree.fromstring(doc.encode())
    for el in list(root.iter()):
        if isinstance(el.tag, str) and etree.QName(el).localname in UNSUPPORTED_TAGS + (() if allow_text else ('text', 'tspan', 'textPath')):
            if el.getparent() is not None:
                tail = el.tail; par = el.getparent(); par.remove(el)
    return etree.tostring(root).decode()

UNSUP_RE = re.compile(r'BadElement|MissingElement')
def judge(doc, nd, at, drop, cli=False):
    """None if fine, else (law, expected, observed)"""
    try:
        out = convert_cli(doc, at, drop, clip=(cli == 'clip')) if cli else convert_lib(doc, nd, at, drop)
    except ValueError as e:
        if drop and re.search(r'BadElement: \S+( |,|$)(?!reuses)', str(e)) and any('reuses id' not in part for part in str(e).split('BadElement:')[1:]):
            return ('with drop_unsupported the call does not fail because of unsupported elements', 'normal return', {'raised': str(e)[:300]})
        if drop and not cli:
            # any other failure: if the same document without its unsupported elements converts, they were the cause
            try: convert_lib(strip_unsupported(doc, at), nd, at, drop)
            except Exception: return None
            return ('with drop_unsupported the call does not fail because of unsupported elements', 'normal return (the document converts once they are taken out)', {'raised': str(e)[:300]})
        return None
    except Exception:
        return None
    if out is None: return None
    v = pico.check_pico(out, 3 if cli else nd, at)
    if v: return ('serialised result obeys the README grammar', 'no violations', {'violations': v[:6], 'output': out[:3000]})
    return None

def features(doc):
    return [k for k in ('<g', 'stroke=', 'clip-path', 'Gradient', '<use', '<svg x', '<text', 'filter', 'style=') if k in doc]

def search(ctx, broken, disagreements):
    rng = ctx.rng
    found, n, ok, dist = [], 0, 0, {}
    for i in range(ctx.n(260, 6000)):
        kw = {}
        if i % 4 == 1: kw = dict(unsupported=0.08)
        if i % 4 == 2: kw = dict(text=0.1)
        if i % 4 == 3: kw = dict(noise=0.15, shared_ids=True)
        doc = docgen.random_doc(rng, **kw) if i % 5 != 4 else docgen.group_soup(rng)
        nd = rng.randint(0, 6) if i % 2 else 3
        at, drop = rng.random() < 0.35, rng.random() < 0.35
        cli = True if i % 20 == 7 else ('clip' if i % 20 == 17 else False)      # the command line tool, also with its --clip_to_viewbox step
        n += 1
        for f in features(doc): dist[f] = dist.get(f, 0) + 1
        dist[f'ndigits={nd}'] = dist.get(f'ndigits={nd}', 0) + 1
        v = judge(doc, nd, at, drop, cli)
        if v:
            found.append({'law': v[0], 'input': {'doc': doc, 'ndigits': nd, 'allow_text': at, 'drop_unsupported': drop, 'cli': cli},
                          'expected_by_spec': jsonable(v[1]), 'observed': jsonable(v[2])})
            if len(found) >= 4: break
    # the command line tool over its whole flag matrix on documents with text and / or unsupported content
    H = '<svg xmlns="http://www.w3.org/2000/svg" viewBox="0 0 20 20">'
    R = '<rect x="2" y="2" width="6" height="6" fill="red"/>'
    for body in (R + '<text x="1" y="5">hi</text>', R + '<image width="5" height="5"/>', R + '<text x="1" y="9"><tspan>a</tspan></text><filter id="f"/>', R):
        for at in (False, True):
            for drop in (False, True):
                for cli in (True, 'clip'):
                    n += 1
                    v = judge(H + body + '</svg>', 3, at, drop, cli)
                    if v and len(found) < 6:
                        found.append({'law': v[0], 'input': {'doc': H + body + '</svg>', 'ndigits': 3, 'allow_text': at, 'drop_unsupported': drop, 'cli': cli},
                                      'expected_by_spec': jsonable(v[1]), 'observed': jsonable(v[2])})
    # numbers Python prints in exponent form (no run of decimals to look at), and even-odd paths whose geometry Skia's simplify
    # gives up on: the first must still be rounded, the second must not come back carrying fill-rule="evenodd"
    HH = '<svg xmlns="http://www.w3.org/2000/svg" viewBox="0 0 100 100">'
    TRICKY = ["M23.2,38 C4.689,10 96.888,79 16,88.1 L18.415,27.1 Z",
              "M95.452,32 Q59,68.438 38.3,56 Q87,47.5 28,52.2 C21,76.6 2.174,35 89.997,10 L3.1,74.17 Z",
              "M55,58.3 C90,74 35.391,1 8.85,10.7 C8.972,77 72,8.587 23.3,75 L62,58.782 C64.239,49.629 33,67.776 43.622,60 Q10,31.9 23.927,47.4 Z"]
    special = [HH + '<path d="M1e-5,0 L10,2.5e-5 L10,10 L-3e-6,10 Z"/></svg>',
               HH + '<path fill="red" d="M0,0 L20,1.5e-5 L20,20 Q1.25e-6,20 0,10 Z"/></svg>',
               HH + '<path d="M0,0 L10,0 L10,10 Z" opacity="5e-1"/><path d="M1e-7,1e-7 L4,0 L4,4 Z"/></svg>']
    special += [HH + f'<path fill-rule="evenodd" d="{d}"/></svg>' for d in TRICKY]
    special += [HH + f'<g fill-rule="evenodd" fill="blue"><path d="{TRICKY[0]}"/><path d="M1,1 L5,1 L5,5 Z"/></g></svg>',
                HH + f'<path style="fill-rule:evenodd" d="{TRICKY[1]}"/><image width="1" height="1"/></svg>']
    for doc in special:
        for nd in (3, 5):
            for drop in (False, True):
                n += 1
                v = judge(doc, nd, False, drop, False)
                if v and len(found) < 6:
                    found.append({'law': v[0], 'input': {'doc': doc, 'ndigits': nd, 'allow_text': False, 'drop_unsupported': drop, 'cli': False},
                                  'expected_by_spec': jsonable(v[1]), 'observed': jsonable(v[2])})
    # more gradients of one kind than one digit can index (paths like /svg[0]/defs[0]/linearGradient[11])
    many = H + '<defs>' + ''.join(f'<linearGradient id="lg{j}"><stop offset="0" stop-color="red"/><stop offset="1" stop-color="blue"/></linearGradient>'
                                  f'<radialGradient id="rg{j}"><stop offset="0" stop-color="red"/><stop offset="1" stop-color="blue"/></radialGradient>' for j in range(12)) + '</defs>' + \
           ''.join(f'<rect x="{j}" y="1" width="3" height="3" fill="url(#lg{j})"/><rect x="{j}" y="6" width="3" height="3" fill="url(#rg{j})"/>' for j in range(12)) + '</svg>'
    for drop in (False, True):
        n += 1
        v = judge(many, 3, False, drop, False)
        if v is None:
            try:
                out = convert_lib(many, 3, False, drop)
                if out.count('Gradient id=') != 24: v = ('conversion keeps every gradient that is in use', '24 gradients', {'gradients_in_output': out.count('Gradient id='), 'output': out[:1500]})
            except Exception as ex: v = ('a document with 24 used gradients converts', 'normal return', {'raised': repr(ex)[:300]})
        if v and len(found) < 6:
            found.append({'law': v[0], 'input': {'doc': many, 'ndigits': 3, 'allow_text': False, 'drop_unsupported': drop, 'cli': False}, 'expected_by_spec': jsonable(v[1]), 'observed': jsonable(v[2])})
    return found, {'evaluations': n, 'distribution': dist}

def matches_known(v, entry):
    pat = entry.get('signature', {}).get('pattern')
    doc = v['input'].get('doc', '') if isinstance(v.get('input'), dict) else ''
    viol = json.dumps(jsonable(v.get('observed')))
    if pat == 'non_finite_opacity':
        return bool(re.search(r'opacity[=:]\s*"?\s*[+-]?(nan|inf)', doc, re.I)) and 'opacity' in viol
    if pat == 'stop_foreign_attribute':
        return bool(re.search(r'<stop\b[^>]*\b\w+:href=', doc)) and 'on stop' in viol
    return False

def replay(ctx, w):
    v = judge(w['doc'], w.get('ndigits', 3), w.get('allow_text', False), w.get('drop_unsupported', False), w.get('cli', False))
    return {'fails': v is not None, 'detail': jsonable(v)}
