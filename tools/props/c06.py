"""C06 — rewritten gradients assign the same colour to every point of their shapes (E5 gradient)."""
import random, re
from fractions import Fraction as F
from lxml import etree
from picosvg.svg import SVG
from picosvg.svg_transform import Affine2D
from picosvg.geometric_types import Rect
from common import *
import render
from props.c02 import aff_s

COQ_TARGETS = ['props/C06.vo']
ALWAYS_JUDGE = True
RULE = ("(a) _transformed_gradient (+ _apply_gradient_translation) on linear / radial gradients with numbers or percentages, both "
        "gradientUnits, dyadic gradientTransform, shape bounding box and ancestor transform, and _apply_gradient_template on href chains of "
        "length 1-3 contributing attributes and / or stops: implementation = model (numbers within 2e-6: float vs exact rounding); "
        "(b) documents with gradient-filled shapes (all gradient attributes as numbers or percentages, both units, transform lists, the "
        "three spreadMethods, href chains, focal points) under group / shape / use transforms: the colour at every usable interior sample "
        "point of the converted document equals the colour of the source (independent gradient evaluator tools/gradients.py); every "
        "gradient left in the output is self-contained (no href, plain numbers, own stops)")
TRUSTED = ["model/Gradient.v hand model on the translated Affine2D functions (gen/G_transform.v)", "tools/gradients.py + tools/render.py (spec-side evaluation)"]
ASSUMES = ["exact arithmetic in the theorems (6-decimal rounding of gradient parameters is bounded by the judge's colour tolerance)",
           "scope of the property: with bounding-box units the shape's geometry is not altered by clipping or stroking"]
SVGNS = 'http://www.w3.org/2000/svg'
XL = 'http://www.w3.org/1999/xlink'
HEAD = f'<svg xmlns="{SVGNS}" xmlns:xlink="{XL}" viewBox="0 0 40 24">'

# ---------------------------------------------------------------- correspondence
def dy(rng, lo=-8, hi=8, den=4): return F(rng.randint(lo * den, hi * den), den)
def rnd_aff(rng):
    k = rng.random()
    if k < 0.25: return (F(1), F(0), F(0), F(1), dy(rng), dy(rng))
    if k < 0.5: return (rng.choice([F(2), F(1, 2), F(4)]), F(0), F(0), rng.choice([F(2), F(1), F(1, 4)]), dy(rng), dy(rng))
    if k < 0.7: return (F(0), F(1), F(-1), F(0), dy(rng), F(0))
    if k < 0.85: return (F(1), F(0), F(0), F(1), F(0), F(0))
    return (F(2), F(1), F(-1), F(2), dy(rng), dy(rng))

def gen_grad_case(rng):
    radial = rng.random() < 0.5
    bbox_units = rng.random() < 0.5
    def coord(): return dy(rng, 0, 4, 8) if bbox_units else dy(rng, 0, 16, 4)
    g = {'radial': radial, 'p1': (coord(), coord()), 'p2': (coord(), coord()), 'r': dy(rng, 1, 6, 4) if not bbox_units else dy(rng, 1, 4, 8), 'fr': F(0),
         'tf': rnd_aff(rng) if rng.random() < 0.7 else (F(1), F(0), F(0), F(1), F(0), F(0)), 'bbox_units': bbox_units}
    bbox = (dy(rng, 0, 8, 1), dy(rng, 0, 8, 1), rng.choice([F(4), F(8), F(16), F(2)]), rng.choice([F(4), F(8), F(1)]))
    ctm = rnd_aff(rng)
    return g, bbox, ctm

def grad_xml(g, gid='g'):
    a = f' id="{gid}"'
    if g['radial']: a += f' cx="{float(g["p1"][0])}" cy="{float(g["p1"][1])}" fx="{float(g["p2"][0])}" fy="{float(g["p2"][1])}" r="{float(g["r"])}"'
    else: a += f' x1="{float(g["p1"][0])}" y1="{float(g["p1"][1])}" x2="{float(g["p2"][0])}" y2="{float(g["p2"][1])}"'
    if not g['bbox_units']: a += ' gradientUnits="userSpaceOnUse"'
    if g['tf'] != (1, 0, 0, 1, 0, 0): a += f' gradientTransform="{aff_s(g["tf"])}"'
    tag = 'radialGradient' if g['radial'] else 'linearGradient'
    return f'<{tag}{a}><stop offset="0" stop-color="red"/><stop offset="1" stop-color="blue"/></{tag}>'

def impl_transformed(g, bbox, ctm):
    svg = SVG.fromstring(HEAD + f'<defs>{grad_xml(g)}</defs></svg>')
    defs = svg.xpath_one('//svg:defs')
    el = svg.xpath_one('//svg:*[@id="g"]')
    try: new = svg._transformed_gradient(defs, el, Affine2D(*[float(v) for v in ctm]), Rect(*[float(v) for v in bbox]))
    except ValueError: return ['err', 'ValueError']
    except AssertionError: return ['err', 'AssertionError']
    at = new.attrib
    tf = Affine2D.fromstring(at.get('gradientTransform', 'matrix(1 0 0 1 0 0)'))
    if g['radial']: p1, p2 = (at['cx'], at['cy']), (at.get('fx', at['cx']), at.get('fy', at['cy']))
    else: p1, p2 = (at['x1'], at['y1']), (at['x2'], at['y2'])
    return ['ok', [[F(float(p1[0])), F(float(p1[1]))], [F(float(p2[0])), F(float(p2[1]))], [F(v) for v in tf], at.get('gradientUnits') == 'userSpaceOnUse']]

def wire_grad(g): return [g['radial'], list(g['p1']), list(g['p2']), g['r'], g['fr'], list(g['tf']), g['bbox_units']]

def close(a, b, tol=F(3, 1000000)):
    if isinstance(a, list) and isinstance(b, list): return len(a) == len(b) and all(close(x, y, tol) for x, y in zip(a, b))
    if isinstance(a, F) and isinstance(b, F): return abs(a - b) <= tol
    return a == b

FIELDS = {'linearGradient': ['id', 'x1', 'y1', 'x2', 'y2', 'gradientTransform', 'gradientUnits', 'spreadMethod'],
          'radialGradient': ['id', 'cx', 'cy', 'r', 'fx', 'fy', 'fr', 'gradientTransform', 'gradientUnits', 'spreadMethod']}
def gen_chain(rng):
    n = rng.randint(2, 4)
    chain = []
    for k in range(n):
        tag = rng.choice(['linearGradient', 'radialGradient'])
        attrs = {}
        for a in rng.sample(['x1', 'y2', 'cx', 'r', 'fx', 'gradientUnits', 'spreadMethod', 'gradientTransform'], rng.randint(0, 4)):
            attrs[a] = {'gradientUnits': 'userSpaceOnUse', 'spreadMethod': rng.choice(['reflect', 'repeat']), 'gradientTransform': 'translate(1)'}.get(a, str(rng.randint(1, 9)))
        nstops = rng.choice([0, 0, 1, 2])
        chain.append((tag, attrs, nstops))
    return chain

def chain_xml(chain):
    out = ''
    for k, (tag, attrs, nstops) in enumerate(chain):
        a = f' id="c{k}"' + ''.join(f' {n}="{v}"' for n, v in attrs.items())
        if k + 1 < len(chain): a += f' xlink:href="#c{k + 1}"'
        out += f'<{tag}{a}>' + ''.join(f'<stop offset="{j}" stop-color="red" id="st{k}{j}"/>' for j in range(nstops)) + f'</{tag}>'
    return HEAD + f'<defs>{out}</defs></svg>'

def impl_chain(chain):
    svg = SVG.fromstring(chain_xml(chain))
    el = svg.xpath_one('//svg:*[@id="c0"]')
    try: svg._apply_gradient_template(el)
    except ValueError: return ['err', 'ValueError']
    return ['ok', [sorted([k, v] for k, v in el.attrib.items() if k != 'id'), len(el)]]

def model_chain(m, chain):
    fields = [[f for f in FIELDS[tag] if f != 'id'] for tag, _, _ in chain]
    # the template's `id` is a field too but the gradient always has its own id
    r = m.call('resolve_chain', [fields, [[[k, v] for k, v in attrs.items()] for _, attrs, _ in chain], [n for _, _, n in chain]])
    return ['ok', [sorted(r[0]), r[1]]]

def gen_from_element(rng):
    radial = rng.random() < 0.5
    attrs = {}
    names = ['cx', 'cy', 'r', 'fx', 'fy', 'fr'] if radial else ['x1', 'y1', 'x2', 'y2']
    for k in rng.sample(names, rng.randint(0, len(names))):
        attrs[k] = rng.choice([f'{rng.randint(0, 100)}%', f'{rng.randint(0, 200) / 8}', f'{rng.randint(0, 40)}', '12.5%', '.5', '1e1', 'abc'] if rng.random() < 0.97 else ['abc', '5px'])
    u = rng.choice([None, 'userSpaceOnUse', 'objectBoundingBox', 'userSpaceOnUse', 'bogus'] if rng.random() < 0.1 else [None, 'userSpaceOnUse', 'objectBoundingBox', 'userSpaceOnUse'])
    if u: attrs['gradientUnits'] = u
    return radial, attrs, rng.choice([(40, 24), (32, 32), (10, 100)])

def impl_from_element(radial, attrs, vb):
    from picosvg.svg_types import SVGLinearGradient, SVGRadialGradient
    tag = 'radialGradient' if radial else 'linearGradient'
    el = etree.fromstring(f'<{tag} xmlns="{SVGNS}" id="g"' + ''.join(f' {k}="{v}"' for k, v in attrs.items()) + '/>')
    try: g = (SVGRadialGradient if radial else SVGLinearGradient).from_element(el, Rect(0, 0, *vb))
    except ValueError: return ['err', 'ValueError']
    if radial: return ['ok', [[F(g.cx), F(g.cy)], [F(g.fx), F(g.fy)], F(g.r), F(g.fr), g.gradientUnits == 'objectBoundingBox']]
    return ['ok', [[F(g.x1), F(g.y1)], [F(g.x2), F(g.y2)], F(0), F(0), g.gradientUnits == 'objectBoundingBox']]

def corr(ctx):
    rng = ctx.rng
    from wire import math_oracle
    m = ctx.model([math_oracle])
    stats = {'evaluations': 0, 'nontrivial': set(), 'samples': [], 'disagreements': [], 'distribution': {}}
    for i in range(ctx.n(400, 6000)):
        stats['evaluations'] += 1
        if i % 4 == 3:
            radial, attrs, vb = gen_from_element(rng)
            impl = impl_from_element(radial, attrs, vb)
            mod = m.call('gradient_from_element', [radial, [[k, v] for k, v in attrs.items()], F(vb[0]), F(vb[1])])
            name, inp = 'gradient_from_element', [radial, attrs, list(vb)]
            same = close(canon(impl), canon(mod), F(1, 10**9)) if impl[0] == 'ok' and mod[0] == 'ok' else canon(impl) == canon(mod)
            nt = any(v.endswith('%') for v in attrs.values())
        elif i % 3:
            g, bbox, ctm = gen_grad_case(rng)
            impl = impl_transformed(g, bbox, ctm)
            mod = m.call('transformed_gradient', [wire_grad(g), list(bbox), list(ctm)])
            name, inp = 'transformed_gradient', [grad_xml(g), show(list(bbox)), show(list(ctm))]
            same = close(canon(impl), canon(mod)) if impl[0] == 'ok' and mod[0] == 'ok' else canon(impl) == canon(mod)
            nt = g['bbox_units'] or ctm[4] != 0 or ctm[1] != 0
        else:
            chain = gen_chain(rng)
            impl, mod = impl_chain(chain), model_chain(m, chain)
            name, inp = 'apply_gradient_template', chain_xml(chain)
            same = canon(impl) == canon(mod)
            nt = len(chain) > 2
        stats['distribution'][name] = stats['distribution'].get(name, 0) + 1
        if nt: stats['nontrivial'].add(json.dumps(jsonable(inp)))
        if len(stats['samples']) < 4 and i % 53 == 0: stats['samples'].append({'call': name, 'input': inp, 'impl': show(jsonable(impl))})
        if not same:
            stats['disagreements'].append({'what': f'{name}: model and implementation differ', 'input': jsonable([name, inp]), 'impl': jsonable(impl), 'model': jsonable(mod)})
            if len(stats['disagreements']) >= 10: break
    return stats

# ---------------------------------------------------------------- rendering judge
def gen_doc(rng):
    STOPS = ['<stop offset="0" stop-color="red"/><stop offset="1" stop-color="blue"/>',
             '<stop offset="0.2" stop-color="yellow"/><stop offset="60%" stop-color="green" stop-opacity="0.5"/><stop offset="1" stop-color="purple"/>',
             '<stop offset="0" stop-color="#123456"/><stop offset="0.5" stop-color="orange"/><stop offset="0.5" stop-color="blue"/><stop offset="1" stop-color="red"/>']
    grads, ids = [], []
    def num_or_pct(lo, hi, units_bbox):
        if rng.random() < 0.35: return f'{rng.randint(0, 100)}%'
        return str(rng.randint(0, 8) / 8) if units_bbox else str(rng.randint(lo, hi))
    def gradient(allow_href=True):
        gid = f'gr{len(ids)}'
        radial = rng.random() < 0.5
        units = rng.choice(['', 'userSpaceOnUse', 'objectBoundingBox'])
        ub = units != 'userSpaceOnUse'
        a = f' id="{gid}"'
        if units: a += f' gradientUnits="{units}"'
        if radial:
            for k in rng.sample(['cx', 'cy', 'r'], rng.randint(1, 3)): a += f' {k}="{num_or_pct(4, 28, ub) if k != "r" else (str(rng.randint(3, 8) / 8) if ub else str(rng.randint(6, 20)))}"'
            if rng.random() < 0.3: a += f' fx="{"0.45" if ub else "19"}" fy="{"0.55" if ub else "13"}"' if 'cx=' not in a and 'cy=' not in a and ' r=' not in a else ''
            if rng.random() < 0.25: a += f' fr="{rng.choice(["10%", "5%"]) if rng.random() < 0.6 else ("0.05" if ub else "2")}"'
        else:
            for k in rng.sample(['x1', 'y1', 'x2', 'y2'], rng.randint(1, 4)): a += f' {k}="{num_or_pct(0, 32, ub)}"'
        if rng.random() < 0.5: a += ' gradientTransform="%s"' % rng.choice(['translate(2,3)', 'rotate(30)', 'scale(1.5,0.75)', 'translate(1,1) rotate(20) scale(0.9)', 'matrix(1 0.2 -0.1 1 0.5 0)', 'skewX(20)'] if not ub else
                                                                       ['translate(0.1,0.2)', 'rotate(30 0.5 0.5)', 'scale(1.5,0.75)', 'matrix(1 0.2 -0.1 1 0.05 0)', 'skewX(20)'])
        if rng.random() < 0.4: a += f' spreadMethod="{rng.choice(["reflect", "repeat", "pad"])}"'
        stops = rng.choice(STOPS)
        if allow_href and ids and rng.random() < 0.4:
            a += f' xlink:href="#{rng.choice(ids)}"'
            if rng.random() < 0.6: stops = ''
        tag = 'radialGradient' if radial else 'linearGradient'
        grads.append(f'<{tag}{a}>{stops}</{tag}>'); ids.append(gid)
        return gid
    for _ in range(rng.randint(1, 3)): gradient()
    if len(grads) > 1 and rng.random() < 0.5: grads.reverse()      # templates after their users as well as before
    def tf(): return ' transform="%s"' % rng.choice(['translate(3,2)', 'scale(1.25,0.75)', 'rotate(15 16 16)', 'matrix(1 0 0.3 1 0 0)', 'translate(-2,1) scale(0.9)', 'rotate(90 16 16)',
                                                     'translate(30,2) scale(-1,1.25)', 'translate(2,30) scale(1,-1)'])      # mirrorings: axis-aligned, but not a bbox-preserving map
    def shape():
        x, y = rng.randint(2, 12), rng.randint(2, 12)
        f = f' fill="url(#{rng.choice(ids)})"'
        t = tf() if rng.random() < 0.5 else ''
        k = rng.randrange(4)
        if k == 0: return f'<rect x="{x}" y="{y}" width="{rng.randint(8, 16)}" height="{rng.randint(6, 14)}"{f}{t}/>'
        if k == 1: return f'<circle cx="{x + 8}" cy="{y + 8}" r="{rng.randint(5, 8)}"{f}{t}/>'
        if k == 2: return f'<polygon points="{x},{y} {x + 16},{y + 3} {x + 6},{y + 15}"{f}{t}/>'
        return f'<path d="M{x},{y} h12 v10 q-6,6 -12,0 z"{f}{t}/>'
    body = ''
    for _ in range(rng.randint(1, 3)):
        if rng.random() < 0.5: body += f'<g{tf() if rng.random() < 0.7 else ""}' + (f' fill="url(#{rng.choice(ids)})"' if rng.random() < 0.3 else '') + f'>{shape()}{shape() if rng.random() < 0.4 else ""}</g>'
        else: body += shape()
    if rng.random() < 0.25: body += f'<use xlink:href="#us" x="{rng.randint(0, 6)}" y="{rng.randint(0, 6)}"{tf() if rng.random() < 0.5 else ""}/>'; grads.append(f'<rect id="us" x="4" y="4" width="10" height="8" fill="url(#{rng.choice(ids)})"/>')
    return HEAD + f'<defs>{"".join(grads)}</defs>{body}</svg>'

NUM = r'-?(?:\d+)(?:\.\d+)?(?:e[-+]?\d+)?'
def self_contained(out):
    v = []
    root = etree.fromstring(out.encode())
    for g in root.iter(f'{{{SVGNS}}}linearGradient', f'{{{SVGNS}}}radialGradient'):
        for k, val in g.attrib.items():
            if 'href' in k: v.append(f'{g.get("id")}: href survives')
            if k in ('x1', 'y1', 'x2', 'y2', 'cx', 'cy', 'r', 'fx', 'fy', 'fr') and not re.match('^' + NUM + '$', val): v.append(f'{g.get("id")}: {k}={val!r} is not a plain number')
        if not [s for s in g if isinstance(s.tag, str)]: v.append(f'{g.get("id")}: no stops of its own')
    return v

def judge_doc(doc):
    try: out = SVG.fromstring(doc).topicosvg().tostring()
    except Exception: return None
    sc = self_contained(out)
    if sc: return ('every gradient left in the output is self-contained', 'no href, plain numbers, own stops', {'violations': sc[:5], 'output': out[:2500]})
    r = render.compare_documents(doc, out, (-6, -6, 50, 50), n=29, tol=6e-3)
    if r is None or len(r) == 1: return None
    return ('the colour the gradient assigns to every point of the shape is unchanged', {'point': r[0], 'colour': r[1]}, {'colour': r[2], 'output': out[:2500]})

def search(ctx, broken, disagreements):
    rng = ctx.rng
    found, n = [], 0
    for i in range(ctx.n(150, 3000)):
        doc = gen_doc(rng); n += 1
        v = judge_doc(doc)
        if v:
            found.append({'law': v[0], 'input': {'doc': doc}, 'expected_by_spec': jsonable(v[1]), 'observed': jsonable(v[2])})
            if len(found) >= 4: break
    return found, {'evaluations': n}

def matches_known(v, entry):
    if entry.get('signature', {}).get('pattern') == 'userspace_percent_in_nested_viewport':
        doc = v['input'].get('doc', '')
        nested = len(re.findall(r'<svg\b', doc)) >= 2
        pct = any('userSpaceOnUse' in g and re.search(r'\b(x1|x2|y1|y2|cx|cy|r|fx|fy)="[^"]*%"', g) for g in re.findall(r'<(?:linear|radial)Gradient\b[^>]*>', doc))
        return nested and bool(pct)
    return False

def replay(ctx, w):
    v = judge_doc(w['doc'])
    return {'fails': v is not None, 'detail': jsonable(v)}
