"""C18 — pruning of invisible content is conservative (E3, E5)."""
from fractions import Fraction as F
import itertools
import pathops
from picosvg.svg_types import SVGPath
from common import *
import geom, pathsem
from skia_oracle import skia_oracle

COQ_TARGETS = ['props/C18.vo']
ALWAYS_JUDGE = True
RULE = ("shapes from {degenerate + ordinary lattice geometries} x fill in {none, black} x stroke in {none, red} x stroke-width in {0,1} x the "
        "three opacities in {0, 1/2, 1} x display x attribute-vs-style; model (engine through the oracle) and implementation must give the "
        "same verdict; non-trivial = the verdict is not settled by display or move-only geometry alone")
TRUSTED = ["model/Shape.v: hand model of might_paint / apply_style_attribute (typed fields; style as parsed declarations)",
           "engine contract for area (proofs/E5_paint.v hypotheses), sampled by exact polygon interiors",
           "tools/skia_oracle.py"]
ASSUMES = ["a simplified path without positive Skia area has an empty interior (sampled, not proved)"]

GEOMS = {
 'square': 'M0,0 L4,0 L4,4 L0,4 Z', 'triangle': 'M1,1 L5,1 L3,4 Z', 'open_tri': 'M0,0 L4,0 L2,3', 'bowtie': 'M0,0 L4,4 L4,0 L0,4 Z',
 'nested_same': 'M0,0 L6,0 L6,6 L0,6 Z M1,1 L5,1 L5,5 L1,5 Z', 'two_sq': 'M0,0 L2,0 L2,2 L0,2 Z M3,3 L5,3 L5,5 L3,5 Z',
 # degenerate
 'move_only': 'M1,1', 'moves': 'M1,1 M2,2', 'empty': '', 'line': 'M0,0 L5,5', 'collinear': 'M0,0 L2,2 L4,4 Z', 'point': 'M1,1 L1,1 Z',
 'tiny_sq': 'M0,0 L0.02,0 L0.02,0.02 L0,0.02 Z', 'tiny_tri': 'M1,1 L1.03,1 L1,1.02 Z', 'dot': 'M5,5 z', 'dots': 'M5,5 Z M1,1 z', 'dot_then_line': 'M5,5 z M0,0 L3,0',
 # no command letter other than the moveto: the following pairs are implicit linetos (what polyline/polygon points become)
 'implicit_sq': 'M0,0 4,0 4,4 0,4', 'implicit_rel': 'm1,1 4,0 0,3', 'implicit_exp': 'M0 0 4e0 0 2 .3e1', 'implicit_line': 'M0,0 5,5', 'implicit_two': 'M0,0 2,0 2,2 M3,3 5,3 5,5',
 'cancel_evenodd': 'M0,0 L4,0 L4,4 L0,4 Z M0,0 L4,0 L4,4 L0,4 Z', 'zero_rect': 'M0,0 L4,0 L4,0 L0,0 Z', 'close_then_line': 'M0,5 h1 z L1,1 L2,2 z',
}
DEGENERATE = {'move_only', 'moves', 'empty', 'line', 'collinear', 'point', 'zero_rect', 'implicit_line'}

FIELDS = ['id', 'clip_path', 'clip_rule', 'fill', 'fill_opacity', 'fill_rule', 'stroke', 'stroke_width', 'stroke_linecap', 'stroke_linejoin',
          'stroke_miterlimit', 'stroke_dasharray', 'stroke_dashoffset', 'stroke_opacity', 'opacity', 'transform', 'style', 'display', 'd']
DEFAULTS = dict(id='', clip_path='', clip_rule='nonzero', fill='black', fill_opacity=1.0, fill_rule='nonzero', stroke='none', stroke_width=1.0,
                stroke_linecap='butt', stroke_linejoin='miter', stroke_miterlimit=4.0, stroke_dasharray='none', stroke_dashoffset=0.0,
                stroke_opacity=1.0, opacity=1.0, transform='', style=[], display='inline')

def wire_shape(attrs, cmds):
    a = {**DEFAULTS, **attrs}
    return [a['id'], a['clip_path'], a['clip_rule'], a['fill'], F(a['fill_opacity']), a['fill_rule'], a['stroke'], F(a['stroke_width']),
            a['stroke_linecap'], a['stroke_linejoin'], F(a['stroke_miterlimit']), a['stroke_dasharray'], F(a['stroke_dashoffset']),
            F(a['stroke_opacity']), F(a['opacity']), a['transform'], [[k, v] for k, v in a['style']], a['display'], cmds]

def impl_shape(attrs, d):
    a = dict(attrs)
    style = a.pop('style', [])
    if style: a['style'] = ';'.join(f'{k}:{v}' for k, v in style)
    return SVGPath(d=d, **a)

def impl_might_paint(attrs, d):
    try: return ['ok', impl_shape(attrs, d).might_paint()]
    except ValueError: return ['err', 'ValueError']
    except Exception as ex: return ['err', 'Other:' + type(ex).__name__]

def cmds_of(d):
    return [[c, [F(x) for x in a]] for c, a in pathsem.parse_simple(d, num=lambda x: F(float(x)))] if d else []

def gen_attrs(rng):
    a = {}
    style = []
    def put(k, v):
        if rng.random() < 0.3: style.append((k.replace('_', '-'), str(v)))
        else: a[k] = v
    if rng.random() < 0.6: put('fill', rng.choice(['none', 'black', 'red']))
    if rng.random() < 0.5: put('stroke', rng.choice(['none', 'red']))
    if rng.random() < 0.5: put('stroke_width', rng.choice([0.0, 1.0, 0.5]))
    for k in ('opacity', 'fill_opacity', 'stroke_opacity'):
        if rng.random() < 0.35: put(k, rng.choice([0.0, 0.5, 1.0]))
    if rng.random() < 0.2: put('display', rng.choice(['none', 'inline']))
    if rng.random() < 0.3: put('fill_rule', rng.choice(['evenodd', 'nonzero']))
    if rng.random() < 0.03: style.append(('opacity', 'abc'))
    if style: a['style'] = style
    return a

def corr(ctx):
    m = ctx.model([skia_oracle])
    stats = {'evaluations': 0, 'nontrivial': set(), 'samples': [], 'disagreements': [], 'distribution': {}}
    rng = ctx.rng
    names = list(GEOMS)
    for i in range(ctx.n(1500, 30000)):
        g = names[i % len(names)]
        attrs = gen_attrs(rng)
        impl = impl_might_paint(attrs, GEOMS[g])
        mod = m.call('might_paint', wire_shape(attrs, cmds_of(GEOMS[g])))
        stats['evaluations'] += 1
        stats['distribution'][f'{g}:{impl[1]}'] = stats['distribution'].get(f'{g}:{impl[1]}', 0) + 1
        eff = dict(attrs); eff.update({k.replace('-', '_'): v for k, v in attrs.get('style', [])})
        if eff.get('display') != 'none' and g not in ('move_only', 'moves', 'empty') and impl[0] == 'ok':
            stats['nontrivial'].add(json.dumps([g, sorted((k, str(v)) for k, v in attrs.items())]))
        if len(stats['samples']) < 5 and i % 97 == 0:
            stats['samples'].append({'geometry': g, 'attrs': {k: str(v) for k, v in attrs.items()}, 'impl': impl, 'model': mod})
        if canon(impl) != canon(mod):
            stats['disagreements'].append({'what': 'might_paint: model and implementation differ', 'input': jsonable(['might_paint', g, attrs]),
                                           'impl': impl, 'model': jsonable(mod)})
            if len(stats['disagreements']) >= 10: return stats
    # remove_empty_subpaths on default-styled paths
    for g in names:
      for attrs in ({}, {'fill_rule': 'evenodd'}, {'stroke': 'red', 'fill': 'none'}, {'stroke': 'red'}, {'fill': 'none'}, gen_attrs(rng), gen_attrs(rng)):
        try: impl = ['ok', cmds_of(impl_shape(attrs, GEOMS[g]).remove_empty_subpaths().d)]
        except ValueError: impl = ['err', 'ValueError']
        mod = m.call('remove_empty_subpaths', wire_shape(attrs, cmds_of(GEOMS[g])))
        stats['evaluations'] += 1
        if canon(mod) != canon(impl):
            stats['disagreements'].append({'what': 'remove_empty_subpaths: model and implementation differ', 'input': jsonable(['remove_empty_subpaths', g, attrs]),
                                           'impl': jsonable(impl), 'model': jsonable(mod)})
    return stats

# ---------------------------------------------------------------- spec judge
def effective(attrs):
    e = {**DEFAULTS, **{k: v for k, v in attrs.items() if k != 'style'}}
    for k, v in attrs.get('style', []):
        k = k.replace('-', '_')
        e[k] = float(v) if isinstance(DEFAULTS.get(k), float) else v
    return e

def painted_points(attrs, d):
    """sample points the shape's FILL paints (exact winding numbers); stroke visibility separately"""
    e = effective(attrs)
    cmds = cmds_of(d)
    poly = [[c, a] for c, a in pathsem_to_abs(cmds)]
    fill_vis = e['fill'] != 'none' and e['opacity'] * e['fill_opacity'] != 0 and e['display'] != 'none'
    stroke_vis = e['stroke'] != 'none' and e['opacity'] * e['stroke_opacity'] != 0 and e['stroke_width'] != 0 and e['display'] != 'none'
    draws = any(c.upper() != 'M' for c, _ in cmds)
    pts = []
    if fill_vis and draws:
        for pt in geom.sample_points(-1, 8, 27):
            if geom.inside(poly, e['fill_rule'] == 'evenodd', pt): pts.append(pt)
    return pts, (stroke_vis and draws)

def pathsem_to_abs(cmds):
    """absolute polygonal form of a lattice path (lines only), via the spec-side interpreter"""
    out = []
    for s in pathsem.interp([(c, a) for c, a in cmds]):
        if s[0] == 'move': out.append(['M', list(s[1])])
        elif s[0] in ('line',): out.append(['L', list(s[2])])
        elif s[0] == 'close': out.append(['Z', []])
        else: raise ValueError('curved')
    return out

def judge(attrs, d):
    try: verdict = impl_shape(attrs, d).might_paint()
    except ValueError: return None
    try: pts, stroke = painted_points(attrs, d)
    except ValueError: return None
    if verdict is False and (pts or stroke):
        return ('a shape reported as unable to paint really paints nothing', 'might_paint() == True', {'painted_sample_points': pts[:3], 'visible_stroke': stroke})
    if verdict is True and not pts and not stroke:
        # allowed only if the engine failed (conservative) — not the case for these lattice polygons
        e = effective(attrs)
        fill_vis = e['fill'] != 'none' and e['opacity'] * e['fill_opacity'] != 0
        if not fill_vis or not any(c.upper() != 'M' for c, _ in cmds_of(d)) or e['display'] == 'none':
            return ('a shape that cannot paint (hidden, paintless or move-only) is not kept as possibly painting', 'might_paint() == False', True)
    return None

def judge_subpaths(d, attrs):
    """removing empty subpaths never changes the rendered result"""
    try:
        before = impl_shape(attrs, d)
        after = impl_shape(attrs, d).remove_empty_subpaths()
        p0, s0 = painted_points(attrs, d); p1, s1 = painted_points(attrs, after.d)
    except ValueError: return None
    if set(p0) != set(p1):
        return ('remove_empty_subpaths keeps the filled region', {'points_before': len(p0)}, {'points_after': len(p1), 'd_after': after.d})
    e = effective(attrs)
    if s0 and cmds_of(after.d) != cmds_of(before.absolute_moveto().d if False else d) and stroke_changed(d, after.d):
        return ('remove_empty_subpaths keeps every stroked subpath', d, after.d)
    return None

def stroke_changed(d0, d1):
    segs = lambda d: [s for s in pathsem.interp(pathsem.parse_simple(d, num=lambda x: F(float(x)))) if s[0] in ('line', 'close') and s[1] != s[2]] if d else []
    return segs(d0) != segs(d1)

def search(ctx, broken, disagreements):
    found, n = [], 0
    rng = ctx.rng
    vals = {'fill': ['none', 'black'], 'stroke': ['none', 'red'], 'stroke_width': [0.0, 1.0], 'opacity': [0.0, 0.5, 1.0],
            'fill_opacity': [0.0, 1.0], 'stroke_opacity': [0.0, 1.0], 'display': ['inline', 'none'], 'fill_rule': ['nonzero', 'evenodd']}
    keys = list(vals)
    combos = list(itertools.product(*[vals[k] for k in keys]))
    rng.shuffle(combos)
    seen = set()
    for g, d in GEOMS.items():
        for combo in combos[:ctx.n(120, 1200)]:
            attrs = dict(zip(keys, combo))
            if rng.random() < 0.3:
                k = rng.choice(keys); attrs['style'] = [(k.replace('_', '-'), str(attrs.pop(k)))]
            n += 1
            v = judge(attrs, d)
            if v and v[0] not in seen:
                seen.add(v[0])
                found.append({'law': v[0], 'input': {'d': d, 'attrs': jsonable(attrs)}, 'expected_by_spec': jsonable(v[1]), 'observed': jsonable(v[2])})
        for attrs in ({}, {'fill_rule': 'evenodd'}, {'stroke': 'red', 'fill': 'none'}, {'stroke': 'red'}):
            n += 1
            v = judge_subpaths(d, attrs)
            if v and (v[0], g) not in seen:
                seen.add((v[0], g))
                found.append({'law': v[0], 'input': {'d': d, 'attrs': jsonable(attrs), 'op': 'remove_empty_subpaths'}, 'expected_by_spec': jsonable(v[1]), 'observed': jsonable(v[2])})
    # history: the verdict on a visible shape does not depend on a hidden shape with the same outline having been processed before
    k = F(0)
    for g in ('square', 'two_sq', 'open_tri'):
        for hid in ({'opacity': 0.0}, {'display': 'none'}, {'fill_opacity': 0.0}, {'style': [('display', 'none')]}):
            for vis in ({}, {'fill_rule': 'evenodd'}):
                n += 1; k += F(1, 16)
                # an outline no earlier case has used (shifted by k <= 1.5), so the hidden shape really is the first one seen with it
                d = pathsem.fmt([(c, [x + (k if i % 2 == 0 else 0) for i, x in enumerate(a)]) for c, a in pathsem.parse_simple(GEOMS[g], num=lambda x: F(float(x)))])
                try: impl_shape(hid, d).remove_empty_subpaths(); impl_shape(hid, d).might_paint()
                except ValueError: continue
                v = judge_subpaths(d, vis) or judge(vis, d)
                if v and (v[0], g, 'h') not in seen:
                    seen.add((v[0], g, 'h'))
                    found.append({'law': v[0] + ' (after a hidden shape with the same outline was processed)', 'input': {'d': d, 'attrs': jsonable(vis), 'before': jsonable(hid),
                                  'op': 'remove_empty_subpaths'}, 'expected_by_spec': jsonable(v[1]), 'observed': jsonable(v[2])})
    return found, {'evaluations': n}

def matches_known(v, entry):
    sig = entry.get('signature', {})
    if sig.get('pattern') == 'remove_empty_subpaths_api_nondefault_style':
        a = unjson(v['input'].get('attrs', {}))
        return v['input'].get('op') == 'remove_empty_subpaths' and (a.get('stroke', 'none') != 'none' or a.get('fill_rule') == 'evenodd')
    return False

def replay(ctx, w):
    if w.get('before') is not None:
        hid = unjson(w['before'])
        if 'style' in hid: hid['style'] = [tuple(x) for x in hid['style']]
        try: impl_shape(hid, w['d']).remove_empty_subpaths(); impl_shape(hid, w['d']).might_paint()
        except ValueError: pass
        vis = unjson(w.get('attrs', {}))
        v = judge_subpaths(w['d'], vis) or judge(vis, w['d'])
        return {'fails': v is not None, 'detail': jsonable(v)}
    attrs = unjson(w.get('attrs', {}))
    if 'style' in attrs: attrs['style'] = [tuple(x) for x in attrs['style']]
    v = judge_subpaths(w['d'], attrs) if w.get('op') == 'remove_empty_subpaths' else judge(attrs, w['d'])
    return {'fails': v is not None, 'detail': jsonable(v)}
