"""C19 — clipping to the viewBox and bounding boxes are geometrically exact (E1, E5)."""
from fractions import Fraction as F
import itertools
from picosvg.svg import SVG
from picosvg.svg_types import SVGPath
from picosvg.geometric_types import Rect
from common import *
import geom, pathsem
from skia_oracle import skia_oracle
from props.c18 import wire_shape, cmds_of

COQ_TARGETS = ['props/C19.vo']
ALWAYS_JUDGE = True
RULE = ("Rect.intersection/union on random Fraction rectangles (exact); picosvg documents of 1-4 lattice shapes placed inside / outside / "
        "across each side and corner of viewBoxes with origin in {0,-2,3}: implementation's clipped paths must equal the model's (same engine "
        "through the oracle); bounding boxes against exact extrema; non-trivial = at least one shape straddles the viewBox border")
TRUSTED = ["tools/translate.py regenerates Rect.intersection/union (gen/G_geom.v)", "model/Clip.v: hand model of clip_to_viewbox on the shape list",
           "engine contract (ops, bounds contain the interior) assumed; tightness of Skia bounds observed, not proved", "tools/skia_oracle.py"]
ASSUMES = ["Skia bounds are the true extrema (sampled on polygons and on quadratic/cubic curves with closed-form extrema)"]

def rnd_rect(rng, nonneg=True):
    v = lambda: F(rng.randint(-20, 20), rng.choice([1, 2, 4]))
    w, h = v(), v()
    if nonneg: w, h = abs(w), abs(h)
    return (v(), v(), w, h)

def poly_d(pts, close=True):
    return 'M' + ' L'.join(f'{x},{y}' for x, y in pts) + (' Z' if close else '')

def shapes_for(vb, rng):
    x, y, w, h = [int(v) for v in vb]
    out = []
    k = rng.randint(1, 4)
    for _ in range(k):
        place = rng.choice(['inside', 'outside', 'left', 'right', 'top', 'bottom', 'corner', 'cover', 'bowtie', 'donut', 'star', 'diag'])
        if place == 'inside': pts = [(x + 1, y + 1), (x + w - 1, y + 1), (x + w // 2, y + h - 1)]
        elif place == 'outside': pts = [(x - 5, y - 5), (x - 2, y - 5), (x - 3, y - 2)]
        elif place == 'left': pts = [(x - 2, y + 1), (x + 2, y + 1), (x + 2, y + 3), (x - 2, y + 3)]
        elif place == 'right': pts = [(x + w - 2, y + 1), (x + w + 3, y + 2), (x + w - 1, y + 4)]
        elif place == 'top': pts = [(x + 1, y - 2), (x + 4, y - 2), (x + 3, y + 3)]
        elif place == 'bottom': pts = [(x + 1, y + h - 2), (x + 4, y + h + 2), (x + 2, y + h + 3)]
        elif place == 'corner': pts = [(x - 2, y - 2), (x + 3, y - 1), (x + 2, y + 3), (x - 1, y + 2)]
        elif place == 'diag': pts = [(x + w - 2, y + h + 4), (x + w + 4, y + h - 2), (x + w + 4, y + h + 4)]   # box overlaps the corner, geometry does not
        elif place == 'cover': pts = [(x - 3, y - 3), (x + w + 3, y - 3), (x + w + 3, y + h + 3), (x - 3, y + h + 3)]
        elif place == 'star': pts = [(x + 2, y - 2), (x + 4, y + 5), (x - 1, y + 1), (x + 5, y + 1), (x, y + 5)]   # winding 2 in the middle
        else: pts = [(x - 1, y - 1), (x + 4, y + 4), (x + 4, y - 1), (x - 1, y + 4)]
        attrs = {}
        if rng.random() < 0.4: attrs['fill'] = rng.choice(['red', 'blue'])
        if rng.random() < (0.6 if place in ('donut', 'star') else 0.3): attrs['fill_rule'] = 'evenodd'
        if rng.random() < 0.2: attrs['opacity'] = 0.5
        if place == 'donut':
            # a hole drawn in the SAME direction as the outline (a hole only under even-odd), sticking out of the viewBox
            inner = [(x, y), (x + 3, y), (x + 3, y + 3), (x, y + 3)]
            if rng.random() < 0.3: inner.reverse()
            out.append((place, attrs, poly_d([(x - 2, y - 2), (x + 5, y - 2), (x + 5, y + 5), (x - 2, y + 5)]) + ' ' + poly_d(inner))); continue
        out.append((place, attrs, poly_d(pts)))
    return out

def doc_of(vb, shapes):
    paths = ''.join('<path d="%s"%s/>' % (d, ''.join(f' {k.replace("_", "-")}="{v}"' for k, v in a.items())) for _, a, d in shapes)
    return f'<svg xmlns="http://www.w3.org/2000/svg" viewBox="{vb[0]} {vb[1]} {vb[2]} {vb[3]}"><defs/>{paths}</svg>'

def impl_clip(vb, shapes):
    try:
        svg = SVG.fromstring(doc_of(vb, shapes)).clip_to_viewbox()
        out = []
        for s in svg.shapes():
            out.append([cmds_of(s.d), s.fill_rule, s.fill, F(s.opacity)])
        return ['ok', out]
    except ValueError: return ['err', 'ValueError']
    except Exception as ex: return ['err', 'Other:' + type(ex).__name__]

def corr(ctx):
    m = ctx.model([skia_oracle])
    stats = {'evaluations': 0, 'nontrivial': set(), 'samples': [], 'disagreements': [], 'distribution': {}}
    rng = ctx.rng
    for i in range(ctx.n(800, 20000)):
        a, b = rnd_rect(rng), rnd_rect(rng)
        if rng.random() < 0.3: b = (a[0] + rng.choice([0, a[2], -b[2]]), b[1], b[2], b[3])     # touching edges
        r = Rect(*a).intersection(Rect(*b))
        impl = None if r is None else list(r)
        mod = m.call('rect_intersection', [list(a), list(b)])
        stats['evaluations'] += 1
        stats['distribution']['rect_intersection:' + ('none' if impl is None else 'some')] = stats['distribution'].get('rect_intersection:' + ('none' if impl is None else 'some'), 0) + 1
        if canon(impl) != canon(mod):
            stats['disagreements'].append({'what': 'Rect.intersection: model and implementation differ', 'input': jsonable(['rect_intersection', a, b]), 'impl': jsonable(impl), 'model': jsonable(mod)})
    for i in range(ctx.n(250, 5000)):
        vb = (rng.choice([0, -2, 3]), rng.choice([0, -2, 3]), rng.choice([6, 10]), rng.choice([6, 8]))
        shapes = shapes_for(vb, rng)
        impl = impl_clip(vb, shapes)
        mod = m.call('clip_shapes', [[F(v) for v in vb], [wire_shape(a, cmds_of(d)) for _, a, d in shapes]])
        stats['evaluations'] += 1
        for pl, _, _ in shapes: stats['distribution']['place:' + pl] = stats['distribution'].get('place:' + pl, 0) + 1
        if mod[0] == 'ok':
            mm = ['ok', [[s[18], s[5], s[3], s[14]] for s in mod[1]]]
        else: mm = mod
        if any(pl not in ('inside', 'outside') for pl, _, _ in shapes) and impl[0] == 'ok':
            stats['nontrivial'].add(json.dumps([vb, [(pl, d) for pl, _, d in shapes]]))
        if len(stats['samples']) < 4 and i % 41 == 0:
            stats['samples'].append({'viewBox': vb, 'shapes': [(pl, a, d) for pl, a, d in shapes], 'clipped': show(impl)})
        if canon(impl) != canon(mm):
            stats['disagreements'].append({'what': 'clip_to_viewbox: model and implementation differ', 'input': jsonable(['clip', vb, [[a, d] for _, a, d in shapes]]),
                                           'impl': jsonable(impl), 'model': jsonable(mm)})
            if len(stats['disagreements']) >= 10: break
    return stats

# ---------------------------------------------------------------- spec judge
def judge_clip(vb, shapes):
    impl = impl_clip(vb, shapes)
    if impl[0] != 'ok': return ('clip_to_viewbox raises', 'a clipped document', impl)
    if any(not c for c, _, _, _ in impl[1]):
        return ('shapes entirely outside the viewBox disappear', 'no shape without geometry', {'shapes': [len(c) for c, _, _, _ in impl[1]]})
    x, y, w, h = [F(v) for v in vb]
    pts = [p for p in geom.sample_points(min(x, y) - 6, max(x + w, y + h) + 6, 23)]
    src = [(geom.contours_of(cmds_of(d)), a.get('fill_rule', 'nonzero') == 'evenodd', a.get('fill', 'black'), F(a.get('opacity', 1))) for _, a, d in shapes]
    out = [(geom.contours_of(c), fr == 'evenodd', fill, op) for c, fr, fill, op in impl[1]]
    allc = [c for c, _, _, _ in src + out] + [[[(x, y), (x + w, y), (x + w, y + h), (x, y + h)]]]
    def stack(layers, pt, clip):
        res = []
        for cs, eo, fill, op in layers:
            wn = geom.winding(cs, pt)
            if wn is None: return None
            inside = (wn % 2 != 0) if eo else (wn != 0)
            if inside and (not clip or (x < pt[0] < x + w and y < pt[1] < y + h)): res.append((fill, op))
        return res
    for pt in pts:
        if any(cs and geom.dist2_to_edges(cs, pt) < F(1, 400) for cs in allc): continue
        want, got = stack(src, pt, True), stack(out, pt, False)
        if want is None or got is None: continue
        if want != got:
            return ('clipped document paints source /\\ viewBox, same paints, same order', {'point': pt, 'stack': want}, {'stack': got})
    return None

def curve_extrema(kind, pts):
    """exact-ish extrema of one quadratic/cubic Bezier (closed form roots of the derivative)"""
    import math
    xs, ys = [p[0] for p in pts], [p[1] for p in pts]
    def ext(c):
        cands = [0.0, 1.0]
        if kind == 'Q':
            d = c[0] - 2 * c[1] + c[2]
            if d: cands.append((c[0] - c[1]) / d)
            f = lambda t: (1 - t) ** 2 * c[0] + 2 * (1 - t) * t * c[1] + t * t * c[2]
        else:
            a = -c[0] + 3 * c[1] - 3 * c[2] + c[3]; b = 2 * (c[0] - 2 * c[1] + c[2]); cc = c[1] - c[0]
            if a == 0:
                if b: cands.append(-cc / b)
            else:
                disc = b * b - 4 * a * cc
                if disc >= 0: cands += [(-b + math.sqrt(disc)) / (2 * a), (-b - math.sqrt(disc)) / (2 * a)]
            f = lambda t: (1 - t) ** 3 * c[0] + 3 * (1 - t) ** 2 * t * c[1] + 3 * (1 - t) * t * t * c[2] + t ** 3 * c[3]
        vals = [f(t) for t in cands if 0 <= t <= 1]
        return min(vals), max(vals)
    (x0, x1), (y0, y1) = ext(xs), ext(ys)
    return x0, y0, x1, y1

def judge_bbox(rng):
    out = []
    for _ in range(40):
        kind = rng.choice('QC')
        n = 3 if kind == 'Q' else 4
        pts = [(float(rng.randint(-8, 8)), float(rng.randint(-8, 8))) for _ in range(n)]
        d = f'M{pts[0][0]},{pts[0][1]} {kind}' + ' '.join(f'{x},{y}' for x, y in pts[1:])
        b = SVGPath(d=d).bounding_box()
        x0, y0, x1, y1 = curve_extrema(kind, pts)
        got = (b.x, b.y, b.x + b.w, b.y + b.h)
        if max(abs(g - e) for g, e in zip(got, (x0, y0, x1, y1))) > 1e-4:
            out.append(('bounding box = true extrema of the curve', (x0, y0, x1, y1), {'d': d, 'bbox': got}))
    for _ in range(40):
        pts = [(rng.randint(-9, 9), rng.randint(-9, 9)) for _ in range(rng.randint(2, 6))]
        b = SVGPath(d=poly_d(pts)).bounding_box()
        e = (min(p[0] for p in pts), min(p[1] for p in pts), max(p[0] for p in pts), max(p[1] for p in pts))
        if (b.x, b.y, b.x + b.w, b.y + b.h) != e: out.append(('bounding box = extrema of the polygon', e, {'d': poly_d(pts), 'bbox': list(b)}))
    return out

def judge_bbox_history(rng):
    """the reported box is that of the CURRENT geometry: ask, change the shape through the same object or a derived one, ask again"""
    from picosvg.svg_transform import Affine2D
    out = []
    for _ in range(30):
        pts = [(rng.randint(-9, 9), rng.randint(-9, 9)) for _ in range(rng.randint(3, 5))]
        sp = SVGPath(d=poly_d(pts))
        sp.bounding_box()
        k = rng.randrange(4)
        if k == 0:
            dx, dy = rng.randint(1, 5), rng.randint(-5, -1)
            q = sp.move(dx, dy); want = [(x + dx, y + dy) for x, y in pts]; what = f'move({dx},{dy})'
        elif k == 1:
            q = sp.apply_transform(Affine2D(2, 0, 0, 3, 1, -1)); want = [(2 * x + 1, 3 * y - 1) for x, y in pts]; what = 'apply_transform(scale(2,3) translate)'
        elif k == 2:
            sp.move(3, 4, inplace=True); q = sp; want = [(x + 3, y + 4) for x, y in pts]; what = 'move(3,4, inplace=True)'
        else:
            sp.update_path([('M', (0.0, 0.0)), ('L', (1.0, 2.0)), ('L', (-3.0, 1.0)), ('Z', ())], inplace=True); q = sp; want = [(0, 0), (1, 2), (-3, 1)]; what = 'update_path(...)'
        b = q.bounding_box()
        e = (min(p[0] for p in want), min(p[1] for p in want), max(p[0] for p in want), max(p[1] for p in want))
        got = (b.x, b.y, b.x + b.w, b.y + b.h)
        if max(abs(g - v) for g, v in zip(got, e)) > 1e-9:
            out.append(('bounding box of the geometry as it is now (after ' + what + ')', e, {'d': poly_d(pts), 'after': what, 'bbox': got}))
    # document level: bounding_box(), in-place edit, bounding_box()
    for _ in range(6):
        svg = SVG.fromstring('<svg xmlns="http://www.w3.org/2000/svg" viewBox="0 0 20 20"><path d="M1,1 L5,1 L5,4 Z"/><path d="M2,2 L9,3 L4,8 Z"/></svg>')
        svg.bounding_box()
        svg.round_floats(0, inplace=True)
        for sh in svg.shapes(): sh.move(5, 5, inplace=True)
        b = svg.bounding_box()
        got = (b.x, b.y, b.x + b.w, b.y + b.h)
        if max(abs(g - v) for g, v in zip(got, (6, 6, 14, 13))) > 1e-9:
            out.append(('document bounding box follows in-place edits of its shapes', (6, 6, 14, 13), {'bbox': got})); break
    return out

def judge_cli(rng):
    """the command line tool with --clip_to_viewbox clips the CONVERTED document: transformed / stroked / instanced shapes near the
    border are judged on their final geometry"""
    import subprocess, os as _os
    import render
    out = []
    H = '<svg xmlns="http://www.w3.org/2000/svg" xmlns:xlink="http://www.w3.org/1999/xlink" viewBox="0 0 20 10">'
    docs = [H + '<rect x="-30" y="2" width="6" height="5" fill="red" transform="translate(35,0)"/><rect x="2" y="2" width="5" height="5" fill="blue" transform="translate(0,-30)"/></svg>',
            H + '<g transform="translate(-40,0)"><rect x="45" y="1" width="8" height="6" fill="green"/></g><line x1="2" y1="8" x2="18" y2="8" stroke="purple" stroke-width="6"/></svg>',
            H + '<defs><rect id="r" x="-20" y="-20" width="6" height="6" fill="orange"/></defs><use xlink:href="#r" x="25" y="22"/><circle cx="19" cy="5" r="4" fill="red"/></svg>']
    env = dict(_os.environ, PYTHONPATH='/repo/src', PYTHONHASHSEED='0')
    for doc in docs:
        p = subprocess.run(['/venv/bin/python', '-m', 'picosvg.picosvg', '--clip_to_viewbox'], input=doc.encode(), capture_output=True, env=env, timeout=120)
        if p.returncode != 0: continue
        res = p.stdout.decode()
        # inside the viewBox the clipped conversion paints like the source; outside it paints nothing
        r = render.compare_documents(doc, res, (0.2, 0.2, 19.6, 9.6), n=15)
        if r is not None and len(r) > 1:
            out.append(('CLI --clip_to_viewbox: inside the viewBox the result paints like the source', {'point': r[0], 'colour': r[1]}, {'colour': r[2], 'doc': doc, 'output': res[:1500]})); continue
        empty = '<svg xmlns="http://www.w3.org/2000/svg" viewBox="0 0 20 10"/>'
        for ext in ((-12, -12, 11.5, 34), (20.5, -12, 12, 34), (-12, -12, 44, 11.5), (-12, 10.5, 44, 12)):
            r = render.compare_documents(empty, res, ext, n=9)
            if r is not None and len(r) > 1:
                out.append(('CLI --clip_to_viewbox: nothing is painted outside the viewBox', {'point': r[0]}, {'colour': r[2], 'doc': doc, 'output': res[:1500]})); break
    return out

def judge_rects(rng, n):
    out = []
    for _ in range(n):
        a, b = rnd_rect(rng), rnd_rect(rng)
        r = Rect(*a).intersection(Rect(*b))
        x1, x2 = max(a[0], b[0]), min(a[0] + a[2], b[0] + b[2]); y1, y2 = max(a[1], b[1]), min(a[1] + a[3], b[1] + b[3])
        want = (x1, y1, x2 - x1, y2 - y1) if x1 < x2 and y1 < y2 else None
        if (None if r is None else tuple(r)) != want: out.append(('Rect.intersection is the overlap iff it has positive area', want, {'a': a, 'b': b, 'got': None if r is None else tuple(r)}))
        u = Rect(*a).union(Rect(*b))
        wu = (min(a[0], b[0]), min(a[1], b[1]), max(a[0] + a[2], b[0] + b[2]) - min(a[0], b[0]), max(a[1] + a[3], b[1] + b[3]) - min(a[1], b[1]))
        if tuple(u) != wu: out.append(('Rect.union is the least rectangle containing both', wu, {'a': a, 'b': b, 'got': tuple(u)}))
    return out

def search(ctx, broken, disagreements):
    rng = ctx.rng
    found, n = [], 0
    for law, exp, obs in judge_rects(rng, ctx.n(500, 5000)) + judge_bbox(rng) + judge_bbox_history(rng) + judge_cli(rng):
        found.append({'law': law, 'input': jsonable(obs), 'expected_by_spec': jsonable(exp), 'observed': jsonable(obs)})
        if len(found) >= 4: break
    n += 600
    for _ in range(ctx.n(60, 1500)):
        vb = (rng.choice([0, -2, 3]), rng.choice([0, -2, 3]), rng.choice([6, 10]), rng.choice([6, 8]))
        shapes = shapes_for(vb, rng)
        n += 1
        v = judge_clip(vb, shapes)
        if v:
            found.append({'law': v[0], 'input': {'viewBox': vb, 'shapes': jsonable([[pl, a, d] for pl, a, d in shapes])}, 'expected_by_spec': jsonable(v[1]), 'observed': jsonable(v[2])})
            if len(found) >= 6: break
    return found, {'evaluations': n}

def matches_known(v, entry): return False

def replay(ctx, w):
    if 'viewBox' in w:
        v = judge_clip(tuple(w['viewBox']), [tuple(s) for s in unjson(w['shapes'])])
        return {'fails': v is not None, 'detail': jsonable(v)}
    return {'fails': False, 'detail': 'rect/bbox witnesses are re-derived by the search'}
