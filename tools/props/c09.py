"""C09 — rewriting shapes and path data never changes the curve (engines E3, E4)."""
from fractions import Fraction as F
import itertools, math
from picosvg.svg_types import SVGPath, SVGRect, SVGCircle, SVGEllipse, SVGLine, SVGPolygon, SVGPolyline
from common import *
import pathsem
from wire import batch_calls

COQ_TARGETS = ['props/C09.vo']
ALWAYS_JUDGE = True
RULE = ("every command sequence of length <=2 (quick; thorough adds a seed-chosen eighth of those of length 3) after the initial moveto over all 20 letters on a dyadic lattice, "
        "plus random longer ones, through every rewrite; implementation output (parsed from its d string) must equal the model's "
        "command list exactly; non-trivial = sequence contains a relative command, a shorthand or z followed by drawing")
TRUSTED = ["tools/translate.py regenerates the walk callbacks, _next_pos and the index tables (gen/G_types.v, gen/G_meta.v) on every run",
           "model/Walk.v: hand model of the walk loop and method wrappers (validated by this correspondence)",
           "spec/PathSem.v: the meaning of path data, written from SVG 1.1 §8.3",
           "extraction + driver + wire glue"]
ASSUMES = ["floats as exact rationals (inputs on a dyadic lattice, where binary64 arithmetic is exact)",
           "string <-> command list codec is C10's subject; here the implementation's d output is re-read with an independent tokenizer"]

LETTERS = 'MmLlHhVvCcSsQqTtAaZz'
ARITY = pathsem.ARITY
VALS = [F(0), F(1), F(-2), F(3), F(1, 2), F(5), F(-1, 4), F(4)]

def arg_variants(c, rng=None, k=2):
    """a couple of lattice argument tuples for command letter c"""
    n = ARITY[c.upper()]
    if n == 0: return [[]]
    if c.upper() == 'A':
        return [[F(2), F(1), F(0), F(0), F(1), F(3), F(1)], [F(1), F(1), F(30), F(1), F(0), F(-2), F(0)]][:k]
    base = [[VALS[(i * 3 + 1) % len(VALS)] for i in range(n)], [VALS[(i * 5 + 2) % len(VALS)] for i in range(n)]]
    return base[:k]

def enum_paths(maxlen):
    opts = [(c, a) for c in LETTERS for a in arg_variants(c, k=(2 if c.upper() not in 'AZ' else 1))]
    for first in [('M', [F(1), F(2)]), ('m', [F(3), F(-1)])]:
        for k in range(0, maxlen + 1):
            for tail in itertools.product(opts, repeat=k):
                yield [first] + list(tail)

def rnd_path(rng, n):
    p = [(rng.choice('Mm'), [rng.choice(VALS), rng.choice(VALS)])]
    for _ in range(n):
        c = rng.choice(LETTERS)
        k = ARITY[c.upper()]
        if c.upper() == 'A':
            a = [rng.choice([F(1), F(2), F(0), F(5)]), rng.choice([F(1), F(3)]), rng.choice([F(0), F(45), F(-30)]), F(rng.randint(0, 1)), F(rng.randint(0, 1)), rng.choice(VALS), rng.choice(VALS)]
        else: a = [rng.choice(VALS) for _ in range(k)]
        p.append((c, a))
    return p

def nontrivial(p):
    body = p[1:]
    if any(c.islower() and c != 'z' for c, _ in body): return True
    if any(c.upper() in 'ST' for c, _ in body): return True
    return any(c.upper() == 'Z' and i + 1 < len(body) and body[i + 1][0].upper() != 'M' for i, (c, _) in enumerate(body))

EXACT_OPS = ['explicit_lines', 'expand_shorthand', 'absolute', 'absolute_moveto', 'relative', 'move', 'subpaths', 'round_path']
APPROX_OPS = ['arcs_to_cubics', 'as_cmd_seq']

def impl_op(op, p):
    d = pathsem.fmt(p)
    sp = SVGPath(d=d)
    try:
        if op == 'move': r = sp.move(1.5, -2.0)
        elif op == 'subpaths': return ['ok', [pathsem.parse_simple(s, num=lambda x: F(float(x))) for s in sp.subpaths()]]
        elif op == 'round_path': r = sp.round_floats(0)
        elif op == 'as_cmd_seq': r = sp.as_cmd_seq()
        else: r = getattr(sp, op)()
        return ['ok', pathsem.parse_simple(r.d, num=lambda x: F(float(x)))]
    except ValueError as ex: return ['err', 'ValueError']
    except ZeroDivisionError: return ['err', 'ZeroDivisionError']

def model_req(op, p):
    wp = [[c, list(a)] for c, a in p]
    if op == 'move': return ('move', [wp, F(3, 2), F(-2)])
    if op == 'round_path': return ('round_path', [wp, 0])
    return (op, wp)

def canon_path(p):
    return [[c, [F(x) for x in a]] for c, a in p]

def corr(ctx):
    stats = {'evaluations': 0, 'nontrivial': set(), 'samples': [], 'disagreements': [], 'distribution': {}}
    paths = list(enum_paths(2))
    if ctx.thorough:
        # all sequences of <= 2 commands, and every eighth sequence of 3 (which eighth depends on the seed): the full
        # enumeration (96 000 paths x 10 operations, single process) takes about three hours
        paths += [p for k, p in enumerate(q for q in enum_paths(3) if len(q) == 4) if k % 8 == ctx.seed % 8]
    rng = ctx.rng
    paths += [rnd_path(rng, rng.randint(3, 7)) for _ in range(ctx.n(1500, 5000))]
    # exact ops through one batch run of the model
    reqs = []
    for p in paths:
        for op in EXACT_OPS:
            if op == 'round_path' and len(reqs) % 5: pass
            reqs.append((op, p))
    answers = batch_calls(ctx.model_bin, [model_req(op, p) for op, p in reqs])
    for (op, p), mod in zip(reqs, answers):
        impl = impl_op(op, p)
        stats['evaluations'] += 1
        stats['distribution'][op] = stats['distribution'].get(op, 0) + 1
        if impl[0] == 'err':
            same = False
        elif op == 'subpaths':
            same = [canon_path(s) for s in impl[1]] == [canon_path([(c, a) for c, a in s]) for s in mod]
        else:
            same = canon_path(impl[1]) == canon_path([(c, a) for c, a in mod])
        if nontrivial(p): stats['nontrivial'].add(pathsem.fmt(p))
        if len(stats['samples']) < 6 and nontrivial(p) and stats['evaluations'] % 997 == 0:
            stats['samples'].append({'op': op, 'path': pathsem.fmt(p), 'impl': show(impl), 'model': show(mod)})
        if not same:
            stats['disagreements'].append({'what': f'{op}: model and implementation differ', 'input': jsonable([op, pathsem.fmt(p)]),
                                           'impl': jsonable(impl), 'model': jsonable(mod)})
            if len(stats['disagreements']) >= 10: return stats
    # approximate ops (arcs): co-process with the math oracle
    m = ctx.model()
    arcp = [p for p in paths if any(c in 'Aa' for c, _ in p)]
    rng.shuffle(arcp)
    for p in arcp[:ctx.n(150, 3000)]:
        for op in APPROX_OPS:
            impl = impl_op(op, p)
            mod = m.call(*model_req(op, p))
            stats['evaluations'] += 1
            stats['distribution'][op] = stats['distribution'].get(op, 0) + 1
            same = impl[0] == 'ok' and len(impl[1]) == len(mod) and all(
                ci == cm and len(ai) == len(am) and all(abs(float(x) - float(y)) <= 2e-6 * max(1, abs(float(y))) for x, y in zip(ai, am))
                for (ci, ai), (cm, am) in zip(impl[1], mod))
            if not same:
                stats['disagreements'].append({'what': f'{op}: model and implementation differ', 'input': jsonable([op, pathsem.fmt(p)]),
                                               'impl': jsonable(impl), 'model': jsonable(mod)})
                if len(stats['disagreements']) >= 10: return stats
    corr_shapes(ctx, stats)
    return stats

# ---------------------------------------------------------------- basic shapes (spec-side outlines)
def shape_cases(rng, n):
    out = []
    vals = [0.0, 1.0, 2.5, 4.0, 10.0, -3.0, 0.5]
    for _ in range(n):
        k = rng.randrange(7)
        v = lambda: rng.choice(vals)
        if k == 0: out.append(('rect', dict(x=v(), y=v(), width=abs(v()), height=abs(v()), rx=rng.choice([0.0, 0.0, 1.0, 20.0]), ry=rng.choice([0.0, 0.0, 0.5, 20.0]))))
        elif k == 1: out.append(('circle', dict(cx=v(), cy=v(), r=abs(v()))))
        elif k == 2: out.append(('ellipse', dict(cx=v(), cy=v(), rx=abs(v()), ry=abs(v()))))
        elif k == 3: out.append(('line', dict(x1=v(), y1=v(), x2=v(), y2=v())))
        elif k == 4: out.append(('polygon', dict(points=' '.join(f"{v()},{v()}" for _ in range(rng.randint(0, 4))))))
        elif k == 5: out.append(('polyline', dict(points=' '.join(f"{v()},{v()}" for _ in range(rng.randint(0, 4))))))
        else: out.append(('rect', dict(x=v(), y=v(), width=abs(v()), height=abs(v()))))
    return out

def spec_outline(kind, a):
    """the SVG 1.1 §9 outline of a basic shape as spec-side segments (arcs kept as arcs)"""
    if kind == 'rect':
        x, y, w, h = a['x'], a['y'], a['width'], a['height']
        rx, ry = a.get('rx', 0.0), a.get('ry', 0.0)
        if not rx: rx = ry
        if not ry: ry = rx
        rx, ry = min(rx, w / 2), min(ry, h / 2)
        cmds = [('M', [x + rx, y]), ('H', [x + w - rx])]
        if rx > 0: cmds.append(('A', [rx, ry, 0, 0, 1, x + w, y + ry]))
        cmds.append(('V', [y + h - ry]))
        if rx > 0: cmds.append(('A', [rx, ry, 0, 0, 1, x + w - rx, y + h]))
        cmds.append(('H', [x + rx]))
        if rx > 0: cmds.append(('A', [rx, ry, 0, 0, 1, x, y + h - ry]))
        cmds.append(('V', [y + ry]))
        if rx > 0: cmds.append(('A', [rx, ry, 0, 0, 1, x + rx, y]))
        cmds.append(('Z', []))
        return cmds
    if kind in ('circle', 'ellipse'):
        cx, cy = a['cx'], a['cy']
        rx, ry = (a['r'], a['r']) if kind == 'circle' else (a['rx'], a['ry'])
        return [('M', [cx + rx, cy]), ('A', [rx, ry, 0, 1, 1, cx - rx, cy]), ('A', [rx, ry, 0, 1, 1, cx + rx, cy]), ('Z', [])]
    if kind == 'line': return [('M', [a['x1'], a['y1']]), ('L', [a['x2'], a['y2']])]
    pts = [float(t) for t in a['points'].replace(',', ' ').split()]
    if not pts: return []
    cmds = [('M', pts[0:2])] + [('L', pts[i:i + 2]) for i in range(2, len(pts), 2)]
    if kind == 'polygon': cmds.append(('Z', []))
    return cmds

CLASSES = {'rect': SVGRect, 'circle': SVGCircle, 'ellipse': SVGEllipse, 'line': SVGLine, 'polygon': SVGPolygon, 'polyline': SVGPolyline}

def judge_shape(kind, a):
    try: d = CLASSES[kind](**a).as_path().d
    except Exception as ex: return ('as_path raises', 'a path', repr(ex))
    got = pathsem.interp(pathsem.parse_simple(d)) if d else []
    want = pathsem.interp(spec_outline(kind, a))
    if got != want: return (f'{kind} outline', want, got)
    return None

def shape_model_req(kind, a):
    f = lambda v: F(float(v))
    if kind == 'rect': return ('shape_rect', [f(a['x']), f(a['y']), f(a['width']), f(a['height']), f(a.get('rx', 0.0)), f(a.get('ry', 0.0))])
    if kind == 'ellipse': return ('shape_ellipse', [f(a['rx']), f(a['ry']), f(a['cx']), f(a['cy'])])
    if kind == 'circle': return ('shape_circle', [f(a['r']), f(a['cx']), f(a['cy'])])
    if kind == 'line': return ('shape_line', [f(a['x1']), f(a['y1']), f(a['x2']), f(a['y2'])])
    pts = [f(t) for t in a['points'].replace(',', ' ').split()]
    return ('shape_' + kind, [[pts[i], pts[i + 1]] for i in range(0, len(pts), 2)])

BUILDER_NAMES = 'MmHhVvLlCQ'

def corr_shapes(ctx, stats):
    """basic shapes and builder methods: (a) the implementation's as_path commands equal, exactly, those of the model
    regenerated from svg_types.py (gen/G_shapes.v; polygon / polyline: hand model); (b) the outline is the standard's"""
    cases = shape_cases(ctx.rng, ctx.n(300, 5000))
    answers = batch_calls(ctx.model_bin, [shape_model_req(k, a) for k, a in cases])
    for (kind, a), mod in zip(cases, answers):
        stats['evaluations'] += 1
        stats['distribution']['shape:' + kind] = stats['distribution'].get('shape:' + kind, 0) + 1
        try:
            d = CLASSES[kind](**a).as_path().d
            impl = pathsem.parse_simple(d, num=lambda x: F(float(x))) if d else []
        except Exception as ex:
            impl = ['raises', repr(ex)]
        if canon_path(impl) != canon_path([(c, x) for c, x in mod]) if impl[:1] != ['raises'] else True:
            stats['disagreements'].append({'what': f'basic shape {kind}: as_path differs from the regenerated model', 'input': jsonable(['shape', kind, a]),
                                           'impl': jsonable(impl), 'model': jsonable(mod)})
        v = judge_shape(kind, a)
        if v:
            stats['disagreements'].append({'what': f'basic shape {kind}: outline differs from the standard\'s', 'input': jsonable(['shape', kind, a]),
                                           'impl': jsonable(v[2]), 'model': jsonable(v[1])})
    # builder methods: each writes the command it is named after, with its arguments
    breqs = []
    for name in BUILDER_NAMES:
        k = ARITY[name.upper()]
        for _ in range(3):
            breqs.append((name, [ctx.rng.choice(VALS) for _ in range(k)]))
    answers = batch_calls(ctx.model_bin, [('builder', [name, args]) for name, args in breqs])
    for (name, args), mod in zip(breqs, answers):
        stats['evaluations'] += 1
        stats['distribution']['builder'] = stats['distribution'].get('builder', 0) + 1
        sp = SVGPath()
        getattr(sp, name)(*[float(x) for x in args])
        impl = pathsem.parse_simple(sp.d, num=lambda x: F(float(x)))
        want = [(name, list(args))]
        if canon_path(impl) != canon_path([(c, x) for c, x in mod]) or canon_path(impl) != canon_path(want):
            stats['disagreements'].append({'what': f'builder SVGPath.{name} does not write the command {name}', 'input': jsonable(['builder', name, args]),
                                           'impl': jsonable(impl), 'model': jsonable(mod)})

# ---------------------------------------------------------------- spec judge on the implementation
def seg_close(s1, s2, tol):
    if s1[0] != s2[0] or len(s1) != len(s2): return False
    for a, b in zip(s1[1:], s2[1:]):
        if isinstance(a, tuple):
            if abs(a[0] - b[0]) > tol or abs(a[1] - b[1]) > tol: return False
        elif abs(a - b) > tol: return False
    return True

def judge_path(p, exact=True):
    """C09 on one command list: returns list of (law, expected, observed). exact=False: the input is off the dyadic lattice
    (float rounding and the 1e-9 snap are in play), the laws that are exact equalities are taken within 1e-8 instead"""
    out = []
    same = (lambda g, w: g == w) if exact else (lambda g, w: len(g) == len(w) and all(seg_close(a, b, F(1, 10**8)) for a, b in zip(g, w)))
    base = pathsem.interp(p)
    d = pathsem.fmt(p)
    def run(op, *a):
        sp = SVGPath(d=d)
        r = getattr(sp, op)(*a)
        return pathsem.parse_simple(r.d, num=lambda x: F(float(x)))
    def lower_in(cmds): return [c for c, _ in cmds if c.islower() and c != 'z']
    for op in ('explicit_lines', 'expand_shorthand', 'absolute', 'absolute_moveto', 'relative'):
        try: q = run(op)
        except Exception as ex:
            out.append((op + ' raises', 'a path', repr(ex))); continue
        got = pathsem.interp(q)
        if len(got) != len(base) or not all(seg_close(a, b, F(1, 10**8)) for a, b in zip(got, base)):
            out.append((f'{op} describes the same curve', base, got))
        if op == 'absolute' and lower_in(q): out.append(('no lowercase command after absolute', [], q))
        if op == 'explicit_lines' and any(c.upper() in 'HV' for c, _ in q): out.append(('no H/V after explicit_lines', [], q))
        if op == 'expand_shorthand' and any(c.upper() in 'ST' for c, _ in q): out.append(('no S/T after expand_shorthand', [], q))
        if op == 'relative' and [c for c, _ in q[1:] if c.isupper() and c != 'Z']: out.append(('only relative commands after relative', [], q))
    try:
        q = run('move', 1.5, -2.0)
        got = pathsem.interp(q)
        sh = lambda pt: (pt[0] + F(3, 2), pt[1] - 2)
        want = [tuple(sh(x) if isinstance(x, tuple) else x for x in s) for s in base]
        if not same(got, want): out.append(('move shifts the curve', want, got))
    except Exception as ex: out.append(('move raises', 'a path', repr(ex)))
    # subpaths: re-reading the pieces one after another gives the same curve
    try:
        subs = SVGPath(d=d).subpaths()
        got = []
        for s in subs:
            got += pathsem.interp(pathsem.parse_simple(s, num=lambda x: F(float(x))))
        def norm(segs):
            # an explicit moveto to the point a closepath just returned to starts the same subpath
            # the standard starts implicitly there: drop it for the comparison
            out_ = []
            for sg in segs:
                if sg[0] == 'move' and out_ and out_[-1][0] == 'close' and out_[-1][2] == sg[1]: continue
                out_.append(sg)
            return out_
        if not same(norm(got), norm(base)): out.append(('subpaths split the same curve into independent pieces', base, got))
    except Exception as ex: out.append(('subpaths raises', 'pieces', repr(ex)))
    # arcs_to_cubics / as_cmd_seq: same segment structure and end points; no arcs left; only MLQCZ
    for op in ('arcs_to_cubics', 'as_cmd_seq'):
        try: q = run(op)
        except Exception as ex:
            out.append((op + ' raises', 'a path', repr(ex))); continue
        if any(c.upper() == 'A' for c, _ in q): out.append((f'no arc after {op}', [], q))
        if op == 'as_cmd_seq' and any(c not in 'MLQCZ' for c, _ in q): out.append(('as_cmd_seq uses only M L Q C Z', [], q))
        got = pathsem.interp(q)
        # collapse: compare the sequence of non-arc segments and the on-curve points
        def skeleton(segs):
            sk = []
            for s in segs:
                if s[0] == 'arc':
                    if s[1] == s[-1]: continue                      # zero-length arc: nothing
                    sk.append(('curve-to', s[-1]))
                else: sk.append(s)
            return sk
        want = skeleton(base)
        # in `got`, runs of cubics/lines replacing an arc end at the arc's end point: walk both
        i = 0; ok = True
        for w in want:
            if w[0] == 'curve-to':
                end = None
                while i < len(got) and got[i][0] in ('cubic', 'line'):
                    end = got[i][-1]; i += 1
                    if abs(end[0] - w[1][0]) <= F(1, 10**6) and abs(end[1] - w[1][1]) <= F(1, 10**6): break
                if end is None or abs(end[0] - w[1][0]) > F(1, 10**6) or abs(end[1] - w[1][1]) > F(1, 10**6): ok = False; break
            else:
                if i >= len(got) or not seg_close(got[i], w, F(1, 10**6)): ok = False; break
                i += 1
        if not ok or i != len(got): out.append((f'{op} keeps every non-arc segment and ends each arc at its end point', want, got))
        elif op == 'arcs_to_cubics':
            # geometry: the cubics that replace a proper arc lie on its (radius-corrected) ellipse
            from props.c12 import cubics_on_arc
            i = 0
            for sgm in base:
                if sgm[0] != 'arc':
                    i += 1; continue
                _, st, rx, ry, rot, fa, fs, en = sgm
                if st == en: continue
                run_ = []
                while i < len(got) and got[i][0] in ('cubic', 'line'):
                    g = got[i]; i += 1
                    run_.append(g)
                    if abs(g[-1][0] - en[0]) <= F(1, 10**6) and abs(g[-1][1] - en[1]) <= F(1, 10**6): break
                if rx == 0 or ry == 0 or any(g[0] != 'cubic' for g in run_): continue
                fl = lambda pt: (float(pt[0]), float(pt[1]))
                v = cubics_on_arc(float(st[0]), float(st[1]), float(rx), float(ry), float(rot), int(fa), int(fs), float(en[0]), float(en[1]),
                                  [(fl(g[2]), fl(g[3]), fl(g[4])) for g in run_])
                if v:
                    out.append(('arcs_to_cubics traces each arc: ' + v[0], v[1], v[2])); break
    # rounding moves no coordinate by more than half a unit in the last place
    try:
        for nd in (0, 1):
            q = pathsem.parse_simple(SVGPath(d=d).round_floats(nd).d, num=lambda x: F(float(x)))
            orig = pathsem.parse_simple(d, num=lambda x: F(float(x)))
            for (c1, a1), (c2, a2) in zip(orig, q):
                if c1 != c2 or any(abs(x - y) > F(1, 2 * 10**nd) for x, y in zip(a1, a2)):
                    out.append((f'round_floats({nd}) moves coordinates by at most half a unit', orig, q)); break
    except Exception as ex: out.append(('round_floats raises', 'a path', repr(ex)))
    return out

def near_closing_paths():
    """a segment of every drawing letter, absolute and relative, that ends within 1e-9 of its subpath start without
    being on it (what float noise produces; here with exact offsets): the rewrites snap it onto the start"""
    out = []
    e1, e2 = F(1, 10**10), F(-2, 10**10)
    sx, sy = F(1), F(1)
    # ... and segments that end NEAR the start but farther than 1e-9 away (1e-6, 5e-4): those must be left where they are
    for eps in ((e1, e2), (-e1, F(0)), (F(0), e1), (F(1, 10**6), F(-1, 10**6)), (F(5, 10**4), F(3, 10**4)), (F(-5, 10**4), F(0)), (F(0), F(5, 10**4))):
        ex, ey = sx + eps[0], sy + eps[1]                    # where the closing segment ends
        for L in 'LHVCSQTA':
            if L == 'H':
                if eps[1] != 0: continue
                pre = [('M', [sx, sy]), ('L', [F(4), sy])]; cur = (F(4), sy)
            elif L == 'V':
                if eps[0] != 0: continue
                pre = [('M', [sx, sy]), ('L', [sx, F(3)])]; cur = (sx, F(3))
            else:
                pre = [('M', [sx, sy]), ('L', [F(4), sy]), ('Q', [F(5), F(2), F(4), F(3)])]; cur = (F(4), F(3))
            absargs = {'L': [ex, ey], 'H': [ex], 'V': [ey], 'C': [F(3), F(4), F(0), F(2), ex, ey], 'S': [F(0), F(2), ex, ey],
                       'Q': [F(2), F(4), ex, ey], 'T': [ex, ey], 'A': [F(2), F(3), F(0), F(0), F(1), ex, ey]}[L]
            xs, ys = pathsem_coords(L)
            rel = [v - (cur[0] if k in xs else cur[1] if k in ys else 0) for k, v in enumerate(absargs)]
            for cmd in ((L, absargs), (L.lower(), rel)):
                for tail in ([], [('Z', [])], [('z', []), ('l', [F(2), F(2)])]):
                    out.append(pre + [cmd] + tail)
    return out

def pathsem_coords(L):
    return {'L': ([0], [1]), 'H': ([0], []), 'V': ([], [0]), 'C': ([0, 2, 4], [1, 3, 5]), 'S': ([0, 2], [1, 3]), 'Q': ([0, 2], [1, 3]),
            'T': ([0], [1]), 'A': ([5], [6])}[L]

def search(ctx, broken, disagreements):
    found, n = [], 0
    cands = []
    for dgr in disagreements:
        try:
            inp = unjson(dgr['input'])
            if inp[0] in EXACT_OPS + APPROX_OPS: cands.append(pathsem.parse_simple(inp[1], num=lambda x: F(float(x))))
        except Exception: pass
    cands += list(enum_paths(2))
    rng = ctx.rng
    cands += [rnd_path(rng, rng.randint(3, 6)) for _ in range(ctx.n(300, 5000))]
    seen = set()
    nc = near_closing_paths()
    for p in nc + cands:
        n += 1
        for law, exp, obs in judge_path(p, exact=(n > len(nc))):
            key = law
            if key in seen: continue
            seen.add(key)
            found.append({'law': law, 'input': {'d': pathsem.fmt(p)}, 'expected_by_spec': show(jsonable(exp))[:6] if isinstance(exp, list) else exp,
                          'observed': show(jsonable(obs))[:6] if isinstance(obs, list) else obs})
        if len(found) >= 12: break
    for kind, a in shape_cases(rng, 300):
        n += 1
        v = judge_shape(kind, a)
        if v and ('shape', v[0]) not in seen:
            seen.add(('shape', v[0]))
            found.append({'law': v[0], 'input': {'shape': kind, 'attrs': a}, 'expected_by_spec': jsonable(v[1]), 'observed': jsonable(v[2])})
    return found, {'evaluations': n}

def matches_known(v, entry):
    sig = entry.get('signature', {})
    pat = sig.get('pattern')
    d = v['input'].get('d', '')
    cmds = pathsem.parse_simple(d, num=float) if d else []
    letters = [c for c, _ in cmds]
    if pat == 'arc_then_shorthand' and v['law'].startswith('arcs_to_cubics'):
        return any(a.upper() == 'A' and b.upper() in 'ST' for a, b in zip(letters, letters[1:]))
    return False

def replay(ctx, w):
    if 'builder' in w:
        sp = SVGPath()
        getattr(sp, w['builder'])(*[float(x) for x in w['args']])
        got = pathsem.parse_simple(sp.d, num=float)
        want = [(w['builder'], [float(x) for x in w['args']])]
        return {'fails': [(c, list(a)) for c, a in got] != want, 'detail': {'written': sp.d}}
    if 'shape' in w:
        v = judge_shape(w['shape'], w['attrs'])
        return {'fails': v is not None, 'detail': v}
    p = pathsem.parse_simple(w['d'], num=lambda x: F(float(x)))
    on_lattice = all(x.denominator <= 1024 for _, a in p for x in a)
    vs = judge_path(p, exact=on_lattice)
    if 'law' in w: vs = [v for v in vs if v[0] == w['law']]
    return {'fails': bool(vs), 'detail': show(jsonable(vs))[:3]}
