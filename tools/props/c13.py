"""C13 — boolean path operations compute the set operation under each operand's fill rule (E5 pathops)."""
from fractions import Fraction as F
import itertools
import pathops
from picosvg import svg_pathops
from picosvg.svg_types import SVGPath
from common import *
import geom, pathsem
from skia_oracle import skia_oracle

COQ_TARGETS = ['props/C13.vo']
ALWAYS_JUDGE = True      # the engine contract itself is only supported empirically: sampled on every run
RULE = ("tuples of 1-4 lattice polygons (convex, self-intersecting, multi-contour, open) x a fill rule per operand x union/intersection/"
        "difference/remove_overlaps; the model runs the SAME engine through the oracle, so the returned commands must be identical; "
        "non-trivial = operands' interiors overlap and at least one operand differs between the two fill rules")
TRUSTED = ["model/Skia.v: hand model of svg_pathops.py's wrapper logic (which calls, fill types, operand order, fallbacks)",
           "tools/skia_oracle.py: answers the model's engine calls by calling skia-pathops directly",
           "THE ENGINE CONTRACT (proofs/E5_pathops.v hypotheses op_contract, simplify_contract): assumed, sampled by exact winding numbers"]
ASSUMES = ["Skia computes the set operation of the operands' interiors (sampled outside a 0.4% band, not proved)"]

ENGINE_FAILS = ['M7,7 C4,10 10,0 7,6 L5,0 C9,9 8,1 4,9 C7,2 9,8 9,9 Q8,10 1,3 Z']

def poly(rng):
    k = rng.random()
    ox, oy = rng.randint(0, 6), rng.randint(0, 6)
    if rng.random() < 0.08:
        # an operand with no interior at all: a lone moveto, or a moveto and a single line (closed or not)
        cmds = [['M', [F(ox), F(oy)]]]
        if k < 0.7: cmds.append(['L', [F(ox + rng.randint(1, 6)), F(oy + rng.randint(0, 6))]])
        if k < 0.3: cmds.append(['Z', []])
        return cmds
    def sq(x, y, s, ccw=True):
        pts = [(x, y), (x + s, y), (x + s, y + s), (x, y + s)]
        if not ccw: pts.reverse()
        return pts
    if k < 0.3: cs = [sq(ox, oy, rng.randint(2, 6), rng.random() < 0.5)]
    elif k < 0.5:  # nested squares, same or opposite direction: rules differ
        s = rng.randint(4, 8); cs = [sq(ox, oy, s), sq(ox + 1, oy + 1, s - 2, rng.random() < 0.5)]
    elif k < 0.7:  # bow-tie / pentagram-like self intersection
        cs = [[(ox, oy), (ox + 6, oy + 6), (ox + 6, oy), (ox, oy + 6)]] if rng.random() < 0.5 else \
             [[(ox + 3, oy), (ox + 5, oy + 6), (ox, oy + 2), (ox + 6, oy + 2), (ox + 1, oy + 6)]]
    elif k < 0.85: cs = [sq(ox, oy, 3), sq(ox + 2, oy + 2, 3)]
    else: cs = [[(ox, oy), (ox + rng.randint(2, 6), oy + 1), (ox + 1, oy + rng.randint(2, 6))]]
    cmds = []
    for k_, c in enumerate(cs):
        if k_ > 0 and cmds and cmds[-1][0] == 'Z' and rng.random() < 0.3:
            # no moveto: the new subpath starts where the closed one started; go to the contour's first point by a line from there
            cmds.append(['L', [F(c[0][0]), F(c[0][1])]])
        else:
            cmds.append(['M', [F(c[0][0]), F(c[0][1])]])
        for p in c[1:]: cmds.append(['L', [F(p[0]), F(p[1])]])
        if rng.random() < 0.85: cmds.append(['Z', []])
    return cmds

def impl_pathop(op, operands):
    seqs = [[(c, tuple(float(x) for x in a)) for c, a in p] for p, _ in operands]
    rules = ['evenodd' if e else 'nonzero' for _, e in operands]
    try:
        if op == 'remove_overlaps': r = svg_pathops.remove_overlaps(seqs[0], rules[0])
        else: r = getattr(svg_pathops, op)(seqs, rules)
        if r is None: return ['ok', None]
        return ['ok', [[c, [F(x) for x in a]] for c, a in r]]
    except pathops.PathOpsError: return ['err', 'Other']
    except ValueError: return ['err', 'ValueError']

def differs_between_rules(p):
    cs = geom.contours_of(p)
    for pt in geom.sample_points(0, 14, 9):
        w = geom.winding(cs, pt)
        if w is not None and (w != 0) != (w % 2 != 0): return True
    return False

def corr(ctx):
    m = ctx.model([skia_oracle])
    stats = {'evaluations': 0, 'nontrivial': set(), 'samples': [], 'disagreements': [], 'distribution': {}}
    rng = ctx.rng
    for i in range(ctx.n(500, 10000)):
        op = rng.choice(['union', 'intersection', 'difference', 'remove_overlaps'])
        n = 1 if op == 'remove_overlaps' else rng.randint(1, 4)
        operands = [(poly(rng), rng.random() < 0.5) for _ in range(n)]
        if rng.random() < 0.03: operands[0][0].append(['A', [F(1)] * 7])      # a command Skia has no mapping for
        impl = impl_pathop(op, operands)
        if op == 'remove_overlaps': mod = m.call('remove_overlaps', [operands[0][0], operands[0][1]])
        else: mod = m.call('do_pathop', [op, [[p, e] for p, e in operands]])
        stats['evaluations'] += 1
        stats['distribution'][f'{op}/{n}'] = stats['distribution'].get(f'{op}/{n}', 0) + 1
        if impl[0] == 'err': stats['distribution']['err:' + impl[1]] = stats['distribution'].get('err:' + impl[1], 0) + 1
        same = canon(impl) == canon(mod)
        if impl[0] == 'ok' and n >= 2 and any(differs_between_rules(p) for p, _ in operands):
            stats['nontrivial'].add(json.dumps(jsonable([op, operands])))
        if len(stats['samples']) < 4 and n >= 2 and impl[0] == 'ok' and i % 37 == 0:
            stats['samples'].append({'op': op, 'operands': show(operands), 'impl': show(impl)})
        if not same:
            stats['disagreements'].append({'what': f'{op}: model and implementation differ', 'input': jsonable([op, operands]),
                                           'impl': jsonable(impl), 'model': jsonable(mod)})
            if len(stats['disagreements']) >= 10: break
    # paths the engine is known to give up on: the wrappers must report the failure, not return something
    for d in ENGINE_FAILS:
        ops = [[c, [F(x) for x in a]] for c, a in pathsem.parse_simple(d)]
        for rule in (False, True):
            impl = impl_pathop('remove_overlaps', [(ops, rule)])
            mod = m.call('remove_overlaps', [ops, rule])
            stats['evaluations'] += 1
            stats['distribution']['engine_failure_corpus'] = stats['distribution'].get('engine_failure_corpus', 0) + 1
            if canon(impl) != canon(mod):
                stats['disagreements'].append({'what': 'remove_overlaps on a path the engine cannot simplify: model and implementation differ', 'input': jsonable(['remove_overlaps', d, rule]),
                                               'impl': jsonable(impl), 'model': jsonable(mod)})
    # the shape-level wrappers of svg_types take each operand under its clip-rule (not its fill-rule)
    from picosvg import svg_types
    for i in range(ctx.n(120, 2000)):
        op = rng.choice(['union', 'intersection', 'difference'])
        n = rng.randint(1, 3)
        operands = [(poly(rng), rng.random() < 0.5, rng.random() < 0.5) for _ in range(n)]      # (commands, clip evenodd, fill evenodd)
        shapes = [SVGPath(d=pathsem.fmt([(c, a) for c, a in p]), clip_rule='evenodd' if ce else 'nonzero', fill_rule='evenodd' if fe else 'nonzero') for p, ce, fe in operands]
        try: impl = ['ok', [[c, [F(x) for x in a]] for c, a in getattr(svg_types, op)(shapes)]]
        except pathops.PathOpsError: impl = ['err', 'Other']
        except ValueError: impl = ['err', 'ValueError']
        mod = m.call('do_pathop', [op, [[p, ce] for p, ce, _ in operands]])
        stats['evaluations'] += 1
        stats['distribution'][f'svg_types.{op}'] = stats['distribution'].get(f'svg_types.{op}', 0) + 1
        if any(ce != fe for _, ce, fe in operands) and impl[0] == 'ok': stats['nontrivial'].add(json.dumps(jsonable(['wrapper', op, operands])))
        if canon(impl) != canon(mod):
            stats['disagreements'].append({'what': f'svg_types.{op}: the operands must be taken under their clip-rule', 'input': jsonable(['svg_types.' + op, operands]),
                                           'impl': jsonable(impl), 'model': jsonable(mod)})
            if len(stats['disagreements']) >= 10: break
    return stats

def opsem(op, vals):
    if op == 'union': return any(vals)
    if op == 'intersection': return all(vals)
    if op == 'difference': return vals[0] and not any(vals[1:])
    return vals[0]

def judge(op, operands):
    impl = impl_pathop(op, operands)
    if impl[0] != 'ok' or impl[1] is None: return None
    res = impl[1]
    if any(c not in 'MLZ' for c, _ in res): return None       # curved result: outside the exact evaluator
    allc = [geom.contours_of(p) for p, _ in operands] + [geom.contours_of(res)]
    for pt in geom.sample_points(-1, 15, 13):
        if any(geom.dist2_to_edges(cs, pt) is not None and geom.dist2_to_edges(cs, pt) < F(16 * 16 * 16, 10**6) for cs in allc if cs): continue
        vals = [geom.inside(p, e, pt) for p, e in operands]
        want = opsem(op, vals)
        got_nz, got_eo = geom.inside(res, False, pt), geom.inside(res, True, pt)
        if got_nz != want or got_eo != want:
            return (f'{op}: result interior = set operation of the operands under their own rules, under either result rule',
                    {'point': pt, 'expected_inside': want}, {'nonzero': got_nz, 'evenodd': got_eo, 'result': res})
    return None

def search(ctx, broken, disagreements):
    rng = ctx.rng
    found, n = [], 0
    cands = []
    for d in disagreements:
        try: cands.append(tuple(unjson(d['input'])))
        except Exception: pass
    for _ in range(ctx.n(400, 6000)):
        op = rng.choice(['union', 'intersection', 'difference', 'remove_overlaps'])
        k = 1 if op == 'remove_overlaps' else rng.randint(1, 3)
        cands.append((op, [(poly(rng), rng.random() < 0.5) for _ in range(k)]))
    for op, operands in cands:
        n += 1
        operands = [(p, e) for p, e in operands]
        v = judge(op, operands)
        if v:
            found.append({'law': v[0], 'input': {'op': op, 'operands': jsonable(operands)}, 'expected_by_spec': jsonable(v[1]), 'observed': jsonable(v[2])})
            if len(found) >= 3: break
    return found, {'evaluations': n}

def matches_known(v, entry): return False

def replay(ctx, w):
    operands = [(p, e) for p, e in unjson(w['operands'])]
    v = judge(w['op'], operands)
    return {'fails': v is not None, 'detail': jsonable(v), 'impl': jsonable(impl_pathop(w['op'], operands))}
