"""C16 — output bytes depend only on input bytes and options (E6 determinism)."""
import hashlib, itertools, os, random, subprocess, sys
from concurrent.futures import ThreadPoolExecutor
from picosvg.svg import SVG
import picosvg.svg as psvg
from common import *
import docgen
from props.c05 import impl_inherit, wire_map, canon_map, rnd_map, COPY_KEYS

COQ_TARGETS = ['props/C16.vo']
ALWAYS_JUDGE = True
RULE = ("(a) _inherit_attrib with the parent's attributes inserted in every one of up to 24 orders: all results identical and equal to the model; "
        "every query of the lru_cache'd _inherited_attrib during conversions is observed (wrapper installed by the harness): each phase starts "
        "with cache_clear, no key is queried twice in a phase, and each cached answer equals the uncached function at that moment; "
        "(b) documents converted in fresh processes under PYTHONHASHSEED in {0,1,2,7,random}, and as a batch in one long-lived process in "
        "several orders: sha256 of each output equals that of the document converted alone")
TRUSTED = ["model/Memo.v (memoisation as a state machine), model/Inherit.v", "tools/inventory.py: inventory of caches / module state / hash-order constructs, regenerated and pinned on every run",
           "tools/c16_worker.py subprocess worker"]
ASSUMES = ["hash randomisation, process boundaries and the interpreter are outside any model: they are exercised by the multi-process judge only (partial)"]
WORKER = os.path.join(os.path.dirname(os.path.dirname(__file__)), 'c16_worker.py')

def corr(ctx):
    rng = ctx.rng
    m = ctx.model()
    stats = {'evaluations': 0, 'nontrivial': set(), 'samples': [], 'disagreements': [], 'distribution': {}}
    # (a) attribute order
    for i in range(ctx.n(150, 2000)):
        attrib, child = rnd_map(rng, p=0.4), rnd_map(rng, p=0.2)
        tag = rng.choice(['g', 'path', 'rect', 'dummy'])
        su = True
        keys = list(attrib)
        perms = list(itertools.permutations(keys)) if len(keys) <= 4 else [tuple(rng.sample(keys, len(keys))) for _ in range(24)]
        mod = m.call('inherit_attrib', [wire_map(attrib), tag, wire_map(child), su, []])
        mm = ['ok', canon_map(mod[1])] if mod[0] == 'ok' else mod
        results = []
        for p in perms[:24]:
            results.append(impl_inherit({k: attrib[k] for k in p}, tag, dict(child), su, []))
        stats['evaluations'] += len(results)
        stats['distribution']['inherit_attrib orders'] = stats['distribution'].get('inherit_attrib orders', 0) + len(results)
        if len(keys) >= 2: stats['nontrivial'].add(json.dumps([attrib, tag, child], sort_keys=True))
        for p, r in zip(perms, results):
            if canon(jsonable(r)) != canon(jsonable(mm)):
                stats['disagreements'].append({'what': '_inherit_attrib depends on attribute order or differs from the model', 'input': jsonable(['inherit_attrib', list(p), attrib, tag, child]),
                                               'impl': jsonable(r), 'model': jsonable(mm)})
                break
        if len(stats['disagreements']) >= 10: return stats
    # (b) memoisation discipline, observed on real conversions
    cached = psvg.SVG._inherited_attrib
    raw = cached.__wrapped__
    events = []
    class Probe:
        def __init__(self): self.phase_keys = set()
        def __get__(self, obj, cls):
            probe = self
            def call(el):
                key = (id(obj), id(el))
                hit_before = cached.cache_info().hits
                v = cached(obj, el)
                events.append(('call', key in probe.phase_keys, cached.cache_info().hits > hit_before, dict(v) == dict(raw(obj, el))))
                probe.phase_keys.add(key)
                return v
            def cache_clear():
                events.append(('clear',)); probe.phase_keys.clear(); cached.cache_clear()
            call.cache_clear = cache_clear
            call.cache_info = cached.cache_info
            return call
    psvg.SVG._inherited_attrib = Probe()
    try:
        docs = 0
        for i in range(ctx.n(60, 600)):
            doc = docgen.random_doc(rng, uses=0.4, strokes=0.4)
            try: SVG.fromstring(doc).topicosvg().tostring()
            except Exception: pass
            docs += 1
    finally:
        psvg.SVG._inherited_attrib = cached
    calls = [e for e in events if e[0] == 'call']
    stats['evaluations'] += len(calls)
    stats['distribution']['memo calls'] = len(calls); stats['distribution']['memo clears'] = sum(1 for e in events if e[0] == 'clear')
    stats['nontrivial'].add(f'memo:{len(calls)}')
    seen_clear = False
    for k, e in enumerate(events):
        if e[0] == 'clear': seen_clear = True; continue
        bad = None
        if not seen_clear: bad = 'query before any cache_clear'
        elif e[1]: bad = 'key queried twice within one phase (a cached answer could be stale)'
        elif e[2]: bad = 'cache hit although the phase started with cache_clear'
        elif not e[3]: bad = 'cached answer differs from the uncached function'
        if bad:
            stats['disagreements'].append({'what': 'lru_cache discipline of _inherited_attrib violated: ' + bad, 'input': jsonable(['memo', k]), 'impl': bad, 'model': 'clear-before-use, one query per key and phase'})
            break
    if len(stats['samples']) < 2: stats['samples'].append({'memo_events': len(events), 'documents': docs})
    return stats

# ---------------------------------------------------------------- multi-process judge
def run_worker(jobs, seed):
    env = dict(os.environ, PYTHONPATH='/repo/src', PYTHONHASHSEED=str(seed))
    p = subprocess.run(['/venv/bin/python', WORKER], input=json.dumps(jobs).encode(), capture_output=True, env=env, timeout=600)
    if p.returncode != 0: return [['crash', p.stderr.decode()[-300:], '']] * len(jobs)
    return json.loads(p.stdout.decode())

def search(ctx, broken, disagreements):
    rng = ctx.rng
    ndocs = ctx.n(10, 60)
    docs = []
    for i in range(ndocs):
        kw = [dict(gradients=0.6, uses=0.5), dict(strokes=0.5, clips=0.5), dict(shared_ids=True, nested=0.3), dict(unsupported=0.05)][i % 4]
        docs.append([docgen.random_doc(rng, **kw), rng.choice([3, 3, 0, 6])])
    found, n = [], 0
    seeds = ['0', '1', '2', '7', 'random'] if not ctx.thorough else ['0', '1', '2', '3', '7', '42', '1000', 'random', 'random']
    # reference: each document alone, fresh process, seed 0
    with ThreadPoolExecutor(max_workers=14) as ex:
        alone = list(ex.map(lambda d: run_worker([d], '0')[0], docs))
        n += len(docs)
        # fresh processes under other hash seeds
        jobs = [(i, s) for i in range(len(docs)) for s in seeds[1:]]
        res = list(ex.map(lambda js: run_worker([docs[js[0]]], js[1])[0], jobs))
        n += len(jobs)
        for (i, s), r in zip(jobs, res):
            if r[:2] != alone[i][:2] and len(found) < 4:
                found.append({'law': 'output bytes do not vary with hash randomisation / process', 'input': {'doc': docs[i][0], 'ndigits': docs[i][1], 'mode': f'fresh process, PYTHONHASHSEED={s}'},
                              'expected_by_spec': jsonable(alone[i][:2]), 'observed': jsonable(r[:2])})
        # long-lived process: the whole batch in several orders
        orders = [list(range(len(docs))), list(reversed(range(len(docs))))] + [rng.sample(range(len(docs)), len(docs)) for _ in range(ctx.n(2, 8))]
        orders.append(list(range(len(docs))) * 2)          # every document a second time in the same process
        batch = list(ex.map(lambda o: run_worker([docs[i] for i in o], rng.choice(['0', '5'])), orders))
        for o, rs in zip(orders, batch):
            n += len(o)
            for pos, (i, r) in enumerate(zip(o, rs)):
                if r[:2] != alone[i][:2] and len(found) < 4:
                    found.append({'law': "a document's output does not depend on the documents converted earlier in the same process",
                                  'input': {'doc': docs[i][0], 'ndigits': docs[i][1], 'mode': f'position {pos} of a batch', 'earlier': [docs[j][0] for j in o[:pos]][-3:]},
                                  'expected_by_spec': jsonable(alone[i][:2]), 'observed': jsonable(r[:2])})
    return found, {'evaluations': n, 'distribution': {'documents': len(docs), 'hash seeds': len(seeds), 'batch orders': len(orders)}}

def matches_known(v, entry):
    return False

def replay(ctx, w):
    a = run_worker([[w['doc'], w.get('ndigits', 3)]], '0')[0]
    outs = {tuple(a[:2])}
    for s in ('1', '2', '7', 'random'): outs.add(tuple(run_worker([[w['doc'], w.get('ndigits', 3)]], s)[0][:2]))
    if w.get('earlier'):
        r = run_worker([[d, 3] for d in w['earlier']] + [[w['doc'], w.get('ndigits', 3)]], '0')[-1]
        outs.add(tuple(r[:2]))
    return {'fails': len(outs) > 1, 'detail': jsonable(sorted(outs))}
