"""C15 — an SVG object always equals its serialisation, whatever the operation history (engine E6)."""
import copy, itertools, json
from lxml import etree
from picosvg.svg import SVG
from common import *

COQ_TARGETS = ['props/C15.vo']
ALWAYS_JUDGE = False
RULE = ("histories over the public operations x {in-place, copy} on a document corpus: all histories of length <=2 (quick) / <=3 (thorough) "
        "plus random ones up to length 8; the lazily cached object's final canonical XML must equal the 'serialise and re-parse between "
        "every two steps' reference, in-place operations return the receiver, copies leave the receiver's serialisation unchanged; "
        "non-trivial = the history contains a cache edit followed by a tree operation or a copy")
TRUSTED = ["tools/skeletons.py: extracts each public method's cache-bookkeeping skeleton from svg.py on every run (gen/G_skeletons.v)",
           "model/ObjCache.v: abstract cache/tree state machine; populate/flush/tree functions are Section variables with the three stated laws",
           "lxml: parse(tostring(tree)) = tree up to canonical XML"]
ASSUMES = ["populate(flush t c) = c and flush(flush t c) c' = flush t c' for the shape dataclasses (exercised by the history differential)"]

DOCS = {
 'shapes': '<svg xmlns="http://www.w3.org/2000/svg" viewBox="0 0 10 10"><rect x="1" y="1" width="4" height="4" fill="red"/><circle cx="5" cy="5" r="2" style="fill:blue;opacity:0.5"/><path d="M1,1 l2,0 v2 z" fill="black"/></svg>',
 'groups': '<svg xmlns="http://www.w3.org/2000/svg" viewBox="0 0 20 20"><g transform="translate(2,3)" opacity="0.5"><rect width="4" height="4"/><path d="M0,0 h5 v5 z" fill-rule="evenodd"/></g><g><line x1="0" y1="0" x2="5" y2="5" stroke="black"/></g></svg>',
 'use': '<svg xmlns="http://www.w3.org/2000/svg" xmlns:xlink="http://www.w3.org/1999/xlink" viewBox="0 0 20 20"><defs><rect id="r" width="3" height="3"/></defs><use xlink:href="#r" x="5" y="5"/><use xlink:href="#r" transform="scale(2)"/><title>t</title><desc>d</desc></svg>',
 'nested': '<svg xmlns="http://www.w3.org/2000/svg" viewBox="0 0 20 20"><svg x="2" y="2" width="10" height="10" viewBox="0 0 5 5"><rect width="5" height="5" fill="green"/></svg><polygon points="1,1 4,1 4,4"/></svg>',
 'noise': '<svg xmlns="http://www.w3.org/2000/svg" xmlns:foo="http://foo" viewBox="0 0 8 8"><?pi x?><symbol><rect width="1" height="1"/></symbol><foo:bar/><path d="M0,0 L4,0 4,4 0,4 z M1,1 L3,1 3,3 1,3 z" fill-rule="evenodd" foo:attr="1"/><ellipse cx="4" cy="4" rx="2" ry="1" stroke="red" stroke-width="0.5" fill="none"/></svg>',
 'styled': '<svg xmlns="http://www.w3.org/2000/svg" viewBox="0 0 10 10"><g fill="red"><rect width="2" height="2" style="fill:black;stroke:none;bogus:1"/><rect x="3" width="2" height="2" fill="black" style="opacity:1"/></g><path d="M0,0 L1,1" style="fill-opacity:1.0"/></svg>',
 'unpainted': '<svg xmlns="http://www.w3.org/2000/svg" viewBox="0 0 10 10"><path d="M1,1"/><rect width="3" height="3" fill="none"/><g opacity="0.5"><rect x="4" width="3" height="3"/><path d="M0,0 L5,0" /></g><circle cx="5" cy="5" r="1"/></svg>',
 'group_style': '<svg xmlns="http://www.w3.org/2000/svg" viewBox="0 0 10 10"><g style="fill:red;fill-rule:evenodd"><rect x="1" y="1" width="4" height="4"/><circle cx="6" cy="6" r="2" fill="blue"/></g></svg>',
 'pico': '<svg xmlns="http://www.w3.org/2000/svg" viewBox="0 0 10 10"><defs/><path d="M1,1 L5,1 L5,5 Z" fill="red"/><path d="M-5,-5 L-1,-5 L-1,-1 Z"/></svg>',
}

def OP(name, *a, **k):
    return (name, a, k)

OPS = [
 OP('absolute'), OP('shapes_to_paths'), OP('expand_shorthand'), OP('apply_style_attributes'), OP('resolve_use'),
 OP('simplify'), OP('clip_to_viewbox'), OP('evenodd_to_nonzero_winding'), OP('round_floats', 1), OP('remove_empty_subpaths'),
 OP('remove_unpainted_shapes'), OP('remove_nonsvg_content'), OP('remove_processing_instructions'), OP('remove_anonymous_symbols'),
 OP('remove_title_meta_desc'), OP('set_attributes', (('fill', 'purple'),), xpath='//svg:rect | //svg:path'),
 OP('remove_attributes', ('fill',), xpath='//svg:rect | //svg:path'), OP('normalize_opacity'), OP('resolve_nested_svgs'),
 OP('set_attributes', (('fill', 'orange'), ('stroke', 'none')), xpath='//svg:g'), OP('set_attributes', (('fill', 'green'),), xpath='/svg:svg'),
 OP('remove_attributes', ('fill', 'opacity'), xpath='//svg:g'),
 OP('topicosvg'),
]
QUERIES = [OP('shapes'), OP('bounding_box'), OP('view_box'), OP('tostring'), OP('checkpicosvg')]

def c14n(s):
    return etree.tostring(etree.fromstring(s.encode()), method='c14n')

def op_name(op):
    """unique display name: the k-th operation of the same method gets a #k suffix"""
    same = [o for o in OPS + QUERIES if o[0] == op[0]]
    return op[0] if same.index(op) == 0 else f'{op[0]}#{same.index(op)}'

def label(step):
    op, mode = step
    return f"{op_name(op)}{'' if mode == 'query' else ('!' if mode == 'inplace' else '()')}"

def _path_of(el, root):
    idx = []
    while el is not root:
        parent = el.getparent()
        if parent is None: return None
        idx.append(parent.index(el)); el = parent
    return list(reversed(idx))

def snapshot(obj):
    """serialisation of obj WITHOUT touching it (no flush of its cache): rebuild an equivalent
    object on a deep copy of the tree, with the cached shapes re-attached by tree position"""
    root2 = copy.deepcopy(obj.svg_root)
    new = SVG(root2)
    if obj.elements:
        elems = []
        for el, shapes in obj.elements:
            p = _path_of(el, obj.svg_root)
            if p is None: return b'<detached-cache-entry/>'
            e2 = root2
            for i in p: e2 = e2[i]
            elems.append((e2, copy.deepcopy(shapes)))
        new.elements = elems
    return c14n(new.tostring())

def run_lazy(doc, history):
    """returns ('ok', xml, notes) | ('exc', type) ; notes = contract violations observed on the way"""
    notes = []
    obj = SVG.fromstring(doc)
    for (name, a, k), mode in history:
        f = getattr(obj, name)
        try:
            if mode == 'query':
                f(*a, **k)
            elif mode == 'inplace':
                r = f(*a, **k, inplace=True)
                if r is not obj: notes.append(f'{name}(inplace=True) returned {type(r).__name__} instead of the receiver')
            else:
                snap = snapshot(obj)
                r = f(*a, **k)
                after = snapshot(obj)
                if snap != after: notes.append(f'{name}() (copy) changed the receiver\'s serialisation')
                if not isinstance(r, SVG): notes.append(f'{name}() (copy) returned {type(r).__name__}')
                else:
                    # the copy is a different object (or later in-place work on it would show in the receiver)
                    if r is obj: notes.append(f'{name}() (copy) returned the receiver itself, not a copy')
                    obj = r
        except Exception as ex:
            return ('exc', type(ex).__name__, notes)
    try: return ('ok', c14n(obj.tostring()), notes)
    except Exception as ex: return ('exc', type(ex).__name__, notes)

def run_reference(doc, history):
    s = doc
    for (name, a, k), mode in history:
        o = SVG.fromstring(s)
        try:
            if mode == 'query': getattr(o, name)(*a, **k)
            else: getattr(o, name)(*a, **k, inplace=True)
            s = o.tostring()
        except Exception as ex:
            return ('exc', type(ex).__name__)
    return ('ok', c14n(s))

def diff_kind(lx, rx):
    """classify the difference of two canonical documents: 'default_attrs_only' when the only
    differences are attributes that the reference spells out with their default value and the
    lazy document omits (rendering-equal), else 'other'"""
    from picosvg.svg_meta import ATTRIB_DEFAULTS
    a, b = etree.fromstring(lx), etree.fromstring(rx)
    def walk(x, y):
        if x.tag != y.tag or len(x) != len(y) or (x.text or '').strip() != (y.text or '').strip(): return False
        for k in set(x.attrib) | set(y.attrib):
            if x.attrib.get(k) == y.attrib.get(k): continue
            if k in x.attrib: return False
            d = ATTRIB_DEFAULTS.get(k)
            v = y.attrib[k]
            if d is None: return False
            try:
                if isinstance(d, (int, float)):
                    if float(v) != float(d): return False
                elif v != d: return False
            except ValueError: return False
        return all(walk(c, d) for c, d in zip(x, y))
    return 'default_attrs_only' if walk(a, b) else 'other'

def judge(doc, history):
    L = run_lazy(doc, history)
    R = run_reference(doc, history)
    probs = list(L[2]) if len(L) > 2 else []
    if L[0] != R[0] or L[1] != R[1]:
        if L[0] == R[0] == 'ok':
            probs.append('final document differs from the serialise-and-re-parse reference [' + diff_kind(L[1], R[1]) + ']')
        else:
            probs.append(f'outcome differs: lazy {L[:2] if L[0]=="exc" else "ok"} vs reference {R if R[0]=="exc" else "ok"}')
    return probs, L, R

EDITS = {'absolute', 'shapes_to_paths', 'expand_shorthand', 'evenodd_to_nonzero_winding', 'round_floats', 'remove_empty_subpaths', 'normalize_opacity', 'apply_style_attributes'}
def nontrivial(history):
    names = [(s[0][0], s[1]) for s in history]
    for i, (n, m) in enumerate(names):
        if n in EDITS and m == 'inplace' and i + 1 < len(names): return True
    return False

def histories(ctx, maxlen):
    steps = [(op, m) for op in OPS for m in ('inplace', 'copy')] + [(q, 'query') for q in QUERIES]
    for k in range(1, maxlen + 1):
        for h in itertools.product(steps, repeat=k):
            yield list(h)

def corr(ctx):
    stats = {'evaluations': 0, 'nontrivial': set(), 'samples': [], 'disagreements': [], 'distribution': {}}
    known = load_known_sigs()
    rng = ctx.rng
    hs = list(histories(ctx, ctx.n(2, 2)))
    if ctx.thorough:
        h3 = list(histories(ctx, 3))[len(hs):]
        rng.shuffle(h3); hs += h3[:40000]
    steps = [(op, m) for op in OPS for m in ('inplace', 'copy')] + [(q, 'query') for q in QUERIES]
    for _ in range(ctx.n(400, 6000)):
        hs.append([rng.choice(steps) for _ in range(rng.randint(3, 8))])
    # targeted: a cache edit, then a change of an ancestor's inheritable attributes, then another cache edit
    ED = [o for o in OPS if o[0] in ('round_floats', 'absolute', 'shapes_to_paths', 'normalize_opacity')]
    AN = [o for o in OPS if o[0] in ('set_attributes', 'remove_attributes') and ('svg:g' in o[2].get('xpath', '') or o[2].get('xpath') == '/svg:svg')]
    for e1 in ED:
        for a in AN:
            for e2 in ED:
                hs.append([(e1, 'inplace'), (a, 'inplace'), (e2, 'inplace')])
    docs = list(DOCS.items())
    for i, h in enumerate(hs):
        dname, doc = docs[i % len(docs)] if len(h) > 2 else (None, None)
        for dn, dc in (docs if len(h) <= 1 else [docs[i % len(docs)], docs[(i // 7) % len(docs)]]):
            probs, L, R = judge(dc, h)
            stats['evaluations'] += 1
            stats['distribution'][f'len{len(h)}'] = stats['distribution'].get(f'len{len(h)}', 0) + 1
            if L[0] == 'exc': stats['distribution']['exc:' + L[1]] = stats['distribution'].get('exc:' + L[1], 0) + 1
            key = dn + ':' + ' '.join(label(s) for s in h)
            if nontrivial(h) and L[0] == 'ok': stats['nontrivial'].add(key)
            if len(stats['samples']) < 5 and nontrivial(h) and L[0] == 'ok' and stats['evaluations'] % 211 == 0:
                stats['samples'].append({'doc': dn, 'history': [label(s) for s in h], 'final_equal': not probs})
            if probs:
                v = {'what': probs[0], 'input': {'doc': dn, 'history': [label(s) for s in h]}, 'impl': probs, 'model': 'reference run'}
                if any(sig_match(v['input'], probs, e) for e in known):
                    stats['distribution']['known_finding_hits'] = stats['distribution'].get('known_finding_hits', 0) + 1
                    continue
                stats['disagreements'].append(v)
                if len(stats['disagreements']) >= 10: return stats
    return stats

def load_known_sigs():
    try: data = json.load(open('/verif/known_findings.json'))
    except Exception: return []
    return [e for e in data if e.get('property') == 'C15' and e.get('status') == 'known']

def sig_match(inp, probs, entry):
    sig = entry.get('signature', {})
    hist = inp['history']
    pat = sig.get('pattern')
    if pat == 'history_contains':
        return all(any(h == need for h in hist) for need in sig.get('steps', [])) and any(sig.get('problem', '') in p for p in probs)
    if pat == 'history_contains_any_mode':
        base = [h.rstrip('!').replace('()', '') for h in hist]
        return all(need in base for need in sig.get('steps', [])) and any(sig.get('problem', '') in p for p in probs)
    return False

def parse_label(lbl):
    mode = 'inplace' if lbl.endswith('!') else ('copy' if lbl.endswith('()') else 'query')
    name = lbl.rstrip('!').replace('()', '')
    for op in OPS + QUERIES:
        if op_name(op) == name: return (op, mode)
    raise KeyError(lbl)

def search(ctx, broken, disagreements):
    """the correspondence IS the spec-judged run of the implementation; re-run the short histories and shrink"""
    found, n = [], 0
    cands = [(d['input']['doc'], [parse_label(l) for l in d['input']['history']]) for d in disagreements]
    docs = list(DOCS.items())
    for h in histories(ctx, 2):
        for dn, _ in docs: cands.append((dn, h))
    seen = set()
    known = load_known_sigs()
    for dn, h in cands:
        n += 1
        probs, L, R = judge(DOCS[dn], h)
        if not probs: continue
        # shrink: drop steps while it still fails
        changed = True
        while changed and len(h) > 1:
            changed = False
            for i in range(len(h)):
                h2 = h[:i] + h[i + 1:]
                p2, _, _ = judge(DOCS[dn], h2)
                if p2: h, probs, changed = h2, p2, True; break
        key = (tuple(label(s) for s in h), probs[0])
        if key in seen: continue
        seen.add(key)
        found.append({'law': probs[0], 'input': {'doc': dn, 'history': [label(s) for s in h]}, 'expected_by_spec': 'same canonical XML as the re-parse reference; in-place returns the receiver; copies leave the receiver unchanged',
                      'observed': probs})
        if len(found) >= 30: break
    return found, {'evaluations': n}

def matches_known(v, entry):
    return sig_match(v['input'], v['observed'], entry)

def replay(ctx, w):
    h = [parse_label(l) for l in w['history']]
    probs, L, R = judge(DOCS[w['doc']], h)
    if 'problem' in w: probs = [p for p in probs if w['problem'] in p]
    return {'fails': bool(probs), 'detail': probs}
