"""C17 — conversion always terminates with a picosvg or an exception, never a hang (E5 termination)."""
import json as _json, os, random, re, subprocess
from concurrent.futures import ThreadPoolExecutor
from common import *
import pico

COQ_TARGETS = ['props/C17.vo']
ALWAYS_JUDGE = True
RULE = ("(a) the reference-graph check of _resolve_use on random trees of nested id'd groups with uses (acyclic, self-, mutually and "
        "3/4-cyclic, via ancestors, dangling): implementation raises 'Circular use' exactly when the model rejects, and otherwise resolves "
        "every use; gradient href chains of length 0-4, cyclic and dangling: resolved / ValueError / RecursionError as the model says; "
        "(b) adversarial documents (use / clipPath / gradient cycles of length 1-4, dangling references, malformed numbers, paths and "
        "transforms, DOCTYPE with nested internal and external entities, use fan-out expansions) run in a watchdogged subprocess: a result "
        "or an exception within 2 s + 3 ms per expanded element, under a 3 GB address-space limit; results obey the pico grammar; the "
        "content of an external entity never reaches the output or an error message")
TRUSTED = ["model/Termination.v (reference graph check, pass structure, href chains), model/Clips.v (fuelled clip recursion)", "tools/c17_worker.py watchdog worker", "tools/pico.py"]
ASSUMES = ["wall-clock and memory behaviour of the interpreter and lxml are observed, not modelled (partial)",
           "the theorems bound the NUMBER of passes / recursion steps; the cost of a pass is measured by the judge"]
MARKER = 'TOP-SECRET-C17-MARKER'
WORKER = os.path.join(os.path.dirname(os.path.dirname(__file__)), 'c17_worker.py')
SVGNS = 'http://www.w3.org/2000/svg'
XL = 'http://www.w3.org/1999/xlink'
HEAD = f'<svg xmlns="{SVGNS}" xmlns:xlink="{XL}" viewBox="0 0 20 20">'

def run_worker(cases, limit=20.0, max_hangs=2):
    """cases: [[kind, doc]]; returns one result per case ('crash' for cases after a hang)"""
    out, i = [], 0
    while i < len(cases):
        env = dict(os.environ, PYTHONPATH='/repo/src', PYTHONHASHSEED='0')
        # the worker's own alarm cannot interrupt a C call (parser, Skia): the parent kills it after a grace period;
        # results are streamed one per line, so the case being processed when it died is known
        chunk = cases[i:]
        budget = limit * 2 + 5 * len(chunk) + 30
        try:
            p = subprocess.run(['/venv/bin/python', WORKER, str(limit), MARKER], input=_json.dumps(chunk).encode(), capture_output=True, env=env, timeout=budget)
            stdout, died = p.stdout.decode(), p.returncode != 0
        except subprocess.TimeoutExpired as e:
            stdout, died = (e.stdout or b'').decode(), True
        res = []
        for line in stdout.splitlines():
            try: res.append(_json.loads(line))
            except Exception: break
        out += res; i += len(res)
        if len(res) < len(chunk) and (died or not res) and not (res and res[-1][0] in ('hang', 'memory')):
            out.append(['hang', 'the worker had to be killed while processing this document (not interruptible by its own alarm)', budget, '']); i += 1
        if sum(1 for r in out if r[0] in ('hang', 'memory')) >= max_hangs:
            out += [['skipped', 'too many hangs in this chunk', 0, '']] * (len(cases) - len(out))
            break
    return out

# ---------------------------------------------------------------- correspondence
def gen_use_tree(rng):
    """[tag, id, kids]; use = ['use', id|None, [[href, None, []]]]"""
    names = ['a', 'b', 'c', 'd']
    mode = rng.choice(['acyclic', 'acyclic', 'self', 'mutual', 'cycle3', 'cycle4', 'ancestor', 'dangling', 'random'])
    def use(h, i=None): return ['use', i, [[h, None, []]]]
    def shape(): return ['rect', None, []]
    defs = []
    if mode == 'acyclic':
        for k, nm in enumerate(names):
            kids = [shape()] + [use(names[rng.randrange(k)]) for _ in range(rng.randint(0, 2)) if k]
            defs.append(['g', nm, kids])
    elif mode == 'self': defs = [['g', 'a', [shape(), use('a')]], ['g', 'b', [shape()]]]
    elif mode == 'mutual': defs = [['g', 'a', [use('b')]], ['g', 'b', [shape(), use('a')]]]
    elif mode == 'cycle3': defs = [['g', 'a', [use('b')]], ['g', 'b', [use('c')]], ['g', 'c', [['g', None, [use('a')]]]]]
    elif mode == 'cycle4': defs = [['g', 'a', [use('b')]], ['g', 'b', [use('c')]], ['g', 'c', [use('d')]], ['g', 'd', [use('a'), shape()]]]
    elif mode == 'ancestor': defs = [['g', 'a', [shape(), ['g', 'b', [['g', None, [use('a')]]]]]]]
    elif mode == 'dangling': defs = [['g', 'a', [use('zz')]], ['g', 'b', [use('a')]]]
    else:
        for nm in names:
            defs.append(['g', nm, [shape()] + [use(rng.choice(names + ['zz']), rng.choice([None, None, 'u' + nm])) for _ in range(rng.randint(0, 2))]])
    if mode in ('acyclic', 'random') and rng.random() < 0.3: defs.append(use(rng.choice(names), 'chain'))     # a use with an id that is itself a target
    body = [use(rng.choice(names + (['chain'] if defs[-1][1] == 'chain' else []))) for _ in range(rng.randint(1, 2))]
    return mode, ['svg', None, [['defs', None, defs]] + body]

def use_xml(t, top=True):
    tag, i, kids = t
    a = f' xmlns="{SVGNS}" xmlns:xlink="{XL}"' if top else ''
    if i is not None: a += f' id="{i}"'
    if tag == 'use': return f'<use{a} xlink:href="#{kids[0][0]}"/>'
    if tag == 'rect': a += ' width="1" height="1"'
    return f'<{tag}{a}>' + ''.join(use_xml(k, False) for k in kids) + f'</{tag}>'

def gen_chain(rng):
    n = rng.randint(1, 5)
    mode = rng.choice(['chain', 'chain', 'cycle', 'dangling', 'self'])
    ids = [f'g{k}' for k in range(n)]
    tbl = []
    for k, i in enumerate(ids):
        if k + 1 < n: h = ids[k + 1]
        else: h = {'chain': None, 'cycle': ids[0], 'dangling': 'nope', 'self': i}[mode]
        tbl.append([i, h])
    return mode, tbl

def chain_xml(tbl):
    g = ''.join(f'<linearGradient id="{i}"' + (f' xlink:href="#{h}"' if h else '') + '><stop offset="0" stop-color="red"/></linearGradient>' for i, h in tbl)
    return HEAD + f'<defs>{g}</defs></svg>'

def corr(ctx):
    rng = ctx.rng
    m = ctx.model()
    stats = {'evaluations': 0, 'nontrivial': set(), 'samples': [], 'disagreements': [], 'distribution': {}}
    cases, meta = [], []
    for i in range(ctx.n(240, 3000)):
        if i % 3:
            mode, tree = gen_use_tree(rng)
            cases.append(['resolve_use', use_xml(tree)]); meta.append(('use_check', mode, tree))
        else:
            mode, tbl = gen_chain(rng)
            cases.append(['gradient', chain_xml(tbl)]); meta.append(('follow', mode, tbl))
    import docgen
    for i in range(ctx.n(60, 600)):
        cases.append(['tidy', docgen.group_soup(rng) if i % 2 else docgen.random_doc(rng, unsupported=0.03)]); meta.append(('tidy', 'loop', None))
    res = []
    with ThreadPoolExecutor(max_workers=8) as ex:
        chunks = [cases[k:k + 60] for k in range(0, len(cases), 60)]
        for r in ex.map(lambda c: run_worker(c, 10.0), chunks): res += r
    for (name, mode, arg), (kind, doc), r in zip(meta, cases, res):
        if r[0] == 'skipped': continue
        stats['evaluations'] += 1
        stats['distribution'][f'{name}:{mode}'] = stats['distribution'].get(f'{name}:{mode}', 0) + 1
        if name == 'tidy':
            log = _json.loads(r[1]) if r[0] == 'ok' else None
            mod = 'each reported removal shrinks the group count; the loop stops at the first pass without removal'
            if log is None: same, impl = False, r[:3]
            else:
                impl = log
                same = all((not rem) or after < before for before, after, rem in log) and all(rem for _, _, rem in log[:-1]) and (not log or not log[-1][2]) \
                       and len(log) <= (log[0][0] + 1 if log else 1)
            nt = bool(log and len(log) > 1)
        elif name == 'use_check':
            mod = m.call('use_check', arg)
            if r[0] == 'ok': impl = True if r[1] == 'uses_left=0' else 'uses left'
            elif r[0] == 'raise' and 'Circular use' in r[1]: impl = False
            elif r[0] == 'raise': impl = 'other:' + r[1][:40]
            else: impl = r[0]
            same = (impl == mod) or (mod is True and isinstance(impl, str) and impl.startswith('other:ValueError: No element has id'))
            nt = mode not in ('acyclic',)
        else:
            mod = m.call('follow', [arg, 'g0', 900])
            impl = {'ok': 'resolved'}.get(r[0], 'recursion' if r[1] == 'RecursionError' else ('dangling' if r[0] == 'raise' and r[1].startswith('ValueError') else r[0] + ':' + r[1][:40]))
            same = impl == mod[0]
            nt = mode != 'chain' or len(arg) > 1
        if nt: stats['nontrivial'].add(doc)
        if len(stats['samples']) < 5 and stats['evaluations'] % 41 == 0: stats['samples'].append({'case': name, 'mode': mode, 'doc': doc[:400], 'impl': r[:3], 'model': show(mod)})
        if not same:
            stats['disagreements'].append({'what': f'{name} ({mode}): model and implementation differ', 'input': jsonable([name, doc]), 'impl': jsonable(r[:3]), 'model': jsonable(mod)})
            if len(stats['disagreements']) >= 10: break
    return stats

# ---------------------------------------------------------------- adversarial judge
def expanded_size(doc):
    """number of elements after full use expansion (spec side; None if cyclic)"""
    from lxml import etree
    try: root = etree.fromstring(doc.encode(), etree.XMLParser(resolve_entities=False))
    except Exception: return 50
    by_id = {e.get('id'): e for e in root.iter() if isinstance(e.tag, str) and e.get('id')}
    memo, stack = {}, set()
    def size(e):
        k = id(e)
        if k in memo: return memo[k]
        if k in stack: return None
        stack.add(k); n = 1
        for c in e:
            if not isinstance(c.tag, str): continue
            s = size(c)
            if s is None: return None
            n += s
        if isinstance(e.tag, str) and etree.QName(e).localname == 'use':
            t = by_id.get((e.get(f'{{{XL}}}href') or '')[1:])
            if t is not None:
                s = size(t)
                if s is None: return None
                n += s
        stack.discard(k); memo[k] = min(n, 10 ** 7)
        return memo[k]
    s = size(root)
    return 50 if s is None else s

def adversarial(rng, secret_path):
    G = lambda i, h='': f'<linearGradient id="{i}"{h}><stop offset="0" stop-color="red"/></linearGradient>'
    k = rng.randrange(18)
    L = rng.randint(1, 4)
    ids = [f'n{j}' for j in range(L)]
    # a reference may be spelt with stray white space: whatever a phase makes of it, every phase must make the same of it
    pad = (lambda r: rng.choice([r + ' ', ' ' + r, r + '\n', r + '\t ', r])) if rng.random() < 0.4 else (lambda r: r)
    if k == 0:   # use cycle of length L
        body = ''.join(f'<g id="{ids[j]}"><rect width="2" height="2"/><use xlink:href="{pad("#" + ids[(j + 1) % L])}"/></g>' for j in range(L))
        return HEAD + f'<defs>{body}</defs><use xlink:href="#n0"/></svg>'
    if k == 1:   # clipPath cycle of length L
        body = ''.join(f'<clipPath id="{ids[j]}" clip-path="url(#{ids[(j + 1) % L]})"><rect width="5" height="5"/></clipPath>' for j in range(L))
        return HEAD + f'<defs>{body}</defs><rect width="9" height="9" clip-path="url(#n0)"/></svg>'
    if k == 2 and rng.random() < 0.4:   # a gradient chain that runs into a cycle it is not part of (entry first in document order)
        tail = [f'e{j}' for j in range(rng.randint(1, 2))]
        chain = tail + ids
        body = ''.join(G(chain[j], f' xlink:href="#{chain[j + 1] if j + 1 < len(chain) else ids[0]}"') for j in range(len(chain)))
        return HEAD + f'<defs>{body}</defs><rect width="9" height="9" fill="url(#e0)"' + rng.choice(['', ' transform="scale(2)"']) + '/></svg>'
    if k == 2:   # gradient href cycle of length L
        body = ''.join(G(ids[j], f' xlink:href="{pad("#" + ids[(j + 1) % L])}"') for j in range(L))
        return HEAD + f'<defs>{body}</defs><rect width="9" height="9" fill="url(#n0)"' + rng.choice(['', ' transform="scale(2)"']) + '/></svg>'
    if k == 3:   # use of an ancestor
        return HEAD + f'<g id="a"><rect width="2" height="2"/><g><g><use xlink:href="{pad("#a")}"/></g></g></g></svg>'
    if k == 4:   # dangling references
        what = rng.choice(['<use xlink:href="#nope"/>', '<rect width="9" height="9" fill="url(#nope)"/>', '<rect width="9" height="9" clip-path="url(#nope)"/>',
                           '<defs>' + G('g', ' xlink:href="#nope"') + '</defs><rect width="9" height="9" fill="url(#g)"/>', '<use xlink:href="http://x/y#z"/>', '<use/>'])
        return HEAD + what + '</svg>'
    if k == 5:   # malformed values
        what = rng.choice(['<rect width="abc" height="9"/>', '<path d="M0,0 L1 Q"/>', '<rect width="9" height="9" transform="rotate(x)"/>', '<rect width="9" height="9" opacity="high"/>',
                           '<circle r="1e999"/>', '<rect width="nan" height="inf"/>', '<path d="M0,0 A0 0 0 2 2 5,5"/>', '<rect width="9" height="9" style="fill"/>', '<polygon points="1,2,3"/>',
                           '<rect width="9" height="9" stroke="red" stroke-dasharray="a,b"/>', '<svg viewBox="0 0 0 0"><rect width="1" height="1"/></svg>', '<rect width="-5" height="9"/>'])
        return HEAD + what + '</svg>'
    if k == 6:   # nested internal entities (amplification)
        d = rng.randint(3, 8)
        ents = '<!ENTITY e0 "aaaaaaaaaa">' + ''.join(f'<!ENTITY e{j + 1} "' + f'&e{j};' * 10 + '">' for j in range(d))
        return f'<!DOCTYPE svg [{ents}]>' + HEAD + f'<title>&e{d};</title><rect width="9" height="9"/></svg>'
    if k == 7:   # external entity
        where = rng.choice(['<title>&x;</title><rect width="9" height="9"/>', '<rect width="9" height="9" id="&x;"/>', '<text>&x;</text>'])
        return f'<!DOCTYPE svg [<!ENTITY x SYSTEM "file://{secret_path}">]>' + HEAD + where + '</svg>'
    if k == 8:   # entity in an attribute / recursive entity
        return rng.choice(['<!DOCTYPE svg [<!ENTITY w "9">]>' + HEAD + '<rect width="&w;" height="9"/></svg>',
                           '<!DOCTYPE svg [<!ENTITY a "&b;"><!ENTITY b "&a;">]>' + HEAD + '<title>&a;</title></svg>',
                           '<!DOCTYPE svg SYSTEM "http://127.0.0.1:9/nothing.dtd">' + HEAD + '<rect width="9" height="9"/></svg>'])
    if k == 9:   # fan-out expansion
        fan, depth = rng.choice([(2, 5), (3, 4), (2, 7), (4, 3)])
        body = '<g id="a0"><rect width="1" height="1"/></g>' + ''.join(f'<g id="a{i + 1}">' + ''.join(f'<use xlink:href="#a{i}" x="{j}"/>' for j in range(fan)) + '</g>' for i in range(depth))
        return HEAD + f'<defs>{body}</defs><use xlink:href="#a{depth}"/></svg>'
    if k == 10:  # use chain through uses with ids, length L
        body = '<rect id="n0" width="2" height="2"/>' + ''.join(f'<use id="n{j + 1}" xlink:href="#n{j}"/>' for j in range(L))
        return HEAD + f'<defs>{body}</defs><use xlink:href="#n{L}"/></svg>'
    if k == 11:  # clip child referring to its own clipPath, clip on clip children
        return HEAD + '<clipPath id="c"><rect width="5" height="5" clip-path="url(#c)"/></clipPath><rect width="9" height="9" clip-path="url(#c)"/></svg>'
    if k == 12:  # use inside clipPath referring to something that uses the clip
        return HEAD + '<defs><rect id="r" width="5" height="5" clip-path="url(#c)"/><clipPath id="c"><use xlink:href="#r"/></clipPath></defs><rect width="9" height="9" clip-path="url(#c)"/></svg>'
    if k == 13:  # gradient chain of length L (acyclic) used by transformed shapes
        body = ''.join(G(ids[j], f' xlink:href="#{ids[j + 1]}"' if j + 1 < L else '') for j in range(L))
        return HEAD + f'<defs>{body}</defs><rect width="9" height="9" fill="url(#n0)" transform="rotate(10)"/><rect width="3" height="3" fill="url(#n{L - 1})"/></svg>'
    if k == 14:  # nested svg referring outward / use of nested svg
        return HEAD + '<svg id="s" x="1" y="1" width="5" height="5" viewBox="0 0 10 10"><use xlink:href="#s"/></svg></svg>'
    if k == 15:  # unsupported content nested inside a group that survives (0 < opacity < 1, several children)
        bad = rng.choice(['<text x="1" y="5">t</text>', '<image width="3" height="3"/>', '<foreignObject width="2" height="2"/>', '<a><rect width="1" height="1"/></a>', '<filter id="f"/>'])
        return HEAD + f'<g opacity="0.5"><rect width="5" height="5" fill="red"/><rect x="3" width="5" height="5" fill="blue"/>{bad}</g></svg>'
    if k == 16:  # external entity inside content that survives with allow_text
        return '@TEXT@' + f'<!DOCTYPE svg [<!ENTITY x SYSTEM "file://{secret_path}">]>' + HEAD + '<text x="1" y="5">&x;</text><rect width="9" height="9"/></svg>'
    # unsupported + symbol + use of symbol
    return HEAD + '<symbol id="sym"><rect width="2" height="2"/><use xlink:href="#sym"/></symbol><use xlink:href="#sym"/></svg>'

def judge_result(doc, r):
    bound = 2.0 + 0.003 * expanded_size(doc)
    if r[0] in ('hang', 'memory'):
        return ('conversion finishes with a picosvg or an exception', 'a result or an exception', {'status': r[0], 'detail': r[1], 'seconds': r[2]})
    if MARKER in r[1] or MARKER in r[3]:
        return ('conversion never reads external entities', 'the entity content does not appear', {'status': r[0], 'detail': r[1][:200], 'output': r[3][:400]})
    if r[2] > bound:
        return ('time proportional to the size of the expanded document', {'bound_s': round(bound, 2), 'expanded_elements': expanded_size(doc)}, {'seconds': r[2], 'status': r[0]})
    if r[0] == 'ok':
        v = pico.check_pico(r[3], 3, doc.startswith('@TEXT@'))
        if v: return ('a normal return satisfies the picosvg grammar', 'no violations', {'violations': v[:5], 'output': r[3][:1500]})
    return None

def secret_file():
    d = '/verif/build/tmp'
    os.makedirs(d, exist_ok=True)
    p = os.path.join(d, 'c17_secret.txt')
    open(p, 'w').write(MARKER)
    return p

def search(ctx, broken, disagreements):
    rng = ctx.rng
    sp = secret_file()
    docs = [adversarial(rng, sp) for _ in range(ctx.n(160, 2400))]
    found, dist = [], {}
    with ThreadPoolExecutor(max_workers=8) as ex:
        chunks = [docs[k:k + 40] for k in range(0, len(docs), 40)]
        res = []
        for r in ex.map(lambda c: run_worker([['convert_text', d[6:]] if d.startswith('@TEXT@') else ['convert', d] for d in c], 20.0), chunks): res += r
    for doc, r in zip(docs, res):
        if r[0] == 'skipped': continue
        key = r[0] + (':' + r[1].split(':')[0] if r[0] == 'raise' else '')
        dist[key] = dist.get(key, 0) + 1
        v = judge_result(doc, r)
        if v and len(found) < 4:
            found.append({'law': v[0], 'input': {'doc': doc}, 'expected_by_spec': jsonable(v[1]), 'observed': jsonable(v[2])})
    return found, {'evaluations': len(docs), 'distribution': dist}

def matches_known(v, entry):
    return False

def replay(ctx, w):
    doc = w['doc'].replace('@SECRET@', secret_file())
    r = run_worker([['convert_text', doc[6:]] if doc.startswith('@TEXT@') else ['convert', doc]], 20.0)[0]
    v = judge_result(doc, r)
    return {'fails': v is not None, 'detail': jsonable(v)}
