"""C03 — clip paths are rendered into exactly the clipped geometry (E5 clips)."""
from fractions import Fraction as F
import itertools, re
from picosvg.svg import SVG
from picosvg.svg_transform import Affine2D
from common import *
import render
from skia_oracle import skia_oracle
from props.c18 import wire_shape, cmds_of
from props.c02 import rnd_aff, aff_s

COQ_TARGETS = ['props/C03.vo']
ALWAYS_JUDGE = True
RULE = ("(a) _resolve_clip_path on clipPaths with 1-3 path children (self-intersecting, clip-rule per child, transforms on clipPath and "
        "children, clipPath -> clipPath chains of length <=3) under a referrer CTM: implementation = model with the same engine, identical "
        "commands; (b) documents with clip-path on shapes, groups and use, 1-3 clips stacked along the ancestor chain, all shape kinds as "
        "clip children: converted document composites like the source (spec-side renderer); non-trivial = operands self-intersect so the "
        "rules matter, or clips are stacked / chained")
TRUSTED = ["model/Clips.v hand model of _resolve_clip_path and the clipping step of _simplify", "engine contract (ops, transform) + C09 normal-form claim as hypotheses",
           "tools/render.py, tools/skia_oracle.py"]
ASSUMES = ["Skia set operations / transform per contract"]

SVGNS = 'http://www.w3.org/2000/svg'
GEOM = ['M0,0 L8,0 L8,8 L0,8 Z', 'M0,0 L8,8 L8,0 L0,8 Z', 'M0,0 L10,0 L10,10 L0,10 Z M2,2 L8,2 L8,8 L2,8 Z', 'M1,1 L9,2 L5,9 Z',
        'M0,0 L6,0 L6,6 L0,6 Z M3,3 L9,3 L9,9 L3,9 Z', 'M2,0 L4,8 L0,3 L8,3 L1,8 Z']

def dy(a):
    # keep matrices dyadic and well conditioned
    return a

def gen_clipdefs(rng):
    n = rng.randint(1, 3)
    defs = []
    for i in range(n):
        kids = []
        for _ in range(rng.randint(1, 3)):
            kids.append((rng.choice(GEOM), rng.choice(['nonzero', 'evenodd', '']), rnd_small_aff(rng) if rng.random() < 0.4 else None))
        defs.append({'id': f'c{i}', 'tf': rnd_small_aff(rng) if rng.random() < 0.3 else None, 'kids': kids,
                     'clip': f'c{i + 1}' if i + 1 < n and rng.random() < 0.7 else None, 'rule': rng.choice([None, None, 'evenodd', 'nonzero'])})
    return defs

def rnd_small_aff(rng):
    k = rng.random()
    if k < 0.5: return (F(1), F(0), F(0), F(1), F(rng.randint(-3, 3)), F(rng.randint(-3, 3)))
    if k < 0.8: return (F(rng.choice([1, 2, 1])), F(0), F(0), F(rng.choice([1, 2])), F(rng.randint(-2, 2)), F(0))
    return (F(0), F(1), F(-1), F(0), F(8), F(0))

def defs_xml(defs):
    out = ''
    for d in defs:
        kids = ''.join(f'<path d="{g}"' + (f' clip-rule="{cr}"' if cr else '') + (f' transform="{aff_s(tf)}"' if tf else '') + '/>' for g, cr, tf in d['kids'])
        out += f'<clipPath id="{d["id"]}"' + (f' transform="{aff_s(d["tf"])}"' if d['tf'] else '') + (f' clip-path="url(#{d["clip"]})"' if d['clip'] else '') + (f' clip-rule="{d["rule"]}"' if d['rule'] else '') + f'>{kids}</clipPath>'
    return out

def defs_wire(defs):
    return [[d['id'], list(d['tf']) if d['tf'] else None,
             [[wire_shape({'clip_rule': cr}, cmds_of(g)), list(tf) if tf else None] for g, cr, tf in d['kids']], d['clip'], d['rule']] for d in defs]

def corr(ctx):
    m = ctx.model([skia_oracle])
    stats = {'evaluations': 0, 'nontrivial': set(), 'samples': [], 'disagreements': [], 'distribution': {}}
    rng = ctx.rng
    for i in range(ctx.n(200, 5000)):
        defs = gen_clipdefs(rng)
        ctm = rnd_small_aff(rng) if rng.random() < 0.6 else (F(1), F(0), F(0), F(1), F(0), F(0))
        doc = f'<svg xmlns="{SVGNS}" viewBox="0 0 20 20"><defs>{defs_xml(defs)}</defs></svg>'
        svg = SVG.fromstring(doc)
        try:
            p = svg._resolve_clip_path('url(#c0)', Affine2D(*[float(v) for v in ctm]))
            impl = ['ok', cmds_of(p.d)]
        except ValueError: impl = ['err', 'ValueError']
        except Exception as ex: impl = ['err', 'Other']
        mod = m.call('resolve_clip', [defs_wire(defs), 'c0', list(ctm)])
        stats['evaluations'] += 1
        stats['distribution'][f'chain{sum(1 for d in defs if d["clip"])}'] = stats['distribution'].get(f'chain{sum(1 for d in defs if d["clip"])}', 0) + 1
        if impl[0] == 'ok' and (defs[0]['clip'] or any(cr == 'evenodd' for _, cr, _ in defs[0]['kids'])):
            stats['nontrivial'].add(json.dumps(jsonable([defs_wire(defs), ctm])))
        if len(stats['samples']) < 3 and i % 29 == 0: stats['samples'].append({'clipPaths': defs_xml(defs), 'ctm': show(list(ctm)), 'impl': show(impl)})
        if canon(impl) != canon(mod):
            stats['disagreements'].append({'what': '_resolve_clip_path: model and implementation differ', 'input': jsonable(['resolve_clip', defs_xml(defs), list(ctm)]), 'impl': jsonable(impl), 'model': jsonable(mod)})
            if len(stats['disagreements']) >= 10: break
    return stats

# ---------------------------------------------------------------- documents for the rendering judge
COL = ['red', 'blue', 'green', 'yellow', 'purple', 'orange']
def gen_doc(rng, clip_rule_on_clippath=False):
    def tf():
        return ' transform="%s"' % rng.choice(['translate(2,1)', 'scale(1.5)', 'rotate(30 10 10)', 'translate(-1,3) scale(0.75)', 'matrix(1 0 0.3 1 0 0)'])
    def clip_child():
        k = rng.randrange(5)
        cr = f' clip-rule="{rng.choice(["evenodd", "nonzero"])}"' if rng.random() < 0.5 else ''
        t = tf() if rng.random() < 0.3 else ''
        x, y = rng.randint(0, 10), rng.randint(0, 10)
        if k == 0: return f'<rect x="{x}" y="{y}" width="{rng.randint(4, 10)}" height="{rng.randint(4, 10)}"{cr}{t}/>'
        if k == 1: return f'<circle cx="{x + 4}" cy="{y + 4}" r="{rng.randint(3, 6)}"{cr}{t}/>'
        if k == 2: return f'<path d="M{x},{y} l10,10 l0,-10 l-10,10 z"{cr}{t}/>'
        if k == 3: return f'<polygon points="{x},{y} {x + 9},{y + 2} {x + 3},{y + 9}"{cr}{t}/>'
        return f'<path d="M{x},{y} h10 v10 h-10 z M{x + 2},{y + 2} h6 v6 h-6 z"{cr}{t}/>'
    n = rng.randint(1, 3)
    defs = ''
    for i in range(n):
        nest = f' clip-path="url(#k{i + 1})"' if i + 1 < n and rng.random() < 0.5 else ''
        crp = f' clip-rule="evenodd"' if clip_rule_on_clippath and rng.random() < 0.5 else ''
        defs += f'<clipPath id="k{i}"{tf() if rng.random() < 0.3 else ""}{nest}{crp}>' + ''.join(clip_child() for _ in range(rng.randint(1, 3))) + '</clipPath>'
    defs += '<rect id="u" width="9" height="9" fill="orange"/>'
    def cp(): return f' clip-path="url(#k{rng.randrange(n)})"' if rng.random() < 0.5 else ''
    def shape():
        x, y = rng.randint(0, 10), rng.randint(0, 10)
        fr = ' fill-rule="evenodd"' if rng.random() < 0.3 else ''
        if rng.random() < 0.5: return f'<rect x="{x}" y="{y}" width="{rng.randint(5, 10)}" height="{rng.randint(5, 10)}" fill="{rng.choice(COL)}"{cp()}{tf() if rng.random() < 0.3 else ""}/>'
        return f'<path d="M{x},{y} l9,9 l0,-9 l-9,9 z" fill="{rng.choice(COL)}"{fr}{cp()}/>'
    def group(depth):
        kids = ''.join(group(depth + 1) if depth < 3 and rng.random() < 0.3 else shape() for _ in range(rng.randint(1, 2)))
        return f'<g{cp()}{tf() if rng.random() < 0.4 else ""}>{kids}</g>'
    body = ''.join(group(1) if rng.random() < 0.6 else shape() for _ in range(rng.randint(1, 3)))
    # clip-path on use is a recorded finding: steer away from it (the witness is replayed separately)
    if rng.random() < 0.3: body += f'<use xlink:href="#u" x="{rng.randint(0, 8)}" y="{rng.randint(0, 8)}"/>'
    return f'<svg xmlns="{SVGNS}" xmlns:xlink="http://www.w3.org/1999/xlink" viewBox="0 0 20 20"><defs>{defs}</defs>{body}</svg>'

def judge_doc(doc):
    try: out = SVG.fromstring(doc).topicosvg().tostring()
    except Exception: return None
    if 'clip-path' in out or 'clipPath' in out:
        return ('the output carries no clip-path', 'no clip-path / clipPath', {'output': out})
    r = render.compare_documents(doc, out, (-2, -2, 26, 26), n=19)
    if r is None or len(r) == 1: return None
    return ('clipped geometry = fill region inside every applicable clip', {'point': r[0], 'colour': r[1]}, {'colour': r[2], 'output': out})

def search(ctx, broken, disagreements):
    rng = ctx.rng
    found, n = [], 0
    for i in range(ctx.n(120, 3000)):
        doc = gen_doc(rng, clip_rule_on_clippath=(i % 8 == 0)); n += 1
        v = judge_doc(doc)
        if v:
            found.append({'law': v[0], 'input': {'doc': doc}, 'expected_by_spec': jsonable(v[1]), 'observed': jsonable(v[2])})
            if len(found) >= 4: break
    return found, {'evaluations': n}

def matches_known(v, entry):
    sig = entry.get('signature', {})
    doc = v['input'].get('doc', '')
    if sig.get('pattern') == 'clip_rule_on_clippath_element':
        return bool(re.search(r'<clipPath[^>]*clip-rule=', doc))
    if sig.get('pattern') == 'use_clip_of_transformed_target':
        return bool(re.search(r'<use[^>]*clip-path=', doc))
    if sig.get('pattern') == 'engine_result_wrong_at_point':
        # the call site that fails is Skia itself: some recorded path operation of this very conversion answers wrongly AT the
        # sample point (exact polygon membership of operands vs result); anything else is picosvg's own doing and is reported
        import engine_blame
        try: pt = unjson(v.get('expected_by_spec'))['point']
        except Exception: return False
        return bool(engine_blame.engine_failures_at(doc, pt, lambda d: SVG.fromstring(d).topicosvg()))
    return False

def replay(ctx, w):
    v = judge_doc(w['doc'])
    return {'fails': v is not None, 'detail': jsonable(v)}
