"""C10 — path data parses per the SVG grammar or is rejected; printing round-trips (engine E2)."""
from fractions import Fraction as F
import itertools, math, struct
from picosvg.svg_path_iter import parse_svg_path
from picosvg.svg_types import SVGPath
from picosvg.svg_meta import path_segment, ntos
from common import *
from wire import batch_calls

COQ_TARGETS = ['props/C10.vo']
ALWAYS_JUDGE = True
RULE = ("string level: every string of length <=5 (quick) / <=6 (thorough) over the reduced alphabet 'MLaz015.-+e, x'; token level: every "
        "sequence of <=3/<=4 tokens from one representative per lexical number form, command letters and separator choices; random "
        "grammar-derived strings and single-edit mutants; printing: command lists with floats from a nasty pool. The implementation's "
        "outcome (command list with exact float values | ValueError | other exception) must equal the model's; non-trivial = the string "
        "parses to >=1 command with >=1 number, or is rejected after >=1 accepted token")
TRUSTED = ["model/PathParse.v, model/Lex.v: hand model of the regex tokenizer (pinned to the regex source strings regenerated in gen/G_regex.v)",
           "spec/PathGrammar.v: the SVG 1.1 path grammar written from the BNF",
           "CPython float(): correctly rounded decimal->binary64 (the model keeps exact decimals; compared after float())",
           "CPython repr(float): shortest round-tripping decimal (oracle for the printer)",
           "extraction + driver + wire glue"]
ASSUMES = ["ASCII input", "float(lexeme) is the correctly rounded value of the decimal lexeme"]

ALPHA = "MLaz015.-+e, x"

def impl_parse(s, exploded=True):
    try:
        return ['ok', [[c, [float(x) for x in a]] for c, a in parse_svg_path(s, exploded=exploded)]]
    except ValueError: return ['err', 'ValueError']
    except Exception as ex: return ['err', 'Other:' + type(ex).__name__]

def model_to_float(mod):
    if mod[0] != 'ok': return mod
    out = []
    for c, a in mod[1]:
        vals = []
        for q in a:
            try: vals.append(float(q))
            except OverflowError: vals.append(math.inf if q > 0 else -math.inf)
        out.append([c, vals])
    return ['ok', out]

def same(impl, mod):
    m = model_to_float(mod)
    if impl[0] != m[0]: return False
    if impl[0] == 'err': return impl[1] == m[1]
    if len(impl[1]) != len(m[1]): return False
    for (c1, a1), (c2, a2) in zip(impl[1], m[1]):
        if c1 != c2 or len(a1) != len(a2): return False
        for x, y in zip(a1, a2):
            if x != y: return False      # numeric equality (-0.0 == 0.0: the exact model has no signed zero)
    return True

NUMFORMS = ['0', '7', '07', '.5', '0.5', '5.', '-1', '+1', '1e2', '1E-2', '1e+02', '.5e1', '00', '1.5.5', '1e', '--1']
SEPS = ['', ' ', ',', ', ', '  ', '\t', ' , ', ',,']
LETTERS = list('MmLlHhVvCcSsQqTtAaZz')

def token_strings(maxtok):
    toks = NUMFORMS[:12] + ['M', 'L', 'l', 'a', 'z', 'H', 'c'] + [' ', ',', '\t']
    for k in range(1, maxtok + 1):
        for t in itertools.product(toks, repeat=k):
            yield ''.join(t)

def grammar_string(rng, wild):
    n = rng.randint(1, 5)
    parts = []
    for i in range(n):
        c = 'M' if i == 0 and rng.random() < 0.9 else rng.choice(LETTERS)
        ar = {'M': 2, 'L': 2, 'H': 1, 'V': 1, 'C': 6, 'S': 4, 'Q': 4, 'T': 2, 'A': 7, 'Z': 0}[c.upper()]
        reps = rng.choice([1, 1, 1, 2, 3]) if ar else 0
        body = ''
        for r in range(reps):
            for k in range(ar):
                if c.upper() == 'A' and k in (3, 4): tok = rng.choice('01')
                elif c.upper() == 'A' and k in (0, 1): tok = rng.choice(['1', '2.5', '.5', '10', '0', '3e0'])
                else: tok = rng.choice(NUMFORMS[:12] if not wild else NUMFORMS)
                sep = rng.choice(SEPS[1:4] + ([''] if tok[0] in '-+.' or (c.upper() == 'A' and k in (4, 5)) else [])) if (r or k) else rng.choice(['', ' '])
                if c.upper() == 'A' and k == 3 and sep == '': sep = ' '
                body += sep + tok
        parts.append(c + body)
    s = rng.choice(['', ' ', '']) .join(parts) if rng.random() < 0.5 else ' '.join(parts)
    if wild and rng.random() < 0.3:
        i = rng.randrange(len(s) + 1)
        ch = rng.choice(ALPHA + 'ZQ\t\n')
        s = rng.choice([s[:i] + ch + s[i:], s[:i] + s[i + 1:], s[:i] + ch + s[i + 1:]])
    return s

def nontrivial_outcome(impl):
    if impl[0] == 'ok': return any(len(a) > 0 for _, a in impl[1])
    return True

NASTY = [0.0, -0.0, 1.0, -1.0, 0.5, 0.1, 0.1 + 0.2, 1e22, 1e21, 1e16, 123456789012345680.0, 1e-7, 1.5e-7, 5e-324, 2.2250738585072014e-308,
         1.7976931348623157e308, 2.0 ** 53, 2.0 ** 53 + 2, 1 / 3, -2.5e-5, 100.0, 1e15, 1e16 + 2, 0.30000000000000004, 12345.678]

def rnd_float(rng):
    k = rng.random()
    if k < 0.5: return rng.choice(NASTY)
    if k < 0.7: return struct.unpack('<d', struct.pack('<Q', rng.getrandbits(64) & 0x7fefffffffffffff | (rng.getrandbits(1) << 63)))[0]
    return round(rng.uniform(-1000, 1000), rng.randint(0, 6))

def rnd_cmds(rng):
    n = rng.randint(1, 6); out = []
    for i in range(n):
        c = rng.choice(LETTERS)
        ar = {'M': 2, 'L': 2, 'H': 1, 'V': 1, 'C': 6, 'S': 4, 'Q': 4, 'T': 2, 'A': 7, 'Z': 0}[c.upper()]
        a = [rnd_float(rng) for _ in range(ar)]
        if c.upper() == 'A': a[3] = rng.randint(0, 1); a[4] = rng.randint(0, 1)
        out.append((c, a))
        if rng.random() < 0.15: out.append((c, list(a)))       # the same command twice in a row is two commands
    return out

def corr(ctx):
    stats = {'evaluations': 0, 'nontrivial': set(), 'samples': [], 'disagreements': [], 'distribution': {}}
    rng = ctx.rng
    strings = []
    L = ctx.n(5, 6)
    for k in range(0, L + 1):
        for t in itertools.product(ALPHA, repeat=k): strings.append(''.join(t))
    nexh = len(strings)
    strings += list(token_strings(ctx.n(3, 4)))
    ntok = len(strings) - nexh
    for i in range(ctx.n(6000, 200000)): strings.append(grammar_string(rng, wild=(i % 2 == 1)))
    stats['distribution'] = {'exhaustive_strings': nexh, 'token_sequences': ntok, 'random_grammar_or_mutant': len(strings) - nexh - ntok}
    answers = batch_calls(ctx.model_bin, [('parse_svg_path', [True, s]) for s in strings])
    for s, mod in zip(strings, answers):
        impl = impl_parse(s)
        stats['evaluations'] += 1
        kind = impl[0] if impl[0] == 'ok' else impl[1]
        stats['distribution'][kind] = stats['distribution'].get(kind, 0) + 1
        if nontrivial_outcome(impl) and (impl[0] == 'ok' or any(ch.isdigit() for ch in s)): stats['nontrivial'].add(s)
        if len(stats['samples']) < 6 and impl[0] == 'ok' and len(impl[1]) >= 2 and stats['evaluations'] % 1013 == 0:
            stats['samples'].append({'string': s, 'impl': impl, 'model': show(mod)})
        if not same(impl, mod):
            stats['disagreements'].append({'what': 'parse_svg_path: model and implementation differ', 'input': jsonable(['parse', s]),
                                           'impl': jsonable(impl), 'model': jsonable(mod)})
            if len(stats['disagreements']) >= 10: return stats
    # non-exploded form on a sample
    sample = [s for s in strings[nexh:] if s][:ctx.n(3000, 30000)]
    answers = batch_calls(ctx.model_bin, [('parse_svg_path', [False, s]) for s in sample])
    for s, mod in zip(sample, answers):
        impl = impl_parse(s, exploded=False)
        stats['evaluations'] += 1
        if not same(impl, mod):
            stats['disagreements'].append({'what': 'parse_svg_path(exploded=False): model and implementation differ', 'input': jsonable(['parse_unexploded', s]),
                                           'impl': jsonable(impl), 'model': jsonable(mod)})
            if len(stats['disagreements']) >= 10: return stats
    # printing: the implementation's printer vs the model's printer fed with ntos lexemes; then round trip
    cases = [rnd_cmds(rng) for _ in range(ctx.n(3000, 100000))]
    # premise of the round-trip theorem: every lexeme the real printer produces is a token the scanners read back
    lex = sorted({(c.upper() == 'A' and k in (3, 4), ntos(x)) for p in cases for c, a in p for k, x in enumerate(a)})
    answers = batch_calls(ctx.model_bin, [('lexeme_ok', [fl, t]) for fl, t in lex])
    stats['distribution']['lexemes'] = len(lex)
    for (fl, t), ok in zip(lex, answers):
        stats['evaluations'] += 1
        if ok is not True:
            stats['disagreements'].append({'what': 'the printer produced a number the scanners do not read back as one token (premise of the round-trip theorem)',
                                           'input': jsonable(['lexeme', fl, t]), 'impl': t, 'model': jsonable(ok)})
            if len(stats['disagreements']) >= 10: return stats
    reqs = [('print_path', [[c, [ntos(x) for x in a]] for c, a in p]) for p in cases]
    answers = batch_calls(ctx.model_bin, reqs)
    for p, mod in zip(cases, answers):
        stats['evaluations'] += 1
        stats['distribution']['print'] = stats['distribution'].get('print', 0) + 1
        sp = SVGPath()
        for c, a in p: sp._add_cmd(c, *a)
        if sp.d != mod:
            stats['disagreements'].append({'what': 'path printer: model and implementation differ', 'input': jsonable(['print', [[c, a] for c, a in p]]),
                                           'impl': sp.d, 'model': mod})
            if len(stats['disagreements']) >= 10: return stats
        stats['nontrivial'].add('print:' + sp.d)
    return stats

# ---------------------------------------------------------------- spec judge: grammar vs implementation, round trip
def judge_strings(ctx, strings):
    """for grammar-conforming strings the implementation returns the grammar's sequence or ValueError"""
    found = []
    answers = batch_calls(ctx.model_bin, [('grammar', s) for s in strings])
    for s, g in zip(strings, answers):
        impl = impl_parse(s)
        if impl[0] == 'err' and impl[1] != 'ValueError':
            found.append({'law': 'no exception other than ValueError escapes', 'input': {'string': s}, 'expected_by_spec': 'ValueError or a command list', 'observed': impl[1]})
        elif g is not None and impl[0] == 'ok' and not same(impl, ['ok', g]):
            found.append({'law': 'a conforming string parses to exactly the sequence the grammar defines (or is rejected)', 'input': {'string': s},
                          'expected_by_spec': show(model_to_float(['ok', g])[1]), 'observed': impl[1]})
        if len(found) >= 5: break
    return found

def judge_roundtrip(cases):
    found = []
    for k, p in enumerate(cases):
        want = [[c, [float(x) for x in a]] for c, a in p]
        # both ways the library serialises a command sequence: command by command, and through from_commands / update_path
        for route in ('_add_cmd', 'from_commands'):
            if route == 'from_commands' and k % 3: continue
            try:
                if route == '_add_cmd':
                    sp = SVGPath()
                    for c, a in p: sp._add_cmd(c, *a)
                else: sp = SVGPath.from_commands((c, tuple(a)) for c, a in p)
                back = [[c, list(a)] for c, a in parse_svg_path(sp.d, exploded=True)]
            except Exception as ex:
                found.append({'law': 'serialise then parse returns the same commands', 'input': {'commands': jsonable(p), 'route': route}, 'expected_by_spec': 'same commands', 'observed': repr(ex)}); continue
            if back != want:
                found.append({'law': 'serialise then parse returns the same commands', 'input': {'commands': jsonable(p), 'route': route}, 'expected_by_spec': jsonable(want), 'observed': jsonable(back)})
        if len(found) >= 5: break
    return found

def search(ctx, broken, disagreements):
    rng = ctx.rng
    strings = []
    for d in disagreements:
        try:
            inp = unjson(d['input'])
            if inp[0].startswith('parse'): strings.append(inp[1])
        except Exception: pass
    for k in range(0, 5):
        for t in itertools.product("ML015.-e, ", repeat=k): strings.append(''.join(t))
    strings += list(token_strings(3))
    strings += [grammar_string(rng, wild=False) for _ in range(ctx.n(4000, 50000))]
    strings += [grammar_string(rng, wild=True) for _ in range(ctx.n(2000, 50000))]
    found = judge_strings(ctx, strings)
    cases = [rnd_cmds(rng) for _ in range(ctx.n(2000, 50000))]
    found += judge_roundtrip(cases)
    return found, {'evaluations': len(strings) + len(cases)}

def matches_known(v, entry):
    return False

def replay(ctx, w):
    if 'string' in w:
        f = judge_strings(ctx, [w['string']])
        return {'fails': bool(f), 'detail': f, 'impl': impl_parse(w['string'])}
    f = judge_roundtrip([[(c, a) for c, a in unjson(w['commands'])]])
    return {'fails': bool(f), 'detail': f}
