"""C11 — transform strings and affine algebra (engine E1)."""
from fractions import Fraction as F
import itertools, math
from picosvg.svg_transform import Affine2D
from picosvg.geometric_types import Rect, Point
from common import *

COQ_TARGETS = ['props/C11.vo']
RULE = ("arithmetic: random Fraction 6-tuples/points/rect pairs through implementation (which accepts Fractions) and "
        "the generated model over Q, exact equality; non-trivial = a list with >=2 non-commuting transforms, "
        "a non-identity inverse, or a rect pair with different aspect ratios")
TRUSTED = ["tools/translate.py (Python-ast -> Gallina, fail-closed) regenerates gen/G_geom.v, gen/G_transform.v from /repo on every run",
           "extraction (ExtrOcamlBasic, ExtrOcamlString) + ocaml/driver.ml + tools/wire.py (correspondence glue)",
           "real-number model of floats: IEEE rounding not modelled"]
ASSUMES = ["Python floats are modelled as exact reals/rationals", "math.cos/sin/tan denote Coq's cos/sin/tan"]

ALIGNS = ["none", "xMinYMin", "xMidYMin", "xMaxYMin", "xMinYMid", "xMidYMid", "xMaxYMid", "xMinYMax", "xMidYMax", "xMaxYMax"]

def rnd_frac(rng, big=False):
    k = rng.random()
    if k < 0.15: return F(rng.choice([0, 1, -1, 2]))
    if k < 0.6: return F(rng.randint(-40, 40), 8)
    if k < 0.9: return F(rng.randint(-300, 300), rng.choice([1, 3, 7, 10, 100]))
    return F(rng.randint(-10**6, 10**6), rng.randint(1, 10**4))

def rnd_aff(rng):
    k = rng.random()
    if k < 0.1: return (F(1), F(0), F(0), F(1), F(0), F(0))
    if k < 0.2: return (F(1), F(0), F(0), F(1), rnd_frac(rng), rnd_frac(rng))
    if k < 0.3: return (rnd_frac(rng), F(0), F(0), rnd_frac(rng), F(0), F(0))
    if k < 0.35:  # degenerate
        a, b = rnd_frac(rng), rnd_frac(rng); s = rnd_frac(rng)
        return (a, b, a * s, b * s, rnd_frac(rng), rnd_frac(rng))
    return tuple(rnd_frac(rng) for _ in range(6))

def commute(a, b):
    A, B = Affine2D(*a), Affine2D(*b)
    return tuple(A @ B) == tuple(B @ A)

def impl_call(name, arg):
    """run the implementation entry `name` on Fractions; returns canonical value"""
    try:
        if name == 'matmul': return list(Affine2D(*arg[0]) @ Affine2D(*arg[1]))
        if name == 'map_point': return list(Affine2D(*arg[0]).map_point(tuple(arg[1])))
        if name == 'compose_ltr': return list(Affine2D.compose_ltr([Affine2D(*a) for a in arg]))
        if name == 'inverse': return list(Affine2D(*arg).inverse())
        if name == 'is_degenerate': return Affine2D(*arg).is_degenerate()
        if name == 'translate': return list(Affine2D(*arg[0]).translate(arg[1], arg[2]))
        if name == 'scale': return list(Affine2D(*arg[0]).scale(arg[1], arg[2]))
        if name == 'rect_to_rect':
            return ['ok', list(Affine2D.rect_to_rect(Rect(*arg[0]), Rect(*arg[1]), arg[2]))]
        if name == 'decompose_translation':
            t, r = Affine2D(*arg).decompose_translation(); return ['ok', [list(t), list(r)]]
        if name == 'affine_round': return list(Affine2D(*arg[0]).round(int(arg[1])))
        if name == 'rect_union': return list(Rect(*arg[0]).union(Rect(*arg[1])))
        if name == 'rect_empty': return Rect(*arg).empty()
    except ValueError: return ['err', 'ValueError']
    except AssertionError: return ['err', 'AssertionError']
    except ZeroDivisionError: return ['err', 'ZeroDivisionError']
    raise KeyError(name)

def gen_cases(ctx):
    rng = ctx.rng
    n = ctx.n(2000, 50000)
    for i in range(n):
        k = i % 12
        if k == 0:
            a, b = rnd_aff(rng), rnd_aff(rng)
            yield ('matmul', [a, b]), (not commute(a, b))
        elif k == 1:
            yield ('map_point', [rnd_aff(rng), (rnd_frac(rng), rnd_frac(rng))]), True
        elif k in (2, 3):
            l = [rnd_aff(rng) for _ in range(rng.randint(0, 5))]
            nt = len(l) >= 2 and any(not commute(x, y) for x, y in zip(l, l[1:]))
            yield ('compose_ltr', l), nt
        elif k == 4:
            a = rnd_aff(rng)
            yield ('inverse', a), a != (1, 0, 0, 1, 0, 0)
        elif k == 5:
            a = rnd_aff(rng)
            tx, ty = (F(0), F(0)) if rng.random() < 0.2 else (rnd_frac(rng), rnd_frac(rng))
            yield ('translate', [a, tx, ty]), True
        elif k == 6:
            yield ('scale', [rnd_aff(rng), rnd_frac(rng), None if rng.random() < 0.4 else rnd_frac(rng)]), True
        elif k in (7, 8):
            src = (rnd_frac(rng), rnd_frac(rng), abs(rnd_frac(rng)), abs(rnd_frac(rng)))
            dst = (rnd_frac(rng), rnd_frac(rng), abs(rnd_frac(rng)), abs(rnd_frac(rng)))
            par = rng.choice(ALIGNS)
            r = rng.random()
            if r < 0.3: par += ' meet'
            elif r < 0.6: par += ' slice'
            elif r < 0.65: par = rng.choice(['bogus', 'xMidYMid foo', '', ' xMidYMid ', 'XMIDYMID SLICE', 'xMidYMid  meet'])
            nt = src[2] * dst[3] != src[3] * dst[2] and src[2] != 0 and src[3] != 0 and dst[2] != 0 and dst[3] != 0
            yield ('rect_to_rect', [src, dst, par]), nt
        elif k == 9:
            a = rnd_aff(rng)
            # the code divides by c (or b) when a is ~0: keep those away from 0 unless there is no translation
            if abs(a[0]) <= F(1, 10**9) and (a[2] == 0 or a[1] == 0): a = (F(1),) + a[1:]
            if abs(a[0]) > F(1, 10**9) and a[3] - a[1] * a[2] / a[0] == 0: a = a[:3] + (a[3] + 1,) + a[4:]
            yield ('decompose_translation', a), (a[4] != 0 or a[5] != 0)
        elif k == 10:
            yield ('rect_union', [tuple(rnd_frac(rng) for _ in range(4)), tuple(rnd_frac(rng) for _ in range(4))]), True
        else:
            yield ('affine_round', [tuple(F(rng.randint(-10**7, 10**7), rng.choice([10**4, 2**10, 3, 10**7, 2 * 10**3])) for _ in range(6)), rng.randint(0, 6)]), True

def corr(ctx):
    return run_corr(ctx, gen_cases(ctx), impl_call)

# ---------------------------------------------------------------- search (spec-judged, implementation only)
LAT = [F(0), F(1), F(-1), F(2), F(1, 2), F(3)]
def lattice_affines():
    out = [(F(1), F(0), F(0), F(1), F(1), F(0)), (F(2), F(0), F(0), F(2), F(0), F(0)), (F(1), F(0), F(0), F(1), F(0), F(-2)),
           (F(0), F(1), F(-1), F(0), F(0), F(0)), (F(1), F(1, 2), F(0), F(1), F(0), F(0)), (F(1), F(0), F(2), F(1), F(3), F(1)),
           (F(2), F(1), F(1), F(3), F(5), F(7)), (F(-1), F(0), F(0), F(1), F(0), F(0)), (F(1), F(0), F(0), F(1), F(0), F(0))]
    return out
PTS = [(F(x), F(y)) for x in (0, 1, -2) for y in (0, 1, 3)]

def mapp(a, p):
    return (a[0] * p[0] + a[2] * p[1] + a[4], a[1] * p[0] + a[3] * p[1] + a[5])

def search(ctx, broken, disagreements):
    """evaluate the C11 laws directly on the implementation over a small-scope enumeration"""
    found, n = [], 0
    affs = lattice_affines()
    def viol(law, inp, expected, observed):
        found.append({'law': law, 'input': inp, 'expected_by_spec': expected, 'observed': observed})
    # left-to-right composition
    for k in (1, 2, 3):
        for l in itertools.product(affs, repeat=k):
            if found: break
            try: m = tuple(Affine2D.compose_ltr([Affine2D(*a) for a in l]))
            except Exception as ex: m = None
            for p in PTS:
                n += 1
                q = p
                for a in l: q = mapp(a, q)
                if m is None or tuple(Affine2D(*m).map_point(p)) != q:
                    viol('compose_ltr maps through the first transform first', {'affines': l, 'point': p}, q,
                         None if m is None else tuple(Affine2D(*m).map_point(p))); break
    # product, map_point, inverse
    for a in affs:
        for b in affs:
            n += 1
            try: ab = Affine2D(*a) @ Affine2D(*b)
            except Exception: ab = None
            for p in PTS:
                if ab is None or tuple(ab.map_point(p)) != mapp(a, mapp(b, p)):
                    viol('A@B maps by B first then A', {'A': a, 'B': b, 'point': p}, mapp(a, mapp(b, p)),
                         None if ab is None else tuple(ab.map_point(p))); break
        det = a[0] * a[3] - a[1] * a[2]
        if det != 0:
            n += 1
            try:
                inv = Affine2D(*a).inverse()
                for p in PTS:
                    if tuple(inv.map_point(mapp(a, p))) != p:
                        viol('inverse undoes the transform', {'A': a, 'point': p}, p, tuple(inv.map_point(mapp(a, p)))); break
            except Exception as ex:
                viol('inverse undoes the transform', {'A': a}, 'a matrix', repr(ex))
    # primitive constructors
    I = Affine2D.identity()
    for (tx, ty) in [(F(0), F(0)), (F(3), F(0)), (F(0), F(-2)), (F(1, 2), F(5))]:
        for p in PTS:
            n += 1
            if tuple(I.translate(tx, ty).map_point(p)) != (p[0] + tx, p[1] + ty):
                viol('translate(tx,ty)', {'tx': tx, 'ty': ty, 'point': p}, (p[0] + tx, p[1] + ty), tuple(I.translate(tx, ty).map_point(p)))
    for (sx, sy) in [(F(2), F(3)), (F(-1), F(1, 2))]:
        for p in PTS:
            n += 1
            if tuple(I.scale(sx, sy).map_point(p)) != (p[0] * sx, p[1] * sy):
                viol('scale(sx,sy)', {'sx': sx, 'sy': sy, 'point': p}, (p[0] * sx, p[1] * sy), tuple(I.scale(sx, sy).map_point(p)))
            if tuple(I.scale(sx).map_point(p)) != (p[0] * sx, p[1] * sx):
                viol('scale(s) defaults sy=sx', {'sx': sx, 'point': p}, (p[0] * sx, p[1] * sx), tuple(I.scale(sx).map_point(p)))
    for ang in (0.5, math.pi / 2, -2.0):
        for (cx, cy) in [(0.0, 0.0), (3.0, -1.0)]:
            for p in PTS:
                n += 1
                x, y = float(p[0]), float(p[1])
                ex = (cx + math.cos(ang) * (x - cx) - math.sin(ang) * (y - cy), cy + math.sin(ang) * (x - cx) + math.cos(ang) * (y - cy))
                ob = tuple(I.rotate(ang, cx, cy).map_point((x, y)))
                if max(abs(ex[0] - ob[0]), abs(ex[1] - ob[1])) > 1e-9:
                    viol('rotate(a,cx,cy) is rotation about (cx,cy)', {'a': ang, 'c': (cx, cy), 'point': (x, y)}, ex, ob)
        for p in PTS:
            x, y = float(p[0]), float(p[1])
            n += 2
            ob = tuple(I.skewx(ang).map_point((x, y))); ex = (x + math.tan(ang) * y, y)
            if max(abs(ex[0] - ob[0]), abs(ex[1] - ob[1])) > 1e-9: viol('skewX', {'a': ang, 'point': (x, y)}, ex, ob)
            ob = tuple(I.skewy(ang).map_point((x, y))); ex = (x, y + math.tan(ang) * x)
            if max(abs(ex[0] - ob[0]), abs(ex[1] - ob[1])) > 1e-9: viol('skewY', {'a': ang, 'point': (x, y)}, ex, ob)
    # viewport mapping
    for src in [(F(0), F(0), F(10), F(20)), (F(1), F(2), F(4), F(4))]:
        for dst in [(F(0), F(0), F(30), F(30)), (F(5), F(-5), F(8), F(2))]:
            for al in ALIGNS:
                for mos in ('meet', 'slice'):
                    n += 1
                    v = judge_rect_to_rect(src, dst, al, mos)
                    if v: viol('rect_to_rect ' + v[0], {'src': src, 'dst': dst, 'align': al, 'meetOrSlice': mos}, v[1], v[2])
    for d in disagreements:
        pass
    return found[:3], {'evaluations': n}

def judge_rect_to_rect(src, dst, al, mos):
    par = al if al == 'none' else al + ' ' + mos
    try: m = tuple(Affine2D.rect_to_rect(Rect(*src), Rect(*dst), par))
    except Exception as ex: return ('raises', 'a matrix', repr(ex))
    sx0, sy0 = dst[2] / src[2], dst[3] / src[3]
    if al == 'none': sx, sy = sx0, sy0
    else: sx = sy = (min if mos == 'meet' else max)(sx0, sy0)
    low = al.lower()
    def off(kind, d0, dlen, s0, slen, s):
        base = d0 - s0 * s
        if al == 'none' or kind + 'min' in low: return base
        if kind + 'mid' in low: return base + (dlen - slen * s) / 2
        return base + (dlen - slen * s)
    ex = (sx, F(0), F(0), sy, off('x', dst[0], dst[2], src[0], src[2], sx), off('y', dst[1], dst[3], src[1], src[3], sy))
    if m != ex: return ('places the source box per preserveAspectRatio', ex, m)
    return None

def matches_known(v, entry):
    return False

def replay(ctx, w):
    name, arg = w['call']
    arg = unjson(arg)
    impl = impl_call(name, arg)
    out = {'impl': impl}
    try:
        out['model'] = ctx.model().call(name, arg)
    except Exception as ex:
        out['model'] = repr(ex)
    out['fails'] = canon(out['impl']) != canon(out['model'])
    return out
