"""C11 — transform strings and affine algebra (engine E1)."""
from fractions import Fraction as F
import itertools, math, re
from picosvg.svg_transform import Affine2D
from picosvg.geometric_types import Rect, Point
from common import *

COQ_TARGETS = ['props/C11.vo']
ALWAYS_JUDGE = True      # the float-side laws (decomposition branches, transform strings) are judged on every run
RULE = ("arithmetic: random Fraction 6-tuples/points/rect pairs through implementation (which accepts Fractions) and "
        "the generated model over Q, exact equality; non-trivial = a list with >=2 non-commuting transforms, "
        "a non-identity inverse, or a rect pair with different aspect ratios")
TRUSTED = ["tools/translate.py (Python-ast -> Gallina, fail-closed) regenerates gen/G_geom.v, gen/G_transform.v from /repo on every run",
           "extraction (ExtrOcamlBasic, ExtrOcamlString) + ocaml/driver.ml + tools/wire.py (correspondence glue)",
           "real-number model of floats: IEEE rounding not modelled"]
ASSUMES = ["Python floats are modelled as exact reals/rationals", "math.cos/sin/tan denote Coq's cos/sin/tan"]

ALIGNS = ["none", "xMinYMin", "xMidYMin", "xMaxYMin", "xMinYMid", "xMidYMid", "xMaxYMid", "xMinYMax", "xMidYMax", "xMaxYMax"]

def rnd_frac(rng, big=False):
    k = rng.random()
    if k < 0.15: return F(rng.choice([0, 1, -1, 2]))
    if k < 0.6: return F(rng.randint(-40, 40), 8)
    if k < 0.9: return F(rng.randint(-300, 300), rng.choice([1, 3, 7, 10, 100]))
    return F(rng.randint(-10**6, 10**6), rng.randint(1, 10**4))

def rnd_aff(rng):
    k = rng.random()
    if k < 0.1: return (F(1), F(0), F(0), F(1), F(0), F(0))
    if k < 0.2: return (F(1), F(0), F(0), F(1), rnd_frac(rng), rnd_frac(rng))
    if k < 0.3: return (rnd_frac(rng), F(0), F(0), rnd_frac(rng), F(0), F(0))
    if k < 0.35:  # degenerate
        a, b = rnd_frac(rng), rnd_frac(rng); s = rnd_frac(rng)
        return (a, b, a * s, b * s, rnd_frac(rng), rnd_frac(rng))
    return tuple(rnd_frac(rng) for _ in range(6))

def commute(a, b):
    A, B = Affine2D(*a), Affine2D(*b)
    return tuple(A @ B) == tuple(B @ A)

def impl_call(name, arg):
    """run the implementation entry `name` on Fractions; returns canonical value"""
    try:
        if name == 'matmul': return list(Affine2D(*arg[0]) @ Affine2D(*arg[1]))
        if name == 'map_point': return list(Affine2D(*arg[0]).map_point(tuple(arg[1])))
        if name == 'compose_ltr': return list(Affine2D.compose_ltr([Affine2D(*a) for a in arg]))
        if name == 'inverse': return list(Affine2D(*arg).inverse())
        if name == 'is_degenerate': return Affine2D(*arg).is_degenerate()
        if name == 'translate': return list(Affine2D(*arg[0]).translate(arg[1], arg[2]))
        if name == 'scale': return list(Affine2D(*arg[0]).scale(arg[1], arg[2]))
        if name == 'rect_to_rect':
            return ['ok', list(Affine2D.rect_to_rect(Rect(*arg[0]), Rect(*arg[1]), arg[2]))]
        if name == 'decompose_translation':
            t, r = Affine2D(*arg).decompose_translation(); return ['ok', [list(t), list(r)]]
        if name == 'affine_round': return list(Affine2D(*arg[0]).round(int(arg[1])))
        if name == 'rect_union': return list(Rect(*arg[0]).union(Rect(*arg[1])))
        if name == 'rect_empty': return Rect(*arg).empty()
    except ValueError: return ['err', 'ValueError']
    except AssertionError: return ['err', 'AssertionError']
    except ZeroDivisionError: return ['err', 'ZeroDivisionError']
    raise KeyError(name)

def gen_cases(ctx):
    rng = ctx.rng
    n = ctx.n(2000, 50000)
    for i in range(n):
        k = i % 12
        if k == 0:
            a, b = rnd_aff(rng), rnd_aff(rng)
            yield ('matmul', [a, b]), (not commute(a, b))
        elif k == 1:
            yield ('map_point', [rnd_aff(rng), (rnd_frac(rng), rnd_frac(rng))]), True
        elif k in (2, 3):
            l = [rnd_aff(rng) for _ in range(rng.randint(0, 5))]
            nt = len(l) >= 2 and any(not commute(x, y) for x, y in zip(l, l[1:]))
            yield ('compose_ltr', l), nt
        elif k == 4:
            a = rnd_aff(rng)
            yield ('inverse', a), a != (1, 0, 0, 1, 0, 0)
        elif k == 5:
            a = rnd_aff(rng)
            tx, ty = (F(0), F(0)) if rng.random() < 0.2 else (rnd_frac(rng), rnd_frac(rng))
            yield ('translate', [a, tx, ty]), True
        elif k == 6:
            yield ('scale', [rnd_aff(rng), rnd_frac(rng), None if rng.random() < 0.4 else rnd_frac(rng)]), True
        elif k in (7, 8):
            src = (rnd_frac(rng), rnd_frac(rng), abs(rnd_frac(rng)), abs(rnd_frac(rng)))
            dst = (rnd_frac(rng), rnd_frac(rng), abs(rnd_frac(rng)), abs(rnd_frac(rng)))
            par = rng.choice(ALIGNS)
            r = rng.random()
            if r < 0.3: par += ' meet'
            elif r < 0.6: par += ' slice'
            elif r < 0.65: par = rng.choice(['bogus', 'xMidYMid foo', '', ' xMidYMid ', 'XMIDYMID SLICE', 'xMidYMid  meet'])
            nt = src[2] * dst[3] != src[3] * dst[2] and src[2] != 0 and src[3] != 0 and dst[2] != 0 and dst[3] != 0
            yield ('rect_to_rect', [src, dst, par]), nt
        elif k == 9:
            a = rnd_aff(rng)
            # the code divides by c (or b) when a is ~0: keep those away from 0 unless there is no translation
            if abs(a[0]) <= F(1, 10**9) and (a[2] == 0 or a[1] == 0): a = (F(1),) + a[1:]
            if abs(a[0]) > F(1, 10**9) and a[3] - a[1] * a[2] / a[0] == 0: a = a[:3] + (a[3] + 1,) + a[4:]
            yield ('decompose_translation', a), (a[4] != 0 or a[5] != 0)
        elif k == 10:
            yield ('rect_union', [tuple(rnd_frac(rng) for _ in range(4)), tuple(rnd_frac(rng) for _ in range(4))]), True
        else:
            yield ('affine_round', [tuple(F(rng.randint(-10**7, 10**7), rng.choice([10**4, 2**10, 3, 10**7, 2 * 10**3])) for _ in range(6)), rng.randint(0, 6)]), True

# ---------------------------------------------------------------- transform strings (hand model of the lexer)
from picosvg.svg_transform import parse_svg_transform
NUMS = ['0', '1', '-1', '2', '.5', '0.25', '-3.5', '1e1', '2E-1', '+4', '45', '90', '30', '1.', '100']
BAD = ['', 'x', '1e', '--1', '1..2', '.', 'e1']
SEPS = [',', ' ', ', ', ' , ', '  ', '\t', '\n', ' ,']
OPS = {'matrix': [6], 'translate': [1, 2], 'scale': [1, 2], 'rotate': [1, 3, 2], 'skewX': [1], 'skewY': [1]}

def gen_op(rng, wild):
    op = rng.choice(list(OPS))
    k = rng.choice(OPS[op]) if rng.random() < 0.9 or not wild else rng.randint(1, 7)
    nums = [rng.choice(NUMS) for _ in range(k)]
    if op.startswith('skew') and nums[0] == '90': nums[0] = '30'   # tan(90deg) ~ 1.6e16: float cancellation, not modelled
    if wild and rng.random() < 0.15: nums[rng.randrange(k)] = rng.choice(BAD)
    sep = rng.choice(SEPS)
    body = nums[0]
    for x in nums[1:]:
        body += (rng.choice(SEPS) if rng.random() < 0.3 else sep) + x
    if rng.random() < 0.2: body = rng.choice([' ', '\n', '  ']) + body
    if rng.random() < 0.2: body = body + rng.choice([' ', '\t'])
    if wild and rng.random() < 0.05: body = body + rng.choice([',', ',,', ' ,'])
    name = op
    r = rng.random()
    if r < 0.15: name = op.upper()
    elif r < 0.3: name = op.lower()
    return name + rng.choice(['', '', ' ', '\t', '  ']) + '(' + body + ')', op, k

def gen_tf_string(rng, wild=True):
    n = rng.choice([1, 1, 2, 2, 3, 4, 5])
    parts, ops = [], []
    for _ in range(n):
        s, op, k = gen_op(rng, wild); parts.append(s); ops.append(op)
    s = parts[0]
    for x in parts[1:]: s += rng.choice(['', ' ', ',', ', ', '\n', ' , ']) + x
    if wild and rng.random() < 0.15:
        # single-character mutation
        i = rng.randrange(len(s) + 1)
        ch = rng.choice('(), .-+e0123456789 \tmatrixsclkwXY')
        s = rng.choice([s[:i] + ch + s[i:], s[:i] + s[i + 1:], s[:i] + ch + s[i + 1:]])
    return s, ops

def impl_parse(s):
    try:
        return ['ok', [float(v) for v in parse_svg_transform(s)]]
    except ValueError: return ['err', 'ValueError']
    except TypeError: return ['err', 'Other']
    except ZeroDivisionError: return ['err', 'ZeroDivisionError']

def close(a, b):
    a, b = float(a), float(b)
    return abs(a - b) <= 1e-9 * max(1.0, abs(a), abs(b))

def corr_strings(ctx, stats):
    m = ctx.model()
    rng = ctx.rng
    n = ctx.n(3000, 60000)
    seen = set()
    for i in range(n):
        s, ops = gen_tf_string(rng, wild=(i % 3 != 0))
        if s in seen: continue
        seen.add(s)
        if any(c in s for c in '_') or 'inf' in s.lower() or 'nan' in s.lower(): continue
        # cos / sin / tan of an angle of 1e16 degrees: binary64 argument reduction decides the value, the exact model cannot follow
        # (same exclusion as tan(90 deg)); such angles only arise from the single-character mutations
        huge = False
        for mm in re.finditer(r'(?i)(rotate|skewx|skewy)\s*\(\s*([-+]?[0-9.]+(?:e[-+]?[0-9]+)?)', s):
            try: huge = huge or abs(float(mm.group(2))) > 1e5
            except ValueError: pass
        if huge:
            stats['distribution']['tf_skipped_huge_angle'] = stats['distribution'].get('tf_skipped_huge_angle', 0) + 1
            continue
        impl = impl_parse(s)
        mod = m.call('parse_svg_transform', s)
        stats['evaluations'] += 1
        stats['distribution']['tf_string'] = stats['distribution'].get('tf_string', 0) + 1
        if impl[0] == 'err':
            same = (canon(impl) == canon(mod))
            stats['distribution']['tf_err:' + impl[1]] = stats['distribution'].get('tf_err:' + impl[1], 0) + 1
        else:
            scale = max([1.0] + [abs(v) for v in impl[1]])
            same = mod[0] == 'ok' and all(abs(float(x) - float(y)) <= 1e-9 * scale for x, y in zip(impl[1], mod[1]))
            if len(ops) >= 2 and len(set(ops)) >= 2:
                stats['nontrivial'].add('tf:' + s)
        if len(stats['samples']) < 9 and impl[0] == 'ok' and len(ops) >= 2 and i % 50 == 0:
            stats['samples'].append({'call': 'parse_svg_transform', 'input': s, 'impl': impl, 'model': show(mod)})
        if not same:
            stats['disagreements'].append({'what': 'parse_svg_transform: model and implementation differ',
                                           'input': jsonable(['parse_svg_transform', s]), 'impl': jsonable(impl), 'model': jsonable(mod)})
            if len(stats['disagreements']) >= 10: break

def corr_roundtrip(ctx, stats):
    """tostring -> fromstring on the implementation, and the model reading the implementation's string"""
    m = ctx.model(); rng = ctx.rng
    pool = [0.0, 1.0, -1.0, 0.5, 2.0, 0.1, 1e-7, 1e22, -0.0, 0.1 + 0.2, 123456.789, 5e-324, 2.0 ** 53, 1 / 3]
    for i in range(ctx.n(300, 5000)):
        k = rng.random()
        if k < 0.3: vals = (1.0, 0.0, 0.0, 1.0, rng.choice(pool), rng.choice(pool))
        elif k < 0.4: vals = (1.0, rng.choice([0.5, -1.0, 0.1, 2.0]), 0.0, 1.0, rng.choice(pool), rng.choice(pool))          # unit diagonal, vertical shear
        elif k < 0.5: vals = (1.0, 0.0, rng.choice([0.5, -1.0, 0.1, 2.0]), 1.0, rng.choice(pool), rng.choice(pool))          # unit diagonal, horizontal shear
        elif k < 0.55: vals = (rng.choice([1.0, -1.0]), 0.0, 0.0, rng.choice([-1.0, 1.0]), rng.choice(pool), rng.choice(pool))  # flips
        else: vals = tuple(rng.choice(pool) if rng.random() < 0.7 else rng.uniform(-100, 100) for _ in range(6))
        A = Affine2D(*vals)
        s = A.tostring()
        back = Affine2D.fromstring(s)
        mod = m.call('parse_svg_transform', s)
        stats['evaluations'] += 1
        stats['distribution']['tostring_roundtrip'] = stats['distribution'].get('tostring_roundtrip', 0) + 1
        ok_impl = tuple(back) == tuple(A)
        ok_model = mod[0] == 'ok' and all(float(x) == float(y) for x, y in zip(mod[1], A))
        if vals[:4] != (1.0, 0.0, 0.0, 1.0): stats['nontrivial'].add('rt:' + s)
        if not (ok_impl and ok_model):
            stats['disagreements'].append({'what': 'tostring/fromstring round trip' + ('' if ok_impl else ' (implementation itself)'),
                                           'input': jsonable(['roundtrip', list(vals)]), 'impl': s, 'model': jsonable(mod)})
            if len(stats['disagreements']) >= 10: break

def corr(ctx):
    stats = run_corr(ctx, gen_cases(ctx), impl_call)
    corr_strings(ctx, stats)
    corr_roundtrip(ctx, stats)
    return stats

# ---------------------------------------------------------------- search (spec-judged, implementation only)
LAT = [F(0), F(1), F(-1), F(2), F(1, 2), F(3)]
def lattice_affines():
    out = [(F(1), F(0), F(0), F(1), F(1), F(0)), (F(2), F(0), F(0), F(2), F(0), F(0)), (F(1), F(0), F(0), F(1), F(0), F(-2)),
           (F(0), F(1), F(-1), F(0), F(0), F(0)), (F(1), F(1, 2), F(0), F(1), F(0), F(0)), (F(1), F(0), F(2), F(1), F(3), F(1)),
           (F(2), F(1), F(1), F(3), F(5), F(7)), (F(-1), F(0), F(0), F(1), F(0), F(0)), (F(1), F(0), F(0), F(1), F(0), F(0))]
    return out
PTS = [(F(x), F(y)) for x in (0, 1, -2) for y in (0, 1, 3)]

def mapp(a, p):
    return (a[0] * p[0] + a[2] * p[1] + a[4], a[1] * p[0] + a[3] * p[1] + a[5])

def search(ctx, broken, disagreements):
    """evaluate the C11 laws directly on the implementation over a small-scope enumeration"""
    found, n = [], 0
    affs = lattice_affines()
    def viol(law, inp, expected, observed):
        found.append({'law': law, 'input': inp, 'expected_by_spec': expected, 'observed': observed})
    # left-to-right composition
    for k in (1, 2, 3):
        for l in itertools.product(affs, repeat=k):
            if found: break
            try: m = tuple(Affine2D.compose_ltr([Affine2D(*a) for a in l]))
            except Exception as ex: m = None
            for p in PTS:
                n += 1
                q = p
                for a in l: q = mapp(a, q)
                if m is None or tuple(Affine2D(*m).map_point(p)) != q:
                    viol('compose_ltr maps through the first transform first', {'affines': l, 'point': p}, q,
                         None if m is None else tuple(Affine2D(*m).map_point(p))); break
    # product, map_point, inverse
    for a in affs:
        for b in affs:
            n += 1
            try: ab = Affine2D(*a) @ Affine2D(*b)
            except Exception: ab = None
            for p in PTS:
                if ab is None or tuple(ab.map_point(p)) != mapp(a, mapp(b, p)):
                    viol('A@B maps by B first then A', {'A': a, 'B': b, 'point': p}, mapp(a, mapp(b, p)),
                         None if ab is None else tuple(ab.map_point(p))); break
        det = a[0] * a[3] - a[1] * a[2]
        if det != 0:
            n += 1
            try:
                inv = Affine2D(*a).inverse()
                for p in PTS:
                    if tuple(inv.map_point(mapp(a, p))) != p:
                        viol('inverse undoes the transform', {'A': a, 'point': p}, p, tuple(inv.map_point(mapp(a, p)))); break
            except Exception as ex:
                viol('inverse undoes the transform', {'A': a}, 'a matrix', repr(ex))
    # primitive constructors
    I = Affine2D.identity()
    for (tx, ty) in [(F(0), F(0)), (F(3), F(0)), (F(0), F(-2)), (F(1, 2), F(5))]:
        for p in PTS:
            n += 1
            if tuple(I.translate(tx, ty).map_point(p)) != (p[0] + tx, p[1] + ty):
                viol('translate(tx,ty)', {'tx': tx, 'ty': ty, 'point': p}, (p[0] + tx, p[1] + ty), tuple(I.translate(tx, ty).map_point(p)))
    for (sx, sy) in [(F(2), F(3)), (F(-1), F(1, 2))]:
        for p in PTS:
            n += 1
            if tuple(I.scale(sx, sy).map_point(p)) != (p[0] * sx, p[1] * sy):
                viol('scale(sx,sy)', {'sx': sx, 'sy': sy, 'point': p}, (p[0] * sx, p[1] * sy), tuple(I.scale(sx, sy).map_point(p)))
            if tuple(I.scale(sx).map_point(p)) != (p[0] * sx, p[1] * sx):
                viol('scale(s) defaults sy=sx', {'sx': sx, 'point': p}, (p[0] * sx, p[1] * sx), tuple(I.scale(sx).map_point(p)))
    for ang in (0.5, math.pi / 2, -2.0):
        for (cx, cy) in [(0.0, 0.0), (3.0, -1.0)]:
            for p in PTS:
                n += 1
                x, y = float(p[0]), float(p[1])
                ex = (cx + math.cos(ang) * (x - cx) - math.sin(ang) * (y - cy), cy + math.sin(ang) * (x - cx) + math.cos(ang) * (y - cy))
                ob = tuple(I.rotate(ang, cx, cy).map_point((x, y)))
                if max(abs(ex[0] - ob[0]), abs(ex[1] - ob[1])) > 1e-9:
                    viol('rotate(a,cx,cy) is rotation about (cx,cy)', {'a': ang, 'c': (cx, cy), 'point': (x, y)}, ex, ob)
        for p in PTS:
            x, y = float(p[0]), float(p[1])
            n += 2
            ob = tuple(I.skewx(ang).map_point((x, y))); ex = (x + math.tan(ang) * y, y)
            if max(abs(ex[0] - ob[0]), abs(ex[1] - ob[1])) > 1e-9: viol('skewX', {'a': ang, 'point': (x, y)}, ex, ob)
            ob = tuple(I.skewy(ang).map_point((x, y))); ex = (x, y + math.tan(ang) * x)
            if max(abs(ex[0] - ob[0]), abs(ex[1] - ob[1])) > 1e-9: viol('skewY', {'a': ang, 'point': (x, y)}, ex, ob)
    # viewport mapping
    for src in [(F(0), F(0), F(10), F(20)), (F(1), F(2), F(4), F(4))]:
        for dst in [(F(0), F(0), F(30), F(30)), (F(5), F(-5), F(8), F(2))]:
            for al in ALIGNS:
                for mos in ('meet', 'slice'):
                    n += 1
                    v = judge_rect_to_rect(src, dst, al, mos)
                    if v: viol('rect_to_rect ' + v[0], {'src': src, 'dst': dst, 'align': al, 'meetOrSlice': mos}, v[1], v[2])
    # transform strings: the attribute denotes the product of its operations, in order (spec-side matrices)
    def spec_matrix(op, a):
        r = math.radians
        if op == 'matrix' and len(a) == 6: return tuple(a)
        if op == 'translate' and len(a) in (1, 2): return (1, 0, 0, 1, a[0], a[1] if len(a) == 2 else 0)
        if op == 'scale' and len(a) in (1, 2): return (a[0], 0, 0, a[1] if len(a) == 2 else a[0], 0, 0)
        if op == 'rotate' and len(a) in (1, 3):
            c, s_ = math.cos(r(a[0])), math.sin(r(a[0]))
            cx, cy = (a[1], a[2]) if len(a) == 3 else (0, 0)
            return (c, s_, -s_, c, cx - c * cx + s_ * cy, cy - s_ * cx - c * cy)
        if op == 'skewX' and len(a) == 1: return (1, 0, math.tan(r(a[0])), 1, 0, 0)
        if op == 'skewY' and len(a) == 1: return (1, math.tan(r(a[0])), 0, 1, 0, 0)
        return None
    def mm(A, B):
        return (A[0]*B[0]+A[2]*B[1], A[1]*B[0]+A[3]*B[1], A[0]*B[2]+A[2]*B[3], A[1]*B[2]+A[3]*B[3],
                A[0]*B[4]+A[2]*B[5]+A[4], A[1]*B[4]+A[3]*B[5]+A[5])
    samples = [('translate', [3, 1]), ('translate', [2]), ('scale', [2]), ('scale', [2, 3]), ('rotate', [30]), ('rotate', [90, 1, 2]),
               ('skewX', [30]), ('skewY', [45]), ('matrix', [1, 2, 3, 4, 5, 6])]
    for k in (1, 2, 3):
        for ops in itertools.product(samples, repeat=k):
            for sep, asep in ((' ', ','), (',', ' '), ('', ' , ')):
                n += 1
                s = sep.join(f"{op}({asep.join(str(v) for v in a)})" for op, a in ops)
                M = (1, 0, 0, 1, 0, 0)
                for op, a in ops: M = mm(M, spec_matrix(op, a))
                try: got = tuple(float(v) for v in Affine2D.fromstring(s))
                except Exception as ex: got = repr(ex)
                if isinstance(got, str) or max(abs(x - y) for x, y in zip(got, M)) > 1e-9 * max(1, max(abs(v) for v in M)):
                    viol('transform attribute = product of its operations in order', {'string': s}, M, got); break
            if len(found) > 3: break
        if len(found) > 3: break
    for vals in [(1.0, 0.0, 0.0, 1.0, 2.5, -3.0), (1.0, 0.5, 0.0, 1.0, 3.0, 4.0), (1.0, 0.0, -0.5, 1.0, 3.0, 4.0), (-1.0, 0.0, 0.0, 1.0, 3.0, 4.0), (0.5, 0.1, -0.25, 2.0, 1e-7, 123456.789), (1.0, 0.0, 0.0, 1.0, 0.0, 0.0), (2.0, 0.0, 0.0, 2.0, 0.0, 0.0)]:
        n += 1
        try: back = tuple(Affine2D.fromstring(Affine2D(*vals).tostring()))
        except Exception as ex: back = repr(ex)
        if back != vals: viol('tostring then fromstring returns the same matrix', {'matrix': vals}, vals, back)
    # scale and translation decompositions recompose to the original transform (exact recomposition of the returned floats)
    for A in decomposition_samples():
        for which in ('decompose_translation', 'decompose_scale'):
            n += 1
            v = judge_decomposition(which, A)
            if v: viol(which + ': ' + v[0], {'matrix': A}, v[1], v[2])
    return found[:3], {'evaluations': n}

def decomposition_samples():
    """non-degenerate matrices, well away from the code's own |a| <= 1e-9 'is zero' branch boundary, with the
    first entry spread over many magnitudes (near-quarter-turn rotations, thin scales, exact zero)"""
    out = []
    for deg in (0, 30, 89, 89.9, 89.99, 89.999, 89.9999, 90, 90.002, -90.0005, 135, 180.003, 270.01):
        c, s = math.cos(math.radians(deg)), math.sin(math.radians(deg))
        if deg % 90 == 0: c, s = float(round(c)), float(round(s))
        for (e, f) in ((0.0, 0.0), (3.0, 4.0), (1000.0, 2000.0), (0.5, 0.25)):
            out.append((c, s, -s, c, e, f))
            out.append((2 * c, 2 * s, -0.5 * s + 0.25 * c, 0.5 * c + 0.25 * s, e, f))
    for a in (1.0, -3.0, 1e-2, 5e-4, 5e-5, 3e-6, 2e-7, -4e-5):
        for (b, c, d) in ((0.0, 0.0, 1.0), (1.0, -1.0, 0.5), (0.25, 2.0, 3.0)):
            for (e, f) in ((3.0, 4.0), (-120.0, 7.5)):
                out.append((a, b, c, d, e, f))
    for (b, c, d) in ((1.0, -1.0, 0.0), (2.0, 3.0, 5.0), (-0.5, 1.0, 1.0)):
        out.append((0.0, b, c, d, 3.0, 4.0))
    return out

def judge_decomposition(which, A):
    """None, or (what, expected, observed). The parts, composed left to right, must give back A; the translation part
    must be a pure translation, the scale part a pure scale. Recomposition is done in exact rationals from the returned
    floats; tolerance 1e-9 relative to the largest entry (float evaluation of the closed forms is ~1e-13)."""
    fa = tuple(F(v) for v in A)
    if fa[0] * fa[3] - fa[1] * fa[2] == 0: return None
    try: first, second = getattr(Affine2D(*A), which)()
    except Exception as ex: return ('raises on a non-degenerate transform', 'two transforms whose composition is the matrix', repr(ex)[:200])
    p, q = tuple(F(v) for v in first), tuple(F(v) for v in second)
    if which == 'decompose_translation' and (p[:4] != (1, 0, 0, 1) or q[4:] != (0, 0)):
        return ('parts are not (translation, 2x2)', 'translation then linear part', [list(map(float, p)), list(map(float, q))])
    if which == 'decompose_scale' and (p[1], p[2], p[4], p[5]) != (0, 0, 0, 0):
        return ('first part is not a pure scale', 'scale then remainder', list(map(float, p)))
    # map through `first` first: matrix of the composition is second @ first
    got = (q[0]*p[0]+q[2]*p[1], q[1]*p[0]+q[3]*p[1], q[0]*p[2]+q[2]*p[3], q[1]*p[2]+q[3]*p[3],
           q[0]*p[4]+q[2]*p[5]+q[4], q[1]*p[4]+q[3]*p[5]+q[5])
    err = max(abs(g - w) for g, w in zip(got, fa))
    if err > F(1, 10**9) * max(1, max(abs(v) for v in fa)):
        return ('parts do not recompose to the transform', list(A), list(map(float, got)))
    return None

def judge_rect_to_rect(src, dst, al, mos):
    par = al if al == 'none' else al + ' ' + mos
    try: m = tuple(Affine2D.rect_to_rect(Rect(*src), Rect(*dst), par))
    except Exception as ex: return ('raises', 'a matrix', repr(ex))
    sx0, sy0 = dst[2] / src[2], dst[3] / src[3]
    if al == 'none': sx, sy = sx0, sy0
    else: sx = sy = (min if mos == 'meet' else max)(sx0, sy0)
    low = al.lower()
    def off(kind, d0, dlen, s0, slen, s):
        base = d0 - s0 * s
        if al == 'none' or kind + 'min' in low: return base
        if kind + 'mid' in low: return base + (dlen - slen * s) / 2
        return base + (dlen - slen * s)
    ex = (sx, F(0), F(0), sy, off('x', dst[0], dst[2], src[0], src[2], sx), off('y', dst[1], dst[3], src[1], src[3], sy))
    if m != ex: return ('places the source box per preserveAspectRatio', ex, m)
    return None

def matches_known(v, entry):
    return False

def replay(ctx, w):
    name, arg = w['call']
    arg = unjson(arg)
    impl = impl_call(name, arg)
    out = {'impl': impl}
    try:
        out['model'] = ctx.model().call(name, arg)
    except Exception as ex:
        out['model'] = repr(ex)
    out['fails'] = canon(out['impl']) != canon(out['model'])
    return out
