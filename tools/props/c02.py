"""C02 — flattening groups, transforms, use and nested svg preserves the rendering (E1, E5)."""
from fractions import Fraction as F
import itertools, math, re
from lxml import etree
from picosvg.svg import SVG
from picosvg.svg_transform import Affine2D
from common import *
import render

COQ_TARGETS = ['props/C02.vo']
ALWAYS_JUDGE = True
RULE = ("(a) context transforms of depth_first() on trees of nested transformed groups (depth<=4, dyadic matrices), the transform produced by "
        "resolve_use and resolve_nested_svgs (all alignments x meet/slice): implementation = model, exact; (b) documents over the structural "
        "grammar (7 basic shapes, groups, transform lists incl. rotate/skew, defs, use with x/y/transform incl. nested use, nested svg with "
        "viewBox/preserveAspectRatio/overflow, display:none): converted document composites like the source at every usable sample point; "
        "non-trivial = at least two nested transforms that do not commute, a use, or a nested svg")
TRUSTED = ["model/Structure.v hand model of transform accumulation; arithmetic generated (gen/G_transform.v)", "tools/render.py spec-side renderer"]
ASSUMES = ["dyadic matrices in the exact part; rotate/skew only in the rendering judge (tolerance 2e-3 on colours)"]

SVGNS = 'http://www.w3.org/2000/svg'
ALIGNS = ["none", "xMinYMin", "xMidYMin", "xMaxYMin", "xMinYMid", "xMidYMid", "xMaxYMid", "xMinYMax", "xMidYMax", "xMaxYMax"]

def rnd_aff(rng):
    k = rng.random()
    v = lambda: F(rng.randint(-8, 8), rng.choice([1, 2, 4]))
    if k < 0.3: return (F(1), F(0), F(0), F(1), v(), v())
    if k < 0.5: return (v() or F(1), F(0), F(0), v() or F(2), F(0), F(0))
    if k < 0.6: return (F(0), F(1), F(-1), F(0), F(0), F(0))
    return (v(), v(), v(), v(), v(), v())

def aff_s(a): return 'matrix(%s)' % ' '.join(str(float(x)) if x.denominator != 1 else str(int(x)) for x in a)

def rnd_tree(rng, depth=0):
    own = rnd_aff(rng) if rng.random() < 0.7 else None
    kids = [] if depth >= 3 else [rnd_tree(rng, depth + 1) for _ in range(rng.randint(0, 3))]
    return (own, kids)

def tree_xml(t, root=False):
    own, kids = t
    inner = ''.join(tree_xml(k) for k in kids)
    if root: return f'<svg xmlns="{SVGNS}" viewBox="0 0 10 10">{inner}</svg>'
    tf = f' transform="{aff_s(own)}"' if own else ''
    return f'<g{tf}>{inner}</g>' if kids or True else ''

def tree_wire(t):
    own, kids = t
    return [list(own) if own else None, [tree_wire(k) for k in kids]]

def corr(ctx):
    m = ctx.model()
    stats = {'evaluations': 0, 'nontrivial': set(), 'samples': [], 'disagreements': [], 'distribution': {}}
    rng = ctx.rng
    def rec(name, inp, impl, mod, nt):
        stats['evaluations'] += 1
        stats['distribution'][name] = stats['distribution'].get(name, 0) + 1
        if nt: stats['nontrivial'].add(json.dumps(jsonable([name, inp]), sort_keys=True))
        if len(stats['samples']) < 5 and nt and stats['evaluations'] % 61 == 0: stats['samples'].append({'call': name, 'input': show(jsonable(inp)), 'impl': show(jsonable(impl))})
        if canon(impl) != canon(mod):
            stats['disagreements'].append({'what': f'{name}: model and implementation differ', 'input': jsonable([name, inp]), 'impl': jsonable(impl), 'model': jsonable(mod)})
    for i in range(ctx.n(300, 6000)):
        k = i % 3
        if k == 0:
            t = (None, [rnd_tree(rng, 1) for _ in range(rng.randint(1, 3))])
            svg = SVG.fromstring(tree_xml(t, root=True))
            impl = [[F(v) for v in c.transform] for c in svg.depth_first(resolve_clip_paths=False)]
            rec('traverse', tree_wire(t), impl, m.call('traverse', tree_wire(t)), True)
        elif k == 1:
            x, y = F(rng.randint(-5, 5)), F(rng.randint(-5, 5), 2)
            own = rnd_aff(rng) if rng.random() < 0.6 else None
            child = rnd_aff(rng) if rng.random() < 0.5 else None
            doc = (f'<svg xmlns="{SVGNS}" xmlns:xlink="http://www.w3.org/1999/xlink" viewBox="0 0 10 10"><defs><rect id="r" width="1" height="1"'
                   + (f' transform="{aff_s(child)}"' if child else '') + f'/></defs><use xlink:href="#r" x="{float(x)}" y="{float(y)}"'
                   + (f' transform="{aff_s(own)}"' if own else '') + '/></svg>')
            out = SVG.fromstring(doc).resolve_use()
            els = [e for e in out.svg_root if etree.QName(e).localname != 'defs']
            e = els[0]
            tf = Affine2D.identity()
            while True:
                if e.get('transform'): tf = Affine2D.compose_ltr((tf, Affine2D.fromstring(e.get('transform')))) if False else Affine2D.compose_ltr((Affine2D.fromstring(e.get('transform')), tf)) if False else tf
                break
            # total transform on the instantiated rect = product along the chain below the root
            def total(el, cur):
                t = Affine2D.compose_ltr((Affine2D.fromstring(el.get('transform')), cur)) if el.get('transform') else cur
                return total(el[0], t) if len(el) else t
            impl = [F(v) for v in total(els[0], Affine2D.identity())]
            rec('use_transform', [x, y, own, child], impl, m.call('use_transform', [x, y, list(own) if own else None, list(child) if child else None]), own is not None)
        else:
            x, y, w, h = F(rng.randint(-3, 3)), F(rng.randint(-3, 3)), F(rng.choice([4, 6, 8])), F(rng.choice([4, 5, 8]))
            vb = (F(rng.randint(-2, 2)), F(rng.randint(-2, 2)), F(rng.choice([2, 4, 8, 16])), F(rng.choice([2, 4, 8]))) if rng.random() < 0.8 else None
            par = rng.choice(ALIGNS) + rng.choice(['', ' meet', ' slice'])
            own = rnd_aff(rng) if rng.random() < 0.3 else None
            doc = (f'<svg xmlns="{SVGNS}" viewBox="0 0 20 20"><svg x="{x}" y="{y}" width="{w}" height="{h}"'
                   + (f' viewBox="{vb[0]} {vb[1]} {vb[2]} {vb[3]}"' if vb else '') + f' preserveAspectRatio="{par}" overflow="visible"'
                   + (f' transform="{aff_s(own)}"' if own else '') + '><rect width="1" height="1"/></svg></svg>')
            try:
                out = SVG.fromstring(doc).resolve_nested_svgs()
                g = [e for e in out.svg_root][0]
                impl = ['ok', [F(v) for v in (Affine2D.fromstring(g.get('transform')) if g.get('transform') else Affine2D.identity())]]
            except ValueError: impl = ['err', 'ValueError']
            rec('unnest_transform', [x, y, w, h, vb, par, own], impl, m.call('unnest_transform', [x, y, w, h, list(vb) if vb else None, par, list(own) if own else None]), vb is not None)
        if len(stats['disagreements']) >= 10: break
    # flattening (model/Flatten.v): bare groups are dissolved, groups with opacity 0.5 and two leaves of their own are kept;
    # leaves are numbered by their fill.  The implementation's result must be the model's forest, leaf for leaf, group for group.
    from picosvg import svg as psvg
    def rnd_ftree(depth):
        if depth >= 3 or rng.random() < 0.35: return next_leaf()
        d = rng.random() < 0.6
        kids = [rnd_ftree(depth + 1) for _ in range(rng.randint(0 if d else 1, 3))]
        if not d: kids = [next_leaf()] + kids + [next_leaf()]
        return [d, kids]
    def to_xml(t):
        if not isinstance(t, list): return f'<path d="M{t},0 L{t + 1},0 L{t + 1},2 Z" fill="#{t:06x}"/>'
        return ('<g>' if t[0] else '<g opacity="0.5">') + ''.join(to_xml(k) for k in t[1]) + '</g>'
    def of_el(e):
        if etree.QName(e).localname == 'path': return int(e.get('fill')[1:], 16)
        return [False, [of_el(k) for k in e]]
    for i in range(ctx.n(150, 2500)):
        counter = [0]
        def next_leaf():
            counter[0] += 1; return counter[0]
        t = [True, [rnd_ftree(0) for _ in range(rng.randint(1, 3))]]
        doc = '<svg xmlns="http://www.w3.org/2000/svg" viewBox="0 0 100 100">' + to_xml(t) + '</svg>'
        try:
            out = SVG.fromstring(doc).topicosvg().toetree()
            impl = [of_el(e) for e in out if etree.QName(e).localname != 'defs']
        except Exception as ex: impl = 'raised ' + repr(ex)[:100]
        mod = m.call('flatten', t)
        rec('flatten', t, impl, mod, counter[0] >= 3)
        if len(stats['disagreements']) >= 10: break
    # one dissolution step: _replace_el(group, its children) among siblings
    for i in range(ctx.n(100, 1500)):
        n1, n2, nk = rng.randint(0, 3), rng.randint(0, 3), rng.randint(0, 3)
        ids = iter(range(1, 20))
        before = [next(ids) for _ in range(n1)]; kids = [next(ids) for _ in range(nk)]; after = [next(ids) for _ in range(n2)]
        root = etree.fromstring('<svg xmlns="http://www.w3.org/2000/svg">' + ''.join(f'<path id="p{j}"/>' for j in before) + '<g>' + ''.join(f'<path id="p{j}"/>' for j in kids) + '</g>' + ''.join(f'<path id="p{j}"/>' for j in after) + '</svg>')
        g = root[n1]
        psvg._replace_el(g, list(g))
        impl = [int(e.get('id')[1:]) for e in root]
        mod = m.call('replace_el', [before, [True, kids], after])
        rec('replace_el', [before, kids, after], impl, mod, nk >= 1 and n1 + n2 >= 1)
    return stats

# ---------------------------------------------------------------- structural documents for the rendering judge
COL = ['red', 'blue', 'green', 'yellow', 'purple', 'orange', 'gray', 'lime']
def gen_doc(rng):
    ids = []
    def tf():
        ops = []
        for _ in range(rng.randint(1, 3)):
            k = rng.choice(['translate', 'scale', 'rotate', 'matrix', 'skewX', 'rotatec'])
            if k == 'translate': ops.append(f'translate({rng.randint(-4, 6)},{rng.randint(-4, 6)})')
            elif k == 'scale': ops.append(f'scale({rng.choice([0.5, 1.5, 2, -1])}' + (f',{rng.choice([0.5, 1, 2])})' if rng.random() < 0.5 else ')'))
            elif k == 'rotate': ops.append(f'rotate({rng.choice([90, 30, -45, 180])})')
            elif k == 'rotatec': ops.append(f'rotate({rng.choice([90, 30])} {rng.randint(5, 12)} {rng.randint(5, 12)})')
            elif k == 'skewX': ops.append(f'skewX({rng.choice([10, 30])})')
            else: ops.append('matrix(1 0.5 -0.5 1 2 1)')
        return ' transform="%s"' % rng.choice([' ', ',', ', ']).join(ops)
    def shape():
        c = rng.choice(COL); k = rng.randrange(6)
        t = tf() if rng.random() < 0.4 else ''
        d = ' display="none"' if rng.random() < 0.07 else ''
        x, y = rng.randint(0, 12), rng.randint(0, 12)
        if k == 0: return f'<rect x="{x}" y="{y}" width="{rng.randint(3, 8)}" height="{rng.randint(3, 8)}"' + (rng.choice([f' rx="{rng.choice([1, 2])}"', f' rx="{rng.choice([5, 6])}"', f' rx="5" ry="{rng.choice([4, 6])}"', f' ry="{rng.choice([5, 1])}"']) if rng.random() < 0.4 else '') + f' fill="{c}"{t}{d}/>'
        if k == 1: return f'<circle cx="{x + 3}" cy="{y + 3}" r="{rng.randint(2, 4)}" fill="{c}"{t}{d}/>'
        if k == 2: return f'<ellipse cx="{x + 3}" cy="{y + 3}" rx="{rng.randint(2, 5)}" ry="{rng.randint(1, 3)}" fill="{c}"{t}{d}/>'
        if k == 3: return f'<polygon points="{x},{y} {x + 6},{y + 1} {x + 2},{y + 7}" fill="{c}"{t}{d}/>'
        if k == 4: return f'<path d="M{x},{y} h6 v5 l-3,2 z" fill="{c}"{t}{d}/>'
        return f'<polyline points="{x},{y} {x + 5},{y} {x + 5},{y + 5}" fill="{c}"{t}{d}/>'
    def group(depth):
        kids = ''.join(group(depth + 1) if depth < 3 and rng.random() < 0.3 else shape() for _ in range(rng.randint(1, 3)))
        return f'<g{tf() if rng.random() < 0.6 else ""}>{kids}</g>'
    defs, body = '', ''
    for _ in range(rng.randint(2, 4)):
        r = rng.random()
        if r < 0.08:
            # content authored in tiny local units, brought to size by a large scale (a group transform or a tiny viewBox)
            c = rng.choice(COL); k = rng.choice([1000, 10000]); u = lambda v: repr(v / k)
            pth = f'<path d="M{u(1)},{u(1)} l{u(7)},{u(1)} l-{u(2)},{u(6)} z" fill="{c}"/>' if rng.random() < 0.5 else \
                  f'<path d="M0,0 L{u(8)},{u(2)} L{u(3)},{u(7)} L{u(0.5)},{u(0.4)} Z M{u(0.6)},{u(0.5)} L{u(9)},{u(9)} L{u(0)},{u(8)} Z" fill="{c}"/>'
            if rng.random() < 0.3:
                # ... or in huge local units under a tiny scale (the CTM's determinant is ~1e-10, and not zero)
                K = 50000; U = lambda v: str(int(v * K))
                pth = f'<path d="M{U(1)},{U(1)} l{U(7)},{U(1)} l-{U(2)},{U(6)} z" fill="{c}"/>'
                body += f'<g transform="translate({rng.randint(0, 8)},{rng.randint(0, 8)}) scale({repr(1 / K)})">{pth}</g>'
            elif rng.random() < 0.6: body += f'<g transform="translate({rng.randint(0, 8)},{rng.randint(0, 8)}) scale({k})">{pth}</g>'
            else: body += f'<svg x="{rng.randint(0, 8)}" y="{rng.randint(0, 8)}" width="10" height="10" viewBox="0 0 {u(10)} {u(10)}">{pth}</svg>'
        elif r < 0.45: body += group(1)
        elif r < 0.7: body += shape()
        elif r < 0.87:
            i = len(ids); ids.append(i)
            inner = shape() if rng.random() < 0.6 else f'<g>{shape()}{shape()}</g>'
            inner = inner.replace('<', f'<', 1)
            inner = re.sub(r'^<(\w+)', rf'<\1 id="u{i}"', inner, count=1)
            defs += inner
            body += f'<use xlink:href="#u{i}" x="{rng.randint(-3, 6)}" y="{rng.randint(-3, 6)}"{tf() if rng.random() < 0.5 else ""}/>'
            if rng.random() < 0.3:
                defs += f'<use id="uu{i}" xlink:href="#u{i}" x="1"/>'
                body += f'<use xlink:href="#uu{i}" y="{rng.randint(0, 5)}"/>'
        else:
            par = rng.choice(ALIGNS) + rng.choice(['', ' meet', ' slice'])
            ov = rng.choice(['', ' overflow="visible"', ' overflow="hidden"'])
            inner = ''
            if rng.random() < 0.4:
                # a nested svg inside the nested svg; without width/height it fills the outer one's viewBox
                size = rng.choice(['', f' width="{rng.choice([5, 8])}" height="{rng.choice([5, 8])}"', f' width="{rng.choice([5, 8])}"'])
                inner = (f'<svg x="{rng.randint(0, 3)}" y="{rng.randint(0, 3)}"{size} viewBox="0 0 {rng.choice([10, 5])} {rng.choice([10, 8])}" '
                         f'overflow="visible">{shape()}</svg>')
            vbox = f'viewBox="{rng.randint(0, 3)} {rng.randint(0, 3)} {rng.choice([10, 20])} {rng.choice([10, 16])}" ' if rng.random() < 0.8 else ''    # no viewBox: placed at x,y unscaled
            body += (f'<svg x="{rng.randint(0, 8)}" y="{rng.randint(0, 8)}" width="{rng.choice([6, 8, 10])}" height="{rng.choice([6, 8])}" '
                     f'{vbox}preserveAspectRatio="{par}"{ov}>{shape()}{inner}{shape()}</svg>')
    return f'<svg xmlns="{SVGNS}" xmlns:xlink="http://www.w3.org/1999/xlink" viewBox="0 0 20 20"><defs>{defs}</defs>{body}</svg>'

def judge_doc(doc):
    try: out = SVG.fromstring(doc).topicosvg().tostring()
    except Exception: return None
    r = render.compare_documents(doc, out, (-4, -4, 30, 30), n=17)
    if r is None or len(r) == 1: return None
    return ('converted document paints the same stack as the source', {'point': r[0], 'colour': r[1]}, {'colour': r[2], 'output': out})

def search(ctx, broken, disagreements):
    rng = ctx.rng
    found, n = [], 0
    for _ in range(ctx.n(120, 3000)):
        doc = gen_doc(rng); n += 1
        v = judge_doc(doc)
        if v:
            found.append({'law': v[0], 'input': {'doc': doc}, 'expected_by_spec': jsonable(v[1]), 'observed': jsonable(v[2])})
            if len(found) >= 3: break
    return found, {'evaluations': n}

def matches_known(v, entry): return False
def replay(ctx, w):
    v = judge_doc(w['doc'])
    return {'fails': v is not None, 'detail': jsonable(v)}
