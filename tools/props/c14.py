"""C14 — content that renderers ignore never influences the converted document (E5 noise)."""
import copy, random, re
from lxml import etree
from picosvg.svg import SVG
from common import *
import docgen

COQ_TARGETS = ['props/C14.vo']
ALWAYS_JUDGE = True
RULE = ("(a) the cleaning front end (parser options, remove_nonsvg_content, remove_processing_instructions, remove_anonymous_symbols, "
        "remove_title_meta_desc) on random trees mixing svg / xlink / foreign namespaces, comments, PIs, symbols with and without id, "
        "title/desc/metadata at any depth: implementation = model; (b) pairs (D, N(D)) with 1-8 noise insertions of every listed kind at "
        "random tree positions (root, groups, defs, gradients, clipPaths, inside shapes, before/after the root): convert(N(D)) equals "
        "convert(D) with gradients paired through the fills of corresponding paths (ids and defs order free, gradient numbers within 2e-5 relative); both raising counts as equal")
TRUSTED = ["model/Noise.v hand model of the cleaning front end", "noise inserter and canonical comparison of tools/props/c14.py (lxml only)", "tools/docgen.py"]
ASSUMES = ["that the rest of the pipeline is a function of the cleaned tree (apart from bare wrapper groups) is decided by the judge (partial)"]
SVGNS = 'http://www.w3.org/2000/svg'
XL = 'http://www.w3.org/1999/xlink'
FOO = 'http://example.com/foo'

# ---------------------------------------------------------------- correspondence: cleaning front end
TAGS = ['g', 'path', 'rect', 'symbol', 'title', 'desc', 'metadata', 'comment', 'defs', 'linearGradient', 'stop', 'bar']
def gen_nnode(rng, depth=0):
    k = rng.random()
    if depth > 0 and k < 0.12: return 'comment'
    if depth > 0 and k < 0.22: return 'pi'
    ns = 'svg' if depth == 0 or rng.random() < 0.8 else 'other'
    tag = 'svg' if depth == 0 else rng.choice(TAGS)
    attrs = []
    for name in rng.sample(['id', 'fill', 'label', 'href', 'space'], rng.randint(0, 2)):
        ans = 'svg' if name in ('id', 'fill') else ('xlink' if name == 'href' else rng.choice(['other', 'svg']))
        attrs.append([ans, name, rng.choice(['a', 'b'])])
    kids = [gen_nnode(rng, depth + 1) for _ in range(rng.choice([0, 1, 2, 3]) if depth < 4 else 0)] if depth or True else []
    if depth == 0: kids = [gen_nnode(rng, 1) for _ in range(rng.randint(1, 4))]
    return ['el', ns, tag, attrs, kids]

def nnode_xml(n, top=True):
    if n == 'comment': return '<!-- c -->'
    if n == 'pi': return '<?pi data?>'
    _, ns, tag, attrs, kids = n
    pre = {'svg': '', 'xlink': 'xlink:', 'other': 'foo:'}
    a = f' xmlns="{SVGNS}" xmlns:xlink="{XL}" xmlns:foo="{FOO}"' if top else ''
    for ans, name, v in attrs: a += f' {pre[ans]}{name}="{v}"'
    return f'<{pre[ns] if ns != "xlink" else "foo:"}{tag}{a}>' + ''.join(nnode_xml(k, False) for k in kids) + f'</{pre[ns] if ns != "xlink" else "foo:"}{tag}>'

def nsk(uri):
    return 'svg' if uri in (SVGNS, None) else ('xlink' if uri == XL else 'other')

def nnode_of(el):
    if el.tag is etree.Comment: return 'comment'
    if el.tag is etree.ProcessingInstruction: return 'pi'
    q = etree.QName(el)
    attrs = []
    for k, v in el.attrib.items():
        qa = etree.QName(k)
        attrs.append([nsk(qa.namespace), qa.localname, v])
    return ['el', nsk(q.namespace), q.localname, attrs, [nnode_of(k) for k in el]]

def impl_clean(n):
    svg = SVG.fromstring(nnode_xml(n))
    svg.remove_nonsvg_content(inplace=True)
    svg.remove_processing_instructions(inplace=True)
    svg.remove_anonymous_symbols(inplace=True)
    svg.remove_title_meta_desc(inplace=True)
    return nnode_of(svg.toetree())

def has_noise(n):
    if isinstance(n, str): return True
    return n[1] == 'other' or n[2] in ('title', 'desc', 'metadata', 'symbol') or any(a[0] == 'other' for a in n[3]) or any(has_noise(k) for k in n[4])

def corr(ctx):
    rng = ctx.rng
    def cases():
        for _ in range(ctx.n(700, 12000)):
            n = gen_nnode(rng)
            yield ('clean_root', n), has_noise(n)
    def canon_attrs(n):
        if isinstance(n, str): return n
        return [n[0], n[1], n[2], sorted(n[3]), [canon_attrs(k) for k in n[4]]]
    m = ctx.model()
    return run_corr(ctx, cases(), lambda name, arg: canon_attrs(impl_clean(arg)), lambda name, arg: canon_attrs(m.call(name, arg)))

# ---------------------------------------------------------------- noise insertion (spec side)
def q(tag): return f'{{{SVGNS}}}{tag}'
CONTAINERS_FOR_G = ('svg', 'g', 'defs')

def noise_node(rng, kind):
    if kind == 'comment': return etree.Comment(rng.choice([' note ', ' note ', ' saved as <svg> by a tool ', ' <svg xmlns:foo="urn:x"> was here ', ' xlink:href="#nothing" ']))
    if kind == 'pi': return etree.ProcessingInstruction('xpacket', 'begin="x"')
    if kind in ('title', 'desc', 'metadata'):
        e = etree.Element(q(kind)); e.text = 'words'
        if rng.random() < 0.4: etree.SubElement(e, q('rect'), width='3', height='3', fill='red')
        if rng.random() < 0.3: etree.SubElement(e, f'{{{FOO}}}x')
        return e
    if kind == 'foreign':
        if rng.random() < 0.2:
            return etree.fromstring('<bar xmlns="" a="1"><baz/></bar>')      # an element in no namespace at all
        e = etree.Element(f'{{{FOO}}}bar', nsmap={'foo': FOO}); e.set('a', '1')
        if rng.random() < 0.5: etree.SubElement(e, q('rect'), width='9', height='9', fill='red', id='zz' + str(rng.randint(0, 99)))
        if rng.random() < 0.3: etree.SubElement(e, f'{{{FOO}}}baz').text = 'x'
        return e
    if kind == 'symbol':
        e = etree.Element(q('symbol'))
        etree.SubElement(e, q('rect'), width='9', height='9', fill='blue')
        if rng.random() < 0.3: e.set('viewBox', '0 0 5 5')
        return e
    raise ValueError(kind)

def elements(root):
    return [e for e in root.iter() if isinstance(e.tag, str)]

def insert_noise(doc, rng, kinds):
    """returns (noisy document, list of what was inserted where)"""
    parser = etree.XMLParser(remove_comments=False)
    root = etree.fromstring(doc.encode(), parser)
    log = []
    for kind in kinds:
        els = elements(root)
        if kind in ('comment', 'pi', 'title', 'desc', 'metadata', 'foreign'):
            host = rng.choice(els)
            if kind == 'foreign' and etree.QName(host).localname in ('rect', 'circle', 'ellipse', 'path', 'polygon', 'polyline', 'line', 'stop', 'use'): host = root
            pos = rng.randint(0, len(host))
            host.insert(pos, noise_node(rng, kind))
            log.append(f'{kind} in {etree.QName(host).localname}[{pos}]')
        elif kind == 'symbol':
            host = rng.choice([e for e in els if etree.QName(e).localname in CONTAINERS_FOR_G])
            pos = rng.randint(0, len(host)); host.insert(pos, noise_node(rng, kind))
            log.append(f'id-less symbol in {etree.QName(host).localname}[{pos}]')
        elif kind == 'attr':
            host = rng.choice(els)
            host.set(f'{{{FOO}}}label', 'x'); log.append(f'foreign attribute on {etree.QName(host).localname}')
            if rng.random() < 0.3: host.set('{http://www.w3.org/XML/1998/namespace}space', 'preserve'); log.append('xml:space')
        elif kind == 'wrap':
            hosts = [e for e in els if etree.QName(e).localname in CONTAINERS_FOR_G and len(e) > 0 and etree.QName(e).namespace == SVGNS]
            hosts = [h for h in hosts if not any(etree.QName(a).localname in ('clipPath', 'symbol', 'title', 'desc', 'metadata') or etree.QName(a).namespace != SVGNS for a in h.iterancestors() if isinstance(a.tag, str))]
            if not hosts: continue
            host = rng.choice(hosts)
            i = rng.randint(0, len(host) - 1); j = rng.randint(i + 1, len(host))
            run = [k for k in host[i:j]]
            g = etree.Element(q('g'))
            host.insert(i, g)
            for k in run: g.append(k)
            log.append(f'bare wrapper group around children {i}..{j - 1} of {etree.QName(host).localname}')
        elif kind == 'space':
            host = rng.choice(els)
            if host.text is None or not host.text.strip():
                if len(host): host.text = '\n   '
                for k in host:
                    if k.tail is None or not k.tail.strip(): k.tail = '\n  '
                log.append(f'whitespace inside {etree.QName(host).localname}')
    out = etree.tostring(root).decode()
    if 'decl' in kinds: out = '<?xml version="1.0" encoding="UTF-8" standalone="no"?>' + rng.choice(['\n', '', ' ']) + out; log.append('XML declaration')     # also with nothing between it and the root (one-line files)
    if 'pi_top' in kinds: out = out.replace('<svg', rng.choice(['<?top pi?><!-- before root --><svg', '<!-- Saved as <svg> by DrawTool --><?top pi?><svg', '<!-- <svg width="1"> --><svg']), 1) + '<!-- after root -->'; log.append('PI/comment outside the root')
    return out, log

# ---------------------------------------------------------------- comparison up to gradient ids, defs order, last digit
NUMTOK = re.compile(r'-?\d+(?:\.\d+)?(?:e[-+]?\d+)?')
def close_text(a, b, tol=2e-5):
    """equal after replacing numbers by placeholders, and the numbers pairwise within tol"""
    if NUMTOK.sub('#', a) != NUMTOK.sub('#', b): return False
    return all(abs(float(x) - float(y)) <= tol * max(1.0, abs(float(x))) for x, y in zip(NUMTOK.findall(a), NUMTOK.findall(b)))

def equivalent(xa, xb):
    """None if equivalent, else a short reason"""
    ra, rb = etree.fromstring(xa.encode()), etree.fromstring(xb.encode())
    ga = {g.get('id'): g for g in ra.iter(q('linearGradient'), q('radialGradient'))}
    gb = {g.get('id'): g for g in rb.iter(q('linearGradient'), q('radialGradient'))}
    pairs = {}
    def walk(a, b, path):
        if a.tag != b.tag: return f'{path}: {a.tag} vs {b.tag}'
        if etree.QName(a).localname == 'defs': return None
        if sorted(a.attrib) != sorted(b.attrib): return f'{path}: attributes {sorted(a.attrib)} vs {sorted(b.attrib)}'
        for k in a.attrib:
            va, vb = a.get(k), b.get(k)
            ma, mb = re.match(r'^url\(#([^)]+)\)(\s+\S+)?$', va), re.match(r'^url\(#([^)]+)\)(\s+\S+)?$', vb)     # a paint may carry a fallback
            if ma and mb and ma.group(2) == mb.group(2):
                if pairs.setdefault(ma.group(1), mb.group(1)) != mb.group(1): return f'{path}: gradient {ma.group(1)} corresponds to two different gradients'
            elif va != vb: return f'{path}: {k}={va!r} vs {vb!r}'
        ka, kb = [k for k in a if isinstance(k.tag, str)], [k for k in b if isinstance(k.tag, str)]
        if len(ka) != len(kb): return f'{path}: {len(ka)} vs {len(kb)} children'
        for i, (x, y) in enumerate(zip(ka, kb)):
            r = walk(x, y, f'{path}/{etree.QName(x).localname}[{i}]')
            if r: return r
        return None
    r = walk(ra, rb, '/svg')
    if r: return r
    if len(set(pairs.values())) != len(pairs): return 'two gradients of the clean output correspond to one of the noisy output'
    if set(pairs) != set(ga) or set(pairs.values()) != set(gb): return f'defs differ: {sorted(ga)} vs {sorted(gb)} (paired: {pairs})'
    for ia, ib in pairs.items():
        a, b = ga[ia], gb[ib]
        if a.tag != b.tag or sorted(k for k in a.attrib if k != 'id') != sorted(k for k in b.attrib if k != 'id'): return f'gradient {ia}/{ib}: different kind or attributes'
        for k in a.attrib:
            if k != 'id' and not close_text(a.get(k), b.get(k)): return f'gradient {ia}/{ib}: {k}={a.get(k)!r} vs {b.get(k)!r}'
        if [sorted(st.attrib.items()) for st in a] != [sorted(st.attrib.items()) for st in b]: return f'gradient {ia}/{ib}: stops differ'
    return None

def convert(doc, nd=3):
    try: return ('ok', SVG.fromstring(doc).topicosvg(ndigits=nd).tostring())
    except Exception as e: return ('raise', type(e).__name__)

KINDS = ['comment', 'pi', 'title', 'desc', 'metadata', 'foreign', 'symbol', 'attr', 'wrap', 'space', 'decl', 'pi_top']
def judge(doc, noisy, log=None):
    a, b = convert(doc), convert(noisy)
    if a[0] == 'raise' and b[0] == 'raise': return None
    if a[0] != b[0]:
        return ('convert(N(D)) is equivalent to convert(D)', {'clean': a}, {'noisy': b, 'inserted': log})
    why = equivalent(a[1], b[1])
    if why:
        return ('convert(N(D)) is equivalent to convert(D)', {'clean_output': a[1][:3000]}, {'difference': why, 'noisy_output': b[1][:3000], 'inserted': log})
    return None

def search(ctx, broken, disagreements):
    rng = ctx.rng
    found, n, dist = [], 0, {}
    for i in range(ctx.n(200, 4000)):
        kw = [dict(), dict(gradients=0.6, uses=0.4), dict(strokes=0.5, clips=0.5), dict(nested=0.3, shared_ids=True)][i % 4]
        doc = docgen.random_doc(rng, **kw)
        kinds = [rng.choice(KINDS) for _ in range(rng.randint(1, 8))] if i % 5 else [KINDS[(i // 5) % len(KINDS)]]
        noisy, log = insert_noise(doc, rng, kinds)
        n += 1
        for k in kinds: dist[k] = dist.get(k, 0) + 1
        v = judge(doc, noisy, log)
        if v:
            found.append({'law': v[0], 'input': {'doc': doc, 'noisy': noisy}, 'expected_by_spec': jsonable(v[1]), 'observed': jsonable(v[2])})
            if len(found) >= 4: break
    return found, {'evaluations': n, 'distribution': dist}

def matches_known(v, entry):
    return False

def replay(ctx, w):
    v = judge(w['doc'], w['noisy'])
    return {'fails': v is not None, 'detail': jsonable(v)}
