"""C05 — every output path carries the paint and opacity the SVG cascade assigns (E5 inheritance + compositing)."""
from fractions import Fraction as F
import itertools, copy
from lxml import etree
from picosvg import svg as psvg
from picosvg.svg import SVG
from common import *
import render

COQ_TARGETS = ['props/C05.vo']
ALWAYS_JUDGE = True
RULE = ("(a) the inheritance helpers (_inherit_attrib, _attrib_to_pass_on, _try_remove_group) on random attribute maps vs the model, exact; "
        "(b) documents of 2-6 overlapping lattice rectangles under 0-3 group levels with fill/fill-opacity/opacity/display/stroke set by "
        "attribute or style on shape/group/root/use, opacities from {0,1/4,1/2,3/4,1,2}: the converted document must composite to the same "
        "colour as the source at every usable sample point (spec-side renderer); non-trivial = two levels set the same property or a "
        "translucent group has >=2 overlapping children")
TRUSTED = ["model/Inherit.v hand model; handler table / defaults / valid fields regenerated (gen/G_inherit.v)",
           "spec/Composite.v: source-over compositing; tools/render.py: spec-side renderer used by the judge"]
ASSUMES = ["dyadic opacities (float products exact)", "excludes the 'inherit' keyword and currentColor (property text)"]

SVGNS = 'http://www.w3.org/2000/svg'
COPY_KEYS = ['fill', 'fill-rule', 'fill-opacity', 'stroke', 'stroke-width', 'stroke-opacity', 'clip-rule', 'display', 'opacity', 'overflow', 'color', 'id', 'data-name', 'bogus', 'clip-path']
VALS = {'fill': ['red', 'none', 'blue'], 'fill-rule': ['evenodd', 'nonzero'], 'fill-opacity': ['0.5', '1', '0.25'], 'stroke': ['none', 'red'],
        'stroke-width': ['2', '0'], 'stroke-opacity': ['0.5'], 'clip-rule': ['evenodd'], 'display': ['none', 'inline'], 'opacity': ['0.5', '0.25', '1', '2', '0', 'x'],
        'overflow': ['visible', 'hidden'], 'color': ['red'], 'id': ['a'], 'data-name': ['n'], 'bogus': ['1'], 'clip-path': ['url(#a)', 'url(#b)']}

def rnd_map(rng, keys=COPY_KEYS, p=0.3):
    m = {}
    for k in keys:
        if rng.random() < p: m[k] = rng.choice(VALS[k])
    return m

def wire_map(m):
    return [[k, (F(v) if isinstance(v, (int, float)) else v)] for k, v in m.items()]

def canon_map(m):
    """attribute map -> sorted list with numeric-looking opacity values as Fractions"""
    out = []
    for k, v in (m.items() if isinstance(m, dict) else m):
        if isinstance(v, F): v = v
        elif k == 'opacity':
            try: v = F(v)
            except Exception: pass
        out.append([k, v])
    return sorted(out, key=lambda kv: kv[0])

def impl_inherit(attrib, tag, child, skip_unhandled, skips):
    el = etree.Element(f'{{{SVGNS}}}{tag}', attrib=dict(child))
    try:
        psvg._inherit_attrib(dict(attrib), el, skip_unhandled=skip_unhandled, skips=frozenset(skips))
        return ['ok', canon_map(dict(el.attrib))]
    except ValueError: return ['err', 'ValueError']
    except KeyError: return ['err', 'Other']

def impl_pass_on(current, own, tag='g'):
    el = etree.Element(f'{{{SVGNS}}}{tag}', attrib=dict(own))
    try: return ['ok', canon_map(psvg._attrib_to_pass_on(dict(current), el))]
    except ValueError: return ['err', 'ValueError']

def impl_try_remove(attrib, kids, push):
    root = etree.Element(f'{{{SVGNS}}}svg')
    g = etree.SubElement(root, f'{{{SVGNS}}}g', attrib=dict(attrib))
    for tag, a in kids: etree.SubElement(g, f'{{{SVGNS}}}{tag}', attrib=dict(a))
    try:
        removed = psvg._try_remove_group(g, push_opacity=push)
        if removed: return ['ok', ['removed', [canon_map(dict(c.attrib)) for c in root]]]
        return ['ok', ['kept', canon_map(dict(g.attrib))]]
    except ValueError: return ['err', 'ValueError']

def corr(ctx):
    m = ctx.model()
    stats = {'evaluations': 0, 'nontrivial': set(), 'samples': [], 'disagreements': [], 'distribution': {}}
    rng = ctx.rng
    def record(name, inp, impl, mod, nt):
        stats['evaluations'] += 1
        stats['distribution'][name] = stats['distribution'].get(name, 0) + 1
        if impl[0] == 'err': stats['distribution'][name + ':err'] = stats['distribution'].get(name + ':err', 0) + 1
        mm = mod
        if mod[0] == 'ok':
            if name == 'try_remove_group':
                mm = ['ok', [mod[1][0], [canon_map(k) for k in mod[1][1]] if mod[1][0] == 'removed' else canon_map(mod[1][1])]]
            else: mm = ['ok', canon_map(mod[1])]
        if nt and impl[0] == 'ok': stats['nontrivial'].add(json.dumps(jsonable([name, inp]), sort_keys=True))
        if len(stats['samples']) < 6 and nt and stats['evaluations'] % 151 == 0:
            stats['samples'].append({'call': name, 'input': show(jsonable(inp)), 'impl': show(jsonable(impl))})
        if canon(jsonable(impl)) != canon(jsonable(mm)):
            stats['disagreements'].append({'what': f'{name}: model and implementation differ', 'input': jsonable([name, inp]), 'impl': jsonable(impl), 'model': jsonable(mm)})
    for i in range(ctx.n(1500, 30000)):
        k = i % 3
        if k == 0:
            attrib, child = rnd_map(rng), rnd_map(rng, p=0.2)
            tag = rng.choice(['g', 'path', 'rect', 'linearGradient', 'dummy'])
            su = rng.random() < 0.5
            skips = rng.choice([[], ['clip-path', 'opacity', 'transform']])
            record('inherit_attrib', [attrib, tag, child, su, skips], impl_inherit(attrib, tag, child, su, skips),
                   m.call('inherit_attrib', [wire_map(attrib), tag, wire_map(child), su, skips]), bool(set(attrib) & set(child)))
        elif k == 1:
            cur, own = rnd_map(rng), rnd_map(rng)
            record('attrib_to_pass_on', [cur, own], impl_pass_on(cur, own), m.call('attrib_to_pass_on', [wire_map(cur), wire_map(own)]), bool(set(cur) & set(own)))
        else:
            attrib = rnd_map(rng, ['opacity', 'fill', 'id'], 0.5)
            kids = [(rng.choice(['path', 'g', 'rect']), rnd_map(rng, ['opacity', 'fill'], 0.4)) for _ in range(rng.randint(0, 3))]
            push = rng.random() < 0.7
            record('try_remove_group', [attrib, kids, push], impl_try_remove(attrib, kids, push),
                   m.call('try_remove_group', [wire_map(attrib), [[t, wire_map(a)] for t, a in kids], push]), len(kids) >= 2 and 'opacity' in attrib)
        if len(stats['disagreements']) >= 10: break
    # writing a cached shape back to its element and reading it again (to_element / from_element), one string field at a time
    from picosvg.svg_types import SVGPath
    import dataclasses
    WB = {'fill': ['black', 'red', 'none'], 'stroke': ['none', 'red', 'black'], 'fill-rule': ['nonzero', 'evenodd'], 'clip-rule': ['nonzero', 'evenodd'],
          'stroke-linecap': ['butt', 'round'], 'stroke-linejoin': ['miter', 'bevel']}
    defaults = {f.name.replace('_', '-'): f.default for f in dataclasses.fields(SVGPath)}
    for i in range(ctx.n(400, 6000)):
        k = rng.choice(list(WB)); v = rng.choice(WB[k])
        inh = {kk: rng.choice(WB[kk]) for kk in WB if rng.random() < 0.5}
        if i % 2 == 0:
            try: impl = psvg.to_element(SVGPath(**{k.replace('-', '_'): v}), **inh).attrib.get(k)
            except Exception as ex: impl = 'raised ' + type(ex).__name__
            mod = m.call('write_field', [wire_map(inh), defaults[k], k, v])
            nt = (k in inh)
            name, inp = 'write_field', [inh, k, v]
        else:
            own = None if rng.random() < 0.4 else rng.choice(WB[k] + ['', ' '])
            try: impl = getattr(psvg.from_element(etree.Element(f'{{{SVGNS}}}path', attrib=({} if own is None else {k: own})), **inh), k.replace('-', '_'))
            except Exception as ex: impl = 'raised ' + type(ex).__name__
            mod = m.call('read_field', [wire_map(inh), defaults[k], k, own])
            nt = (k in inh) and own is not None
            name, inp = 'read_field', [inh, k, own]
        stats['evaluations'] += 1
        stats['distribution'][name] = stats['distribution'].get(name, 0) + 1
        if nt: stats['nontrivial'].add(json.dumps(jsonable([name, inp]), sort_keys=True))
        if impl != mod:
            stats['disagreements'].append({'what': f'{name}: model and implementation differ', 'input': jsonable([name, inp]), 'impl': jsonable(impl), 'model': jsonable(mod)})
            if len(stats['disagreements']) >= 10: break
    return stats

# ---------------------------------------------------------------- documents for the rendering judge
def gen_doc(rng, with_use=True, root_opacity=False):
    """overlapping rectangles under nested groups, paint properties by attribute or style"""
    OP = ['0', '0.25', '0.5', '0.75', '1', '2']
    def paint_attrs(level):
        a, style = {}, []
        def put(k, v):
            u = rng.random()
            if u < 0.3: style.append(f'{k}:{v}')
            elif u < 0.42:
                # both ways with different values: the style declaration wins (and the last duplicate declaration)
                other = {'fill': 'purple', 'fill-opacity': '0.75', 'opacity': '0.75', 'display': 'inline', 'fill-rule': 'nonzero'}[k]
                a[k] = other; style.append(f'{k}:{v}')
                if rng.random() < 0.3: style.insert(0, f'{k}:{other}')
            else: a[k] = v
        if rng.random() < 0.5: put('fill', rng.choice(['red', 'blue', 'green', 'none', 'yellow', 'black']))   # black: the default, stated explicitly
        if rng.random() < 0.25: put('fill-opacity', rng.choice(OP[:5]))
        if rng.random() < 0.35: put('opacity', rng.choice(OP if level == 'group' else OP[:5]))
        if rng.random() < 0.08: put('display', 'none')
        elif rng.random() < 0.1: put('display', 'inline')      # an explicit non-none value on an ancestor does not un-hide a hidden descendant
        if rng.random() < 0.15 and level != 'group': put('fill-rule', rng.choice(['evenodd', 'nonzero']))
        if style: a['style'] = ';'.join(style)
        return a
    def attrs_s(a): return ''.join(f' {k}="{v}"' for k, v in a.items())
    def rect():
        x, y = rng.randint(0, 10), rng.randint(0, 10)
        return f'<rect x="{x}" y="{y}" width="{rng.randint(4, 9)}" height="{rng.randint(4, 9)}"{attrs_s(paint_attrs("shape"))}/>'
    def group(depth):
        n = rng.randint(1, 3)
        kids = ''.join(group(depth + 1) if depth < 3 and rng.random() < 0.3 else rect() for _ in range(n))
        return f'<g{attrs_s(paint_attrs("group"))}>{kids}</g>'
    body = ''.join(group(1) if rng.random() < 0.6 else rect() for _ in range(rng.randint(2, 4)))
    defs = ''
    if with_use and rng.random() < 0.4:
        # the referenced content states its own paint half of the time (own value wins over the referencing element's),
        # is a shape or a group, and the <use> may sit inside a painted group and need no offset
        tp = paint_attrs('shape') if rng.random() < 0.5 else {}
        if rng.random() < 0.7: target = f'<rect id="u" width="6" height="6"{attrs_s(tp)}/>'
        else: target = f'<g id="u"{attrs_s(paint_attrs("shape") if rng.random() < 0.4 else {})}><rect width="6" height="6"{attrs_s(tp)}/><rect x="3" y="3" width="5" height="5"/></g>'
        defs = f'<defs>{target}</defs>'
        xy = f' x="{rng.randint(0, 9)}" y="{rng.randint(0, 9)}"' if rng.random() < 0.7 else ''
        use = f'<use xlink:href="#u"{xy}{attrs_s(paint_attrs("use"))}/>'
        body += f'<g{attrs_s(paint_attrs("shape"))}>{use}</g>' if rng.random() < 0.3 else use
    root = attrs_s({k: v for k, v in paint_attrs('root').items() if k not in ('display', 'style') and (k != 'opacity' or root_opacity)}) if rng.random() < 0.3 else ''
    return f'<svg xmlns="http://www.w3.org/2000/svg" xmlns:xlink="http://www.w3.org/1999/xlink" viewBox="0 0 20 20"{root}>{defs}{body}</svg>'

def judge_doc(doc):
    try: out = SVG.fromstring(doc).topicosvg().tostring()
    except Exception as ex: return None      # rejection is allowed
    r = render.compare_documents(doc, out, (0, 0, 20, 20), n=15)
    if r is None or len(r) == 1: return None
    return ('converted document composites to the same colour as the source', {'point': r[0], 'colour': r[1]}, {'colour': r[2], 'output': out})

def search(ctx, broken, disagreements):
    rng = ctx.rng
    found, n = [], 0
    for i in range(ctx.n(150, 3000)):
        doc = gen_doc(rng, root_opacity=(i % 10 == 0))
        n += 1
        v = judge_doc(doc)
        if v:
            found.append({'law': v[0], 'input': {'doc': doc}, 'expected_by_spec': jsonable(v[1]), 'observed': jsonable(v[2])})
            if len(found) >= 3: break
    return found, {'evaluations': n}

def matches_known(v, entry):
    import re
    sig = entry.get('signature', {})
    doc = v['input'].get('doc', '')
    if sig.get('pattern') == 'root_opacity':
        return bool(re.search(r'<svg[^>]*\sopacity="(?!1")', doc))
    if sig.get('pattern') == 'shape_opacity_out_of_range':
        # an opacity value outside [0,1] on a shape/use (attribute or style)
        return bool(re.search(r'<(rect|use|path|circle)[^>]*opacity[=:]"?\s*(-|[2-9]|1\.\d*[1-9])', doc))
    return False

def replay(ctx, w):
    v = judge_doc(w['doc'])
    return {'fails': v is not None, 'detail': jsonable(v)}
