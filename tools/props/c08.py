"""C08 — converted documents have no duplicate, dangling or orphaned references (E5 refs)."""
import random, re
from lxml import etree
from picosvg.svg import SVG, _id_of_target
from picosvg.svg_types import SVGPath
from common import *
import docgen, pico

COQ_TARGETS = ['props/C08.vo']
ALWAYS_JUDGE = True
RULE = ("(a) _new_id on id sets crowded around the template, _id_of_target on url strings, _remove_orphaned_gradients on documents with "
        "shared / unused / id-less gradients and fills pointing at non-gradients or duplicated ids, resolve_use on trees with nested and "
        "repeated instancing of id'd content, _stroke id handling: implementation = model; (b) topicosvg on generated documents whose "
        "references all resolve, with ids reused by several use/fill/clip references, id'd shapes stroked and instanced several times, "
        "gradients shared between transformed, untransformed and invisible shapes: tools/pico.check_refs on every output "
        "(unique ids, every url resolves to a gradient in defs, every gradient used, no href left)")
TRUSTED = ["model/Refs.v hand model of _new_id / _resolve_use id stripping / _stroke ids / _remove_orphaned_gradients", "tools/pico.py check_refs", "tools/docgen.py"]
ASSUMES = ["ASCII ids (Python's \\w also matches non-ASCII letters)", "the composition of the mechanisms into topicosvg is decided by the end-to-end judge (partial)"]
SVGNS = 'http://www.w3.org/2000/svg'
XL = 'http://www.w3.org/1999/xlink'
HEAD = f'<svg xmlns="{SVGNS}" xmlns:xlink="{XL}" viewBox="0 0 20 20">'

def ids_of(root):
    return [e.get('id') for e in root.iter() if isinstance(e.tag, str) and e.get('id') is not None]

# ---------------------------------------------------------------- correspondence cases
def case_new_id(rng):
    prefix = rng.choice(['g_', 'grad1_', 'a', 'x-', 'nested-svg-viewport-'])
    n = rng.choice([0, 1, 2, 3, 5, 12])
    existing = [f'{prefix}{i}' for i in range(n) if rng.random() < 0.85] + rng.sample(['g', 'a', 'a1', 'a01', 'g_00', 'g_1x', 'x-2', 'grad1'], 3)
    rng.shuffle(existing)
    return ('new_id', [prefix, existing]), n > 0

def impl_new_id(arg):
    prefix, existing = arg
    doc = HEAD + ''.join(f'<path id="{i}"/>' for i in existing) + '</svg>'
    try: return ['ok', SVG.fromstring(doc)._new_id(prefix + '%d')]
    except ValueError: return ['err', 'ValueError']

URLS = ['url(#a)', 'url(#a-b_1)', 'url(#a)\n', 'url(#)', 'url(#a', 'url(a)', 'url( #a)', 'url(#a b)', 'url(#a)x', 'URL(#a)', 'url(#a))', 'none', '', 'url(#A9_-)', 'url(#a.b)', "url('#a')",
        'url(#a) red', 'url(#a.b:c)  none', 'url(#a) red\n', 'url(#a) \n', 'url(#a)\n\n', 'url(#a)\n\nx', 'url(#a) red blue', 'url(#a)\tcurrentColor', 'url(#a) ', 'url(#a)  x ']
def case_id_of_target(rng):
    u = rng.choice(URLS) if rng.random() < 0.7 else 'url(#' + ''.join(rng.choice('ab1_-.: )(') for _ in range(rng.randint(0, 4))) + ')' + rng.choice(['', '', ' x', '\n', ' \n', '  r\n', ' a b'])
    return ('id_of_target', u), True

def impl_id_of_target(u):
    try: return _id_of_target(u)
    except ValueError: return None

def case_orphans(rng):
    """returns (els, fills, grads) + the document"""
    pool = ['a', 'b', 'c', 'd', 'e']
    defs, els, grads = [], [], []
    for _ in range(rng.randint(0, 5)):
        tag = rng.choice(['linearGradient', 'radialGradient', 'linearGradient', 'clipPath', 'path'])
        i = rng.choice(pool) if rng.random() < 0.85 else None
        defs.append((tag, i))
    fills = [rng.choice(['red', 'none', 'url(#a)', 'url(#b)', 'url(#c)', 'url(#d)', 'url(#zz)', 'url(#a', 'url(#b)\n', 'url(c)']) for _ in range(rng.randint(0, 4))]
    return ('remove_orphans', [defs, fills]), True

def orphans_doc(defs, fills):
    d = ''.join(f'<{t}' + (f' id="{i}"' if i is not None else '') + '/>' for t, i in defs)
    def esc(f): return f.replace('\n', '&#10;')
    return HEAD + f'<defs>{d}</defs>' + ''.join(f'<path d="M0,0 L1,1" fill="{esc(f)}"/>' for f in fills) + '</svg>'

def impl_orphans(arg):
    defs, fills = arg
    svg = SVG.fromstring(orphans_doc(defs, fills))
    svg._remove_orphaned_gradients()
    return [e.get('id') for e in svg.svg_root.iter() if isinstance(e.tag, str) and etree.QName(e).localname in ('linearGradient', 'radialGradient')]

def model_orphans_arg(arg):
    defs, fills = arg
    els = [[t, i] for t, i in defs if i is not None]
    grads = [i for t, i in defs if t in ('linearGradient', 'radialGradient')]
    return [els, fills, grads]

def case_use(rng):
    """tree [tag, id, kids]; use nodes carry the href as a fake child"""
    names = ['t1', 't2', 't3']
    def shape(): return [rng.choice(['rect', 'path']), rng.choice([None, None, 'r1', 'r2', 'r3', 'r4']), []]
    used_ids = set()
    def uniq(n):
        if n[1] in used_ids: n[1] = None
        if n[1]: used_ids.add(n[1])
        for k in n[2]: uniq(k)
        return n
    targets = []
    for k, nm in enumerate(names):
        kids = [shape() for _ in range(rng.randint(1, 2))]
        if k > 0 and rng.random() < 0.5: kids.append(['use', rng.choice([None, 'u9']), [[names[rng.randrange(k)], None, []]]])   # nested instancing, acyclic
        targets.append(['g', nm, kids] if rng.random() < 0.6 else [kids[0][0], nm, []])
    body = []
    for _ in range(rng.randint(1, 4)):
        if rng.random() < 0.7: body.append(['use', rng.choice([None, None, 'u1', 'u2']), [[rng.choice(names), None, []]]])
        else: body.append(['g', rng.choice([None, 'g1']), [shape(), ['use', None, [[rng.choice(names), None, []]]]]])
    return ('resolve_use_ids', uniq(['svg', None, [['defs', None, targets]] + body])), True

def use_xml(t, top=True):
    tag, i, kids = t
    a = f' xmlns="{SVGNS}" xmlns:xlink="{XL}"' if top else ''
    if i is not None: a += f' id="{i}"'
    if tag == 'use': return f'<use{a} xlink:href="#{kids[0][0]}" x="1"/>'
    if tag in ('rect',): a += ' width="1" height="1"'
    if tag == 'path': a += ' d="M0,0 L1,1"'
    return f'<{tag}{a}>' + ''.join(use_xml(k, False) for k in kids) + f'</{tag}>'

def impl_use(tree):
    svg = SVG.fromstring(use_xml(tree))
    svg.resolve_use(inplace=True)
    return ids_of(svg.toetree())

def case_stroke(rng):
    return ('stroke_split_ids', [rng.choice([None, 'p1']), rng.random() < 0.6]), True

def impl_stroke(arg):
    i, fill_paints = arg
    svg = SVG.fromstring(HEAD + '</svg>')
    shape = SVGPath(d='M1,1 L9,1 L9,9 Z', id=i or '', stroke='red', stroke_width=2.0, fill='blue' if fill_paints else 'none')
    return [(p.id or None) for p in svg._stroke(shape)]

IMPL = {'new_id': impl_new_id, 'id_of_target': impl_id_of_target, 'remove_orphans': impl_orphans, 'resolve_use_ids': impl_use, 'stroke_split_ids': impl_stroke}

def corr(ctx):
    rng = ctx.rng
    m = ctx.model()
    def cases():
        for i in range(ctx.n(900, 15000)):
            yield [case_new_id, case_id_of_target, case_orphans, case_use, case_stroke, case_orphans, case_use][i % 7](rng)
    def model_call(name, arg):
        if name == 'remove_orphans': arg = model_orphans_arg(arg)
        return m.call(name, arg)
    return run_corr(ctx, cases(), lambda name, arg: IMPL[name](arg), model_call)

# ---------------------------------------------------------------- end-to-end judge
def judge(doc, nd=3):
    try: out = SVG.fromstring(doc).topicosvg(ndigits=nd).tostring()
    except ValueError as e:
        # a duplicate id reported by the final gate although the source's ids are unique was introduced by the conversion
        if 'reuses id' in str(e) or re.search(r'matches in range\(1, 2\), ([2-9]|\d\d+) results', str(e)):
            src_ids = ids_of(etree.fromstring(doc.encode()))
            if len(src_ids) == len(set(src_ids)):
                return ('instancing / splitting / cloning never introduce a duplicate id', 'unique ids (the source has unique ids)', {'raised': str(e)[:400]})
        return None
    except Exception: return None
    v = pico.check_refs(out)
    if v: return ('unique ids, every paint reference resolves to a gradient in defs, every gradient in defs is referenced', 'no violations', {'violations': v[:6], 'output': out[:3000]})
    # the same document once more in this process: what an earlier conversion did must not leak into the references
    try: out2 = SVG.fromstring(doc).topicosvg(ndigits=nd).tostring()
    except Exception as e: return ('a second conversion of the same document in one process behaves like the first', 'normal return', {'raised': repr(e)[:300]})
    v = pico.check_refs(out2)
    if v: return ('unique ids, every paint reference resolves to a gradient in defs, every gradient in defs is referenced (second conversion in the same process)', 'no violations', {'violations': v[:6], 'output': out2[:3000]})
    return None

def id_syntax_docs():
    """every XML name is an id: gradients named with dots, colons and non-ASCII letters, used by plain and by transformed shapes"""
    G = lambda i: f'<linearGradient id="{i}"><stop offset="0" stop-color="red"/><stop offset="1" stop-color="blue"/></linearGradient>'
    H = '<svg xmlns="http://www.w3.org/2000/svg" viewBox="0 0 40 40">'
    # a gradient is a resource wherever it is defined: inside a display:none group too
    yield H + '<g display="none"><defs>' + G('glow') + '</defs>' + G('h2') + '</g><rect width="9" height="9" fill="url(#glow)"/><rect x="10" width="9" height="9" fill="url(#h2)"/></svg>'
    yield H + '<g style="display:none">' + G('glow') + '</g><g opacity="0.5"><rect width="9" height="9" fill="url(#glow)"/><rect x="5" width="9" height="9" fill="url(#glow)"/></g></svg>'
    for ids in (['a.b', 'c:d'], ['gr\u00fcn', '\u03b1\u03b2'], ['x-1_y', 'Verlauf-gr\u00fcn.2']):
        for tf in ('', ' transform="translate(2,3)"'):
            yield H + '<defs>' + ''.join(G(i) for i in ids) + '</defs>' + ''.join(f'<rect x="{5 * k}" y="2" width="4" height="9" fill="url(#{i})"{tf}/>' for k, i in enumerate(ids)) + '</svg>'

def search(ctx, broken, disagreements):
    rng = ctx.rng
    found, n, dist = [], 0, {}
    for doc in id_syntax_docs():
        n += 1
        v = judge(doc)
        if v is None:
            try: SVG.fromstring(doc).topicosvg()
            except Exception as e: v = ('a document whose references all resolve is converted', 'normal return', {'raised': repr(e)[:300]})
        if v and len(found) < 2: found.append({'law': v[0], 'input': {'doc': doc}, 'expected_by_spec': jsonable(v[1]), 'observed': jsonable(v[2])})
    for i in range(ctx.n(300, 6000)):
        doc = docgen.random_doc(rng, shared_ids=True, gradients=0.5, uses=0.45, strokes=0.4, clips=0.25, nested=0.2 if i % 3 == 0 else 0.0)
        n += 1
        for f in ('<use', 'Gradient', 'stroke=', 'opacity="0"', 'display', '<svg x', 'clip-path'):
            if f in doc: dist[f] = dist.get(f, 0) + 1
        v = judge(doc)
        if v:
            found.append({'law': v[0], 'input': {'doc': doc}, 'expected_by_spec': jsonable(v[1]), 'observed': jsonable(v[2])})
            if len(found) >= 4: break
    return found, {'evaluations': n, 'distribution': dist}

def matches_known(v, entry):
    pat = entry.get('signature', {}).get('pattern')
    doc = v['input'].get('doc', '') if isinstance(v.get('input'), dict) else ''
    viol = json.dumps(jsonable(v.get('observed')))
    if 'dangling reference' not in viol: return False
    if pat == 'paint_points_at_non_gradient':
        return any(re.search(r'<(pattern|mask|filter)\b[^>]*\bid="%s"' % re.escape(m), doc) for m in re.findall(r'url\(#([^)]+)\)', doc))
    if pat == 'paint_reference_spelling':
        return bool(re.search(r'fill="\s+url\(|fill="url\(\s*[\'\"]|fill:\s+url\(\s*[\'\"]', doc))
    if pat == 'gradient_inside_anonymous_symbol':
        return bool(re.search(r'<symbol(?![^>]*\bid=)[^>]*>(?:(?!</symbol>).)*Gradient', doc, re.S))
    return False

def replay(ctx, w):
    v = judge(w['doc'], w.get('ndigits', 3))
    return {'fails': v is not None, 'detail': jsonable(v)}
