"""C12 — arc -> cubic tracks the true elliptical arc (engine E4)."""
from fractions import Fraction as F
import math, itertools
from picosvg.arc_to_cubic import arc_to_cubic
from common import *

COQ_TARGETS = ['props/C12.vo']
COQCHK_BUDGET_S = 900     # coqchk does not get through the closure of Interval's reflexive proofs in 40 minutes either (measured): do not wait that long
ALWAYS_JUDGE = True   # flags/start-point part of C12 is not yet a theorem: judged on every run
RULE = ("arcs over radii/coordinates spanning 1e-3..1e4, rotations in [-400,400] degrees, the four flag combinations, radii that "
        "exactly/barely/do not fit the chord, negative and zero radii, coincident endpoints; the generated model (exact Q arithmetic, "
        "math.* answered by CPython) must give the same segment count and control points within 2e-6*scale (sqrt of a cancelled difference amplifies float rounding to ~1e-8); "
        "non-trivial = arc neither straight nor zero-length, counted on distinct inputs")
TRUSTED = ["tools/translate.py regenerates gen/G_arc.v from arc_to_cubic.py on every run",
           "base/Num.v RMath: what math.cos/sin/tan/sqrt/atan2/ceil denote (Coq Reals functions)",
           "model/Arc.v: 10-line hand model of the arc_to_cubic wrapper (zero-length / straight-line dispatch)",
           "extraction + ocaml/driver.ml + tools/wire.py"]
ASSUMES = ["floats as exact reals; float rounding error of the implementation is observed (<=1e-9 relative), not bounded formally"]


def rnd_arc(rng):
    mag = rng.choice([1e-3, 1e-1, 1.0, 10.0, 100.0, 1e4])
    def coord(): return F(rng.randint(-64, 64), 8) * F(mag)
    sx, sy = coord(), coord()
    k = rng.random()
    if k < 0.05: ex, ey = sx, sy                       # coincident endpoints
    else:
        ex, ey = coord(), coord()
    chord = math.hypot(float(ex - sx), float(ey - sy))
    r = rng.random()
    if r < 0.08: rx, ry = F(0), abs(coord())           # zero radius
    elif r < 0.16: rx = ry = F(chord) / 2              # exactly fits (circle)
    elif r < 0.26: rx = ry = F(chord) / 2 * F(rng.choice([1001, 999, 10001, 9999]), rng.choice([1000, 10000]))  # barely
    elif r < 0.4: rx, ry = abs(coord()) / 4 + F(mag) / 100, abs(coord()) / 4 + F(mag) / 100   # likely too small
    else: rx, ry = abs(coord()) * 2 + F(mag) / 10, abs(coord()) * 2 + F(mag) / 10
    if rng.random() < 0.1: rx = -rx
    if rng.random() < 0.05: ry = -ry
    rot = F(rng.choice([0, 0, 30, 45, 90, -90, 180, 270, 360, -400, 400, 123])) if rng.random() < 0.6 else F(rng.randint(-4000, 4000), 10)
    return [[sx, sy], rx, ry, rot, rng.randint(0, 1), rng.randint(0, 1), [ex, ey]]

def impl_arc(a):
    try:
        out = []
        for p1, p2, e in arc_to_cubic(tuple(float(v) for v in a[0]), float(a[1]), float(a[2]), float(a[3]), a[4], a[5], tuple(float(v) for v in a[6])):
            out.append([None if p1 is None else [p1[0], p1[1]], None if p2 is None else [p2[0], p2[1]], [e[0], e[1]]])
        return ['ok', out]
    except ValueError: return ['err', 'ValueError']
    except ZeroDivisionError: return ['err', 'ZeroDivisionError']

def same_arc(impl, mod, scale):
    if impl[0] != mod[0]: return False
    if impl[0] == 'err': return impl[1] == mod[1]
    if len(impl[1]) != len(mod[1]): return False
    # sqrt(max(1/d - 0.25, 0)) amplifies binary64 rounding to ~1e-8 when the radii were scaled to fit
    tol = 2e-6 * scale
    for si, sm in zip(impl[1], mod[1]):
        for pi, pm in zip(si, sm):
            if (pi is None) != (pm is None): return False
            if pi is None: continue
            if abs(pi[0] - float(pm[0])) > tol or abs(pi[1] - float(pm[1])) > tol: return False
    return True

def corr(ctx):
    m = ctx.model()
    stats = {'evaluations': 0, 'nontrivial': set(), 'samples': [], 'disagreements': [], 'distribution': {}}
    for i in range(ctx.n(300, 20000)):
        a = rnd_arc(ctx.rng)
        impl = impl_arc(a)
        mod = m.call('arc_to_cubic', a)
        stats['evaluations'] += 1
        scale = max([1e-3] + [abs(float(v)) for v in (a[0] + a[6] + [a[1], a[2]])])
        kind = 'err' if impl[0] == 'err' else ('empty' if not impl[1] else ('line' if impl[1][0][0] is None else f'curve{len(impl[1])}'))
        key = f"{kind} large={a[4]} sweep={a[5]}"
        stats['distribution'][key] = stats['distribution'].get(key, 0) + 1
        if kind.startswith('curve'): stats['nontrivial'].add(json.dumps(jsonable(a)))
        if len(stats['samples']) < 5 and kind.startswith('curve') and i % 40 == 0:
            stats['samples'].append({'arc': show(a), 'impl': impl, 'model': show(mod)})
        if not same_arc(impl, mod, scale):
            stats['disagreements'].append({'what': 'arc_to_cubic: model and implementation differ', 'input': jsonable(['arc_to_cubic', a]),
                                           'impl': jsonable(impl), 'model': jsonable(mod)})
            if len(stats['disagreements']) >= 10: break
    return stats

# ---------------------------------------------------------------- spec-side judge (SVG 1.1 F.6), implementation only
def true_center(x1, y1, rx, ry, phi_deg, fa, fs, x2, y2):
    """SVG implementation notes F.6.5/F.6.6: returns (cx, cy, rx, ry, theta1, dtheta) with corrected radii"""
    rx, ry = abs(rx), abs(ry)
    phi = math.radians(phi_deg)
    c, s = math.cos(phi), math.sin(phi)
    dx, dy = (x1 - x2) / 2, (y1 - y2) / 2
    x1p, y1p = c * dx + s * dy, -s * dx + c * dy
    lam = x1p * x1p / (rx * rx) + y1p * y1p / (ry * ry)
    if lam > 1:
        rx *= math.sqrt(lam); ry *= math.sqrt(lam)
    num = rx * rx * ry * ry - rx * rx * y1p * y1p - ry * ry * x1p * x1p
    den = rx * rx * y1p * y1p + ry * ry * x1p * x1p
    co = math.sqrt(max(0.0, num / den))
    if fa == fs: co = -co
    cxp, cyp = co * rx * y1p / ry, -co * ry * x1p / rx
    cx = c * cxp - s * cyp + (x1 + x2) / 2
    cy = s * cxp + c * cyp + (y1 + y2) / 2
    def ang(ux, uy, vx, vy):
        return math.atan2(ux * vy - uy * vx, ux * vx + uy * vy)
    th1 = ang(1, 0, (x1p - cxp) / rx, (y1p - cyp) / ry)
    dth = ang((x1p - cxp) / rx, (y1p - cyp) / ry, (-x1p - cxp) / rx, (-y1p - cyp) / ry)
    if not fs and dth > 0: dth -= 2 * math.pi
    if fs and dth < 0: dth += 2 * math.pi
    return cx, cy, rx, ry, th1, dth

def bez(p0, p1, p2, p3, t):
    u = 1 - t
    return (u**3 * p0[0] + 3 * u * u * t * p1[0] + 3 * u * t * t * p2[0] + t**3 * p3[0],
            u**3 * p0[1] + 3 * u * u * t * p1[1] + 3 * u * t * t * p2[1] + t**3 * p3[1])

def judge_arc(a):
    """returns None if the implementation's output satisfies C12 on this arc, else (what, expected, observed)"""
    x1, y1 = map(float, a[0]); x2, y2 = map(float, a[6]); rx, ry, rot = float(a[1]), float(a[2]), float(a[3])
    fa, fs = a[4], a[5]
    try: segs = list(arc_to_cubic((x1, y1), rx, ry, rot, fa, fs, (x2, y2)))
    except Exception as ex: return ('raises', 'segments', repr(ex))
    if (x1, y1) == (x2, y2):
        return None if not segs else ('coincident endpoints give no segment', [], segs)
    if rx == 0 or ry == 0:
        ok = len(segs) == 1 and segs[0][0] is None and tuple(segs[0][2]) == (x2, y2)
        return None if ok else ('zero radius gives one straight line to the end point', [(None, None, (x2, y2))], segs)
    if not segs: return ('a proper arc yields at least one segment', '>=1 segment', segs)
    if any(s[0] is None for s in segs): return ('a proper arc yields cubic segments', 'cubics', segs)
    if tuple(segs[-1][2]) != (x2, y2): return ('last segment ends exactly at the arc end point', (x2, y2), tuple(segs[-1][2]))
    return cubics_on_arc(x1, y1, rx, ry, rot, fa, fs, x2, y2, segs)

def cubics_on_arc(x1, y1, rx, ry, rot, fa, fs, x2, y2, segs):
    """segs: [(p1, p2, end)] cubic segments claimed to trace the arc from (x1,y1); None if they do, within 0.03%"""
    cx, cy, crx, cry, th1, dth = true_center(x1, y1, rx, ry, rot, fa, fs, x2, y2)
    phi = math.radians(rot); c, s = math.cos(phi), math.sin(phi)
    def norm(p):
        dx, dy = p[0] - cx, p[1] - cy
        return ((c * dx + s * dy) / crx, (-s * dx + c * dy) / cry)
    cur = (x1, y1)
    swept = 0.0
    prev_ang = None
    for (p1, p2, e) in segs:
        for k in range(0, 17):
            q = norm(bez(cur, p1, p2, e, k / 16))
            r = math.hypot(*q)
            if not (1 - 1e-6 <= r <= 1 + 3.0e-4 + 1e-6):
                return ('every point of the cubic stays within 0.03% of the (corrected) ellipse', '1 <= r <= 1.0003', r)
            an = math.atan2(q[1], q[0])
            if prev_ang is not None:
                d = an - prev_ang
                while d > math.pi: d -= 2 * math.pi
                while d < -math.pi: d += 2 * math.pi
                swept += d
            prev_ang = an
        cur = tuple(e)
    if abs(swept - dth) > 1e-3:
        return ('sweeps in the direction and through the extent selected by the flags', dth, swept)
    return None

def judge_path_arc(x, y, rel, a):
    """the path-level callback: `M x,y a|A rx ry rot fa fs ex,ey` through SVGPath.arcs_to_cubics(); a = [rx, ry, rot, fa, fs, ex, ey]"""
    from picosvg.svg_types import SVGPath
    import pathsem
    rx, ry, rot, fa, fs, ex, ey = a
    d = f"M{x},{y} {'a' if rel else 'A'}{rx} {ry} {rot} {fa} {fs} {ex},{ey}"
    try: out = pathsem.parse_simple(SVGPath(d=d).arcs_to_cubics().d)
    except Exception as e: return ('raises', 'a path', repr(e))
    end = (x + ex, y + ey) if rel else (ex, ey)
    law = 'arcs_to_cubics replaces an arc command by cubics from the current point to the arc end point'
    if not out or out[0][0] != 'M' or tuple(out[0][1]) != (x, y): return (law, 'the moveto kept', out[:1])
    body = out[1:]
    if end == (x, y):
        return None if not body else ('coincident endpoints give no segment', [], body)
    if rx == 0 or ry == 0:
        ok = len(body) == 1 and body[0][0] == 'L' and tuple(body[0][1]) == end
        return None if ok else ('zero radius gives one straight line to the end point', end, body)
    if not body or any(c != 'C' for c, _ in body): return (law, 'cubic segments', body)
    segs = [((v[0], v[1]), (v[2], v[3]), (v[4], v[5])) for _, v in body]
    if tuple(segs[-1][2]) != end: return ('last segment ends exactly at the arc end point', end, tuple(segs[-1][2]))
    return cubics_on_arc(float(x), float(y), float(rx), float(ry), float(rot), fa, fs, float(end[0]), float(end[1]), segs)

def path_arc_cases(rng, n):
    out = []
    vals = [0.0, 1.0, 5.0, -3.0, 2.5, 10.0]
    for k in range(n):
        x, y = rng.choice(vals), rng.choice(vals)
        rx, ry = rng.choice([5.0, 6.0, 2.0, 0.0, -4.0, 12.0]), rng.choice([5.0, 3.0, 6.0, 12.0])
        ex, ey = rng.choice(vals), rng.choice(vals)
        if k % 4 == 0: ex, ey = x, y                     # a relative offset that repeats the current position; an absolute arc back to it
        out.append((x, y, k % 2 == 0, [rx, ry, rng.choice([0.0, 30.0, -75.0]), rng.randint(0, 1), rng.randint(0, 1), ex, ey]))
    return out

def search(ctx, broken, disagreements):
    found, n = [], 0
    for (x, y, rel, a) in path_arc_cases(ctx.rng, ctx.n(400, 5000)):
        n += 1
        v = judge_path_arc(x, y, rel, a)
        if v and not any(f['law'] == v[0] for f in found):
            found.append({'law': v[0], 'input': {'path_arc': [x, y, rel, a]}, 'expected_by_spec': jsonable(v[1]) if not isinstance(v[1], (float, str)) else v[1],
                          'observed': jsonable(v[2]) if not isinstance(v[2], (float, str)) else v[2]})
    cands = []
    for d in disagreements:
        try: cands.append(unjson(d['input'])[1])
        except Exception: pass
    rxs = [F(5), F(2), F(10), F(-5), F(0), F(1, 2)]
    for (rx, ry, rot, fa, fs, e) in itertools.product(rxs, [F(5), F(3), F(-3)], [F(0), F(30), F(-120), F(400)], (0, 1), (0, 1),
                                                       [[F(10), F(0)], [F(0), F(10)], [F(3), F(-4)], [F(0), F(0)], [F(-7), F(1, 2)]]):
        cands.append([[F(0), F(0)], rx, ry, rot, fa, fs, e])
    # radii so large that the arc is almost straight (the recorded finding lives beyond rx*ry ~ 4.5e15; just below must hold)
    for r1, r2 in ((F(6 * 10**7), F(6 * 10**7)), (F(7 * 10**7), F(7 * 10**7)), (F(10**7), F(10**9)), (F(10**6), F(10**6)), (F(10**9), F(10**5))):
        for rot in (F(0), F(30)):
            for fs in (0, 1):
                cands.append([[F(0), F(0)], r1, r2, rot, 0, fs, [F(10), F(0)]])
    rng = ctx.rng
    for _ in range(ctx.n(1500, 20000)): cands.append(rnd_arc(rng))
    for a in cands:
        n += 1
        v = judge_arc(a)
        if v:
            found.append({'law': v[0], 'input': {'arc': jsonable(a)}, 'expected_by_spec': v[1], 'observed': jsonable(v[2]) if not isinstance(v[2], (float, str)) else v[2]})
            if len(found) >= 20: break
    return found, {'evaluations': n}

def matches_known(v, entry):
    sig = entry.get('signature', {})
    if 'arc' not in v['input']: return False
    a = unjson(v['input']['arc'])
    if sig.get('pattern') == 'negative_radius_product':
        return (a[1] * a[2] < 0)
    if sig.get('pattern') == 'huge_radii_degenerate_inverse':
        # scale(1/rx, 1/ry) has determinant 1/(rx ry) <= float epsilon: Affine2D.inverse() answers "degenerate"
        return a[1] != 0 and a[2] != 0 and abs(1.0 / (float(a[1]) * float(a[2]))) <= 2.220446049250313e-16
    return False

def replay(ctx, w):
    if 'path_arc' in w:
        x, y, rel, a = w['path_arc']
        v = judge_path_arc(x, y, rel, a)
        return {'fails': v is not None, 'detail': jsonable(v) if v else None}
    a = unjson(w['arc'])
    v = judge_arc(a)
    return {'fails': v is not None, 'detail': v, 'impl': impl_arc(a)}
