"""C04 — strokes are rendered into equivalent filled outlines drawn above the fill (E5 stroke)."""
import random, re
from fractions import Fraction as F
from picosvg.svg import SVG
from picosvg.svg_types import SVGPath
import picosvg.svg_types as pst
from common import *
import render
from skia_oracle import skia_oracle
from props.c18 import wire_shape, cmds_of, FIELDS

COQ_TARGETS = ['props/C04.vo']
ALWAYS_JUDGE = True
RULE = ("(a) stroke_commands' dash array (strings with commas/spaces/odd and even counts/malformed numbers) and SVG._stroke on shapes over "
        "fill x stroke x the three opacities x caps x joins x dashes x ids: implementation = model with the same engine (identical pieces, "
        "attributes and commands); (b) documents with stroked lines, polylines, polygons, rects, circles and multi-subpath / curved paths x "
        "width x cap x join x miterlimit x dash arrays of odd and even length x offsets x own or inherited stroke properties x ancestor "
        "transforms (incl. non-uniform scale, skew): the converted document composites like the source at every point that the independent "
        "three-valued evaluator classifies definitely-inside or definitely-outside the ideal stroke region")
TRUSTED = ["model/Stroke.v hand model of stroke_commands / _stroke (engine through the oracle)", "spec/Composite.v",
           "tools/render.py incl. sharp_stroke_test (spec-side three-valued stroke evaluator), tools/skia_oracle.py"]
ASSUMES = ["the Skia stroker itself (outline geometry) is an oracle: its result is judged against the ideal stroke region at sample points, not proved (partial)"]
SVGNS = 'http://www.w3.org/2000/svg'

# ---------------------------------------------------------------- correspondence
DASHES = ['none', '3', '4,2', '1 2 3', '5, 1', '2,,3', ' 4 ', '1,2,3,4,5', 'a,b', '3 x', '0.5,0.25', '2e0 1']
GEOMS = ['M2,2 L12,2 L12,10', 'M2,2 L12,2 L12,10 Z', 'M1,1 L9,1 M1,5 L9,5', 'M2,8 C4,0 10,0 12,8', 'M3,3 L3,3', 'M1,1']

def captured_dash_array(attrs, d):
    got = {}
    orig = pst.svg_pathops.stroke
    def fake(cmds, cap, join, width, miter, tol, dash_array=(), dash_offset=0.0):
        got['d'] = list(dash_array); return ()
    pst.svg_pathops.stroke = fake
    try:
        SVGPath(d=d, **attrs).stroke_commands(0.1)
        return ['ok', [F(x) for x in got['d']]]
    except ValueError: return ['err', 'ValueError']
    finally: pst.svg_pathops.stroke = orig

def impl_split(attrs, d, tol):
    svg = SVG.fromstring(f'<svg xmlns="{SVGNS}" viewBox="0 0 {int(tol * 1000)} {int(tol * 1000)}"/>')
    assert abs(svg.tolerance - tol) < 1e-12
    try: pieces = svg._stroke(SVGPath(d=d, **attrs))
    except ValueError: return ['err', 'ValueError']
    out = []
    for p in pieces:
        a = {f: getattr(p, f) for f in FIELDS if f not in ('d', 'style')}
        a['style'] = []
        out.append(wire_shape(a, cmds_of(p.d)))
    return ['ok', out]

def corr(ctx):
    rng = ctx.rng
    m = ctx.model([skia_oracle])
    stats = {'evaluations': 0, 'nontrivial': set(), 'samples': [], 'disagreements': [], 'distribution': {}}
    def rec(name, inp, impl, mod, nt):
        stats['evaluations'] += 1
        stats['distribution'][name] = stats['distribution'].get(name, 0) + 1
        if nt: stats['nontrivial'].add(json.dumps(jsonable(inp), sort_keys=True))
        if len(stats['samples']) < 4 and stats['evaluations'] % 37 == 0: stats['samples'].append({'call': name, 'input': show(jsonable(inp)), 'impl': show(jsonable(impl))[:3]})
        if canon(jsonable(impl)) != canon(jsonable(mod)):
            stats['disagreements'].append({'what': f'{name}: model and implementation differ', 'input': jsonable([name, inp]), 'impl': jsonable(impl), 'model': jsonable(mod)})
    for i in range(ctx.n(260, 4000)):
        if i % 2 == 0:
            da = rng.choice(DASHES)
            attrs = {'stroke': 'red', 'stroke_dasharray': da}
            rec('dash_array', [da], captured_dash_array(attrs, 'M0,0 L5,5'), m.call('dash_array', wire_shape(attrs, cmds_of('M0,0 L5,5'))), da != 'none')
        else:
            attrs = {'stroke': rng.choice(['red', 'blue']), 'stroke_width': rng.choice([1.0, 2.0, 0.5]), 'fill': rng.choice(['none', 'green', 'black']),
                     'opacity': rng.choice([1.0, 0.5, 0.0]), 'fill_opacity': rng.choice([1.0, 0.5, 0.0]), 'stroke_opacity': rng.choice([1.0, 0.5]),
                     'stroke_linecap': rng.choice(['butt', 'round', 'square']), 'stroke_linejoin': rng.choice(['miter', 'round', 'bevel']),
                     'stroke_miterlimit': rng.choice([4.0, 1.0, 10.0]), 'stroke_dasharray': rng.choice(['none', 'none', '3', '4,2', '1 2 3']),
                     'stroke_dashoffset': rng.choice([0.0, 1.5, -2.0]), 'id': rng.choice(['', 'p1']), 'fill_rule': rng.choice(['nonzero', 'evenodd']),
                     'clip_path': rng.choice(['', 'url(#c)']), 'display': rng.choice(['inline', 'inline', 'none'])}
            if rng.random() < 0.05: attrs['stroke_linecap'] = 'bogus'
            d = rng.choice(GEOMS)
            tol = rng.choice([0.02, 0.1])
            rec('stroke_split', [attrs, d, tol], impl_split(attrs, d, tol), m.call('stroke_split', [wire_shape(attrs, cmds_of(d)), F(tol).limit_denominator(1000)]),
                attrs['fill'] != 'none' or attrs['stroke_dasharray'] != 'none')
        if len(stats['disagreements']) >= 10: break
    return stats

# ---------------------------------------------------------------- rendering judge
COL = ['red', 'blue', 'green', 'purple', 'orange']
def gen_doc(rng):
    def stroke_attrs():
        a = f' stroke="{rng.choice(COL)}" stroke-width="{rng.choice([2, 3, 4, 1.5]) if rng.random() < 0.93 else 0}"'     # width 0: no stroke at all
        if rng.random() < 0.6: a += f' stroke-linecap="{rng.choice(["butt", "round", "square"])}"'
        if rng.random() < 0.6: a += f' stroke-linejoin="{rng.choice(["miter", "round", "bevel"])}"'
        if rng.random() < 0.3: a += f' stroke-miterlimit="{rng.choice([1, 2, 10])}"'
        if rng.random() < 0.45: a += f' stroke-dasharray="{rng.choice(["5", "6,3", "2 3 4", "7,2,3,2", "4, 4", "6 0 0 5", "0 0"])}"'
        if rng.random() < 0.3: a += f' stroke-dashoffset="{rng.choice([2, 3.5, -3])}"'
        if rng.random() < 0.3: a += f' stroke-opacity="{rng.choice([0.5, 0.25])}"'
        return a
    def geometry():
        x, y = rng.randint(4, 14), rng.randint(4, 14)
        k = rng.randrange(8)
        if k == 0: return f'<line x1="{x}" y1="{y}" x2="{x + 14}" y2="{y + 9}"', False
        if k == 1: return f'<polyline points="{x},{y} {x + 12},{y} {x + 12},{y + 10} {x + 3},{y + 14}"', True
        if k == 2: return f'<polygon points="{x},{y} {x + 13},{y + 2} {x + 5},{y + 12}"', True
        if k == 3: return f'<rect x="{x}" y="{y}" width="{rng.randint(8, 14)}" height="{rng.randint(6, 12)}"', True
        if k == 4: return f'<circle cx="{x + 6}" cy="{y + 6}" r="{rng.randint(5, 8)}"', True
        if k == 5: return f'<path d="M{x},{y} h12 v9 M{x + 2},{y + 14} l10,3 l-4,5 z"', True
        if k == 6: return f'<path d="M{x},{y + 8} C{x + 4},{y - 4} {x + 10},{y - 4} {x + 14},{y + 8} Q{x + 16},{y + 14} {x + 8},{y + 15}"', True
        return f'<path d="M{x},{y} A8 5 0 0 1 {x + 14},{y + 6} L{x + 14},{y + 14}"', True
    def shape(inherit):
        g, fillable = geometry()
        a = '' if inherit else stroke_attrs()
        fill = rng.choice(['none', 'none', rng.choice(COL)]) if fillable else 'none'
        a += f' fill="{fill}"'
        if fill != 'none' and rng.random() < 0.4: a += f' fill-opacity="{rng.choice([0.5, 0.25])}"'
        if fill == 'none' and rng.random() < 0.3: a += f' opacity="{rng.choice([0.5, 0.75])}"'    # only the stroke is visible: any opacity is in scope
        if rng.random() < 0.3: a += ' transform="%s"' % rng.choice(['translate(3,2)', 'scale(1.5,0.75)', 'rotate(20 20 20)', 'skewX(15)', 'matrix(0.8 0.2 -0.3 1.1 4 2)'])
        return g + a + '/>'
    body = ''
    for _ in range(rng.randint(1, 3)):
        if rng.random() < 0.5:
            t = ' transform="%s"' % rng.choice(['translate(2,1)', 'scale(0.75,1.25)', 'rotate(-15 20 20)', 'scale(1.2)', 'matrix(1 0 0.25 1 0 0)']) if rng.random() < 0.7 else ''
            inh = rng.random() < 0.5
            body += f'<g{t}{stroke_attrs() if inh else ""}>' + ''.join(shape(inh and rng.random() < 0.7) for _ in range(rng.randint(1, 2))) + '</g>'
        else: body += shape(False)
    if rng.random() < 0.2:
        # a viewBox far from square with wide round strokes: the flattening tolerance derives from its smaller side
        w = rng.choice([20, 24, 28])
        vb = rng.choice(['0 0 40 900', '0 0 900 40'])
        body = (f'<polyline points="8,8 30,10 26,30" fill="none" stroke="{rng.choice(COL)}" stroke-width="{w}" stroke-linecap="round" stroke-linejoin="round"/>'
                if rng.random() < 0.5 else f'<line x1="10" y1="12" x2="30" y2="26" stroke="{rng.choice(COL)}" stroke-width="{w}" stroke-linecap="round"/>')
        return f'<svg xmlns="{SVGNS}" viewBox="{vb}">{body}</svg>'
    return f'<svg xmlns="{SVGNS}" viewBox="0 0 40 40">{body}</svg>'

def judge_doc(doc):
    try: out = SVG.fromstring(doc).topicosvg().tostring()
    except Exception: return None
    if re.search(r'\sstroke', out):
        return ('a stroked shape is replaced by filled outline geometry', 'no stroke attribute in the output', {'output': out[:2000]})
    # the far-from-square documents exist to expose too coarse a flattening of round caps / joins: a thin band, sample densely
    dense = ' 900' in doc[:120]
    r = render.compare_documents(doc, out, (-12, -12, 64, 64) if dense else (-4, -4, 52, 52), n=67 if dense else 27, sharp_strokes=True)
    if r is None or len(r) == 1: return None
    return ('the filled outlines composite like the stroked source at definitely-inside / definitely-outside points', {'point': r[0], 'colour': r[1]}, {'colour': r[2], 'output': out[:2500]})

def search(ctx, broken, disagreements):
    rng = ctx.rng
    found, n = [], 0
    for i in range(ctx.n(120, 2500)):
        doc = gen_doc(rng); n += 1
        v = judge_doc(doc)
        if v:
            found.append({'law': v[0], 'input': {'doc': doc}, 'expected_by_spec': jsonable(v[1]), 'observed': jsonable(v[2])})
            if len(found) >= 4: break
    return found, {'evaluations': n}

def matches_known(v, entry):
    if entry.get('signature', {}).get('pattern') == 'gradient_stroke_paint':
        return bool(re.search(r'stroke="url\(', v['input'].get('doc', '')))
    return False

def replay(ctx, w):
    v = judge_doc(w['doc'])
    return {'fails': v is not None, 'detail': jsonable(v)}
