"""C07 — conversion is idempotent: picosvg in, identical picosvg out (E3 rewrites + E5 tree)."""
import random, re
from fractions import Fraction as F
from lxml import etree
from picosvg.svg import SVG
from picosvg.svg_types import SVGPath
from common import *
from wire import batch_calls
import docgen, pico, pathsem
from props.c05 import impl_try_remove, wire_map, canon_map

COQ_TARGETS = ['props/C07.vo']
ALWAYS_JUDGE = True
RULE = ("(a) explicit_lines / expand_shorthand / absolute / round_floats(nd) on paths in pico form (absolute M/L/C/Q/A/Z, dyadic numbers "
        "rounded to nd digits) and _try_remove_group on pico groups (only an opacity in (0,1), >= 2 children): implementation = model = "
        "input; (b) topicosvg on generated documents (structural, clipped, stroked, gradient-filled, partly invisible content) x ndigits "
        "0..6: pass 2 and pass 3 are byte-identical to pass 1 and SVG.fromstring(pass 1).checkpicosvg() == ()")
TRUSTED = ["model/Walk.v + generated callbacks (G_types.v), model/Inherit.v, model/Refs.v (validated by the correspondence runs of C09, C05, C08 and here)",
           "tools/docgen.py"]
ASSUMES = ["theorems are over exact reals/rationals (float rounding stability of ntos/round is decided by the byte-level judge)",
           "the theorems cover the path rewrites, group decisions and orphan removal; gradient rewriting and step ordering are decided by the judge (partial)"]
ARITY = {'M': 2, 'L': 2, 'C': 6, 'Q': 4, 'A': 7, 'Z': 0}

def rnd_pico_path(rng, nd):
    den = [1, 2, 4, 8][min(nd, 3)]
    v = lambda: F(rng.randint(-40 * den, 40 * den), den)
    p = [('M', [v(), v()])]
    start = p[0][1]
    for _ in range(rng.randint(2, 7)):
        c = rng.choice('LLCQAZM')
        if c == 'A': a = [F(rng.randint(1, 5)), F(rng.randint(1, 5)), F(rng.choice([0, 30, -45])), F(rng.randint(0, 1)), F(rng.randint(0, 1)), v(), v()]
        else: a = [v() for _ in range(ARITY[c])]
        if c in 'LCQ' and rng.random() < 0.25: a[-2:] = start          # returns exactly to the subpath start
        if c == 'M': start = a
        p.append((c, a))
    return p

def impl_chain(p, nd):
    sp = SVGPath(d=pathsem.fmt(p))
    out = []
    for op in ('explicit_lines', 'expand_shorthand', 'absolute'):
        sp = getattr(sp, op)()
        out.append(pathsem.parse_simple(sp.d, num=lambda x: F(float(x))))
    sp = sp.round_floats(nd)
    out.append(pathsem.parse_simple(sp.d, num=lambda x: F(float(x))))
    return out

def canon_path(p): return [[c, [F(x) for x in a]] for c, a in p]

def corr(ctx):
    rng = ctx.rng
    stats = {'evaluations': 0, 'nontrivial': set(), 'samples': [], 'disagreements': [], 'distribution': {}}
    cases = [(rnd_pico_path(rng, nd), nd) for nd in [rng.randint(0, 6) for _ in range(ctx.n(400, 6000))]]
    reqs = []
    for p, nd in cases:
        wp = [[c, list(a)] for c, a in p]
        reqs += [('explicit_lines', wp), ('expand_shorthand', wp), ('absolute', wp), ('round_path', [wp, nd])]
    answers = batch_calls(ctx.model_bin, reqs)
    for k, (p, nd) in enumerate(cases):
        mod = [canon_path([(c, a) for c, a in ans]) for ans in answers[4 * k:4 * k + 4]]
        impl = [canon_path(x) for x in impl_chain(p, nd)]
        want = canon_path(p)
        stats['evaluations'] += 4
        stats['distribution'][f'nd={nd}'] = stats['distribution'].get(f'nd={nd}', 0) + 1
        stats['nontrivial'].add(pathsem.fmt(p))
        if len(stats['samples']) < 3 and k % 101 == 0: stats['samples'].append({'path': pathsem.fmt(p), 'ndigits': nd, 'impl_after_each_step': [pathsem.fmt(x) for x in impl_chain(p, nd)]})
        for name, i_, m_ in zip(('explicit_lines', 'expand_shorthand', 'absolute', 'round_floats'), impl, mod):
            if i_ != m_ or m_ != want:
                stats['disagreements'].append({'what': f'{name} on a pico path: implementation, model and input are not all equal', 'input': jsonable([name, pathsem.fmt(p), nd]),
                                               'impl': jsonable(i_), 'model': jsonable(m_)})
        if len(stats['disagreements']) >= 10: return stats
    m = ctx.model()
    for i in range(ctx.n(300, 4000)):
        o = rng.choice(['0.5', '0.25', '0.75', '0.125', '0.0625'])
        kids = [(rng.choice(['path', 'g']), {'opacity': rng.choice(['0.5', '0.25'])} if rng.random() < 0.4 else {}) for _ in range(rng.randint(2, 4))]
        push = rng.random() < 0.7
        attrib = {'opacity': o}
        impl = impl_try_remove(attrib, kids, push)
        mod = m.call('try_remove_group', [wire_map(attrib), [[t, wire_map(a)] for t, a in kids], push])
        mm = ['ok', ['kept', canon_map(mod[1][1])]] if mod[0] == 'ok' and mod[1][0] == 'kept' else mod
        want = ['ok', ['kept', canon_map(attrib)]]
        stats['evaluations'] += 1
        stats['distribution']['try_remove_group'] = stats['distribution'].get('try_remove_group', 0) + 1
        stats['nontrivial'].add(json.dumps([o, kids, push]))
        if not (canon(jsonable(impl)) == canon(jsonable(mm)) == canon(jsonable(want))):
            stats['disagreements'].append({'what': '_try_remove_group on a pico group: implementation, model and "kept unchanged" are not all equal',
                                           'input': jsonable(['try_remove_group', attrib, kids, push]), 'impl': jsonable(impl), 'model': jsonable(mm)})
            if len(stats['disagreements']) >= 10: break
    # _add_to_defs on id lists, and the defs order of a re-converted pico document (gradients only, all in use)
    host = SVG.fromstring('<svg xmlns="http://www.w3.org/2000/svg"/>')
    IDS = ['a', 'b', 'c', 'a_0', 'b_1', 'grad1', 'grad10', 'grad2', 'A', 'Z', 'a.b', 'ab', 'p1', 'p01', 'p2', '']
    G = lambda i: f'<linearGradient id="{i}" x1="0" y1="0" x2="1" y2="0"><stop offset="0" stop-color="red"/><stop offset="1" stop-color="blue"/></linearGradient>'
    for i in range(ctx.n(300, 3000)):
        l = rng.sample(IDS[:-1], rng.randint(0, 6)); new = rng.choice([x for x in IDS[:-1] if x not in l])
        defs = etree.fromstring('<defs xmlns="http://www.w3.org/2000/svg">' + ''.join(f'<linearGradient id="{x}"/>' for x in l) + '</defs>')
        el = etree.fromstring(f'<linearGradient xmlns="http://www.w3.org/2000/svg" id="{new}"/>')
        host._add_to_defs(defs, el)
        impl = [e.get('id') for e in defs]
        mod = m.call('add_to_defs', [l, new])
        stats['evaluations'] += 1
        stats['distribution']['add_to_defs'] = stats['distribution'].get('add_to_defs', 0) + 1
        if len(l) >= 2: stats['nontrivial'].add('defs:' + json.dumps([l, new]))
        if impl != mod:
            stats['disagreements'].append({'what': '_add_to_defs: model and implementation differ', 'input': jsonable(['add_to_defs', l, new]), 'impl': impl, 'model': jsonable(mod)})
            if len(stats['disagreements']) >= 10: return stats
        if i % 5 == 0 and l:
            doc = '<svg xmlns="http://www.w3.org/2000/svg" viewBox="0 0 40 40"><defs>' + ''.join(G(x) for x in l) + '</defs>' + \
                  ''.join(f'<path fill="url(#{x})" d="M{k},0 L{k + 1},0 L{k + 1},3 Z"/>' for k, x in enumerate(l)) + '</svg>'
            try: impl = defs_ids(SVG.fromstring(doc).topicosvg().tostring())
            except Exception as ex: impl = repr(ex)[:100]
            mod = m.call('reconvert', l)
            stats['evaluations'] += 1
            stats['distribution']['reconvert'] = stats['distribution'].get('reconvert', 0) + 1
            if impl != mod:
                stats['disagreements'].append({'what': 'defs order after converting a pico document: model and implementation differ', 'input': jsonable(['reconvert', l]), 'impl': jsonable(impl), 'model': jsonable(mod)})
                if len(stats['disagreements']) >= 10: return stats
    return stats

# ---------------------------------------------------------------- end-to-end judge
def defs_sorted(xml):
    """the document with the children of defs sorted by id (for the defs-order known finding)"""
    root = etree.fromstring(xml.encode())
    for d in root.iter('{http://www.w3.org/2000/svg}defs'):
        d[:] = sorted(d, key=lambda e: e.get('id', ''))
    return etree.tostring(root).decode()

def defs_ids(xml):
    root = etree.fromstring(xml.encode())
    return [e.get('id') for d in root.iter('{http://www.w3.org/2000/svg}defs') for e in d]

def front_insertion_order(ids_prev):
    """what the recorded defect predicts for the next pass over a pico document: the gradients are re-inserted
    in reverse document order, each before the first entry with a greater id, or at the FRONT when there is none"""
    out = []
    for i in reversed(ids_prev):
        at = 0
        for k, j in enumerate(out):
            if i < j: at = k; break
        out.insert(at, i)
    return out

def add_to_defs_order(seq):
    """the defs order _add_to_defs builds when the ids arrive in this sequence"""
    out = []
    for i in seq:
        at = 0
        for k, j in enumerate(out):
            if i < j: at = k; break
        out.insert(at, i)
    return out

def reachable_by_add_to_defs(order, doc):
    """could `order` (the defs of a first pass) have been built by _add_to_defs alone, from the source's gradients and the
    copies in `order` arriving in SOME sequence (gradients that end up unused are inserted too and removed afterwards)?
    The recorded defect explains an unstable order only when it was built that way."""
    import itertools
    try:
        root = etree.fromstring(doc.encode())
        src = [e.get('id') for e in root.iter('{http://www.w3.org/2000/svg}linearGradient', '{http://www.w3.org/2000/svg}radialGradient') if e.get('id')]
        # every child of a source <defs> that has an id passes through _add_to_defs as well (use targets, ...) and is removed afterwards
        src += [k.get('id') for d in root.iter('{http://www.w3.org/2000/svg}defs') for k in d if isinstance(k.tag, str) and k.get('id')]
    except Exception: src = []
    cand = list(dict.fromkeys(list(order) + src))
    if len(cand) > 8: return True          # too many to enumerate: give the recorded mechanism the benefit of the doubt
    keep = set(order)
    extras = [i for i in cand if i not in keep]
    # the others may or may not have been inserted (moving children while iterating over them skips some)
    for k in range(len(extras) + 1):
        for sub in itertools.combinations(extras, k):
            for perm in itertools.permutations(list(order) + list(sub)):
                if [i for i in add_to_defs_order(perm) if i in keep] == list(order): return True
    return False

def c14n(xml):
    try: return etree.tostring(etree.fromstring(xml.encode()), method='c14n')
    except Exception: return None

def judge(doc, nd, allow_text=False):
    kw = dict(allow_text=True) if allow_text else {}
    try: out1 = SVG.fromstring(doc).topicosvg(ndigits=nd, **kw).tostring()
    except Exception: return None
    errs = None
    try: errs = SVG.fromstring(out1).checkpicosvg(**kw)
    except Exception as e: errs = (f'raised {type(e).__name__}: {e}',)
    if errs:
        return ('a converted document passes checkpicosvg with no violations', '()', {'violations': [str(x) for x in errs][:5], 'pass1': out1[:3000]})
    prev = out1
    for k in (2, 3):
        try: nxt = SVG.fromstring(prev).topicosvg(ndigits=nd, **kw).tostring()
        except Exception as e:
            return (f'pass {k} accepts the output of pass {k - 1}', 'normal return', {'raised': f'{type(e).__name__}: {str(e)[:300]}', f'pass{k - 1}': prev[:3000]})
        if nxt != prev:
            return (f'pass {k} is byte-identical to pass {k - 1}', {'pass': prev[:3000], 'defs_ids': defs_ids(prev)},
                    {'pass': nxt[:3000], 'defs_ids': defs_ids(nxt), 'only_defs_order': defs_sorted(nxt) == defs_sorted(prev),
                     'only_attribute_order': c14n(nxt) is not None and c14n(nxt) == c14n(prev)})
        prev = nxt
    return None

def gradient_order_docs():
    """three used gradients in every document order, every choice of which users are transformed (a transformed user gets a
    rewritten copy of its gradient): nothing but gradients carries an id, so the defs order is fully explained by _add_to_defs"""
    import itertools
    H = '<svg xmlns="http://www.w3.org/2000/svg" viewBox="0 0 40 40">'
    G = lambda i: f'<linearGradient id="{i}" gradientUnits="userSpaceOnUse" x1="0" x2="10"><stop offset="0" stop-color="red"/><stop offset="1" stop-color="blue"/></linearGradient>'
    for order in itertools.permutations('abc'):
        for mask in range(8):
            shapes = ''.join(f'<rect x="{3 * k}" y="1" width="2" height="8" fill="url(#{i})"' + (' transform="translate(1,2)"' if mask >> k & 1 else '') + '/>' for k, i in enumerate('abc'))
            yield H + '<defs>' + ''.join(G(i) for i in order) + '</defs>' + shapes + '</svg>'

def search(ctx, broken, disagreements):
    rng = ctx.rng
    found, n, dist, known_hits = [], 0, {}, 0
    for doc in gradient_order_docs():
        n += 1
        v = judge(doc, 3)
        if v:
            item = {'law': v[0], 'input': {'doc': doc, 'ndigits': 3}, 'expected_by_spec': jsonable(v[1]), 'observed': jsonable(v[2])}
            if matches_known(item, {'signature': {'pattern': 'defs_order_only'}}):
                known_hits += 1
                if known_hits > 1: continue
            found.append(item)
            if len(found) >= 2: break
    # text content (allow_text=True in every pass): directly under the root, inside a dissolvable group, next to shapes
    HT = '<svg xmlns="http://www.w3.org/2000/svg" viewBox="0 0 100 100">'
    text_hits = 0
    for body in ('<text x="1" y="2">hi</text>', '<g><text x="1" y="2">hi</text></g>', '<path d="M1,1 L5,1 L5,5 Z"/><text x="3" y="9" fill="red">a</text>',
                 '<g fill="blue"><text x="1" y="2"><tspan>b</tspan></text><path d="M1,1 L5,1 L5,5 Z"/></g>'):
        n += 1
        v = judge(HT + body + '</svg>', 3, allow_text=True)
        if v:
            item = {'law': v[0], 'input': {'doc': HT + body + '</svg>', 'ndigits': 3, 'allow_text': True}, 'expected_by_spec': jsonable(v[1]), 'observed': jsonable(v[2])}
            if matches_known(item, {'signature': {'pattern': 'text_attribute_order'}}):
                text_hits += 1
                if text_hits > 1: continue
            found.append(item)
    for i in range(ctx.n(220, 5000)):
        kw = [dict(), dict(gradients=0.6, uses=0.4), dict(strokes=0.6, clips=0.5), dict(shared_ids=True, nested=0.3)][i % 4]
        doc = docgen.random_doc(rng, **kw) if i % 4 != 3 else docgen.group_soup(rng)
        nd = rng.randint(0, 6) if i % 2 else 3
        n += 1
        dist[f'ndigits={nd}'] = dist.get(f'ndigits={nd}', 0) + 1
        for f in ('Gradient', 'stroke=', 'clip-path', '<use', '<g', 'opacity="0"', 'display'):
            if f in doc: dist[f] = dist.get(f, 0) + 1
        v = judge(doc, nd)
        if v:
            item = {'law': v[0], 'input': {'doc': doc, 'ndigits': nd}, 'expected_by_spec': jsonable(v[1]), 'observed': jsonable(v[2])}
            # keep at most one instance of the defs-order finding so that other violations are not crowded out
            if matches_known(item, {'signature': {'pattern': 'defs_order_only'}}):
                known_hits += 1
                if known_hits > 1: continue
            found.append(item)
            if len(found) >= 5: break
    return found, {'evaluations': n, 'distribution': dist}

def matches_known(v, entry):
    sig = entry.get('signature', {})
    if sig.get('pattern') == 'text_attribute_order':
        # allow_text only, and the two passes are the same document up to the order of attributes (canonical XML equal)
        o = v.get('observed')
        return bool((v.get('input') or {}).get('allow_text') and isinstance(o, dict) and o.get('only_attribute_order') and '<text' in str(o.get('pass', '')))
    if sig.get('pattern') == 'defs_order_only':
        # only the recorded mechanism: every other byte identical AND the new order is exactly what front insertion predicts
        o, e = v.get('observed'), v.get('expected_by_spec')
        if not (isinstance(o, dict) and isinstance(e, dict) and o.get('only_defs_order')
                and o.get('defs_ids') == front_insertion_order(e.get('defs_ids') or [])): return False
        # ... AND the order it started from is one _add_to_defs itself can have produced from the source (pass 1 -> 2 only;
        # a later pass always starts from such an order)
        if str(v.get('law', '')).startswith('pass 2'):
            return reachable_by_add_to_defs(e.get('defs_ids') or [], (v.get('input') or {}).get('doc', ''))
        return True
    return False

def replay(ctx, w):
    v = judge(w['doc'], w.get('ndigits', 3), allow_text=bool(w.get('allow_text')))
    return {'fails': v is not None, 'detail': jsonable(v)}
