"""C20 — a reported reuse transform really maps one shape onto the other (E6 reuse, E3)."""
from fractions import Fraction as F
import math, itertools
from picosvg.svg_reuse import affine_between
from picosvg.svg_types import SVGPath
from picosvg.svg_transform import Affine2D
from common import *
import pathsem
from props.c18 import cmds_of

COQ_TARGETS = ['props/C20.vo']
ALWAYS_JUDGE = True
RULE = ("pairs (s, T(s)) with T over translations, quarter turns, mirrorings, uniform/non-uniform scalings, shears and general affine maps, "
        "unrelated pairs and near misses at 1.5*tol, tolerances 1e-3..1e-1; the model's answer (candidates computed as coded, math.* from "
        "CPython) must equal the implementation's (same None/Some, matrix within 1e-9); non-trivial = shapes are not almost-equal and a "
        "transform is (or must not be) found")
TRUSTED = ["model/Reuse.v: hand model of affine_between / _affine_callback / _round", "generated Affine2D arithmetic (gen/G_transform.v)",
           "spec/PathSem.v for the meaning of 'maps the outline'"]
ASSUMES = ["arc-free shapes (the radius scaling of arcs is the library's own rule, not a geometric claim)"]

SHAPES = ['M0,0 L4,0 L4,3 Z', 'M1,1 L5,1 L5,4 L2,6 Z', 'M0,0 C1,2 3,2 4,0 L2,-3 Z', 'M2,0 Q4,4 0,5 L-2,1 Z', 'M0,0 L10,0 L10,1 L0,1 Z M2,2 L3,2 L3,3 Z',
          'M0,0 H5 V5 H0 Z', 'm1,1 l3,0 0,3 z', 'M0,0 L0,4 L3,4 Z', 'M0,0 L3,0', 'M0,0 L0,3']

def transforms():
    I = Affine2D.identity()
    return {'translate': I.translate(3, -2), 'rot90': I.rotate(math.pi / 2), 'rot180': I.rotate(math.pi), 'mirror_x': Affine2D(-1, 0, 0, 1, 0, 0),
            'mirror_y': Affine2D(1, 0, 0, -1, 0, 0), 'scale2': I.scale(2), 'scale_2_3': I.scale(2, 3), 'shear': Affine2D(1, 0, 0.5, 1, 0, 0),
            'rot30': I.rotate(math.radians(30)), 'general': Affine2D(1.5, 0.5, -0.5, 2, 7, 3), 'rot_scale_t': I.translate(5, 5).rotate(1.0).scale(1.5)}

def transformed_d(d, A):
    """T(s) computed on the spec side: map every absolute point"""
    cmds = pathsem.parse_simple(SVGPath(d=d).explicit_lines().expand_shorthand(inplace=True).absolute(inplace=True).d)
    out = []
    for c, a in cmds:
        pts = [A.map_point((a[i], a[i + 1])) for i in range(0, len(a), 2)]
        out.append((c, [round(v, 9) for p in pts for v in p]))
    return pathsem.fmt(out)

def impl_between(d1, d2, tol):
    try:
        r = affine_between(SVGPath(d=d1), SVGPath(d=d2), tol)
        return ['ok', None if r is None else [float(v) for v in r]]
    except ValueError: return ['err', 'ValueError']
    except (StopIteration, RuntimeError): return ['err', 'Other']
    except ZeroDivisionError: return ['err', 'ZeroDivisionError']

def cases(ctx):
    rng = ctx.rng
    T = transforms()
    out = []
    for d in SHAPES:
        for name, A in T.items():
            for tol in (0.001, 0.01, 0.1):
                out.append((d, transformed_d(d, A), tol, name))
    for d1, d2 in itertools.permutations(SHAPES[:6], 2):
        out.append((d1, d2, 0.01, 'unrelated'))
    for d in SHAPES[:6]:
        for tol in (0.001, 0.01, 0.1):
            cmds = pathsem.parse_simple(SVGPath(d=d).absolute().d)
            k = rng.randrange(1, len(cmds))
            if cmds[k][1]:
                cmds[k] = (cmds[k][0], [cmds[k][1][0] + 8 * tol] + cmds[k][1][1:])
                out.append((d, pathsem.fmt(cmds), tol, 'near_miss'))
            out.append((d, d, tol, 'identical'))
    # inexact images: a rotated / scaled copy with coordinates rounded to nd decimals, tolerance of the same order
    BIG = ['M0,0 L120,10 L90,130 L-20,80 Z', 'M10,0 L200,40 L150,90 Z', 'M0,0 L100,0 L100,70 L40,110 L0,60 Z']
    extra = []
    for _ in range(ctx.n(120, 3000)):
        d = rng.choice(BIG)
        th, sc, nd = rng.uniform(0.1, 3.0), rng.choice([1.0, 1.37, 0.73, 2.1]), rng.choice([1, 2, 3])
        A = Affine2D.identity().translate(rng.randint(-20, 20), rng.randint(-20, 20)).rotate(th).scale(sc)
        cmds = pathsem.parse_simple(transformed_d(d, A))
        d2 = pathsem.fmt([(c, [round(v, nd) for v in a]) for c, a in cmds])
        extra.append((d, d2, rng.choice([0.6, 1.0, 2.0]) * 10 ** -nd, 'inexact_image'))
    # fine tolerance, coordinates with many decimals: an exact image must still be found / verified at that tolerance
    FINE = ['M0.12345,0.5 L4.00045,0.33333 L3.14159,2.71828 Z', 'M-7.00045,1.5 L2.2361,0.7071 L1.4142,5.3852 L-3.60555,4.12311 Z']
    for d in FINE:
        for name, A in T.items():
            for tol in (0.0001, 0.001):
                extra.append((d, transformed_d(d, A), tol, name))
    # near misses just beyond the tolerance on pairs only the last search stage solves (non-uniform scale / mirror seen in a
    # rotated frame): every vertex coordinate in turn is pushed by 1.2-1.4 x tolerance
    PENT = [(0.0, 0.0), (10.0, 0.0), (10.0, 6.0), (4.0, 9.0), (-3.0, 5.0)]
    I = Affine2D.identity()
    STAGE3 = [I.translate(20, 5).rotate(math.radians(45)).scale(1, 2), I.translate(-3, 8).rotate(math.radians(30)).scale(1, -1.5),
              I.rotate(math.radians(135)).scale(1, 3), I.translate(1, 1).rotate(math.radians(60)).scale(1, 0.5)]
    for A in STAGE3:
        img = [A.map_point(p) for p in PENT]
        d1 = 'M' + ' L'.join(f'{x!r},{y!r}' for x, y in PENT) + ' Z'
        for tol in (0.001, 0.01, 0.1):
            extra.append((d1, 'M' + ' L'.join(f'{x!r},{y!r}' for x, y in img) + ' Z', tol, 'stage3_exact'))
            for k in range(1, len(img)):
                for axis in (0, 1):
                    f = rng.choice([1.2, 1.3, 1.4, -1.3])
                    pts = [list(p) for p in img]; pts[k][axis] += f * tol
                    extra.append((d1, 'M' + ' L'.join(f'{x!r},{y!r}' for x, y in pts) + ' Z', tol, 'near_miss_fine'))
    # far from the origin: the linear part's rounding error is multiplied by the size of the first moveto, so a transform
    # rounded without re-verification misses the target although every coefficient looks right
    FAR = ['M300000,700000 L300120,700010 L300090,700130 L299980,700080 Z', 'M-2000000,1000000 L-1999800,1000040 L-1999850,1000090 Z']
    for d in FAR:
        for A in (I.rotate(math.radians(30)), I.scale(1 / 3), I.rotate(math.radians(75)).scale(1 / 7), I.translate(5, 5).rotate(math.radians(200)).scale(1.1)):
            for tol in (0.01, 0.1):
                extra.append((d, transformed_d(d, A), tol, 'far_exact'))
    # the same numbers once as absolute and once as relative commands: different outlines
    for d in ['M0,0 L10,0 L10,10 L0,10 Z', 'M2,1 L8,3 L5,9 Z', 'M1,1 C2,3 4,3 5,1 L3,-2 Z']:
        cm = pathsem.parse_simple(d)
        d2 = pathsem.fmt([(c if k == 0 else c.lower(), a) for k, (c, a) in enumerate(cm)])
        extra.append((d, d2, 0.01, 'abs_vs_rel')); extra.append((d2, d, 0.1, 'abs_vs_rel'))
    rng.shuffle(out)
    return out[:ctx.n(160, 100000)] + extra

def corr(ctx):
    m = ctx.model()
    stats = {'evaluations': 0, 'nontrivial': set(), 'samples': [], 'disagreements': [], 'distribution': {}}
    for d1, d2, tol, kind in cases(ctx):
        if kind in ('inexact_image', 'near_miss_fine', 'stage3_exact'): continue      # decisions at the tolerance boundary depend on float rounding: judged, not compared
        impl = impl_between(d1, d2, tol)
        mod = m.call('affine_between', [cmds_of(d1), cmds_of(d2), F(tol)])
        stats['evaluations'] += 1
        tag = kind + ':' + ('err' if impl[0] == 'err' else ('none' if impl[1] is None else 'found'))
        stats['distribution'][tag] = stats['distribution'].get(tag, 0) + 1
        if kind not in ('identical',) and impl[0] == 'ok': stats['nontrivial'].add(json.dumps([d1, d2, tol]))
        if impl[0] != mod[0]: same = False
        elif impl[0] == 'err': same = impl[1] == mod[1]
        elif (impl[1] is None) != (mod[1] is None): same = False
        elif impl[1] is None: same = True
        else: same = all(abs(x - float(y)) <= 1e-9 * max(1, abs(x)) for x, y in zip(impl[1], mod[1]))
        if len(stats['samples']) < 5 and impl[0] == 'ok' and impl[1] is not None and kind != 'identical' and stats['evaluations'] % 13 == 0:
            stats['samples'].append({'s1': d1, 's2': d2, 'tol': tol, 'kind': kind, 'impl': impl[1]})
        if not same:
            stats['disagreements'].append({'what': 'affine_between: model and implementation differ', 'input': jsonable(['affine_between', d1, d2, tol, kind]),
                                           'impl': jsonable(impl), 'model': jsonable(mod)})
            if len(stats['disagreements']) >= 10: break
    return stats

# ---------------------------------------------------------------- spec judge
def rel_cmds(d):
    return pathsem.parse_simple(SVGPath(d=d).explicit_lines().expand_shorthand(inplace=True).relative(inplace=True).d)

def judge(d1, d2, tol, kind):
    impl = impl_between(d1, d2, tol)
    if impl[0] != 'ok': return None
    A = impl[1]
    if A is not None:
        # applying A to s1's outline must reproduce s2's outline command for command within tol
        M = Affine2D(*A)
        # (i) command for command in the normal form the search itself compares (relative commands): every argument of
        #     A(s1) within tol of the corresponding argument of s2
        r1, r2 = rel_cmds(d1), rel_cmds(d2)
        if [c for c, _ in r1] == [c for c, _ in r2]:
            for k, ((c, a1), (_, a2)) in enumerate(zip(r1, r2)):
                for i in range(0, len(a1) - 1, 2):
                    mp = M.map_point((a1[i], a1[i + 1])) if c.isupper() else M.map_vector((a1[i], a1[i + 1]))
                    if abs(mp[0] - a2[i]) > tol * (1 + 1e-9) + 1e-12 or abs(mp[1] - a2[i + 1]) > tol * (1 + 1e-9) + 1e-12:
                        return ('a reported transform reproduces the second outline within the given tolerance, command for command',
                                {'command': k, 'target': [a2[i], a2[i + 1]], 'tolerance': tol}, {'A': A, 'mapped': [mp[0], mp[1]]})
        s1 = pathsem.interp(rel_cmds(d1)); s2 = pathsem.interp(rel_cmds(d2))
        if len(s1) != len(s2): return ('a reported transform maps s1 onto s2 command for command', 'same command structure', {'A': A})
        for a, b in zip(s1, s2):
            if a[0] != b[0]: return ('a reported transform maps s1 onto s2 command for command', b[0], {'A': A, 'got': a[0]})
            for p, q in zip(a[1:], b[1:]):
                mp = M.map_point(p)
                # relative-coordinate tolerance accumulates along the path: allow tol per coordinate of each command (<= 4*tol per point)
                if abs(mp[0] - q[0]) > 4 * tol * len(s1) + 1e-9 or abs(mp[1] - q[1]) > 4 * tol * len(s1) + 1e-9:
                    return ('a reported transform maps s1 onto s2 within the tolerance', {'target_point': q}, {'A': A, 'mapped_point': tuple(mp)})
    if kind == 'identical' and A != [1.0, 0.0, 0.0, 1.0, 0.0, 0.0]:
        return ('identical shapes yield the identity', [1, 0, 0, 1, 0, 0], A)
    if kind == 'translate' and A is None:
        return ('an exact translation of a shape is always found', 'a translation', None)
    # near-miss pairs: a transform may legitimately exist (e.g. a non-uniform scale absorbing the perturbation); what must
    # never happen is a reported transform that does not map s1 onto s2 within the tolerance - checked by (i) above
    return None

# ---------------------------------------------------------------- shapes with arcs: the outline itself is compared
ARC_LAW = 'a reported transform maps the outline of s1 (arcs included) onto the outline of s2'

def _polyline(d, M=None):
    import render
    pts = []
    for sub, closed in render.flatten(pathsem.parse_simple(d), n=16):
        q = [tuple(M.map_point(p)) if M is not None else tuple(p) for p in sub]
        if closed: q.append(q[0])
        pts.append(q)
    return pts

def _dist_to(pt, lines):
    best = float('inf')
    for q in lines:
        for (x1, y1), (x2, y2) in zip(q, q[1:]):
            dx, dy = x2 - x1, y2 - y1
            L = dx * dx + dy * dy
            t = 0.0 if L == 0 else max(0.0, min(1.0, ((pt[0] - x1) * dx + (pt[1] - y1) * dy) / L))
            best = min(best, math.hypot(pt[0] - x1 - t * dx, pt[1] - y1 - t * dy))
    return best

def judge_arcs(d1, d2, tol, impl=None):
    """when a transform is reported for shapes with arcs: every sampled point of A(outline of s1) lies on the outline of s2 and
    vice versa (up to the chord error of the sampling and the accumulated tolerance)"""
    if impl is None: impl = impl_between(d1, d2, tol)
    if impl[0] != 'ok' or impl[1] is None: return None
    M = Affine2D(*impl[1])
    a, b = _polyline(d1, M), _polyline(d2)
    size = max([abs(v) for q in b for p in q for v in p] + [1.0])
    slack = 0.02 * size + 4 * tol * len(pathsem.parse_simple(d2))
    worst = max([_dist_to(p, b) for q in a for p in q] + [_dist_to(p, a) for q in b for p in q])
    if worst > slack:
        return (ARC_LAW, {'max_distance_allowed': slack}, {'A': impl[1], 'distance': worst})
    return None

# basic shape OBJECTS handed to the search (not their paths): the outline the standard gives them is what must be mapped
SHAPE_PAIRS = [
    ('rect', dict(x=0.0, y=0.0, width=10.0, height=6.0), dict(x=3.0, y=-2.0, width=10.0, height=6.0), 'translate'),
    ('rect', dict(x=0.0, y=0.0, width=10.0, height=6.0, rx=2.0, ry=2.0), dict(x=3.0, y=-2.0, width=10.0, height=6.0, rx=2.0, ry=2.0), 'translate'),
    ('rect', dict(x=0.0, y=0.0, width=10.0, height=6.0), dict(x=0.0, y=0.0, width=10.0, height=6.0, rx=2.5, ry=2.5), 'different'),
    ('rect', dict(x=1.0, y=1.0, width=10.0, height=6.0, rx=1.0, ry=1.0), dict(x=5.0, y=5.0, width=10.0, height=6.0, rx=3.0, ry=3.0), 'different'),
    ('rect', dict(x=0.0, y=0.0, width=10.0, height=6.0), dict(x=0.0, y=0.0, width=10.0, height=7.0), 'other'),
    ('circle', dict(cx=0.0, cy=0.0, r=4.0), dict(cx=5.0, cy=1.0, r=4.0), 'translate'),
    ('circle', dict(cx=0.0, cy=0.0, r=4.0), dict(cx=5.0, cy=1.0, r=2.0), 'other'),
    ('ellipse', dict(cx=0.0, cy=0.0, rx=4.0, ry=2.0), dict(cx=-3.0, cy=2.0, rx=4.0, ry=2.0), 'translate'),
    ('ellipse', dict(cx=0.0, cy=0.0, rx=4.0, ry=2.0), dict(cx=0.0, cy=0.0, rx=2.0, ry=4.0), 'other'),
    ('ellipse', dict(cx=0.0, cy=0.0, rx=4.0, ry=2.0), dict(cx=0.0, cy=0.0, rx=4.0, ry=3.0), 'other'),
]

def judge_shape_pair(kind, a1, a2, tol, rel):
    from props.c09 import spec_outline, CLASSES
    try:
        r = affine_between(CLASSES[kind](**a1), CLASSES[kind](**a2), tol)
        impl = ['ok', None if r is None else [float(v) for v in r]]
    except (ValueError, ZeroDivisionError, StopIteration, RuntimeError) as ex:
        return None
    d1, d2 = pathsem.fmt(spec_outline(kind, a1)), pathsem.fmt(spec_outline(kind, a2))
    if impl[1] is None:
        return ('an exact translation of a shape is always found', 'a translation', None) if rel == 'translate' else None
    if rel == 'different':
        # corner radii differ by far more than the tolerance: no affine map relates a square and a rounded corner of this size
        return ('no transform is reported for shapes whose outlines differ beyond the tolerance', None, {'A': impl[1]})
    return judge_arcs(d1, d2, tol, impl=impl)

ARC_PAIRS = [
    # (s1, s2, tol): controls - a translated, a uniformly scaled and a 180-degree rotated copy of a shape with a circular arc
    ('M0,0 l4,0 a2 2 0 0 1 2,2 z', 'M7,-3 l4,0 a2 2 0 0 1 2,2 z', 0.01),
    ('M0,0 l4,0 a2 2 0 0 1 2,2 z', 'M0,0 l8,0 a4 4 0 0 1 4,4 z', 0.01),
    ('M0,0 l4,0 a2 2 0 0 1 2,2 z', 'M0,0 l-4,0 a2 2 0 0 1 -2,-2 z', 0.01),
    # the recorded finding: mirror image whose sweep flag was NOT flipped, quarter turn of an ellipse whose radii were not swapped
    ('M0,0 l4,0 a2 2 0 0 1 2,2 z', 'M0,0 l4,0 a2 2 0 0 1 2,-2 z', 0.01),
    ('M0,0 l4,0 a3 1 0 0 1 2,2 z', 'M0,0 l0,4 a3 1 0 0 1 -2,2 z', 0.01),
]

def search(ctx, broken, disagreements):
    found, n = [], 0
    seen = set()
    for kind, a1, a2, rel in SHAPE_PAIRS:
        for tol in (0.01, 0.1):
            n += 1
            v = judge_shape_pair(kind, a1, a2, tol, rel)
            if v and v[0] not in seen:
                seen.add(v[0])
                found.append({'law': v[0], 'input': {'shape': kind, 'a1': a1, 'a2': a2, 'tol': tol, 'rel': rel, 'kind': 'shapes'}, 'expected_by_spec': jsonable(v[1]), 'observed': jsonable(v[2])})
    for d1, d2, tol in ARC_PAIRS:
        n += 1
        v = judge_arcs(d1, d2, tol)
        if v:
            found.append({'law': v[0], 'input': {'s1': d1, 's2': d2, 'tol': tol, 'kind': 'arcs'}, 'expected_by_spec': jsonable(v[1]), 'observed': jsonable(v[2])})
    for d1, d2, tol, kind in cases(ctx):
        n += 1
        v = judge(d1, d2, tol, kind)
        if v and v[0] not in seen:
            seen.add(v[0])
            found.append({'law': v[0], 'input': {'s1': d1, 's2': d2, 'tol': tol, 'kind': kind}, 'expected_by_spec': jsonable(v[1]), 'observed': jsonable(v[2])})
    return found, {'evaluations': n}

def matches_known(v, entry):
    sig = entry.get('signature', {})
    if sig.get('pattern') == 'arc_parameters_not_transformed' and v.get('law') == ARC_LAW:
        # the arc's flags / rotation / radii are carried over unchanged: wrong exactly when the reported map is a reflection, or
        # turns / stretches an arc whose radii differ
        A = (v.get('observed') or {}).get('A')
        if A: A = [float(x) for x in unjson(A)]
        cmds = pathsem.parse_simple(v['input']['s1'])
        arcs = [a for c, a in cmds if c.upper() == 'A']
        if not A or not arcs: return False
        a, b, c, d = A[:4]
        reflection = a * d - b * c < 0
        similarity = abs(a - d) < 1e-9 and abs(b + c) < 1e-9
        elliptical = any(abs(abs(x[0]) - abs(x[1])) > 1e-12 for x in arcs)
        return reflection or (elliptical and (abs(b) > 1e-9 or not similarity))
    return False

def replay(ctx, w):
    if w.get('kind') == 'shapes':
        v = judge_shape_pair(w['shape'], w['a1'], w['a2'], w['tol'], w['rel'])
        return {'fails': v is not None, 'detail': jsonable(v)}
    if w.get('kind') == 'arcs':
        v = judge_arcs(w['s1'], w['s2'], w['tol'])
        return {'fails': v is not None, 'detail': jsonable(v), 'impl': impl_between(w['s1'], w['s2'], w['tol'])}
    v = judge(w['s1'], w['s2'], w['tol'], w.get('kind', ''))
    return {'fails': v is not None, 'detail': jsonable(v), 'impl': impl_between(w['s1'], w['s2'], w['tol'])}
