"""Which Skia path operation, if any, explains a wrong colour at a sample point?

The conversion is re-run with picosvg.svg_pathops._do_pathop wrapped (in this process only; /repo is not touched):
every call's operands, fill rules and result are recorded, and for each call whose operands and result are
polygons the exact point-membership of the sample point is computed with tools/geom.py.  A call whose result
contains the point although the set operation of its operands does not (or vice versa) is an ENGINE failure:
the wrapper logic of picosvg asked the right question and Skia gave a wrong answer."""
from fractions import Fraction as F
import geom

def _poly(cmds):
    out = []
    for c, a in cmds:
        if c not in 'MLZ': return None
        out.append([c, [F(float(x)) for x in a]])
    return out

def engine_failures_at(doc, point, convert):
    from picosvg import svg_pathops
    import pathops
    records = []
    orig = svg_pathops._do_pathop
    def wrapped(op, svg_cmd_seqs, fill_rules):
        seqs = [list(s) for s in svg_cmd_seqs]
        res = orig(op, seqs, fill_rules)
        res = list(res) if res is not None else []
        records.append((op, seqs, list(fill_rules), res))
        return iter(res)
    svg_pathops._do_pathop = wrapped
    try:
        try: convert(doc)
        except Exception: pass
    finally:
        svg_pathops._do_pathop = orig
    P = (F(float(point[0])), F(float(point[1])))
    bad = []
    for op, seqs, rules, res in records:
        polys = [_poly(s) for s in seqs]; rp = _poly(res)
        if rp is None or any(p is None for p in polys): continue
        # skip points within a hair of an edge: membership there is a rounding matter
        if any(cs and geom.dist2_to_edges(geom.contours_of(p), P) is not None and geom.dist2_to_edges(geom.contours_of(p), P) < F(1, 10**6) for p in polys + [rp] for cs in [p]): continue
        vals = [geom.inside(p, r == 'evenodd', P) for p, r in zip(polys, rules)]
        if op == pathops.PathOp.UNION: want = any(vals)
        elif op == pathops.PathOp.INTERSECTION: want = all(vals)
        elif op == pathops.PathOp.DIFFERENCE: want = vals[0] and not any(vals[1:])
        else: continue
        got = geom.inside(rp, False, P)
        if got != want:
            bad.append({'op': str(op), 'operands_contain_point': vals, 'set_operation_says': want, 'engine_result_contains_point': got, 'n_operands': len(seqs)})
    return bad
