#!/bin/bash
# One-time warm-up after a fresh restore: regenerate gen/, build the whole Coq development
# and the extracted driver from files on disk (offline).
cd /verif
mkdir -p build evidence replays
tools/build.sh driver $(cd coq && ls props/*.v | sed 's/\.v$/.vo/') 2>&1 | tail -20
exit 0
