#!/bin/bash
# run the repository's pinned suite; prints the FAILED set and the pass count
cd /repo && /venv/bin/python -m pytest -q -p no:cacheprovider tests 2>&1 | tail -8
