"""Spec-side path semantics in Python (SVG 1.1 §8.3), independent of picosvg: used only by the
search/judges.  Mirrors coq/spec/PathSem.v; works on Fractions or floats."""
import re
ARITY = {'M': 2, 'L': 2, 'H': 1, 'V': 1, 'C': 6, 'S': 4, 'Q': 4, 'T': 2, 'A': 7, 'Z': 0}

def interp(cmds):
    cur = (0, 0); start = (0, 0); ctrl = None   # ctrl = ('C'|'Q', point)
    out = []
    for c, a in cmds:
        ab = c.isupper(); u = c.upper()
        def at(x, y): return (x, y) if ab else (cur[0] + x, cur[1] + y)
        def refl(q): return (2 * cur[0] - q[0], 2 * cur[1] - q[1])
        if u == 'M':
            p = at(a[0], a[1]); out.append(('move', p)); cur = start = p; ctrl = None
        elif u == 'L':
            p = at(a[0], a[1]); out.append(('line', cur, p)); cur = p; ctrl = None
        elif u == 'H':
            p = (a[0] if ab else cur[0] + a[0], cur[1]); out.append(('line', cur, p)); cur = p; ctrl = None
        elif u == 'V':
            p = (cur[0], a[0] if ab else cur[1] + a[0]); out.append(('line', cur, p)); cur = p; ctrl = None
        elif u == 'C':
            c1, c2, p = at(a[0], a[1]), at(a[2], a[3]), at(a[4], a[5])
            out.append(('cubic', cur, c1, c2, p)); cur = p; ctrl = ('C', c2)
        elif u == 'S':
            c1 = refl(ctrl[1]) if ctrl and ctrl[0] == 'C' else cur
            c2, p = at(a[0], a[1]), at(a[2], a[3])
            out.append(('cubic', cur, c1, c2, p)); cur = p; ctrl = ('C', c2)
        elif u == 'Q':
            c1, p = at(a[0], a[1]), at(a[2], a[3])
            out.append(('quad', cur, c1, p)); cur = p; ctrl = ('Q', c1)
        elif u == 'T':
            c1 = refl(ctrl[1]) if ctrl and ctrl[0] == 'Q' else cur
            p = at(a[0], a[1]); out.append(('quad', cur, c1, p)); cur = p; ctrl = ('Q', c1)
        elif u == 'A':
            p = at(a[5], a[6]); out.append(('arc', cur, a[0], a[1], a[2], a[3], a[4], p)); cur = p; ctrl = None
        elif u == 'Z':
            out.append(('close', cur, start)); cur = start; ctrl = None
    return out

_TOK = re.compile(r'([MmLlHhVvCcSsQqTtAaZz])|([-+]?(?:\d+\.?\d*|\.\d+)(?:[eE][-+]?\d+)?)')
def parse_simple(d, num=float):
    """tokenizer for picosvg's own OUTPUT format (commands with fully separated numbers); exploded"""
    cmds = []; cur = None; args = []
    def flush():
        nonlocal cur, args
        if cur is None: return
        n = ARITY[cur.upper()]
        if n == 0: cmds.append((cur, []))
        else:
            if len(args) % n or not args: raise ValueError(f"bad arity in {d!r}")
            for i in range(0, len(args), n):
                c = cur
                if i > 0 and cur in 'Mm': c = 'L' if cur == 'M' else 'l'
                cmds.append((c, args[i:i + n]))
        cur, args = None, []
    pos = 0
    for m in _TOK.finditer(d):
        if d[pos:m.start()].strip(' ,\t\n\r'): raise ValueError(f"junk in {d!r}")
        pos = m.end()
        if m.group(1): flush(); cur = m.group(1)
        else: args.append(num(m.group(2)))
    flush()
    return cmds

def fmt(cmds):
    """print a command list as path data the way an author might (no reliance on picosvg)"""
    def n(v):
        f = float(v)
        return str(int(f)) if f == int(f) and abs(f) < 1e15 else repr(f)
    return ' '.join(c + ','.join(n(x) for x in a) for c, a in cmds)
