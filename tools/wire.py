"""Wire format shared with ocaml/driver.ml: values are
   Fraction/int -> #<bin>/<bin>, str -> "..", list/tuple -> ( .. ), bool -> T/F, None -> N."""
from fractions import Fraction
import subprocess, os, math

def enc(v):
    if v is None: return 'N'
    if v is True: return 'T'
    if v is False: return 'F'
    if isinstance(v, int): v = Fraction(v)
    if isinstance(v, float): v = Fraction(v)
    if isinstance(v, Fraction):
        n, d = v.numerator, v.denominator
        return '#' + ('-' if n < 0 else '') + bin(abs(n))[2:] + '/' + bin(d)[2:]
    if isinstance(v, str):
        return '"' + v.replace('\\', '\\\\').replace('"', '\\"').replace('\n', '\\n').replace('\t', '\\t').replace('\r', '\\r') + '"'
    if isinstance(v, (list, tuple)):
        return '(' + ''.join(enc(x) + ' ' for x in v) + ')'
    raise TypeError(f"cannot encode {v!r}")

def dec(s):
    pos = 0
    n = len(s)
    def value():
        nonlocal pos
        while pos < n and s[pos] == ' ': pos += 1
        c = s[pos]
        if c == '(':
            pos += 1; out = []
            while True:
                while pos < n and s[pos] == ' ': pos += 1
                if s[pos] == ')': pos += 1; return out
                out.append(value())
        if c == '"':
            pos += 1; buf = []
            while s[pos] != '"':
                if s[pos] == '\\':
                    d = s[pos + 1]; buf.append({'n': '\n', 't': '\t', 'r': '\r'}.get(d, d)); pos += 2
                else:
                    buf.append(s[pos]); pos += 1
            pos += 1; return ''.join(buf)
        if c == '#':
            j = s.index('/', pos); num = s[pos + 1:j]
            k = j + 1
            while k < n and s[k] in '01': k += 1
            den = s[j + 1:k]; pos = k
            neg = num.startswith('-')
            return Fraction(int(num.lstrip('-'), 2) * (-1 if neg else 1), int(den, 2))
        if c == 'T': pos += 1; return True
        if c == 'F': pos += 1; return False
        if c == 'N': pos += 1; return None
        raise ValueError(f"bad wire value at {pos}: {s[pos:pos+20]!r}")
    return value()


def math_oracle(name, arg):
    """Answer the model's transcendental questions with CPython's math on the nearest float."""
    f = lambda q: float(q)
    if name == 'cos': return Fraction(math.cos(f(arg)))
    if name == 'sin': return Fraction(math.sin(f(arg)))
    if name == 'tan': return Fraction(math.tan(f(arg)))
    if name == 'sqrt': return Fraction(math.sqrt(f(arg)))
    if name == 'atan2': return Fraction(math.atan2(f(arg[0]), f(arg[1])))
    if name == 'hypot': return Fraction(math.hypot(f(arg[0]), f(arg[1])))
    if name == 'pi': return Fraction(math.pi)
    return None


class ModelError(Exception):
    pass


class Model:
    """The extracted Coq model as a co-process; oracle questions are answered by `oracles`."""
    def __init__(self, binary, oracles=()):
        self.binary = binary
        self.oracles = [math_oracle] + list(oracles)
        self.p = subprocess.Popen([binary], stdin=subprocess.PIPE, stdout=subprocess.PIPE,
                                  text=True, bufsize=1)
        self.calls = 0
        self.oracle_calls = 0

    def call(self, name, arg):
        self.calls += 1
        self.p.stdin.write(name + '\t' + enc(arg) + '\n'); self.p.stdin.flush()
        while True:
            line = self.p.stdout.readline()
            if not line: raise ModelError(f"model died on {name}")
            line = line.rstrip('\n')
            if line.startswith('='): return dec(line[1:])
            if line.startswith('?'):
                q, a = line[1:].split('\t', 1)
                self.oracle_calls += 1
                ans = None
                for o in self.oracles:
                    ans = o(q, dec(a))
                    if ans is not None: break
                if ans is None: raise ModelError(f"no oracle answers {q}")
                self.p.stdin.write(enc(ans) + '\n'); self.p.stdin.flush()
                continue
            raise ModelError(f"model error on {name}: {line}")

    def reset(self):
        self.p.stdin.write('%reset\n'); self.p.stdin.flush()

    def close(self):
        try:
            self.p.stdin.close(); self.p.wait(timeout=5)
        except Exception:
            self.p.kill()


def batch_calls(binary, requests, chunk=150000):
    """Run many oracle-free requests through one driver process; returns decoded answers
    (or ('!', msg) for model-side failures)."""
    if len(requests) > chunk:
        out = []
        for i in range(0, len(requests), chunk): out += batch_calls(binary, requests[i:i + chunk], chunk)
        return out
    data = ''.join(name + '\t' + enc(arg) + '\n' for name, arg in requests)
    r = subprocess.run([binary, '--batch'], input=data, capture_output=True, text=True)
    out = []
    for line in r.stdout.split('\n'):
        if not line: continue
        if line.startswith('='): out.append(dec(line[1:]))
        else: out.append(('!', line))
    if len(out) != len(requests):
        raise ModelError(f"batch returned {len(out)} answers for {len(requests)} requests; stderr={r.stderr[:300]}")
    return out
