#!/usr/bin/env python3
"""Extract, from the current svg.py, the cache-bookkeeping skeleton of every public SVG method
(C15) plus the inventories used by C16/C17.  Fail-closed: a statement that cannot be classified
aborts the extraction.

Skeleton grammar (emitted as Gallina, see model/ObjCache.v):
  Done r | Flush k | Populate k | Edit n k | Mut n k | Invalidate k
  | IfTree n k1 k2 | IfCache n k1 k2 | IfHasCache k1 k2
where n numbers the statement (source line) the action stands for."""
import ast, os, sys

class Abort(Exception): pass

# helper methods of SVG that only read the tree / compute
PURE_SELF = {'xpath', 'xpath_one', 'resolve_url', 'view_box', '_default_tolerance', 'breadth_first', 'depth_first',
             '_iter_nested_svgs', '_select_gradients', '_new_id', '_traverse', 'tolerance', '_inherited_attrib'}
# SVG methods that mutate the tree without touching the cache bookkeeping themselves
MUT_SELF = {'_resolve_use', '_swap_elements', '_apply_styles', '_apply_gradient_template', '_apply_gradient_translation',
            '_add_to_defs', '_transformed_gradient', '_unnest_svg', '_resolve_clip_path', '_stroke'}
# free functions / attribute calls that mutate a tree
MUT_CALLS = {'_safe_remove', '_del_attrs', '_try_remove_group', '_replace_el', '_inherit_attrib', '_copy_new_nsmap',
             '_fix_xlink_ns', 'remove', 'insert', 'append', 'extend', 'replace', 'clear', 'addnext', 'update', 'pop'}
PURE_CALLS = {'len', 'list', 'tuple', 'enumerate', 'isinstance', 'reversed', 'range', 'float', 'str', 'sum', 'any', 'all', 'min', 'max',
              'set', 'dict', 'sorted', 'zip', 'int', 'bool', 'reduce', 'print', 'getattr', 'chain',
              'strip_ns', 'splitns', 'svgns', 'xlinkns', 'parse_view_box', 'Rect', 'SVGRect', 'SVGPath', 'intersection', 'union',
              '_is_group', '_is_shape', '_is_gradient', '_is_defs', '_is_redundant', '_is_removable_group', '_opacity', '_clamp',
              'from_element', 'to_element', '_element_transform', '_xlink_href_attr_name', '_xpath_for_url', '_id_of_target',
              'match', 'startswith', 'endswith', 'get', 'items', 'keys', 'values', 'split', 'join', 'strip', 'count', 'format', 'lower',
              'getparent', 'index', 'getiterator', 'iter', 'deepcopy', 'copy', 'Element', 'fromstring', 'tostring', 'encode', 'decode',
              'add', 'discard', 'translate', 'compose_ltr', 'identity', 'rect_to_rect', 'tostring', 'intersection', 'bounding_box',
              'as_path', 'absolute', 'might_paint', 'union', 'from_commands', 'apply_transform', 'XMLParser', 'popleft', 'deque',
              'ValueError', 'NotImplementedError', 'cache_clear', 'xpath', 'defaultdict', 'partial', '_reset_attrs'}
# methods on cached shape objects that edit them in place
SHAPE_EDITS = {'round_floats', 'remove_empty_subpaths', 'normalize_opacity', 'apply_style_attribute', 'update_path', 'remove_overlaps',
               'explicit_lines', 'expand_shorthand', 'as_path', 'absolute', 'arcs_to_cubics'}


def names_called(node):
    out = []
    for n in ast.walk(node):
        if isinstance(n, ast.Call):
            f = n.func
            if isinstance(f, ast.Name): out.append(('name', f.id, n))
            elif isinstance(f, ast.Attribute):
                recv = f.value
                if isinstance(recv, ast.Name) and recv.id == 'self': out.append(('self', f.attr, n))
                else: out.append(('attr', f.attr, n))
    return out


class Extractor:
    def __init__(self, path):
        self.src = open(path).read()
        self.tree = ast.parse(self.src)
        self.cls = next(n for n in self.tree.body if isinstance(n, ast.ClassDef) and n.name == 'SVG')
        self.methods = {n.name: n for n in self.cls.body if isinstance(n, ast.FunctionDef)}
        self.inlining = []
        self.in_loop = 0

    # ---- classification of one simple statement / expression
    def kinds_of(self, node, cache_vars):
        """set of primitive kinds a simple statement performs; may raise Abort"""
        kinds = set()
        # assignments
        if isinstance(node, (ast.Assign, ast.AugAssign, ast.AnnAssign)):
            targets = node.targets if isinstance(node, ast.Assign) else [node.target]
            for t in targets:
                for tt in ast.walk(t):
                    if isinstance(tt, ast.Attribute) and isinstance(tt.value, ast.Name) and tt.value.id == 'self':
                        if tt.attr == 'elements':
                            if isinstance(t, ast.Subscript): kinds.add('Edit')
                            elif isinstance(node, ast.Assign) and isinstance(node.value, ast.Constant) and node.value.value is None: kinds.add('Invalidate')
                            elif isinstance(node, ast.Assign) and isinstance(node.value, ast.Name) and node.value.id == 'elements': kinds.add('PopulateStore')
                            else: raise Abort(f"line {node.lineno}: unrecognised assignment to self.elements")
                        elif tt.attr == 'svg_root': kinds.add('Mut')
                        else: raise Abort(f"line {node.lineno}: assignment to self.{tt.attr}")
                    if isinstance(tt, ast.Attribute) and tt.attr == 'attrib' and isinstance(t, ast.Subscript): kinds.add('Mut')
                if isinstance(t, ast.Subscript) and isinstance(t.value, ast.Attribute) and t.value.attr == 'attrib': kinds.add('Mut')
        if isinstance(node, ast.Delete):
            for t in node.targets:
                if any(isinstance(x, ast.Attribute) and x.attr == 'attrib' for x in ast.walk(t)): kinds.add('Mut')
        for kind, name, call in names_called(node):
            if kind == 'self':
                if name == '_update_etree': kinds.add('Flush')
                elif name in ('_elements', 'shapes'): kinds.add('Populate')
                elif name == '_set_element': kinds.add('Edit')
                elif name == '_clone': kinds.add('Clone')
                elif name in PURE_SELF: pass
                elif name in MUT_SELF: kinds.add('Mut')
                elif name in self.methods: kinds.add('Call:' + name)
                else: raise Abort(f"line {call.lineno}: unknown SVG method self.{name}")
            elif kind == 'attr':
                recv = call.func.value
                base = recv
                while isinstance(base, (ast.Attribute, ast.Subscript, ast.Call)):
                    base = base.value if not isinstance(base, ast.Call) else base.func
                on_cache_var = isinstance(base, ast.Name) and base.id in cache_vars
                if on_cache_var and name in SHAPE_EDITS:
                    if any(k.arg == 'inplace' and isinstance(k.value, ast.Constant) and k.value.value is True for k in call.keywords):
                        kinds.add('Edit')
                elif name in MUT_CALLS:
                    # mutation of a local container is not a tree mutation
                    if isinstance(base, ast.Name) and base.id in self.local_containers: pass
                    elif name in ('get', 'pop') and False: pass
                    else: kinds.add('Mut')
                elif name in PURE_CALLS or name in SHAPE_EDITS: pass
                else: raise Abort(f"line {call.lineno}: unclassified call .{name}()")
            else:
                if name in MUT_CALLS: kinds.add('Mut')
                elif name in PURE_CALLS or name[:1].isupper(): pass
                else: raise Abort(f"line {call.lineno}: unclassified call {name}()")
        return kinds

    def emit_kinds(self, kinds, line, k, in_cache_loop):
        """prepend the actions for one statement (fixed order: Flush, Populate, Edit/Mut, Invalidate)"""
        order = []
        if 'Clone' in kinds: raise Abort(f"line {line}: _clone() outside the standard copy prologue")
        calls = [x for x in kinds if x.startswith('Call:')]
        if 'Flush' in kinds: order.append(('Flush',))
        if 'Populate' in kinds: order.append(('Populate',))
        if 'Edit' in kinds and 'Mut' in kinds and not in_cache_loop: raise Abort(f"line {line}: statement both edits the cache and mutates the tree")
        if 'Edit' in kinds: order.append(('Edit', line))
        if 'Mut' in kinds: order.append(('Mut', line))
        if 'Invalidate' in kinds: order.append(('Invalidate',))
        if 'PopulateStore' in kinds: pass
        for c in calls: order.append(('Call', c[5:]))
        for a in reversed(order):
            if a[0] == 'Call': k = self.inline(a[1], k)
            else: k = a + (k,)
        return k

    # ---- statement lists -> continuation-style skeleton
    def block(self, stmts, k, cache_vars):
        if not stmts: return k
        s, rest = stmts[0], stmts[1:]
        tail = lambda: self.block(rest, k, cache_vars)
        if isinstance(s, ast.Expr) and isinstance(s.value, ast.Constant): return tail()
        if isinstance(s, ast.Return):
            if self.in_loop: raise Abort(f"line {s.lineno}: return inside a loop")
            v = s.value
            r = 'RetNone' if v is None else ('RetSelf' if isinstance(v, ast.Name) and v.id == 'self' else
                 ('RetClone' if isinstance(v, ast.Name) and v.id == 'svg' else 'RetOther'))
            inner = ('Done', r)
            if v is not None: inner = self.emit_kinds(self.kinds_of(ast.Expr(value=v, lineno=s.lineno), cache_vars), s.lineno, inner, False)
            return inner
        if isinstance(s, ast.Raise): return ('Done', 'RetRaise')
        if isinstance(s, ast.Break):
            if not self.in_loop: raise Abort(f"line {s.lineno}: break outside a kept loop")
            return ('Done', 'RetBreak')
        if isinstance(s, ast.Continue):
            if not self.in_loop: raise Abort(f"line {s.lineno}: continue outside a kept loop")
            return ('Done', 'RetContinue')
        if isinstance(s, (ast.Assign, ast.AugAssign, ast.AnnAssign, ast.Expr, ast.Delete, ast.Assert, ast.Pass)):
            if isinstance(s, ast.Assign) and len(s.targets) == 1 and isinstance(s.targets[0], ast.Name) and isinstance(s.value, (ast.List, ast.Dict, ast.Set, ast.ListComp, ast.Call)):
                if isinstance(s.value, (ast.List, ast.Dict, ast.Set, ast.ListComp)) or (isinstance(s.value.func, ast.Name) and s.value.func.id in ('set', 'list', 'dict', 'deque', 'defaultdict')):
                    self.local_containers.add(s.targets[0].id)
            return self.emit_kinds(self.kinds_of(s, cache_vars), s.lineno, tail(), False)
        if isinstance(s, ast.If):
            t = s.test
            # `if self.elements:`
            if isinstance(t, ast.Attribute) and isinstance(t.value, ast.Name) and t.value.id == 'self' and t.attr == 'elements':
                return ('IfHasCache', self.block(s.body + rest, k, cache_vars), self.block(s.orelse + rest, k, cache_vars))
            test_kinds = self.kinds_of(ast.Expr(value=t, lineno=s.lineno), cache_vars)
            uses_cache = any(isinstance(n, ast.Name) and n.id in cache_vars for n in ast.walk(t))
            node = ('IfCache' if uses_cache else 'IfTree', s.lineno,
                    self.block(s.body + rest, k, cache_vars), self.block(s.orelse + rest, k, cache_vars))
            return self.emit_kinds(test_kinds, s.lineno, node, False)
        if isinstance(s, (ast.For, ast.While)):
            # a loop is collapsed into the single strongest action of its body (statuses are idempotent)
            cv = set(cache_vars)
            header = set()
            if isinstance(s, ast.For):
                header = self.kinds_of(ast.Expr(value=s.iter, lineno=s.lineno), cache_vars)
                if 'Populate' in header:
                    for n in ast.walk(s.target):
                        if isinstance(n, ast.Name): cv.add(n.id)
            body_kinds = set()
            def collect(sts):
                for st in sts:
                    if isinstance(st, (ast.Return,)): raise Abort(f"line {st.lineno}: return inside a loop")
                    if isinstance(st, (ast.If,)):
                        body_kinds.update(self.kinds_of(ast.Expr(value=st.test, lineno=st.lineno), cv)); collect(st.body); collect(st.orelse)
                    elif isinstance(st, (ast.For, ast.While)):
                        if isinstance(st, ast.For): body_kinds.update(self.kinds_of(ast.Expr(value=st.iter, lineno=st.lineno), cv))
                        collect(st.body)
                    elif isinstance(st, (ast.Continue, ast.Break, ast.Pass)): pass
                    elif isinstance(st, ast.Raise): pass
                    elif isinstance(st, ast.Try):
                        collect(st.body)
                        for h in st.handlers: collect(h.body)
                    else: body_kinds.update(self.kinds_of(st, cv))
            collect(s.body)
            if body_kinds & {'Flush', 'Invalidate', 'Clone'} or any(x.startswith('Call:') for x in body_kinds):
                # a loop whose body changes the cache bookkeeping: keep it as a loop.  Only `while` loops
                # without else-clause; the body is translated with continue/break leaves.
                if not isinstance(s, ast.While) or s.orelse:
                    raise Abort(f"line {s.lineno}: loop body changes the cache bookkeeping: {sorted(body_kinds)}")
                self.in_loop += 1
                body = self.block(list(s.body), ('Done', 'RetContinue'), cache_vars)
                self.in_loop -= 1
                test_is_true = isinstance(s.test, ast.Constant) and s.test.value is True
                if not test_is_true:
                    tk = self.kinds_of(ast.Expr(value=s.test, lineno=s.lineno), cache_vars)
                    uses_cache = any(isinstance(n, ast.Name) and n.id in cache_vars for n in ast.walk(s.test))
                    body = self.emit_kinds(tk, s.lineno, ('IfCache' if uses_cache else 'IfTree', s.lineno, body, ('Done', 'RetBreak')), False)
                return ('While', s.lineno, body, tail())
            allk = header | body_kinds
            return self.emit_kinds(allk, s.lineno, tail(), 'Populate' in header)
        if isinstance(s, ast.Try):
            return self.block(s.body + rest, k, cache_vars)
        if isinstance(s, ast.With):
            return self.block(s.body + rest, k, cache_vars)
        raise Abort(f"line {s.lineno}: unsupported statement {type(s).__name__}")

    def inline(self, name, k):
        """inline the in-place body of another SVG method in front of continuation k"""
        if name in self.inlining: raise Abort(f"recursive call cycle through {name}")
        self.inlining.append(name)
        body = self.inplace_body(self.methods[name])
        saved, saved_loop = self.local_containers, self.in_loop
        self.local_containers, self.in_loop = set(), 0
        # returns inside the callee continue with k
        sk = self.block(body, ('Done', 'RetFallthrough'), set())
        self.local_containers, self.in_loop = saved, saved_loop
        self.inlining.pop()
        def splice(t):
            if t[0] == 'Done': return k if t[1] in ('RetSelf', 'RetFallthrough', 'RetNone', 'RetOther') else t
            if t[0] in ('Flush', 'Populate', 'Invalidate'): return (t[0], splice(t[1]))
            if t[0] in ('Edit', 'Mut'): return (t[0], t[1], splice(t[2]))
            if t[0] in ('IfTree', 'IfCache'): return (t[0], t[1], splice(t[2]), splice(t[3]))
            if t[0] == 'IfHasCache': return (t[0], splice(t[1]), splice(t[2]))
            if t[0] == 'While': return (t[0], t[1], t[2], splice(t[3]))     # no return leaves inside a loop body
            raise Abort("splice")
        return splice(sk)

    def prologue(self, fn):
        """(has_inplace_param, standard_prologue_ok)"""
        has = any(a.arg == 'inplace' for a in fn.args.args + fn.args.kwonlyargs)
        if not has: return False, True
        first = next((s for s in fn.body if not (isinstance(s, ast.Expr) and isinstance(s.value, ast.Constant))), None)
        ok = False
        if isinstance(first, ast.If) and isinstance(first.test, ast.UnaryOp) and isinstance(first.test.op, ast.Not) \
                and isinstance(first.test.operand, ast.Name) and first.test.operand.id == 'inplace' and len(first.body) == 3 and not first.orelse:
            a, b, c = first.body
            ok = (isinstance(a, ast.Assign) and isinstance(a.value, ast.Call) and isinstance(a.value.func, ast.Attribute)
                  and a.value.func.attr == '_clone' and isinstance(a.targets[0], ast.Name) and a.targets[0].id == 'svg'
                  and isinstance(b, ast.Expr) and isinstance(b.value, ast.Call) and isinstance(b.value.func, ast.Attribute)
                  and b.value.func.attr == fn.name and isinstance(b.value.func.value, ast.Name) and b.value.func.value.id == 'svg'
                  and any(kw.arg == 'inplace' and isinstance(kw.value, ast.Constant) and kw.value.value is True for kw in b.value.keywords)
                  and isinstance(c, ast.Return) and isinstance(c.value, ast.Name) and c.value.id == 'svg')
        return True, ok

    def inplace_body(self, fn):
        body = [s for s in fn.body if not (isinstance(s, ast.Expr) and isinstance(s.value, ast.Constant))]
        if body and isinstance(body[0], ast.If) and isinstance(body[0].test, ast.UnaryOp) and isinstance(body[0].test.operand, ast.Name) \
                and body[0].test.operand.id == 'inplace':
            body = body[1:]
        return body

    def skeleton(self, name):
        fn = self.methods[name]
        self.local_containers = set()
        self.inlining = [name]
        has, ok = self.prologue(fn)
        sk = self.block(self.inplace_body(fn), ('Done', 'RetNone'), set())
        return has, ok, sk


def coq_sk(t):
    if t[0] == 'Done': return f"(Done {t[1]})"
    if t[0] in ('Flush', 'Populate', 'Invalidate'): return f"({t[0]} {coq_sk(t[1])})"
    if t[0] in ('Edit', 'Mut'): return f"({t[0]} {t[1]} {coq_sk(t[2])})"
    if t[0] in ('IfTree', 'IfCache'): return f"({t[0]} {t[1]} {coq_sk(t[2])} {coq_sk(t[3])})"
    if t[0] == 'IfHasCache': return f"(IfHasCache {coq_sk(t[1])} {coq_sk(t[2])})"
    if t[0] == 'While': return f"(While {t[1]} {coq_sk(t[2])} {coq_sk(t[3])})"
    raise Abort(f"coq_sk {t}")

def size(t):
    return 1 + sum(size(x) for x in t[1:] if isinstance(x, tuple))

PUBLIC_MUTATORS = ['absolute', 'shapes_to_paths', 'expand_shorthand', 'apply_style_attributes', 'resolve_use', 'simplify', 'clip_to_viewbox',
                   'evenodd_to_nonzero_winding', 'round_floats', 'remove_empty_subpaths', 'remove_unpainted_shapes', 'remove_nonsvg_content',
                   'remove_processing_instructions', 'remove_anonymous_symbols', 'remove_title_meta_desc', 'set_attributes', 'remove_attributes',
                   'normalize_opacity', 'resolve_nested_svgs', 'topicosvg', 'append_to']
PUBLIC_QUERIES = ['shapes', 'bounding_box', 'view_box', 'checkpicosvg', 'toetree', 'tostring', 'xpath', 'xpath_one', 'resolve_url',
                  'breadth_first', 'depth_first']

def generate(svg_py, out_path):
    ex = Extractor(svg_py)
    public = [n for n in ex.methods if not n.startswith('_') and n not in ('fromstring', 'parse')]
    unknown = [n for n in public if n not in PUBLIC_MUTATORS + PUBLIC_QUERIES + ['tolerance']]
    if unknown: raise Abort(f"public SVG methods not covered by the C15 operation list: {unknown}")
    lines = ["(* GENERATED by tools/skeletons.py from src/picosvg/svg.py - do not edit. *)",
             "From Coq Require Import List String.", "From Pico Require Import ObjCache.", "Import ListNotations.",
             "Local Open Scope string_scope.", ""]
    entries = []
    for n in PUBLIC_MUTATORS + PUBLIC_QUERIES:
        if n not in ex.methods: raise Abort(f"method {n} disappeared")
        if n in ('breadth_first', 'depth_first'): continue      # generators over the tree: pure reads
        has, ok, sk = ex.skeleton(n)
        if size(sk) > 4000: raise Abort(f"skeleton of {n} too large ({size(sk)})")
        kind = 'Mutator' if n in PUBLIC_MUTATORS else 'Query'
        lines.append(f"Definition sk_{n} : sk :=\n  {coq_sk(sk)}.")
        entries.append(f'mk_method "{n}" {kind} {"true" if has else "false"} {"true" if ok else "false"} sk_{n}')
    lines.append("")
    lines.append("Definition skeleton_table : list method :=\n  [ " + ";\n    ".join(entries) + " ].")
    text = "\n".join(lines) + "\n"
    if not os.path.exists(out_path) or open(out_path).read() != text:
        open(out_path, 'w').write(text)


if __name__ == '__main__':
    try:
        generate(sys.argv[1], sys.argv[2])
    except Abort as e:
        print(f"SKELETON-ABORT: {e}", file=sys.stderr); sys.exit(3)
