"""Random SVG documents for the whole-pipeline judges (C01, C07, C08, C14, C16, C17).
Every random choice comes from the rng passed in."""
SVGNS = 'http://www.w3.org/2000/svg'
XL = 'http://www.w3.org/1999/xlink'
COL = ['red', 'blue', 'green', 'yellow', 'purple', 'orange', '#123456', '#abc']

class Gen:
    def __init__(self, rng, unsupported=0.0, text=0.0, noise=0.0, strokes=0.3, clips=0.3, gradients=0.3, uses=0.3, nested=0.15, shared_ids=False):
        self.rng = rng; self.p_unsup = unsupported; self.p_text = text; self.p_noise = noise
        self.p_stroke, self.p_clip, self.p_grad, self.p_use, self.p_nested = strokes, clips, gradients, uses, nested
        self.shared_ids = shared_ids
        self.defs = []; self.grad_ids = []; self.clip_ids = []; self.use_ids = []; self.n = 0

    def nid(self, pfx):
        self.n += 1; return f'{pfx}{self.n}'

    def tf(self):
        r = self.rng
        return ' transform="%s"' % r.choice(['translate(2,1)', 'scale(1.5)', 'rotate(30 10 10)', 'translate(-1,3) scale(0.75)', 'matrix(1 0 0.3 1 0 0)', 'scale(2,0.5)', 'rotate(90)', 'skewX(20)'])

    def gradient(self):
        r = self.rng
        gid = self.nid('grad')
        if r.random() < 0.12: gid += r.choice(['.a', '.2', ':x', '\u00fc', '\u03b1'])      # any XML name is a valid id (also beyond ASCII)
        units = r.choice(['', ' gradientUnits="userSpaceOnUse"', ' gradientUnits="objectBoundingBox"'])
        gt = r.choice(['', ' gradientTransform="translate(1,2)"', ' gradientTransform="scale(2) translate(1 0)"', ' gradientTransform="rotate(45)"'])
        spread = r.choice(['', ' spreadMethod="reflect"', ' spreadMethod="repeat"'])
        href = ''
        sid = (lambda k: f' id="{gid}s{k}"') if self.shared_ids and r.random() < 0.4 else (lambda k: '')
        stops = f'<stop offset="0" stop-color="red"{sid(0)}/><stop offset="1" stop-color="blue" stop-opacity="0.5"{sid(1)}/>'
        if self.grad_ids and r.random() < 0.35:
            href = f' xlink:href="#{r.choice(self.grad_ids)}"'
            if r.random() < 0.6: stops = ''
        if r.random() < 0.5:
            pct = r.random() < 0.3
            co = (lambda v: f'{v}%') if pct else (lambda v: str(v / 10 if 'objectBoundingBox' in units or not units else v / 5))
            g = f'<linearGradient id="{gid}" x1="{co(r.randint(0, 30))}" y1="{co(r.randint(0, 30))}" x2="{co(r.randint(50, 100))}" y2="{co(r.randint(0, 100))}"{units}{gt}{spread}{href}>{stops}</linearGradient>'
        else:
            fx = f' fx="{r.randint(3, 7) / 10}"' if r.random() < 0.3 else ''
            g = f'<radialGradient id="{gid}" cx="{r.choice(["50%", "0.5", "0.4"])}" cy="{r.choice(["50%", "0.5", "0.6"])}" r="{r.choice(["50%", "0.5", "0.7"])}"{fx}{gt}{spread}{href}>{stops}</radialGradient>'
            if units and 'userSpaceOnUse' in units: g = g.replace('0.5"', '8"').replace('0.4"', '6"').replace('0.6"', '9"').replace('0.7"', '10"')
        self.defs.append(g); self.grad_ids.append(gid)
        return gid

    def clip(self):
        r = self.rng
        cid = self.nid('clip')
        x, y = r.randint(0, 8), r.randint(0, 8)
        kid = r.choice([f'<rect x="{x}" y="{y}" width="{r.randint(5, 12)}" height="{r.randint(5, 12)}"/>', f'<circle cx="{x + 5}" cy="{y + 5}" r="{r.randint(3, 7)}"/>',
                        f'<path d="M{x},{y} l10,10 l0,-10 l-10,10 z" clip-rule="evenodd"/>'])
        nest = f' clip-path="url(#{r.choice(self.clip_ids)})"' if self.clip_ids and r.random() < 0.3 else ''
        self.defs.append(f'<clipPath id="{cid}"{nest}>{kid}</clipPath>'); self.clip_ids.append(cid)
        return cid

    def paint(self):
        r = self.rng
        a = ''
        if r.random() < self.p_grad: a += f' fill="url(#{self.gradient() if not self.grad_ids or r.random() < 0.5 else r.choice(self.grad_ids)}){" red" if r.random() < 0.08 else ""}"'     # a paint may name a fallback
        elif r.random() < 0.7: a += f' fill="{r.choice(COL + ["none"])}"'
        if r.random() < self.p_stroke:
            a += f' stroke="{r.choice(COL)}" stroke-width="{r.choice([1, 2, 0.5])}"'
            if r.random() < 0.3: a += f' stroke-linecap="{r.choice(["round", "square"])}" stroke-linejoin="{r.choice(["round", "bevel"])}"'
            if r.random() < 0.2: a += f' stroke-dasharray="{r.choice(["2", "3,1", "1 2 3"])}"'
        if r.random() < 0.25: a += f' opacity="{r.choice([0.5, 0.25, 0.75, 0, 1, 0.7, 0.3, 0])}"'
        if r.random() < 0.15: a += f' fill-opacity="{r.choice([0.5, 0.25])}"'
        if r.random() < 0.1: a += ' fill-rule="evenodd"'
        if r.random() < 0.2: a += f' style="{r.choice(["fill:red", "opacity:0.5", "stroke:none;fill:blue", "display:none", "fill-opacity:0.5;bogus:1", "fill:green;fill:purple", "opacity:1;fill:orange"])}"'
        if r.random() < 0.05: a += ' display="none"'
        if r.random() < self.p_clip: a += f' clip-path="url(#{self.clip() if not self.clip_ids or r.random() < 0.5 else r.choice(self.clip_ids)})"'
        if self.shared_ids and r.random() < 0.3: a += f' id="{self.nid("s")}"'
        return a

    def shape(self):
        r = self.rng
        x, y = r.randint(0, 12), r.randint(0, 12)
        k = r.randrange(8)
        t = self.tf() if r.random() < 0.3 else ''
        p = self.paint()
        if k == 0: return f'<rect x="{x}" y="{y}" width="{r.randint(3, 9)}" height="{r.randint(3, 9)}"{p}{t}/>'
        if k == 1: return f'<circle cx="{x + 3}" cy="{y + 3}" r="{r.randint(2, 5)}"{p}{t}/>'
        if k == 2: return f'<ellipse cx="{x + 3}" cy="{y + 3}" rx="{r.randint(2, 5)}" ry="{r.randint(1, 4)}"{p}{t}/>'
        if k == 3: return f'<polygon points="{x},{y} {x + 6},{y + 1} {x + 2},{y + 7}"{p}{t}/>'
        if k == 4: return f'<path d="M{x},{y} h6 v5 l-3,2 z m1,1 h2 v2 z"{p}{t}/>'
        if k == 5: return f'<path d="M{x} {y}c2,4 6,4 8,0s4,-4 6,0 q1,3 -2,5 t-4,1 a3 2 30 1 0 -4,-2z"{p}{t}/>'
        if k == 6: return f'<line x1="{x}" y1="{y}" x2="{x + 6}" y2="{y + 4}" stroke="{r.choice(COL)}" stroke-width="2"{t}/>'
        return f'<polyline points="{x},{y} {x + 5},{y} {x + 5},{y + 5}"{p}{t}/>'

    def unsupported(self):
        if self.clip_ids and self.rng.random() < 0.3:
            # unsupported content may carry references of its own
            return self.rng.choice(['<image width="5" height="5" clip-path="url(#%s)"/>', '<foreignObject width="5" height="5" clip-path="url(#%s)" transform="translate(1,1)"/>',
                                    '<a clip-path="url(#%s)"><rect width="2" height="2"/></a>']) % self.rng.choice(self.clip_ids)
        return self.rng.choice(['<filter id="f"><feGaussianBlur stdDeviation="2"/></filter>', '<mask id="m"><rect width="5" height="5"/></mask>',
                                '<image width="5" height="5"/>', '<foreignObject width="5" height="5"/>', '<a><rect width="2" height="2"/></a>',
                                '<pattern id="pat" width="4" height="4"><rect width="2" height="2"/></pattern>', '<style>rect{fill:red}</style>', '<switch><g/></switch>'])

    def noise(self):
        return self.rng.choice(['<!-- c -->', '<?pi data?>', '<title>t</title>', '<desc>d</desc>', '<metadata><x/></metadata>',
                                '<foo:bar xmlns:foo="http://foo"><foo:baz/></foo:bar>', '<symbol><rect width="1" height="1"/></symbol>', '\n  '])

    def text(self):
        if self.clip_ids and self.rng.random() < 0.25:
            return '<text x="1" y="5" clip-path="url(#%s)">hi</text>' % self.rng.choice(self.clip_ids)
        return self.rng.choice(['<text x="1" y="5">hi</text>', '<text><tspan x="1">a</tspan><textPath>b</textPath></text>'])

    def group(self, depth):
        r = self.rng
        kids = ''
        for _ in range(r.randint(1, 3)):
            kids += self.node(depth + 1)
        a = ''
        if r.random() < 0.5: a += self.tf()
        if r.random() < 0.4: a += f' opacity="{r.choice([0.5, 0.25, 1, 0, 0.7, 0.3, 0.7])}"'
        if r.random() < 0.3: a += f' fill="{r.choice(COL)}"'
        if r.random() < 0.1: a += f' style="fill:{r.choice(COL)};opacity:{r.choice([0.5, 1])}"'
        if r.random() < self.p_clip * 0.5: a += f' clip-path="url(#{self.clip()})"'
        return f'<g{a}>{kids}</g>'

    def node(self, depth):
        r = self.rng
        k = r.random()
        if k < self.p_noise: return self.noise()
        if k < self.p_noise + self.p_unsup: return self.unsupported()
        if k < self.p_noise + self.p_unsup + self.p_text: return self.text()
        if depth < 3 and r.random() < 0.3: return self.group(depth)
        if r.random() < self.p_use:
            uid = self.nid('u')
            inner = self.shape() if r.random() < 0.7 else f'<g>{self.shape()}{self.shape()}</g>'
            import re
            head, rest = inner.split('>', 1)
            head = re.sub(r' id="[^"]*"', '', head)
            self.defs.append(re.sub(r'^<(\w+)', rf'<\1 id="{uid}"', head, count=1) + '>' + rest)
            n = r.randint(1, 3) if self.shared_ids else 1
            return ''.join(f'<use xlink:href="#{uid}" x="{r.randint(-3, 6)}" y="{r.randint(-3, 6)}"{self.tf() if r.random() < 0.4 else ""}/>' for _ in range(n))
        if depth < 2 and r.random() < self.p_nested:
            return (f'<svg x="{r.randint(0, 8)}" y="{r.randint(0, 8)}" width="{r.choice([6, 8, 10])}" height="{r.choice([6, 8])}" viewBox="0 0 {r.choice([10, 20])} {r.choice([10, 16])}"'
                    + r.choice(['', ' overflow="visible"', ' preserveAspectRatio="xMinYMax slice"']) + f'>{self.shape()}</svg>')
        return self.shape()

    def document(self):
        r = self.rng
        body = ''.join(self.node(1) for _ in range(r.randint(1, 4)))
        root_attr = r.choice(['', '', ' fill="red"', ' width="20" height="20"', ' stroke="blue"', ' opacity="0.5"', ' fill-opacity="0.5" stroke-width="2"', ' style="fill:green"'])
        xml_decl = '<?xml version="1.0" encoding="UTF-8"?>\n' if r.random() < self.p_noise else ''
        return (f'{xml_decl}<svg xmlns="{SVGNS}" xmlns:xlink="{XL}" viewBox="0 0 20 20"{root_attr}><defs>{"".join(self.defs)}</defs>{body}</svg>')

def random_doc(rng, **kw):
    return Gen(rng, **kw).document()


def group_soup(rng):
    """several sibling / nested groups with awkward opacities whose children are partly invisible: exercises the
    interplay of group removal, opacity push-down, rounding and pruning"""
    OPS = ['0.7', '0.3', '0.5', '0.9', '0.1', '0.35']
    def child():
        x, y = rng.randint(0, 12), rng.randint(0, 12)
        k = rng.random()
        o = f' opacity="{rng.choice(OPS)}"' if rng.random() < 0.4 else ''
        if k < 0.55: return f'<rect x="{x}" y="{y}" width="{rng.randint(3, 8)}" height="{rng.randint(3, 8)}" fill="{rng.choice(COL)}"{o}/>'
        if k < 0.7: return f'<rect x="{x}" y="{y}" width="5" height="5" fill="{rng.choice(COL)}" opacity="0"/>'
        if k < 0.8: return f'<rect x="{x}" y="{y}" width="5" height="5" fill="{rng.choice(COL)}" display="none"/>'
        if k < 0.9: return f'<path d="M{x},{y}" fill="{rng.choice(COL)}"{o}/>'
        return f'<path d="M{x},{y} l0.001,0 l0,0.001 z" fill="{rng.choice(COL)}"{o}/>'
    def group(depth):
        kids = ''.join(group(depth + 1) if depth < 2 and rng.random() < 0.2 else child() for _ in range(rng.randint(1, 4)))
        return f'<g opacity="{rng.choice(OPS + ["0", "1"])}">{kids}</g>'
    body = ''.join(group(0) if rng.random() < 0.8 else child() for _ in range(rng.randint(2, 4)))
    return f'<svg xmlns="{SVGNS}" viewBox="0 0 20 20">{body}</svg>'
