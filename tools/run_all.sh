#!/bin/bash
# run every claimed check (quick by default) on the current tree, sequentially; summary at the end
cd /verif
tier=${1:-quick}
ids=$(python3 -c "import json; print(' '.join(c['property_id'] for c in json.load(open('MANIFEST.json'))['checks']))")
for id in $ids; do
  out=$(./check $id --tier $tier 2>&1 | tail -3)
  echo "$out" | grep -E "^\[|VIOLATION" 
done
