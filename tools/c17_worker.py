"""Worker for C17: runs picosvg on the cases given on stdin (JSON list of [kind, doc]) under a per-case
alarm and an address-space limit; prints a JSON list of [status, detail, seconds, output]."""
import sys, json, time, signal, resource
LIMIT_S = float(sys.argv[1]) if len(sys.argv) > 1 else 20.0
resource.setrlimit(resource.RLIMIT_AS, (3 << 30, 3 << 30))
from picosvg.svg import SVG
class Hang(BaseException): pass
def on_alarm(sig, frm): raise Hang()
signal.signal(signal.SIGALRM, on_alarm)
res = []
for kind, doc in json.load(sys.stdin):
    t = time.time()
    signal.setitimer(signal.ITIMER_REAL, LIMIT_S)
    try:
        if kind == 'resolve_use':
            svg = SVG.fromstring(doc); svg.resolve_use(inplace=True)
            left = len(svg.xpath('//svg:use'))
            r = ['ok', f'uses_left={left}', 0, '']
        elif kind == 'gradient':
            svg = SVG.fromstring(doc)
            svg._apply_gradient_template(svg.xpath_one('//svg:*[@id="g0"]'))
            r = ['ok', 'resolved', 0, '']
        else:
            out = SVG.fromstring(doc).topicosvg().tostring()
            r = ['ok', '', 0, out]
    except Hang: r = ['hang', f'no result within {LIMIT_S}s', 0, '']
    except MemoryError: r = ['memory', 'address-space limit reached', 0, '']
    except RecursionError as e: r = ['raise', 'RecursionError', 0, '']
    except Exception as e: r = ['raise', type(e).__name__ + ': ' + str(e)[:300], 0, '']
    finally: signal.setitimer(signal.ITIMER_REAL, 0)
    r[2] = round(time.time() - t, 3)
    res.append(r)
    if r[0] in ('hang', 'memory'): break          # the process may be in a bad state: stop here
json.dump(res, sys.stdout)
