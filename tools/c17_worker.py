"""Worker for C17: runs picosvg on the cases given on stdin (JSON list of [kind, doc]) under a per-case
alarm and an address-space limit; prints a JSON list of [status, detail, seconds, output]."""
import sys, json, time, signal, resource
LIMIT_S = float(sys.argv[1]) if len(sys.argv) > 1 else 20.0
MARKER = sys.argv[2] if len(sys.argv) > 2 else None
resource.setrlimit(resource.RLIMIT_AS, (3 << 30, 3 << 30))
from picosvg.svg import SVG
class Hang(BaseException): pass
def on_alarm(sig, frm): raise Hang()
signal.signal(signal.SIGALRM, on_alarm)
res = []
for kind, doc in json.load(sys.stdin):
    t = time.time()
    signal.setitimer(signal.ITIMER_REAL, LIMIT_S)
    try:
        if kind == 'resolve_use':
            svg = SVG.fromstring(doc); svg.resolve_use(inplace=True)
            left = len(svg.xpath('//svg:use'))
            r = ['ok', f'uses_left={left}', 0, '']
        elif kind == 'tidy':
            import picosvg.svg as psvg
            log = []
            orig = psvg.SVG._remove_redundant_groups
            def probe(self):
                before = len(self.xpath('//svg:g'))
                removed = orig(self)
                log.append([before, len(self.xpath('//svg:g')), bool(removed)])
                return removed
            psvg.SVG._remove_redundant_groups = probe
            try: SVG.fromstring(doc).topicosvg()
            except ValueError: pass
            finally: psvg.SVG._remove_redundant_groups = orig
            r = ['ok', json.dumps(log), 0, '']
        elif kind == 'gradient':
            svg = SVG.fromstring(doc)
            svg._apply_gradient_template(svg.xpath_one('//svg:*[@id="g0"]'))
            r = ['ok', 'resolved', 0, '']
        else:
            svg = SVG.fromstring(doc)
            # what the parser put into the tree (an external entity that was read shows up here)
            leaked = bool(MARKER) and MARKER in svg.tostring()
            out = svg.topicosvg(allow_text=(kind == 'convert_text')).tostring()
            r = ['ok', 'parsed tree contains the external entity content' if leaked else '', 0, out + (MARKER if leaked else '')]
    except Hang: r = ['hang', f'no result within {LIMIT_S}s', 0, '']
    except MemoryError: r = ['memory', 'address-space limit reached', 0, '']
    except RecursionError as e: r = ['raise', 'RecursionError', 0, '']
    except Exception as e:
        r = ['raise', type(e).__name__ + ': ' + str(e)[:300], 0, '']
        try:
            if MARKER and MARKER in SVG.fromstring(doc).tostring(): r[3] = MARKER
        except Exception: pass
    finally: signal.setitimer(signal.ITIMER_REAL, 0)
    r[2] = round(time.time() - t, 3)
    # one result per line, flushed: if this process has to be killed the parent still knows how far it got
    sys.stdout.write(json.dumps(r) + '\n'); sys.stdout.flush()
    if r[0] in ('hang', 'memory'): break          # the process may be in a bad state: stop here
