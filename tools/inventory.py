"""State / nondeterminism inventory of the picosvg sources (C16): every construct through which a
conversion could depend on something other than its input.  Emitted as a Coq list and pinned."""
import ast, os, sys

SUSPECT_IMPORTS = {'random', 'time', 'uuid', 'secrets', 'datetime', 'tempfile', 'threading', 'multiprocessing', 'socket'}
CACHE_DECOS = {'lru_cache', 'cache', 'cached_property'}
MUTATING = {'append', 'extend', 'add', 'update', 'pop', 'remove', 'clear', 'insert', 'setdefault', 'discard', 'popitem'}

def is_mutable_expr(e):
    if isinstance(e, (ast.List, ast.Dict, ast.Set, ast.ListComp, ast.DictComp, ast.SetComp)): return True
    if isinstance(e, ast.Call):
        f = e.func
        name = f.id if isinstance(f, ast.Name) else (f.attr if isinstance(f, ast.Attribute) else '')
        return name in ('list', 'dict', 'set', 'defaultdict', 'OrderedDict', 'Counter', 'deque', 'bytearray')
    return False

def inventory(path, modname):
    tree = ast.parse(open(path).read())
    items = []
    module_names = set()
    for n in tree.body:
        if isinstance(n, (ast.Assign, ast.AnnAssign)):
            for t in (n.targets if isinstance(n, ast.Assign) else [n.target]):
                for x in ast.walk(t):
                    if isinstance(x, ast.Name): module_names.add(x.id)
    for n in ast.walk(tree):
        if isinstance(n, (ast.Import, ast.ImportFrom)):
            mods = [a.name.split('.')[0] for a in n.names] if isinstance(n, ast.Import) else [(n.module or '').split('.')[0]]
            for m in mods:
                if m in SUSPECT_IMPORTS: items.append((modname, 'import', m))
        if isinstance(n, ast.ClassDef):
            # class-level containers are shared by every instance (and every conversion in the process)
            for st in n.body:
                if isinstance(st, (ast.Assign, ast.AnnAssign)) and st.value is not None and is_mutable_expr(st.value):
                    for t in (st.targets if isinstance(st, ast.Assign) else [st.target]):
                        if isinstance(t, ast.Name): items.append((modname, 'class-level-container', n.name + '.' + t.id))
        if isinstance(n, (ast.FunctionDef, ast.AsyncFunctionDef, ast.Lambda)):
            # a mutable default is created once and lives as long as the process
            for dflt in list(n.args.defaults) + [d for d in n.args.kw_defaults if d is not None]:
                if is_mutable_expr(dflt): items.append((modname, 'mutable-default', getattr(n, 'name', '<lambda>')))
        if isinstance(n, (ast.FunctionDef, ast.AsyncFunctionDef)):
            # local aliases of module-level names (x = MODULE_NAME; x.add(...))
            aliases = {}
            for x in ast.walk(n):
                if isinstance(x, ast.Assign) and isinstance(x.value, ast.Name) and x.value.id in module_names:
                    for t in x.targets:
                        if isinstance(t, ast.Name): aliases[t.id] = x.value.id
            for x in ast.walk(n):
                if isinstance(x, ast.Call) and isinstance(x.func, ast.Attribute) and x.func.attr in MUTATING and isinstance(x.func.value, ast.Name) and x.func.value.id in aliases:
                    items.append((modname, 'mutates-module-state-through-alias:' + x.func.attr, aliases[x.func.value.id]))
                if isinstance(x, (ast.Assign, ast.AugAssign)):
                    for t in (x.targets if isinstance(x, ast.Assign) else [x.target]):
                        if isinstance(t, ast.Subscript) and isinstance(t.value, ast.Name) and t.value.id in aliases:
                            items.append((modname, 'mutates-module-state-through-alias:setitem', aliases[t.value.id]))
            for d in n.decorator_list:
                name = d.func if isinstance(d, ast.Call) else d
                name = name.attr if isinstance(name, ast.Attribute) else getattr(name, 'id', '?')
                if name in CACHE_DECOS: items.append((modname, 'cache:' + name, n.name))
            for x in ast.walk(n):
                if isinstance(x, ast.Global): items.extend((modname, 'global', g) for g in x.names)
                if isinstance(x, ast.Call):
                    f = x.func
                    if isinstance(f, ast.Name) and f.id in ('hash', 'id', 'input', 'open', 'getattr' if False else '__none__'):
                        items.append((modname, 'call:' + f.id, n.name))
                    if isinstance(f, ast.Attribute) and f.attr in MUTATING and isinstance(f.value, ast.Name) and f.value.id in module_names \
                            and not any(isinstance(a, ast.arg) and a.arg == f.value.id for a in ast.walk(n.args)) \
                            and not any(isinstance(s, (ast.Assign, ast.AnnAssign, ast.For, ast.With)) and any(isinstance(t, ast.Name) and t.id == f.value.id for t in ast.walk(s) if isinstance(t, ast.Name) and isinstance(t.ctx, ast.Store)) for s in ast.walk(n)):
                        items.append((modname, 'mutates-module-state:' + f.attr, f.value.id))
                    if isinstance(f, ast.Attribute) and f.attr in ('environ', 'getenv', 'urandom', 'getpid'):
                        items.append((modname, 'call:' + f.attr, n.name))
                if isinstance(x, ast.Attribute) and x.attr == 'environ': items.append((modname, 'os.environ', n.name))
                if isinstance(x, (ast.Assign, ast.AugAssign)):
                    for t in (x.targets if isinstance(x, ast.Assign) else [x.target]):
                        if isinstance(t, ast.Subscript) and isinstance(t.value, ast.Name) and t.value.id in module_names \
                                and not any(isinstance(s, ast.Name) and isinstance(s.ctx, ast.Store) and s.id == t.value.id for s in ast.walk(n) if s is not t.value):
                            items.append((modname, 'mutates-module-state:setitem', t.value.id))
        # iteration over a set display / set() call at any level: order depends on the hash seed
        if isinstance(n, (ast.For, ast.comprehension)):
            it = n.iter
            if isinstance(it, (ast.Set, ast.SetComp)) or (isinstance(it, ast.Call) and isinstance(it.func, ast.Name) and it.func.id in ('set', 'frozenset')):
                items.append((modname, 'iterates-set', str(getattr(it, 'lineno', 0) and ast.unparse(it)[:40])))
        if isinstance(n, ast.Call) and isinstance(n.func, ast.Name) and n.func.id in ('tuple', 'list') and n.args and \
                (isinstance(n.args[0], (ast.Set, ast.SetComp)) or (isinstance(n.args[0], ast.Call) and isinstance(n.args[0].func, ast.Name) and n.args[0].func.id in ('set', 'frozenset'))):
            items.append((modname, 'sequence-from-set', ast.unparse(n)[:60]))
    return sorted(set(items))

def generate(src_dir, out_path):
    mods = ['svg', 'svg_types', 'svg_meta', 'svg_transform', 'svg_path_iter', 'svg_pathops', 'svg_reuse', 'geometric_types', 'arc_to_cubic', 'picosvg']
    items = []
    for m in mods:
        items += inventory(os.path.join(src_dir, 'picosvg', m + '.py'), m)
    def cs(x): return '"' + str(x).replace('"', '""') + '"'
    lines = ["(* GENERATED by tools/inventory.py from the current sources - do not edit. *)",
             "From Coq Require Import List String.", "Import ListNotations.", "Local Open Scope string_scope.", "",
             "Definition STATE_INVENTORY : list (string * string * string) :=\n  [" + ";\n   ".join(f"({cs(a)}, {cs(b)}, {cs(c)})" for a, b, c in items) + "]."]
    text = "\n".join(lines) + "\n"
    if not os.path.exists(out_path) or open(out_path).read() != text:
        open(out_path, 'w').write(text)

if __name__ == '__main__':
    generate(sys.argv[1], sys.argv[2]); print(open(sys.argv[2]).read())
