"""Spec-side evaluation of SVG linear / radial gradients (SVG 1.1 §13.2) for the rendering judges.
Independent of picosvg: own template resolution, percentages, units, transform lists, spread methods,
stop interpolation.  paint_fn(el, idmap, ctx) -> f(world_point) -> (r, g, b, a) with r,g,b in 0..255 and
a in 0..1, None to skip the point (too close to a discontinuity), or ('?', why)."""
import math, re
import render

XL = '{http://www.w3.org/1999/xlink}href'
LINEAR = ('x1', 'y1', 'x2', 'y2')
RADIAL = ('cx', 'cy', 'r', 'fx', 'fy', 'fr')
COMMON = ('gradientUnits', 'gradientTransform', 'spreadMethod')

def local(el): return render.local(el.tag)

def resolve(el, idmap, seen=None):
    """attributes and stops after following the href chain: an element inherits from its (already resolved)
    template only the attributes that apply to its own kind (SVG 1.1 13.2.2/13.2.3), and the stops if it has none"""
    seen = seen or set()
    kind = local(el)
    own_fields = (LINEAR if kind == 'linearGradient' else RADIAL) + COMMON
    attrs = {k: el.get(k) for k in own_fields if el.get(k) is not None}
    stops = [s for s in el if isinstance(s.tag, str) and local(s) == 'stop']
    ref = el.get(XL) or el.get('href')
    if ref and ref.startswith('#') and id(el) not in seen:
        t = idmap.get(ref[1:].strip())
        if t is not None and local(t) in ('linearGradient', 'radialGradient'):
            _, tattrs, tstops = resolve(t, idmap, seen | {id(el)})
            for k in own_fields:
                if k not in attrs and k in tattrs: attrs[k] = tattrs[k]
            if not stops: stops = tstops
    return kind, attrs, stops

def length(v, default, scale_pct):
    v = default if v is None else v
    v = v.strip()
    if v.endswith('%'): return float(v[:-1]) / 100.0 * scale_pct
    return float(v)

def stop_list(stops):
    out, last = [], 0.0
    for s in stops:
        st = {}
        for decl in (s.get('style') or '').split(';'):
            if ':' in decl:
                k, v = decl.split(':', 1); st[k.strip()] = v.strip()
        off = s.get('offset', '0').strip()
        o = float(off[:-1]) / 100 if off.endswith('%') else float(off)
        o = max(last, min(1.0, max(0.0, o))); last = o
        col = st.get('stop-color', s.get('stop-color', 'black'))
        c = render.parse_color(col)((0, 0))
        if c and c[0] == '?': return None
        a = float(st.get('stop-opacity', s.get('stop-opacity', 1)))
        out.append((o, c, max(0.0, min(1.0, a))))
    return out

def colour_at(stops, t):
    if not stops: return (0, 0, 0, 0.0)
    if t <= stops[0][0]: return stops[0][1] + (stops[0][2],)
    for (o1, c1, a1), (o2, c2, a2) in zip(stops, stops[1:]):
        if t <= o2:
            if o2 == o1: return c2 + (a2,)
            k = (t - o1) / (o2 - o1)
            return tuple(c1[i] + (c2[i] - c1[i]) * k for i in range(3)) + (a1 + (a2 - a1) * k,)
    return stops[-1][1] + (stops[-1][2],)

def paint_fn(el, idmap, ctx):
    kind, a, stops_el = resolve(el, idmap)
    stops = stop_list(stops_el)
    if stops is None: return lambda pt: ('?', 'stop colour')
    bbox_units = a.get('gradientUnits', 'objectBoundingBox') == 'objectBoundingBox'
    bx, by, bw, bh = ctx['bbox'] if ctx and ctx.get('bbox') else (0, 0, 0, 0)
    vb = ctx.get('viewbox') if ctx else None
    if bbox_units:
        if bw == 0 or bh == 0: return lambda pt: None
        sw = sh = sd = 1.0
        B = (bw, 0, 0, bh, bx, by)
    else:
        if vb is None: sw = sh = sd = 0.0
        else: sw, sh = vb[2], vb[3]; sd = math.hypot(sw, sh) / math.sqrt(2)
        B = render.IDENT
    GT = render.parse_transform(a.get('gradientTransform', ''))
    M = render.mm(ctx['ctm'] if ctx else render.IDENT, render.mm(B, GT))      # gradient space -> world
    Minv = render.inv(M)
    spread = a.get('spreadMethod', 'pad')
    if kind == 'linearGradient':
        x1, y1 = length(a.get('x1'), '0%', sw), length(a.get('y1'), '0%', sh)
        x2, y2 = length(a.get('x2'), '100%', sw), length(a.get('y2'), '0%', sh)
        dx, dy = x2 - x1, y2 - y1
        den = dx * dx + dy * dy
        def tparam(p):
            if den == 0: return 1.0          # zero-length vector: last stop colour
            return ((p[0] - x1) * dx + (p[1] - y1) * dy) / den
    else:
        cx, cy, r = length(a.get('cx'), '50%', sw), length(a.get('cy'), '50%', sh), length(a.get('r'), '50%', sd)
        fx = length(a.get('fx'), None, sw) if a.get('fx') is not None else cx
        fy = length(a.get('fy'), None, sh) if a.get('fy') is not None else cy
        fr = length(a.get('fr'), '0%', sd)
        def tparam(p):
            if r <= 0: return 1.0
            # largest t with r(t) >= 0 and |p - c(t)| = r(t); c(t) = f + t (c - f), r(t) = fr + t (r - fr)
            cdx, cdy, dr = cx - fx, cy - fy, r - fr
            px, py = p[0] - fx, p[1] - fy
            A = cdx * cdx + cdy * cdy - dr * dr
            Bq = px * cdx + py * cdy + fr * dr
            C = px * px + py * py - fr * fr
            if abs(A) < 1e-12:
                if abs(Bq) < 1e-12: return None
                t = C / (2 * Bq)
                return t if fr + t * dr >= 0 else None
            disc = Bq * Bq - A * C
            if disc < 0: return None
            s = math.sqrt(disc)
            for t in sorted([(Bq + s) / A, (Bq - s) / A], reverse=True):
                if fr + t * dr >= 0: return t
            return None
    def f(pt):
        if Minv is None: return None
        p = render.mapp(Minv, pt)
        t = tparam(p)
        if t is None: return None
        if spread == 'pad': t = max(0.0, min(1.0, t))
        else:
            fr_ = t - math.floor(t)
            if min(fr_, 1 - fr_) < 2e-3: return None        # at a seam of the repetition
            if spread == 'repeat': t = fr_
            else: t = fr_ if int(math.floor(t)) % 2 == 0 else 1 - fr_
        if any(abs(t - o1) < 3e-3 for (o1, _, _), (o2, _, _) in zip(stops, stops[1:]) if o1 == o2): return None   # at a colour jump
        return colour_at(stops, t)
    return f
