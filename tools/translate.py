#!/usr/bin/env python3
"""Fail-closed translator: straight-line Python (picosvg arithmetic) -> Gallina.

Reads the *current* /repo/src/picosvg sources and writes gen/*.v.  Every
construct outside the grammar below raises Abort, which the caller reports as
"model cannot be regenerated".  The emitted definitions are generic in a
NumOps record N (and MathOps MO where transcendental functions are used).

Grammar (statements): docstring, del, assert (only in functions declared
`raises`), Assign / AugAssign to names, tuple targets and list subscripts,
if/elif/else (with or without returns), for over a list/range (fold or, in
generators, flat_map), return, raise, yield, yield from.
Grammar (expressions): numeric literals, names, attribute access on records,
arithmetic, comparisons, boolean operators in conditions, conditional
expressions, tuple literals, subscripts with constant or nat index, lambdas
(as arguments), calls to translated functions / record constructors /
methods / a fixed list of builtins and math functions, `_replace`.
"""
import ast, os, re, sys, textwrap

class Abort(Exception):
    pass

def abort(node, msg):
    line = getattr(node, 'lineno', '?')
    raise Abort(f"line {line}: {msg}: {ast.dump(node)[:200] if isinstance(node, ast.AST) else node}")

# ---------------------------------------------------------------- types
# 'num' 'int' 'nat' 'bool' 'cmd' 'str' 'lit' ; ('rec',name) ('list',t) ('opt',t) ('tup',(t..)) ('res',t) ('fun',(args),ret)
def ty_coq(t):
    if t == 'num': return '(T N)'
    if t == 'int': return 'Z'
    if t == 'nat': return 'nat'
    if t == 'bool': return 'bool'
    if t == 'cmd': return 'ascii'
    if t == 'str': return 'string'
    if t == 'unit': return 'unit'
    k = t[0]
    if k == 'rec': return f'(@{t[1]} N)'
    if k == 'list': return f'(list {ty_coq(t[1])})'
    if k == 'opt': return f'(option {ty_coq(t[1])})'
    if k == 'tup': return '(' + ' * '.join(ty_coq(x) for x in t[1]) + ')'
    if k == 'res': return f'(result {ty_coq(t[1])})'
    if k == 'fun': return '(' + ' -> '.join([ty_coq(x) for x in t[1]] + [ty_coq(t[2])]) + ')'
    raise Abort(f"unknown type {t}")

def parse_ty(s):
    """tiny type-expression parser for the signature tables: num, [num], ?Point, (num,num), !T, Point"""
    s = s.strip()
    if s in ('num', 'int', 'nat', 'bool', 'cmd', 'str', 'unit'): return s
    if s.startswith('['): return ('list', parse_ty(s[1:-1]))
    if s.startswith('?'): return ('opt', parse_ty(s[1:]))
    if s.startswith('!'): return ('res', parse_ty(s[1:]))
    if s.startswith('('):
        parts, depth, cur = [], 0, ''
        for ch in s[1:-1]:
            if ch in '([': depth += 1
            if ch in ')]': depth -= 1
            if ch == ',' and depth == 0:
                parts.append(cur); cur = ''
            else:
                cur += ch
        parts.append(cur)
        return ('tup', tuple(parse_ty(p) for p in parts))
    if '->' in s:
        a, r = s.rsplit('->', 1)
        return ('fun', tuple(parse_ty(x) for x in a.split('&')), parse_ty(r))
    return ('rec', s)

DEFAULT_OF = {'num': '(zero N)', 'int': '0%Z', 'nat': 'O', 'bool': 'false', 'cmd': '"M"%char', 'str': '""%string'}
def default_val(t):
    if t in DEFAULT_OF: return DEFAULT_OF[t]
    if t[0] == 'list': return '[]'
    if t[0] == 'opt': return 'None'
    if t[0] == 'tup': return '(' + ', '.join(default_val(x) for x in t[1]) + ')'
    raise Abort(f"no default for {t}")

COQ_RESERVED = {'end', 'in', 'fun', 'match', 'with', 'return', 'let', 'if', 'then', 'else', 'fix', 'cofix', 'forall', 'exists',
                'Type', 'Prop', 'Set', 'as', 'at', 'using', 'where', 'struct', 'for'}

class _Rename(ast.NodeTransformer):
    def visit_Name(self, node):
        if node.id in COQ_RESERVED: node.id = node.id + '_'
        return node
    def visit_arg(self, node):
        if node.arg in COQ_RESERVED: node.arg = node.arg + '_'
        return node
    def visit_keyword(self, node):
        self.generic_visit(node)
        return node

class Func:
    def __init__(self, qual, coq, params, ret, raises=False, gen=False, node=None, cls=None, free=()):
        self.qual, self.coq, self.params, self.ret = qual, coq, params, ret
        self.raises, self.gen, self.node, self.cls = raises, gen, node, cls
        self.free = free
        self.emitted = False
        self.uses_n = self.uses_mo = False
        self.in_progress = False

class Module:
    """One Python source file being translated."""
    def __init__(self, tr, name, path, coqfile, imports):
        self.tr, self.name, self.path, self.coqfile, self.imports = tr, name, path, coqfile, imports
        self.src = open(path).read()
        self.tree = ast.parse(self.src)
        self.out = []          # emitted Coq text chunks
        self.classes = {}      # name -> ClassDef
        self.class_attrs = {}  # (cls, attr) -> expr node
        self.consts = {}       # module-level NAME -> expr node
        for node in self.tree.body:
            if isinstance(node, ast.ClassDef):
                self.classes[node.name] = node
                for st in node.body:
                    if isinstance(st, ast.Assign) and len(st.targets) == 1 and isinstance(st.targets[0], ast.Name):
                        self.class_attrs[(node.name, st.targets[0].id)] = st.value
            elif isinstance(node, ast.Assign) and len(node.targets) == 1:
                t = node.targets[0]
                if isinstance(t, ast.Name):
                    self.consts[t.id] = node.value
                elif isinstance(t, ast.Attribute) and isinstance(t.value, ast.Name):
                    self.class_attrs[(t.value.id, t.attr)] = node.value

    def find_def(self, qual):
        parts = qual.split('.')
        body = self.tree.body
        node = None
        for p in parts:
            node = None
            for st in body:
                if isinstance(st, (ast.FunctionDef, ast.ClassDef)) and st.name == p:
                    node = st; break
            if node is None:
                raise Abort(f"{self.name}: cannot find definition {qual}")
            body = node.body
        return node


class Translator:
    def __init__(self, srcdir):
        self.srcdir = srcdir
        self.modules = {}
        self.records = {}    # name -> [(field, type)]
        self.rec_module = {}
        self.funcs = {}      # qual (Class.method or func) -> Func
        self.externs = {}    # python name -> (coq function text, [arg types], ret type): hand/generated helpers
        self.cur_mod = None

    # ---------------------------------------------------------- records
    def add_record(self, mod, name):
        cls = mod.classes[name]
        fields = []
        for st in cls.body:
            if isinstance(st, ast.AnnAssign) and isinstance(st.target, ast.Name):
                fields.append((st.target.id, self.ann_ty(st.annotation)))
        if not fields: raise Abort(f"record {name} has no fields")
        self.records[name] = fields
        self.rec_module[name] = mod
        lines = [f"Record {name} (N : NumOps) := mk_{name} {{ " +
                 "; ".join(f"{name}_{f} : {ty_coq(t)}" for f, t in fields) + " }."]
        for f, _ in fields: lines.append(f"Arguments {name}_{f} {{N}}.")
        eqs = []
        for f, t in fields:
            eqs.append(self.eqb_text(t, f"({name}_{f} x)", f"({name}_{f} y)"))
        lines.append(f"Definition {name}_eqb (N : NumOps) (x y : @{name} N) : bool := " + " && ".join(eqs) + ".")
        mod.out.append("\n".join(lines))

    def ann_ty(self, a):
        if isinstance(a, ast.Name):
            if a.id == 'float': return 'num'
            if a.id == 'int': return 'num'     # ints that flow into arithmetic are modelled as numbers
            if a.id == 'bool': return 'bool'
            if a.id == 'str': return 'str'
            return ('rec', a.id)
        if isinstance(a, ast.Constant) and isinstance(a.value, str):
            return ('rec', a.value)
        if isinstance(a, ast.Subscript) and isinstance(a.value, ast.Name):
            if a.value.id == 'Optional':
                return ('opt', self.ann_ty(a.slice))
            if a.value.id == 'Tuple':
                elts = a.slice.elts if isinstance(a.slice, ast.Tuple) else [a.slice]
                return ('tup', tuple(self.ann_ty(e) for e in elts))
            if a.value.id == 'Sequence':
                return ('list', self.ann_ty(a.slice))
        abort(a, "unsupported annotation")

    def eqb_text(self, t, a, b):
        if t == 'num': return f"eqb N {a} {b}"
        if t == 'int': return f"Z.eqb {a} {b}"
        if t == 'nat': return f"Nat.eqb {a} {b}"
        if t == 'bool': return f"Bool.eqb {a} {b}"
        if t == 'cmd': return f"Ascii.eqb {a} {b}"
        if t == 'str': return f"String.eqb {a} {b}"
        if t[0] == 'rec': return f"@{t[1]}_eqb N {a} {b}"
        raise Abort(f"no equality for {t}")

    # ---------------------------------------------------------- functions
    def declare(self, mod, qual, sig=None, raises=False, gen=False, coq=None, free=()):
        """sig: dict param->type string, 'return'->type string (overrides annotations)."""
        node = _Rename().visit(mod.find_def(qual))
        parts = qual.split('.')
        cls = parts[0] if parts[0] in mod.classes else None
        sig = sig or {}
        params = []
        a = node.args
        allargs = a.posonlyargs + a.args
        defaults = [None] * (len(allargs) - len(a.defaults)) + list(a.defaults)
        is_static = any(isinstance(d, ast.Name) and d.id == 'staticmethod' for d in node.decorator_list)
        is_cls = any(isinstance(d, ast.Name) and d.id == 'classmethod' for d in node.decorator_list)
        for i, (arg, dflt) in enumerate(zip(allargs, defaults)):
            if i == 0 and cls and len(parts) == 2 and not is_static:
                if is_cls: continue
                params.append((arg.arg, ('rec', cls), None)); continue
            if sig.get(arg.arg) == 'drop': continue
            if arg.arg in sig:
                t = parse_ty(sig[arg.arg])
            elif arg.annotation is not None:
                t = self.ann_ty(arg.annotation)
            else:
                raise Abort(f"{qual}: parameter {arg.arg} has no type")
            if t == 'drop': continue
            params.append((arg.arg, t, dflt))
        params = [(fv, parse_ty(ft), None) for fv, ft in free] + params
        if 'return' in sig: ret = parse_ty(sig['return'])
        elif node.returns is not None: ret = self.ann_ty(node.returns)
        else: raise Abort(f"{qual}: no return type")
        if raises: ret = ('res', ret)
        coqname = coq or qual.replace('.', '_')
        f = Func(qual, coqname, params, ret, raises, gen, node, cls, free)
        f.mod = mod
        f.drop = set(k for k, v in sig.items() if v == 'drop')
        self.funcs[qual] = f
        return f

    def emit(self, f):
        if f.emitted: return
        if f.in_progress: raise Abort(f"recursive dependency through {f.qual}")
        f.in_progress = True
        env = {p: t for p, t, _ in f.params}
        ctx = Ctx(self, f, env)
        body = ctx.block(f.node.body)
        ps = " ".join(f"({p} : {ty_coq(t)})" for p, t, _ in f.params)
        text = f"{ps} : {ty_coq(f.ret)} :=\n{textwrap.indent(body, '  ')}."
        f.uses_mo = bool(re.search(r'\bMO\b', text))
        f.uses_n = f.uses_mo or bool(re.search(r'\bN\b', text))
        text = (f"Definition {f.coq} " + ("(N : NumOps) " if f.uses_n else "")
                + ("(MO : MathOps N) " if f.uses_mo else "") + text)
        f.mod.out.append(f"(* {f.mod.name}.py:{f.node.lineno} {f.qual} *)\n" + text)
        f.emitted = True
        f.in_progress = False

    def callname(self, f):
        self.emit(f)
        s = '@' + f.coq
        if f.uses_n: s += ' N'
        if f.uses_mo: s += ' MO'
        return s


MATH1 = {'cos': 'm_cos', 'sin': 'm_sin', 'tan': 'm_tan', 'sqrt': 'm_sqrt'}
EXC = {'ValueError': 'EValue', 'AssertionError': 'EAssert', 'ZeroDivisionError': 'EZeroDiv'}

class Ctx:
    def __init__(self, tr, f, env):
        self.tr, self.f, self.env = tr, f, dict(env)
        self.mod = f.mod

    # ------------------------------------------------------ helpers
    def coerce(self, text, t, want, node=None):
        if want is None or t == want: return text, t
        if t == 'lit':
            if want == 'num': return f"(of_Z N ({text})%Z)", 'num'
            if want == 'int': return f"({text})%Z", 'int'
            if want == 'nat':
                return f"{text}%nat", 'nat'
            if want == 'bool':
                return ("true" if text not in ('0',) else "false"), 'bool'
        if t == 'int' and want == 'num': return f"(of_Z N {text})", 'num'
        if t == 'nat' and want == 'int': return f"(Z.of_nat {text})", 'int'
        if t == 'bool' and want == 'num':
            return f"(if {text} then one N else zero N)", 'num'
        if isinstance(want, tuple) and want[0] == 'opt' and t == want[1]:
            return f"(Some {text})", want
        if isinstance(want, tuple) and want[0] == 'opt' and t == 'none':
            return "None", want
        if isinstance(want, tuple) and want[0] == 'res' and t == want[1]:
            return f"(Ok {text})", want
        if isinstance(t, tuple) and t[0] == 'tup' and isinstance(want, tuple) and want[0] == 'rec':
            raise Abort(f"cannot coerce non-literal tuple to record {want}")
        raise Abort(f"type mismatch: have {t}, want {want} for `{text}` at line {getattr(node,'lineno','?')}")

    def num(self, e):
        return self.expr(e, 'num')[0]

    # ------------------------------------------------------ expressions
    def expr(self, e, want=None):
        text, t = self.expr0(e, want)
        return self.coerce(text, t, want, e)

    def lit_dec(self, v):
        # exact decimal reading of a float literal: m * 10^e
        from fractions import Fraction
        from decimal import Decimal
        d = Decimal(repr(v))
        sign, digits, exp = d.as_tuple()
        m = int(''.join(map(str, digits))) * (-1 if sign else 1)
        while m != 0 and m % 10 == 0:
            m //= 10; exp += 1
        return f"(of_dec N ({m})%Z ({exp})%Z)"

    def expr0(self, e, want=None):
        tr = self.tr
        if isinstance(e, ast.Constant):
            v = e.value
            if isinstance(v, bool): return ('true' if v else 'false'), 'bool'
            if isinstance(v, int): return str(v), 'lit'
            if isinstance(v, float):
                if v == int(v) and abs(v) < 1e15: return str(int(v)), 'lit'
                return self.lit_dec(v), 'num'
            if isinstance(v, str):
                if want == 'cmd' or (len(v) == 1 and want != 'str'):
                    return f'"{v}"%char', 'cmd'
                return '"' + v.replace('"', '""') + '"%string', 'str'
            if v is None: return 'None', 'none'
            abort(e, "constant")
        if isinstance(e, ast.Name):
            if e.id in self.env: return e.id, self.env[e.id]
            if e.id in self.mod.consts:
                return self.expr0(self.mod.consts[e.id], want)
            for m in self.mod.imports:
                if e.id in m.consts: return Ctx(tr, _dummy_f(m), {}).expr0(m.consts[e.id], want)
            if e.id == 'pi': return '(m_pi (N:=N) MO)', 'num'
            abort(e, "unknown name")
        if isinstance(e, ast.Attribute):
            # float_info.epsilon
            if isinstance(e.value, ast.Name) and e.value.id == 'float_info' and e.attr == 'epsilon':
                return '(div N (one N) (of_Z N 4503599627370496%Z))', 'num'
            # Class.attr / cls.attr constants
            if isinstance(e.value, ast.Name) and e.value.id not in self.env:
                cname = self.f.cls if e.value.id == 'cls' else e.value.id
                for m in [self.mod] + self.mod.imports:
                    if (cname, e.attr) in m.class_attrs:
                        return Ctx(tr, _dummy_f(m, cname), {}).expr0(m.class_attrs[(cname, e.attr)], want)
                abort(e, "unknown class attribute")
            vt, t = self.expr0(e.value)
            if isinstance(t, tuple) and t[0] == 'rec':
                for fn, ft in tr.records[t[1]]:
                    if fn == e.attr: return f"({t[1]}_{fn} {vt})", ft
                # property? -> method call without args
                q = f"{t[1]}.{e.attr}"
                if q in tr.funcs:
                    f = tr.funcs[q]
                    return f"({tr.callname(f)} {vt})", f.ret
            abort(e, f"attribute on {t}")
        if isinstance(e, ast.UnaryOp):
            if isinstance(e.op, ast.USub):
                vt, t = self.expr0(e.operand, want)
                if t == 'lit': return f"(-{vt})" if not vt.startswith('(-') else vt[2:-1], 'lit'
                if t == 'int': return f"(Z.opp {vt})", 'int'
                vt, t = self.coerce(vt, t, 'num', e)
                return f"(opp N {vt})", 'num'
            if isinstance(e.op, ast.Not):
                return f"(negb {self.cond(e.operand)})", 'bool'
            abort(e, "unary op")
        if isinstance(e, ast.BinOp):
            return self.binop(e, want)
        if isinstance(e, ast.Compare):
            return self.compare(e), 'bool'
        if isinstance(e, ast.BoolOp):
            return self.cond(e), 'bool'
        if isinstance(e, ast.IfExp):
            c = self.cond(e.test)
            a, ta = self.expr0(e.body, want)
            b, tb = self.expr0(e.orelse, want)
            if ta != tb:
                tgt = want or ('num' if 'num' in (ta, tb) else ta)
                a, ta = self.coerce(a, ta, tgt, e); b, tb = self.coerce(b, tb, tgt, e)
            return f"(if {c} then {a} else {b})", ta
        if isinstance(e, ast.Tuple) or isinstance(e, ast.List):
            return self.tuple_lit(e, want)
        if isinstance(e, ast.Subscript):
            return self.subscript(e, want)
        if isinstance(e, ast.Call):
            return self.call(e, want)
        if isinstance(e, ast.Lambda):
            if not (isinstance(want, tuple) and want[0] == 'fun'): abort(e, "lambda without expected type")
            names = [a.arg for a in e.args.args]
            if len(names) != len(want[1]): abort(e, "lambda arity")
            sub = Ctx(tr, self.f, {**self.env, **dict(zip(names, want[1]))})
            b, _ = sub.expr(e.body, want[2])
            ps = " ".join(f"({n} : {ty_coq(t)})" for n, t in zip(names, want[1]))
            return f"(fun {ps} => {b})", want
        abort(e, "unsupported expression")

    def binop(self, e, want):
        opn = type(e.op).__name__
        if opn == 'MatMult':
            a, ta = self.expr0(e.left); b, tb = self.expr0(e.right)
            if ta == tb and ta[0] == 'rec':
                f = self.tr.funcs.get(f"{ta[1]}.__matmul__")
                if f: return f"({self.tr.callname(f)} {a} {b})", f.ret
            abort(e, "matmul")
        a, ta = self.expr0(e.left); b, tb = self.expr0(e.right)
        # record operators dispatch on operand types (Point/Vector arithmetic)
        if isinstance(ta, tuple) and ta[0] == 'rec':
            cls = ta[1]
            if opn == 'Sub' and cls == 'Point' and tb == ('rec', 'Point'): q = 'Point._sub_pt'
            elif opn == 'Sub' and cls == 'Point' and tb == ('rec', 'Vector'): q = 'Point._sub_vec'
            elif opn in ('Add', 'Sub', 'Mult'): q = f"{cls}.__{ {'Add':'add','Sub':'sub','Mult':'mul'}[opn] }__"
            else: abort(e, "record operator")
            f = self.tr.funcs.get(q)
            if not f: abort(e, f"operator {q} not declared")
            b, tb = self.coerce(b, tb, f.params[1][1], e)
            return f"({self.tr.callname(f)} {a} {b})", f.ret
        if isinstance(tb, tuple) and tb[0] == 'rec' and opn == 'Mult':
            f = self.tr.funcs.get(f"{tb[1]}.__mul__")      # __rmul__ = __mul__
            if not f: abort(e, "rmul")
            a, ta = self.coerce(a, ta, 'num', e)
            return f"({self.tr.callname(f)} {b} {a})", f.ret
        if isinstance(ta, tuple) and ta[0] == 'list' and opn == 'Add':
            b, tb = self.expr(e.right, ta)
            return f"({a} ++ {b})", ta
        if (isinstance(tb, tuple) and tb[0] == 'list' and opn == 'Add' and isinstance(ta, tuple) and ta[0] == 'tup'
                and all(x == tb[1] for x in ta[1]) and len(ta[1]) == 2):
            return f"([fst {a}; snd {a}] ++ {b})", tb
        if isinstance(tb, tuple) and tb[0] == 'list' and opn == 'Add' and isinstance(e.left, ast.Tuple):
            a, ta = self.expr(e.left, tb)
            return f"({a} ++ {b})", tb
        if ta == 'lit' and tb == 'lit':
            x, y = int(a.strip('()')), int(b.strip('()'))
            if opn == 'Add': return str(x + y), 'lit'
            if opn == 'Sub': return str(x - y), 'lit'
            if opn == 'Mult': return str(x * y), 'lit'
            if opn == 'Div':
                return f"(div N (of_Z N ({x})%Z) (of_Z N ({y})%Z))", 'num'
            abort(e, "literal op")
        intlike = ('int', 'lit', 'nat')
        if ta in intlike and tb in intlike and opn in ('Add', 'Sub', 'Mult') and want in ('int', None) and 'nat' not in (ta, tb):
            a, _ = self.coerce(a, ta, 'int'); b, _ = self.coerce(b, tb, 'int')
            fn = {'Add': 'Z.add', 'Sub': 'Z.sub', 'Mult': 'Z.mul'}[opn]
            return f"({fn} {a} {b})", 'int'
        if ta == 'nat' or tb == 'nat':
            if opn == 'Add' and ta in ('nat', 'lit') and tb in ('nat', 'lit'):
                a, _ = self.coerce(a, ta, 'nat'); b, _ = self.coerce(b, tb, 'nat')
                return f"({a} + {b})%nat", 'nat'
            abort(e, "nat arithmetic")
        a, ta = self.coerce(a, ta, 'num', e); b, tb = self.coerce(b, tb, 'num', e)
        fn = {'Add': 'add', 'Sub': 'sub', 'Mult': 'mul', 'Div': 'div'}.get(opn)
        if not fn: abort(e, "operator")
        return f"({fn} N {a} {b})", 'num'

    def cmp1(self, op, l, r, node):
        opn = type(op).__name__
        if opn in ('Is', 'IsNot'):
            if not (isinstance(r, ast.Constant) and r.value is None): abort(node, "is")
            a, ta = self.expr0(l)
            if not (isinstance(ta, tuple) and ta[0] == 'opt'): abort(node, "is None on non-option")
            s = f"(match {a} with None => true | Some _ => false end)"
            return s if opn == 'Is' else f"(negb {s})"
        if opn in ('In', 'NotIn'):
            s = self.membership(l, r, node)
            return s if opn == 'In' else f"(negb {s})"
        a, ta = self.expr0(l); b, tb = self.expr0(r)
        # tuples compare componentwise (only ==)
        if isinstance(l, ast.Tuple) and isinstance(r, ast.Tuple) and opn in ('Eq', 'NotEq'):
            if len(l.elts) != len(r.elts): abort(node, "tuple compare arity")
            parts = [self.cmp1(ast.Eq(), x, y, node) for x, y in zip(l.elts, r.elts)]
            s = "(" + " && ".join(parts) + ")"
            return s if opn == 'Eq' else f"(negb {s})"
        if ta == 'lit' and tb == 'lit': abort(node, "literal comparison")
        if ta == 'lit': a, ta = self.coerce(a, ta, tb if tb in ('num', 'int', 'nat') else 'num', node)
        if tb == 'lit': b, tb = self.coerce(b, tb, ta if ta in ('num', 'int', 'nat') else 'num', node)
        if ta != tb:
            if {ta, tb} == {'int', 'num'}:
                a, ta = self.coerce(a, ta, 'num'); b, tb = self.coerce(b, tb, 'num')
            elif ta == 'str' and tb == 'cmd':
                b, tb = f'(String {b} EmptyString)', 'str'
            elif ta == 'cmd' and tb == 'str':
                a, ta = f'(String {a} EmptyString)', 'str'
            else: abort(node, f"compare {ta} with {tb}")
        if opn in ('Eq', 'NotEq'):
            s = "(" + self.tr.eqb_text(ta, a, b) + ")"
            return s if opn == 'Eq' else f"(negb {s})"
        if ta == 'num':
            return {'Lt': f"(ltb N {a} {b})", 'LtE': f"(leb N {a} {b})",
                    'Gt': f"(ltb N {b} {a})", 'GtE': f"(leb N {b} {a})"}[opn]
        if ta == 'int':
            return {'Lt': f"(Z.ltb {a} {b})", 'LtE': f"(Z.leb {a} {b})",
                    'Gt': f"(Z.ltb {b} {a})", 'GtE': f"(Z.leb {b} {a})"}[opn]
        abort(node, f"ordering on {ta}")

    def compare(self, e):
        parts, left = [], e.left
        for op, r in zip(e.ops, e.comparators):
            parts.append(self.cmp1(op, left, r, e)); left = r
        return parts[0] if len(parts) == 1 else "(" + " && ".join(parts) + ")"

    def membership(self, l, r, node):
        a, ta = self.expr0(l)
        # x in ("M", "m") / {"a","A"}
        if isinstance(r, (ast.Tuple, ast.Set, ast.List)):
            items = [self.expr(x, ta if ta != 'lit' else 'num')[0] for x in r.elts]
            if ta == 'lit': a, ta = self.coerce(a, ta, 'num')
            return "(" + " || ".join("(" + self.tr.eqb_text(ta, a, it) + ")" for it in items) + ")" if items else "false"
        b, tb = self.expr0(r)
        if ta == 'str' and tb == 'str': return f"(str_contains {a} {b})"
        if ta == 'cmd' and tb == 'str': return f"(str_contains (String {a} EmptyString) {b})"
        if isinstance(tb, tuple) and tb[0] == 'assoc':
            if ta != tb[1]: abort(node, "assoc membership type")
            return f"(existsb (fun x_m => {self.tr.eqb_text(ta, a, '(fst x_m)')}) {b})"
        if isinstance(tb, tuple) and tb[0] == 'list':
            if ta == 'lit': a, ta = self.coerce(a, ta, tb[1])
            if ta != tb[1]: abort(node, f"membership {ta} in {tb}")
            x = "x_m"
            return f"(existsb (fun {x} => {self.tr.eqb_text(ta, a, x)}) {b})"
        abort(node, f"membership in {tb}")

    def cond(self, e):
        """translate e in boolean (truthiness) context"""
        if isinstance(e, ast.BoolOp):
            op = ' && ' if isinstance(e.op, ast.And) else ' || '
            return "(" + op.join(self.cond(v) for v in e.values) + ")"
        if isinstance(e, ast.UnaryOp) and isinstance(e.op, ast.Not):
            return f"(negb {self.cond(e.operand)})"
        t_, t = self.expr0(e)
        if t == 'bool': return t_
        if t == 'num': return f"(truthy {t_})"
        if t == 'lit': return 'true' if t_ != '0' else 'false'
        if t == 'str': return f'(negb (String.eqb {t_} ""%string))'
        if isinstance(t, tuple) and t[0] == 'list': return f"(match {t_} with [] => false | _ => true end)"
        if isinstance(t, tuple) and t[0] == 'opt': return f"(match {t_} with None => false | Some _ => true end)"
        abort(e, f"truthiness of {t}")

    def tuple_lit(self, e, want):
        if isinstance(want, tuple) and want[0] == 'list':
            items = [self.expr(x, want[1])[0] for x in e.elts]
            return "[" + "; ".join(items) + "]", want
        if isinstance(want, tuple) and want[0] == 'rec':
            fields = self.tr.records[want[1]]
            if len(fields) != len(e.elts): abort(e, "tuple->record arity")
            items = [self.expr(x, ft)[0] for x, (_, ft) in zip(e.elts, fields)]
            return f"(@mk_{want[1]} N {' '.join(items)})", want
        if isinstance(want, tuple) and want[0] == 'tup':
            if len(want[1]) != len(e.elts): abort(e, "tuple arity")
            items = [self.expr(x, wt)[0] for x, wt in zip(e.elts, want[1])]
            return "(" + ", ".join(items) + ")", want
        items = [self.expr0(x) for x in e.elts]
        items = [self.coerce(a, t, 'num') if t == 'lit' else (a, t) for a, t in items]
        if len(items) == 1:
            abort(e, "1-tuple without expected type")
        return "(" + ", ".join(a for a, _ in items) + ")", ('tup', tuple(t for _, t in items))

    def const_index(self, s):
        if isinstance(s, ast.Constant) and isinstance(s.value, int): return s.value
        if isinstance(s, ast.UnaryOp) and isinstance(s.op, ast.USub) and isinstance(s.operand, ast.Constant):
            return -s.operand.value
        return None

    def subscript(self, e, want):
        a, ta = self.expr0(e.value)
        k = self.const_index(e.slice)
        if isinstance(ta, tuple) and ta[0] == 'list':
            d = default_val(ta[1])
            if k is not None:
                if k >= 0: return f"(nth {k} {a} {d})", ta[1]
                return f"(nth_back {-k} {a} {d})", ta[1]
            i, ti = self.expr0(e.slice)
            if ti == 'lit': i, ti = self.coerce(i, ti, 'nat')
            if ti != 'nat': abort(e, f"list index of type {ti}")
            return f"(nth {i} {a} {d})", ta[1]
        if isinstance(ta, tuple) and ta[0] == 'tup' and k is not None and k >= 0:
            n = len(ta[1])
            proj = a
            # nested pairs associate to the left: ((a,b),c)
            for _ in range(n - 1 - k): proj = f"(fst {proj})"
            if k > 0: proj = f"(snd {proj})"
            return proj, ta[1][k]
        if isinstance(ta, tuple) and ta[0] == 'assoc':
            i, ti = self.expr(e.slice, ta[1])
            return f"(assoc_chr {i} {a} {default_val(ta[2])})", ta[2]
        abort(e, f"subscript on {ta}")

    # ------------------------------------------------------ calls
    def args_for(self, f, call, skip_self=False):
        params = f.params[len(f.free):]
        if skip_self: params = params[1:]
        pos = list(call.args)
        if any(isinstance(a, ast.Starred) for a in pos): abort(call, "starred call")
        kws = {k.arg: k.value for k in call.keywords}
        out = []
        for i, (pn, pt, dflt) in enumerate(params):
            if i < len(pos): out.append(self.expr(pos[i], pt)[0])
            elif pn in kws: out.append(self.expr(kws.pop(pn), pt)[0])
            elif dflt is not None: out.append(self.expr(dflt, pt)[0])
            else: abort(call, f"missing argument {pn} for {f.qual}")
        # extra positional arguments are only accepted for parameters dropped on purpose (*_)
        if len(pos) > len(params) and not f.node.args.vararg: abort(call, "too many arguments")
        if kws: abort(call, f"unknown keyword {list(kws)}")
        return out

    def mk_call(self, f, argtexts, want):
        if f.raises and self.allow_raising is not f:
            raise Abort(f"call to raising function {f.qual} nested in an expression")
        free = [fv for fv, _ in f.free]
        for fv in free:
            if fv not in self.env: raise Abort(f"free variable {fv} of {f.qual} not in scope")
        return "(" + " ".join([self.tr.callname(f)] + free + argtexts) + ")", f.ret

    allow_raising = None

    def call(self, e, want):
        tr = self.tr
        fn = e.func
        if isinstance(fn, ast.Name):
            n = fn.id
            if n in self.env and isinstance(self.env[n], tuple) and self.env[n][0] == 'fun':
                ft = self.env[n]
                args = [self.expr(a, t)[0] for a, t in zip(e.args, ft[1])]
                if len(args) != len(ft[1]): abort(e, "arity")
                return "(" + " ".join([n] + args) + ")", ft[2]
            if n == 'cls' and self.f.cls in tr.records:
                return self.construct(self.f.cls, e)
            if n in tr.records:
                return self.construct(n, e)
            if f"{self.f.qual}.{n}" in tr.funcs:
                f = tr.funcs[f"{self.f.qual}.{n}"]
                return self.mk_call(f, self.args_for(f, e), want)
            if n in tr.funcs:
                f = tr.funcs[n]
                return self.mk_call(f, self.args_for(f, e), want)
            if n in tr.externs:
                coqf, ats, rt = tr.externs[n]
                if len(e.args) != len(ats): abort(e, "extern arity")
                args = [self.expr(a, parse_ty(t))[0] for a, t in zip(e.args, ats)]
                return "(" + " ".join([coqf] + args) + ")", parse_ty(rt)
            if n in MATH1 and len(e.args) == 1:
                return f"({MATH1[n]} (N:=N) MO {self.num(e.args[0])})", 'num'
            if n == 'atan2': return f"(m_atan2 (N:=N) MO {self.num(e.args[0])} {self.num(e.args[1])})", 'num'
            if n == 'hypot': return f"(m_hypot (N:=N) MO {self.num(e.args[0])} {self.num(e.args[1])})", 'num'
            if n == 'radians':
                return f"(mul N {self.num(e.args[0])} (div N (m_pi (N:=N) MO) (of_Z N 180%Z)))", 'num'
            if n in ('abs', 'fabs'): return f"(pyabs {self.num(e.args[0])})", 'num'
            if n == 'ceil': return f"(m_ceil (N:=N) MO {self.num(e.args[0])})", 'int'
            if n == 'isfinite': return "true", 'bool'     # exact arithmetic: always finite (documented)
            if n in ('max', 'min') and len(e.args) == 2:
                return f"(py{n} {self.num(e.args[0])} {self.num(e.args[1])})", 'num'
            if n == 'round' and len(e.args) == 2:
                d, _ = self.expr(e.args[1], 'int')
                return f"(round_nd N {d} {self.num(e.args[0])})", 'num'
            if n == 'round' and len(e.args) == 1:
                return f"(round_int N {self.num(e.args[0])})", 'int'
            if n == 'pow' and len(e.args) == 2 and self.const_index(e.args[1]) == 2:
                x = self.num(e.args[0]); return f"(mul N {x} {x})", 'num'
            if n == 'int' and len(e.args) == 1:
                a, t = self.expr0(e.args[0])
                if t == 'int': return a, 'int'
                abort(e, "int() of non-int")
            if n in ('tuple', 'list') and len(e.args) == 1:
                return self.expr0(e.args[0], want)
            if n == 'len' and len(e.args) == 1:
                a, t = self.expr0(e.args[0])
                if isinstance(t, tuple) and t[0] == 'list': return f"(length {a})", 'nat'
                abort(e, "len")
            if n in ('frozenset', 'set') and len(e.args) == 1 and isinstance(e.args[0], (ast.Tuple, ast.List, ast.Set)) \
                    and all(isinstance(x, ast.Constant) and isinstance(x.value, str) for x in e.args[0].elts):
                items = [self.expr(x, 'str')[0] for x in e.args[0].elts]
                return "[" + "; ".join(items) + "]", ('list', 'str')
            if n == 'all' and len(e.args) == 1 and isinstance(e.args[0], ast.GeneratorExp) and len(e.args[0].generators) == 1:
                g = e.args[0]; gen = g.generators[0]
                it = gen.iter
                if (not gen.ifs and isinstance(it, ast.Call) and isinstance(it.func, ast.Name) and it.func.id == 'zip'
                        and len(it.args) == 2 and isinstance(gen.target, ast.Tuple) and len(gen.target.elts) == 2
                        and all(isinstance(x, ast.Name) for x in gen.target.elts)):
                    a, ta = self.expr0(it.args[0]); b, tb = self.expr0(it.args[1])
                    if ta == tb and ta[0] == 'rec':
                        n1, n2 = (x.id for x in gen.target.elts)
                        parts = []
                        for fname, ft in tr.records[ta[1]]:
                            sub = Ctx(tr, self.f, {**self.env, n1: ft, n2: ft})
                            body = sub.cond(g.elt)
                            parts.append(f"(let {n1} := ({ta[1]}_{fname} {a}) in let {n2} := ({ta[1]}_{fname} {b}) in {body})")
                        return "(" + " && ".join(parts) + ")", 'bool'
                abort(e, "all(...)")
            if n == 'reversed' and len(e.args) == 1:
                a, t = self.expr0(e.args[0], want)
                if isinstance(t, tuple) and t[0] == 'list': return f"(rev {a})", t
                abort(e, "reversed")
            if n == 'reduce' and len(e.args) == 3:
                init, ti = self.expr0(e.args[2])
                xs, tx = self.expr(e.args[1], ('list', ti))
                op = e.args[0]
                if isinstance(op, ast.Attribute) and isinstance(op.value, ast.Name) and op.value.id == 'operator' \
                        and op.attr == 'matmul' and ti[0] == 'rec' and f"{ti[1]}.__matmul__" in tr.funcs:
                    fn_ = "(" + tr.callname(tr.funcs[f"{ti[1]}.__matmul__"]) + ")"
                elif isinstance(op, ast.Lambda):
                    fn_, _ = self.expr(op, ('fun', (ti, ti), ti))
                else: abort(e, "reduce operator")
                return f"(fold_left {fn_} {xs} {init})", ti
            if n == 'isinstance' and len(e.args) == 2:
                # decided statically from the declared type (the model is typed)
                _, t = self.expr0(e.args[0])
                names = [x.id for x in (e.args[1].elts if isinstance(e.args[1], ast.Tuple) else [e.args[1]]) if isinstance(x, ast.Name)]
                if isinstance(t, tuple) and t[0] == 'rec': return ('true' if t[1] in names else 'false'), 'bool'
                if t in ('num', 'int', 'lit'): return ('true' if ('float' in names or 'int' in names) else 'false'), 'bool'
                abort(e, "isinstance")
            abort(e, f"unknown function {n}")
        if isinstance(fn, ast.Attribute):
            # self.__class__(...)
            if fn.attr == '__class__':
                _, t = self.expr0(fn.value)
                return self.construct(t[1], ast.Call(func=ast.Name(id=t[1]), args=e.args, keywords=e.keywords))
            # Class.method(...) / cls.method(...) / cls(...)
            if isinstance(fn.value, ast.Name) and fn.value.id not in self.env:
                cname = self.f.cls if fn.value.id == 'cls' else fn.value.id
                q = f"{cname}.{fn.attr}"
                if q in tr.funcs:
                    f = tr.funcs[q]
                    is_inst = f.params[len(f.free):] and f.params[len(f.free)][0] == 'self'
                    if is_inst: abort(e, "unbound method call")
                    return self.mk_call(f, self.args_for(f, e), want)
                abort(e, f"unknown static call {q}")
            # _replace
            vt, t = self.expr0(fn.value)
            if fn.attr == '_replace' and isinstance(t, tuple) and t[0] == 'rec':
                kws = {k.arg: k.value for k in e.keywords}
                items = []
                for fname, ft in tr.records[t[1]]:
                    if fname in kws: items.append(self.expr(kws.pop(fname), ft)[0])
                    else: items.append(f"({t[1]}_{fname} {vt})")
                if kws: abort(e, "unknown field in _replace")
                return f"(@mk_{t[1]} N {' '.join(items)})", t
            if isinstance(t, tuple) and t[0] == 'rec':
                q = f"{t[1]}.{fn.attr}"
                if q not in tr.funcs: abort(e, f"method {q} not declared")
                f = tr.funcs[q]
                own = f.params[len(f.free):]
                if not (own and own[0][0] == 'self'):      # static/class method reached through an instance
                    return self.mk_call(f, self.args_for(f, e), want)
                args = self.args_for(f, e, skip_self=True)
                return self.mk_call(f, [vt] + args, want)
            if t == 'cmd':
                m = {'upper': ('to_upper', 'cmd'), 'lower': ('to_lower', 'cmd'),
                     'islower': ('is_lower', 'bool'), 'isupper': ('is_upper', 'bool')}.get(fn.attr)
                if m and not e.args: return f"({m[0]} {vt})", m[1]
            if t == 'str':
                m = {'lower': 'str_lower', 'upper': 'str_upper', 'strip': 'str_strip'}.get(fn.attr)
                if m and not e.args: return f"({m} {vt})", 'str'
                if fn.attr == 'partition' and len(e.args) == 1 and isinstance(e.args[0], ast.Constant) and e.args[0].value == ' ':
                    return f"(str_partition_space {vt})", ('tup', ('str', 'str', 'str'))
            if isinstance(t, tuple) and t[0] == 'assoc' and fn.attr == 'values' and not e.args:
                return f"(map snd {vt})", ('list', t[2])
            abort(e, f"method {fn.attr} on {t}")
        if isinstance(fn, ast.Call):
            # cls(...) handled above; nothing else
            pass
        abort(e, "unsupported call")

    def construct(self, name, e):
        fields = self.tr.records[name]
        pos = list(e.args)
        if len(pos) == 1 and isinstance(pos[0], ast.Starred):
            # Rec(*(f(v) for v in self))  /  Rec(*tuple)
            g = pos[0].value
            if isinstance(g, ast.GeneratorExp) and len(g.generators) == 1 and not g.generators[0].ifs:
                gen = g.generators[0]
                src, st = self.expr0(gen.iter)
                if st == ('rec', name) and isinstance(gen.target, ast.Name):
                    items = []
                    for fname, ft in fields:
                        sub = Ctx(self.tr, self.f, {**self.env, gen.target.id: ft})
                        sub.env[gen.target.id] = ft
                        body = sub.expr(g.elt, ft)[0]
                        items.append(f"(let {gen.target.id} := ({name}_{fname} {src}) in {body})")
                    return f"(@mk_{name} N {' '.join(items)})", ('rec', name)
            abort(e, "starred constructor")
        kws = {k.arg: k.value for k in e.keywords}
        items = []
        cls = self.tr.rec_module[name].classes[name]
        dflts = {st.target.id: st.value for st in cls.body if isinstance(st, ast.AnnAssign) and st.value is not None}
        for i, (fname, ft) in enumerate(fields):
            if i < len(pos): items.append(self.expr(pos[i], ft)[0])
            elif fname in kws: items.append(self.expr(kws.pop(fname), ft)[0])
            elif fname in dflts: items.append(self.expr(dflts[fname], ft)[0])
            else: abort(e, f"missing field {fname}")
        if kws or len(pos) > len(fields): abort(e, "constructor arguments")
        return f"(@mk_{name} N {' '.join(items)})", ('rec', name)

    # ------------------------------------------------------ statements
    def ends(self, stmts):
        """does this block always leave the function (return/raise)?"""
        if not stmts: return False
        s = stmts[-1]
        if isinstance(s, (ast.Return, ast.Raise)): return True
        if isinstance(s, ast.If):
            return bool(s.orelse) and self.ends(s.body) and self.ends(s.orelse)
        return False

    def has_exit(self, stmts):
        for s in stmts:
            for n in ast.walk(s):
                if isinstance(n, (ast.Return, ast.Raise)): return True
        return False

    def assigned(self, stmts):
        out = []
        def add(n):
            if n not in out: out.append(n)
        def tgt(t):
            if isinstance(t, ast.Name): add(t.id)
            elif isinstance(t, (ast.Tuple, ast.List)):
                for x in t.elts: tgt(x)
            elif isinstance(t, ast.Subscript) and isinstance(t.value, ast.Name): add(t.value.id)
            else: abort(t, "assignment target")
        for s in stmts:
            if isinstance(s, ast.Assign):
                for t in s.targets: tgt(t)
            elif isinstance(s, ast.AugAssign): tgt(s.target)
            elif isinstance(s, ast.If):
                for n in self.assigned(s.body) + self.assigned(s.orelse): add(n)
            elif isinstance(s, ast.For):
                for n in self.assigned(s.body): add(n)
        return out

    def finish(self):
        f = self.f
        if f.gen: return "(Ok [])" if f.raises else "[]"
        if f.ret == 'unit': return "tt"
        raise Abort(f"{f.qual}: control reaches end of function without return")

    def ret(self, text):
        return f"(Ok {text})" if self.f.raises else text

    def block(self, stmts):
        if not stmts: return self.finish()
        s, rest = stmts[0], stmts[1:]
        f = self.f
        if isinstance(s, ast.Expr) and isinstance(s.value, ast.Constant) and isinstance(s.value.value, str):
            return self.block(rest)
        if isinstance(s, ast.Delete): return self.block(rest)
        if isinstance(s, ast.FunctionDef):
            if f"{f.qual}.{s.name}" in self.tr.funcs: return self.block(rest)
            abort(s, "nested function not declared for translation")
        if isinstance(s, ast.Pass): return self.block(rest)
        if isinstance(s, ast.Return):
            if f.gen:
                if s.value is not None: abort(s, "return value in generator")
                return "(Ok [])" if f.raises else "[]"
            if s.value is None: abort(s, "bare return")
            inner = f.ret[1] if f.raises else f.ret
            if f.raises and isinstance(s.value, ast.Call):
                g = self.callee(s.value)
                if g is not None and g.raises:
                    self.allow_raising = g
                    t, _ = self.expr0(s.value); self.allow_raising = None
                    return t
            t, _ = self.expr(s.value, inner)
            return self.ret(t)
        if isinstance(s, ast.Raise):
            if not f.raises: abort(s, "raise in a function not declared raising")
            name = None
            if isinstance(s.exc, ast.Call) and isinstance(s.exc.func, ast.Name): name = s.exc.func.id
            return f"(Err {EXC.get(name, 'EOther')})"
        if isinstance(s, ast.Assert):
            if not f.raises: abort(s, "assert in a function not declared raising")
            return f"if {self.cond(s.test)} then\n{self.block(rest)}\nelse Err EAssert"
        if isinstance(s, ast.Expr) and isinstance(s.value, ast.Yield):
            if not f.gen: abort(s, "yield")
            lt = f.ret[1] if f.raises else f.ret
            t, _ = self.expr(s.value.value, lt[1])
            if f.raises: return f"rcons {t} (\n{self.block(rest)})"
            return f"{t} :: (\n{self.block(rest)})"
        if isinstance(s, ast.Expr) and isinstance(s.value, ast.YieldFrom):
            lt = f.ret[1] if f.raises else f.ret
            g = self.callee(s.value.value) if isinstance(s.value.value, ast.Call) else None
            if g is not None and g.raises:
                if not f.raises: abort(s, "yield from a raising generator in a non-raising one")
                self.allow_raising = g
                t, _ = self.expr0(s.value.value); self.allow_raising = None
                return f"rbind_app {t} (\n{self.block(rest)})"
            t, _ = self.expr(s.value.value, lt)
            if f.raises: return f"rapp {t} (\n{self.block(rest)})"
            return f"{t} ++ (\n{self.block(rest)})"
        if isinstance(s, ast.Assign):
            if len(s.targets) != 1:
                # a = b = e : evaluate once, bind each name
                if not all(isinstance(t, ast.Name) for t in s.targets): abort(s, "multiple targets")
                first = s.targets[0].id
                chain = [ast.Assign(targets=[t], value=ast.Name(id=first, ctx=ast.Load())) for t in s.targets[1:]]
                for c_ in chain: ast.copy_location(c_, s)
                return self.assign(s.targets[0], s.value, chain + rest, s)
            return self.assign(s.targets[0], s.value, rest, s)
        if isinstance(s, ast.AugAssign):
            val = ast.BinOp(left=self.as_load(s.target), op=s.op, right=s.value)
            ast.copy_location(val, s)
            return self.assign(s.target, val, rest, s)
        if isinstance(s, ast.If):
            return self.if_stmt(s, rest)
        if isinstance(s, ast.For):
            return self.for_stmt(s, rest)
        abort(s, "unsupported statement")

    def as_load(self, t):
        if isinstance(t, ast.Name): return ast.Name(id=t.id, ctx=ast.Load())
        if isinstance(t, ast.Subscript): return ast.Subscript(value=t.value, slice=t.slice, ctx=ast.Load())
        abort(t, "augmented target")

    def callee(self, call):
        fn = call.func
        if isinstance(fn, ast.Name): return self.tr.funcs.get(fn.id)
        if isinstance(fn, ast.Attribute):
            if isinstance(fn.value, ast.Name) and fn.value.id not in self.env:
                cname = self.f.cls if fn.value.id == 'cls' else fn.value.id
                return self.tr.funcs.get(f"{cname}.{fn.attr}")
            try:
                _, t = Ctx(self.tr, self.f, self.env).expr0(fn.value)
            except Abort:
                return None
            if isinstance(t, tuple) and t[0] == 'rec': return self.tr.funcs.get(f"{t[1]}.{fn.attr}")
        return None

    def assign(self, target, value, rest, node):
        # x = raising_call(...)
        if isinstance(value, ast.Call):
            g = self.callee(value)
            if g is not None and g.raises:
                if not self.f.raises: abort(node, "raising call in non-raising function")
                self.allow_raising = g
                vt, t = self.expr0(value); self.allow_raising = None
                pat = self.pattern(target, t[1])
                return f"match {vt} with\n| Err e_r => Err e_r\n| Ok {pat} =>\n{self.block(rest)}\nend"
        if isinstance(target, ast.Name):
            want = self.env.get(target.id)
            if isinstance(value, ast.Dict):
                # local cmd->cmd table
                items = []
                for k, v in zip(value.keys, value.values):
                    items.append(f"({self.expr(k, 'cmd')[0]}, {self.expr(v, 'cmd')[0]})")
                self.env[target.id] = ('assoc', 'cmd', 'cmd')
                return f"let {target.id} := [{'; '.join(items)}] in\n{self.block(rest)}"
            if want in ('num', 'int', 'nat') or (isinstance(want, tuple) and want[0] in ('list', 'rec', 'opt')):
                vt, t = self.expr(value, want)
            else:
                vt, t = self.expr0(value)
                if t == 'lit': vt, t = self.coerce(vt, t, 'num')
            if t == 'none': abort(node, "assigning None")
            self.env[target.id] = t
            return f"let {target.id} := {vt} in\n{self.block(rest)}"
        if isinstance(target, ast.Tuple):
            # ((a, b),) = call   (singleton destructuring of a list-valued call)
            if len(target.elts) == 1 and isinstance(target.elts[0], ast.Tuple):
                vt, t = self.expr0(value)
                inner = target.elts[0]
                if t[0] == 'list' and t[1][0] == 'tup' and all(isinstance(x, ast.Name) and x.id in self.env for x in inner.elts):
                    names = [x.id for x in inner.elts]
                    for n, ty in zip(names, t[1][1]): self.env[n] = ty
                    body = self.block(rest)
                    return (f"match {vt} with\n| [({', '.join(names)})] =>\n{body}\n"
                            f"| _ => (* not a singleton: cannot happen, keep the variables *)\n{body}\nend")
                abort(node, "singleton destructuring")
            if isinstance(value, ast.Tuple) and len(value.elts) == len(target.elts):
                # parallel assignment: evaluate all right-hand sides first
                tmps, binds = [], []
                for i, (tg, v) in enumerate(zip(target.elts, value.elts)):
                    if not isinstance(tg, ast.Name): abort(node, "nested tuple target")
                    want = self.env.get(tg.id)
                    if isinstance(want, tuple) and want[0] == 'opt': want = None
                    vt, t = self.expr(v, want) if want in ('num', 'int') else self.expr0(v)
                    if t == 'lit': vt, t = self.coerce(vt, t, 'num')
                    tmps.append((f"{tg.id}_t{i}", vt, tg.id, t))
                out = "".join(f"let {tmp} := {vt} in\n" for tmp, vt, _, _ in tmps)
                for tmp, _, name, t in tmps:
                    out += f"let {name} := {tmp} in\n"; self.env[name] = t
                return out + self.block(rest)
            vt, t = self.expr0(value)
            if isinstance(t, tuple) and t[0] == 'list' and all(isinstance(x, ast.Name) for x in target.elts):
                out = f"let v_r := {vt} in\n"
                for i, tg in enumerate(target.elts):
                    out += f"let {tg.id} := (nth {i} v_r {default_val(t[1])}) in\n"; self.env[tg.id] = t[1]
                return out + self.block(rest)
            pat = self.pattern(target, t)
            if isinstance(t, tuple) and t[0] == 'rec':
                fields = self.tr.records[t[1]]
                out = f"let v_r := {vt} in\n"
                for tg, (fname, ft) in zip(target.elts, fields):
                    out += f"let {tg.id} := ({t[1]}_{fname} v_r) in\n"
                return out + self.block(rest)
            return f"let '{pat} := {vt} in\n{self.block(rest)}"
        if isinstance(target, ast.Subscript) and isinstance(target.value, ast.Name):
            l = target.value.id
            lt = self.env.get(l)
            if not (isinstance(lt, tuple) and lt[0] == 'list'): abort(node, "subscript assignment to non-list")
            k = self.const_index(target.slice)
            if k is not None and k >= 0: i = str(k)
            elif k is not None: i = f"(length {l} - {-k})"
            else:
                i, ti = self.expr0(target.slice)
                if ti != 'nat': abort(node, "index type")
            vt, _ = self.expr(value, lt[1])
            return f"let {l} := upd {l} {i} {vt} in\n{self.block(rest)}"
        abort(node, "assignment")

    def pattern(self, target, t):
        if isinstance(target, ast.Name):
            self.env[target.id] = t
            return target.id
        if isinstance(target, ast.Tuple):
            if isinstance(t, tuple) and t[0] == 'rec':
                fields = self.tr.records[t[1]]
                if len(fields) != len(target.elts): abort(target, "record unpack arity")
                for tg, (fname, ft) in zip(target.elts, fields):
                    if not isinstance(tg, ast.Name): abort(target, "nested")
                    self.env[tg.id] = ft
                return "rec"
            if isinstance(t, tuple) and t[0] == 'tup':
                if len(t[1]) != len(target.elts): abort(target, "tuple unpack arity")
                return "(" + ", ".join(self.pattern(tg, tt) for tg, tt in zip(target.elts, t[1])) + ")"
            if isinstance(t, tuple) and t[0] == 'list':
                abort(target, "unpacking a list in a pattern")
        abort(target, f"pattern for {t}")

    def if_stmt(self, s, rest):
        # `if x is None: x = e`  for optional parameters
        if (isinstance(s.test, ast.Compare) and isinstance(s.test.ops[0], ast.Is) and isinstance(s.test.left, ast.Name)
                and not s.orelse and len(s.body) == 1 and isinstance(s.body[0], ast.Assign)
                and isinstance(s.body[0].targets[0], ast.Name) and s.body[0].targets[0].id == s.test.left.id):
            x = s.test.left.id
            t = self.env.get(x)
            if isinstance(t, tuple) and t[0] == 'opt':
                d, _ = self.expr(s.body[0].value, t[1])
                self.env[x] = t[1]
                return f"let {x} := match {x} with None => {d} | Some v_r => v_r end in\n{self.block(rest)}"
        # `if x:` / `if x is not None:` on an optional value unwraps it in the body
        unwrap = None
        tst = s.test
        if isinstance(tst, ast.Name) and isinstance(self.env.get(tst.id), tuple) and self.env[tst.id][0] == 'opt':
            unwrap = tst.id
        if (isinstance(tst, ast.Compare) and isinstance(tst.ops[0], ast.IsNot) and isinstance(tst.left, ast.Name)
                and isinstance(self.env.get(tst.left.id), tuple) and self.env[tst.left.id][0] == 'opt'):
            unwrap = tst.left.id
        if unwrap:
            inner = self.env[unwrap][1]
            if inner == 'cmd' or inner == 'str' or inner == 'num':
                pass   # a present value is also truthy for these uses (command letters are non-empty)
            head, mid, tail = f"match {unwrap} with\n| Some {unwrap} =>", "| None =>", "\nend"
            a = Ctx(self.tr, self.f, {**self.env, unwrap: inner}); b = Ctx(self.tr, self.f, self.env)
        else:
            c = self.cond(s.test)
            if c in ('true', '(negb false)'): return self.block(list(s.body) + rest)
            if c in ('false', '(negb true)'): return self.block(list(s.orelse) + rest)
            head, mid, tail = f"if {c} then", "else", ""
            a = Ctx(self.tr, self.f, self.env); b = Ctx(self.tr, self.f, self.env)
        body_exit, else_exit = self.has_exit(s.body), self.has_exit(s.orelse)
        if self.f.gen and any(isinstance(n, (ast.Yield, ast.YieldFrom)) for st in s.body + s.orelse for n in ast.walk(st)):
            return f"{head}\n{a.block(s.body + rest)}\n{mid}\n{b.block(s.orelse + rest)}{tail}"
        if not body_exit and not else_exit:
            live = set(n.id for st in rest for n in ast.walk(st) if isinstance(n, ast.Name))
            live |= set(getattr(self, 'extra_live', ()))
            vs = [v for v in self.assigned(s.body + s.orelse) if v in live]
            new = [v for v in vs if v not in self.env or v == unwrap]
            both = [v for v in new if v in self.assigned(s.body) and v in self.assigned(s.orelse)]
            if new != both: abort(s, f"variables {new} first assigned inside only one branch but used later")
            if not vs:
                # nothing escapes the statement: it has no effect on the rest
                return self.block(rest)
            tup = vs[0] if len(vs) == 1 else "(" + ", ".join(vs) + ")"
            pat = vs[0] if len(vs) == 1 else "'(" + ", ".join(vs) + ")"
            a.extra_live = b.extra_live = set(vs) | live
            ta = a.block_then(s.body, tup); tb = b.block_then(s.orelse, tup)
            for v in vs:
                if a.env[v] != b.env[v] or (v in self.env and v != unwrap and a.env[v] != self.env[v]):
                    abort(s, f"variable {v} changes type across branches")
                self.env[v] = a.env[v]
            return f"let {pat} :=\n  {head}\n{textwrap.indent(ta, '    ')}\n  {mid}\n{textwrap.indent(tb, '    ')}{tail} in\n{self.block(rest)}"
        if self.ends(s.body):
            return f"{head}\n{textwrap.indent(a.block(s.body), '  ')}\n{mid}\n{b.block(s.orelse + rest)}{tail}"
        if self.ends(s.orelse):
            return f"{head}\n{a.block(s.body + rest)}\n{mid}\n{textwrap.indent(b.block(s.orelse), '  ')}{tail}"
        # a branch may or may not leave: duplicate the continuation
        return f"{head}\n{a.block(s.body + rest)}\n{mid}\n{b.block(s.orelse + rest)}{tail}"

    def block_then(self, stmts, final):
        """translate stmts (no exits) and finish with the expression `final`"""
        if not stmts: return final
        marker = ast.Return(value=ast.Name(id='__final__', ctx=ast.Load()))
        saved = (self.f.raises, self.f.gen)
        class _F: pass
        sub = self
        old_block = sub.block
        def block(sts):
            if sts and sts[0] is marker: return final
            return old_block(sts)
        sub.block = block
        try:
            return old_block(list(stmts) + [marker])
        finally:
            sub.block = old_block

    def for_stmt(self, s, rest):
        if s.orelse: abort(s, "for-else")
        if not isinstance(s.target, ast.Name): abort(s, "for target")
        v = s.target.id
        # iteration source: range(n) or a list-typed expression
        if isinstance(s.iter, ast.Call) and isinstance(s.iter.func, ast.Name) and s.iter.func.id == 'range' and len(s.iter.args) == 1:
            n, _ = self.expr(s.iter.args[0], 'int')
            src, vt = f"(zrange {n})", 'int'
        else:
            src, st = self.expr0(s.iter)
            if not (isinstance(st, tuple) and st[0] == 'list'): abort(s, f"for over {st}")
            vt = st[1]
        has_yield = any(isinstance(n, (ast.Yield, ast.YieldFrom)) for st_ in s.body for n in ast.walk(st_))
        if has_yield:
            if not self.f.gen: abort(s, "yield in non-generator")
            # generator loop: body must not assign variables that live on after the iteration
            sub = Ctx(self.tr, self.f, {**self.env, v: vt})
            body = sub.block(list(s.body))
            if self.f.raises:
                return f"rbind_app (rflat_map (fun {v} =>\n{textwrap.indent(body, '  ')}) {src}) (\n{self.block(rest)})"
            return f"flat_map (fun {v} =>\n{textwrap.indent(body, '  ')}) {src} ++ (\n{self.block(rest)})"
        if self.has_exit(s.body): abort(s, "return inside for")
        vs = self.assigned(s.body)
        vs = [x for x in vs if x in self.env]
        if not vs: abort(s, "for without effect")
        tup = vs[0] if len(vs) == 1 else "(" + ", ".join(vs) + ")"
        pat = vs[0] if len(vs) == 1 else "'(" + ", ".join(vs) + ")"
        sub = Ctx(self.tr, self.f, {**self.env, v: vt})
        sub.extra_live = set(vs) | set(getattr(self, 'extra_live', ())) | set(n.id for st in rest for n in ast.walk(st) if isinstance(n, ast.Name))
        body = sub.block_then(list(s.body), tup)
        for x in vs:
            if sub.env[x] != self.env[x]: abort(s, f"loop variable {x} changes type")
        return (f"let {pat} := fold_left (fun {pat if len(vs)==1 else 'st_r'} {v} =>\n"
                + (f"  let {pat} := st_r in\n" if len(vs) > 1 else "")
                + f"{textwrap.indent(body, '  ')}) {src} {tup} in\n{self.block(rest)}")


def _dummy_f(mod, cls=None):
    f = Func('<const>', '<const>', [], 'unit'); f.mod = mod; f.cls = cls
    return f


HEADER = """(* GENERATED by tools/translate.py from {src} — do not edit. *)
From Coq Require Import ZArith List Bool Ascii String.
From Pico Require Import Num PyStr{imports}.
Import ListNotations.
"""

def write_module(mod, outdir, prev):
    imports = "".join(" " + p for p in prev)
    text = HEADER.format(src=os.path.relpath(mod.path, '/repo'), imports=imports)
    text += "\n\n".join(mod.out) + "\n"
    path = os.path.join(outdir, mod.coqfile + ".v")
    old = open(path).read() if os.path.exists(path) else None
    if old != text:
        with open(path, 'w') as fh: fh.write(text)
    return path
