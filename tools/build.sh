#!/bin/bash
# tools/build.sh [make targets...] — sync /verif/coq into build/coq, regenerate gen/*.v from
# /repo's current sources, and run make (full .vo build) on the given targets.
# Exit: 0 ok, 3 translator aborted (gen removed), other = make failure.  Serialised by flock.
set -u
V=/verif; B=$V/build/coq
mkdir -p "$B/gen" "$V/build/log"
exec 9>"$V/build/.lock"; flock 9
rsync -a --delete --exclude 'gen/' --exclude '*.vo' --exclude '*.vos' --exclude '*.vok' \
      --exclude '*.glob' --exclude '.*.aux' --exclude 'Makefile*' --exclude '.Makefile.d' \
      --exclude '_CoqProject' --exclude '.lia.cache' --exclude '.nia.cache' \
      --exclude 'picomodel.*' --exclude 'ocaml/' "$V/coq/" "$B/"
PYTHONPATH=/repo/src PYTHONHASHSEED=0 /venv/bin/python "$V/tools/gen_models.py" /repo/src "$B/gen" \
      > "$V/build/log/gen.out" 2> "$V/build/log/gen.err"
rc=$?
if [ $rc -ne 0 ]; then
  rm -f "$B"/gen/*.v
  echo "GEN-FAILED rc=$rc: $(cat $V/build/log/gen.err | tail -1)"
fi
cd "$B"
{ echo "-Q . Pico"; find . -name '*.v' | sed 's|^\./||' | LC_ALL=C sort; } > _CoqProject.new
if ! cmp -s _CoqProject.new _CoqProject 2>/dev/null; then
  mv _CoqProject.new _CoqProject
  coq_makefile -f _CoqProject -o Makefile > /dev/null 2>&1
else
  rm -f _CoqProject.new
fi
[ $# -eq 0 ] && exit $rc
want_driver=0; targets=()
for t in "$@"; do
  if [ "$t" = "driver" ]; then want_driver=1; targets+=("extract/Extract.vo"); else targets+=("$t"); fi
done
[ $want_driver -eq 1 ] && [ ! -f picomodel.ml ] && rm -f extract/Extract.vo
timeout ${VERIF_MAKE_TIMEOUT:-1500} make -Otarget -j${VERIF_JOBS:-16} -k "${targets[@]}" 2>&1 | tee "$V/build/log/make.out" | grep -v 'extraction-reserved-identifier\|reserved for\|^the extraction\|characters 0-' 
mrc=${PIPESTATUS[0]}
python3 "$V/tools/split_assumptions.py" "$V/build/log/make.out" 2>/dev/null
if [ $want_driver -eq 1 ] && [ -f picomodel.ml ]; then
  mkdir -p ocaml
  if [ ! -x ocaml/picomodel ] || [ picomodel.ml -nt ocaml/picomodel ] || [ "$V/ocaml/driver.ml" -nt ocaml/picomodel ]; then
    cp picomodel.ml picomodel.mli "$V/ocaml/driver.ml" ocaml/
    ( cd ocaml && timeout 600 ocamlfind ocamlopt -O2 -w -a -package str picomodel.mli picomodel.ml driver.ml -o picomodel 2>&1 \
        || timeout 600 ocamlfind ocamlopt -w -a -package str picomodel.mli picomodel.ml driver.ml -o picomodel 2>&1 ) | tail -20
    [ -x ocaml/picomodel ] || mrc=9
  fi
fi
[ $rc -ne 0 ] && exit 3
exit $mrc
