#!/venv/bin/python
"""check <ID> [--tier quick|thorough] [--replay file]

Protocol (DESIGN.md §6): regenerate + build the Coq development for the property,
run the model/implementation correspondence, replay known findings, and — only if a
proof obligation or the correspondence broke — search the implementation for a concrete
failing input judged by the property's spec.  Writes evidence/<ID>.json on every run.
"""
import argparse, hashlib, importlib, json, os, random, re, subprocess, sys, time, traceback

V = '/verif'
B = V + '/build/coq'
sys.path.insert(0, V + '/tools')
os.environ.setdefault('PYTHONHASHSEED', '0')

FORBIDDEN = re.compile(r'\b(Admitted|admit|Axiom|Axioms|Parameter|Parameters|Conjecture|Hypothesis|Variable|Unset\s+Guard|bypass_check|type-in-type|impredicative-set|Admit\s+Obligations)\b')
OBLIGATION = re.compile(r'^\s*(Theorem|Lemma|Corollary|Example|Fact|Proposition|Remark)\s+([A-Za-z0-9_\']+)', re.M)


def sh(cmd, timeout=None, env=None):
    e = dict(os.environ)
    if env: e.update(env)
    try:
        r = subprocess.run(cmd, shell=isinstance(cmd, str), capture_output=True, text=True, timeout=timeout, env=e)
        return r.returncode, r.stdout + r.stderr
    except subprocess.TimeoutExpired as ex:
        return 124, (ex.stdout or '') + (ex.stderr or '') if isinstance(ex.stdout, str) else 'timeout'


class Ctx:
    def __init__(self, pid, tier, seed):
        self.pid, self.tier, self.seed = pid, tier, seed
        self.rng = random.Random(seed * 1000003 + int(pid[1:]))
        self.thorough = tier == 'thorough'
        self.model_bin = B + '/ocaml/picomodel'
        self._model = None
        self.notes = []

    def n(self, quick, thorough):
        return thorough if self.thorough else quick

    def model(self, oracles=()):
        from wire import Model
        if self._model is None:
            self._model = Model(self.model_bin, oracles)
        return self._model

    def close(self):
        if self._model: self._model.close()


def strip_comments(text):
    out, depth, i = [], 0, 0
    while i < len(text):
        if text.startswith('(*', i): depth += 1; i += 2; continue
        if text.startswith('*)', i) and depth: depth -= 1; i += 2; continue
        if depth == 0: out.append(text[i])
        i += 1
    return ''.join(out)


def dep_cone(target_v):
    """transitive .v dependencies of a file inside build/coq, from coqdep's .Makefile.d"""
    deps = {}
    try:
        for line in open(B + '/.Makefile.d'):
            if ':' not in line: continue
            lhs, rhs = line.split(':', 1)
            outs = lhs.split()
            vo = [o for o in outs if o.endswith('.vo')]
            if not vo: continue
            src = vo[0][:-1]
            deps[src] = [d[:-1] for d in rhs.split() if d.endswith('.vo')]
    except FileNotFoundError:
        pass
    seen, todo = [], [target_v]
    while todo:
        f = todo.pop()
        if f in seen: continue
        seen.append(f)
        todo.extend(deps.get(f, []))
    return seen


def gate_grep(files):
    """no Admitted/admit/Axiom/... anywhere in the development (comments stripped)"""
    bad = []
    for f in files:
        p = os.path.join(B, f)
        if not os.path.exists(p): continue
        text = strip_comments(open(p).read())
        # `Variable`/`Hypothesis`/`Context` inside Sections are allowed; flag only outside sections
        depth = 0
        for ln, line in enumerate(text.split('\n'), 1):
            if re.match(r'\s*Section\s', line): depth += 1
            if re.match(r'\s*End\s', line) and depth: depth -= 1
            for m in FORBIDDEN.finditer(line):
                w = m.group(1)
                if w in ('Variable', 'Hypothesis', 'Parameter', 'Parameters') and depth > 0 and w in ('Variable', 'Hypothesis'):
                    continue
                bad.append(f"{f}:{ln}: {w}")
    return bad


def build(ctx, prop):
    """returns dict(gen_ok, proofs_ok, driver_ok, failed=[...], log, assumptions, obligations, discharged)"""
    t0 = time.time()
    targets = list(prop.COQ_TARGETS) + ['driver']
    rc, out = sh([V + '/tools/build.sh'] + targets, timeout=3000)
    os.makedirs(V + '/build/tmp', exist_ok=True)
    res = {'rc': rc, 'log': out[-6000:], 'gen_ok': 'GEN-FAILED' not in out}
    res['gen_error'] = ''
    if not res['gen_ok']:
        m = re.search(r'GEN-FAILED.*', out); res['gen_error'] = m.group(0) if m else ''
    failed = re.findall(r'make: \*\*\* \[[^\]]*: ([^\]]+)\] Error', out)
    errors = re.findall(r'File "\./([^"]+)", line (\d+), characters [^\n]*\n(Error:[^\n]*(?:\n[^\n]+){0,4})', out)
    res['failed'] = failed
    res['errors'] = [{'file': f, 'line': int(l), 'msg': m[:400]} for f, l, m in errors]
    res['driver_ok'] = os.path.exists(ctx.model_bin) and not any('extract/' in f or f.startswith('gen/') or f.startswith('model/') for f in failed) and res['gen_ok']
    cone = []
    for t in prop.COQ_TARGETS:
        for f in dep_cone(t[:-1]):
            if f not in cone: cone.append(f)
    res['cone'] = cone
    missing = [f for f in cone if not os.path.exists(os.path.join(B, f + 'o'))]
    # files whose compilation failed in this run, and everything in the cone that depends on them
    bad = set(f[:-1] for f in failed if f.endswith('.vo')) | set(missing)
    changed = True
    while changed:
        changed = False
        for f in cone:
            if f not in bad and any(d in bad for d in dep_cone(f)[1:]):
                bad.add(f); changed = True
    bad &= set(cone)
    res['bad'] = sorted(bad)
    res['proofs_ok'] = res['gen_ok'] and not bad and all(os.path.exists(os.path.join(B, t)) for t in prop.COQ_TARGETS)
    res['missing'] = missing
    # obligations: statements in the cone; discharged: those in files whose .vo exists
    obl = dis = 0
    names = []
    for f in cone:
        p = os.path.join(B, f)
        if not os.path.exists(p): continue
        found = OBLIGATION.findall(strip_comments(open(p).read()))
        obl += len(found)
        if f not in bad: dis += len(found)
        if f.startswith('props/'): names += [n for _, n in found]
    res['obligations'], res['discharged'], res['theorems'] = obl, dis, names
    res['gate'] = gate_grep(cone)
    # Print Assumptions output of the property file: printed by coqc while make compiles it
    # (make -Otarget groups each target's output); cached while the .vo stays up to date
    res['assumptions'] = []
    os.makedirs(V + '/build/log', exist_ok=True)
    if res['proofs_ok']:
        for t in prop.COQ_TARGETS:
            if not t.startswith('props/'): continue
            cache = f"{V}/build/log/assumptions_{os.path.basename(t)[:-3]}.txt"
            m = re.search(r'COQC ' + re.escape(t[:-1]) + r'\n(.*?)(?=\nCOQC |\nmake|\Z)', out, re.S)
            if m and ('Axioms:' in m.group(1) or 'Closed under the global context' in m.group(1)):
                open(cache, 'w').write(m.group(1))
            if not os.path.exists(cache) or os.path.getmtime(cache) < os.path.getmtime(os.path.join(B, t)) - 5:
                rc2, out2 = sh(f"cd {B} && timeout 1200 coqc -Q . Pico {t[:-1]} -o {V}/build/tmp/{os.path.basename(t)}", timeout=1300)
                if rc2 != 0:
                    res['proofs_ok'] = False; res['errors'].append({'file': t[:-1], 'line': 0, 'msg': out2[-400:]})
                else:
                    open(cache, 'w').write(out2)
            if os.path.exists(cache):
                res['assumptions'] += parse_assumptions(open(cache).read())
    res['assumptions'] = sorted(set(res['assumptions']))
    res['build_s'] = round(time.time() - t0, 1)
    return res


def parse_assumptions(out):
    axs = []
    for block in re.split(r'\n(?=Axioms:|Closed under the global context)', out):
        if block.startswith('Axioms:'):
            for m in re.finditer(r'^([A-Za-z_][\w.\']*)\s*:', block[len('Axioms:'):], re.M):
                axs.append(m.group(1))
    return axs


def load_known(pid):
    try:
        data = json.load(open(V + '/known_findings.json'))
    except FileNotFoundError:
        return []
    return [e for e in data if e.get('property') == pid]


def write_replay(pid, obj):
    os.makedirs(f"{V}/replays/{pid}", exist_ok=True)
    blob = json.dumps(obj, indent=1, sort_keys=True, default=str)
    h = hashlib.sha256(blob.encode()).hexdigest()[:12]
    path = f"{V}/replays/{pid}/{h}.json"
    open(path, 'w').write(blob)
    return path


def main():
    ap = argparse.ArgumentParser()
    ap.add_argument('pid')
    ap.add_argument('--tier', default=os.environ.get('VERIF_TIER', 'quick'))
    ap.add_argument('--replay')
    ap.add_argument('--no-build', action='store_true')
    a = ap.parse_args()
    pid = a.pid.upper()
    tier = a.tier if a.tier in ('quick', 'thorough') else 'quick'
    seed = int(os.environ.get('VERIF_SEED', '0') or 0)
    prop = importlib.import_module('props.' + pid.lower())
    ctx = Ctx(pid, tier, seed)
    t0 = time.time()

    if a.replay:
        obj = json.load(open(a.replay))
        br = build(ctx, prop) if not a.no_build else None
        out = prop.replay(ctx, obj)
        print(json.dumps(out, indent=1, default=str))
        ctx.close()
        return 1 if out.get('fails') else 0

    violations = []      # list of (replay_obj, found_input: bool)
    known_lines = []
    br = build(ctx, prop)
    broken = []          # names of what no longer checks
    if not br['gen_ok']: broken.append('translator: ' + br['gen_error'])
    if br['gate']: broken.append('gate: forbidden declarations ' + '; '.join(br['gate'][:5]))
    if not br['proofs_ok']:
        for e in br['errors'][:5]:
            broken.append(f"proof: {e['file']}:{e['line']} " + ' '.join(x.strip() for x in e['msg'].splitlines()[:4])[:300])
        if not br['errors']: broken.append('proof: build failed: ' + ' '.join(br['failed'] + br['missing'])[:300])

    # thorough tier: independent re-check of the property's compiled files (and everything they depend on) by coqchk,
    # which also lists the axioms the whole closure relies on
    coqchk = None
    if tier == 'thorough' and br['proofs_ok'] and not os.environ.get('VERIF_NO_COQCHK'):
        mods = ' '.join('Pico.' + t[:-3].replace('/', '.') for t in prop.COQ_TARGETS if t.startswith('props/'))
        budget = int(getattr(prop, 'COQCHK_BUDGET_S', 2400))
        rc3, out3 = sh(f"cd {B} && flock {V}/build/.lock timeout {budget} coqchk -silent -o -Q . Pico {mods}", timeout=budget + 100)
        axs = []
        m3 = re.search(r'\* Axioms:\s*(.*?)(?:\n\s*\n|\n\* |\Z)', out3, re.S)
        if m3: axs = [x.strip() for x in m3.group(1).splitlines() if x.strip()]
        coqchk = {'rc': rc3, 'cmd': f'coqchk -silent -o -Q . Pico {mods}', 'axioms': axs[:60], 'tail': out3[-600:] if rc3 != 0 else ''}
        if rc3 == 124:
            # the second checker ran out of its time budget (the closure of Interval / Coquelicot takes it more than 40 minutes);
            # that is a limit of this run, not a failed re-check: the kernel's own check by coqc stands, and the evidence says so
            coqchk['timed_out'] = True; coqchk['budget_s'] = budget
        elif rc3 != 0: broken.append('coqchk: independent re-check failed: ' + out3[-300:].replace('\n', ' '))

    corr = {'evaluations': 0, 'nontrivial': set(), 'samples': [], 'disagreements': [], 'distribution': {}}
    corr_error = None
    if br['driver_ok']:
        try:
            corr = prop.corr(ctx)
        except Exception as ex:
            corr_error = ''.join(traceback.format_exception_only(type(ex), ex)).strip()
            traceback.print_exc()
            broken.append('correspondence crashed: ' + corr_error[:300])
    else:
        broken.append('correspondence: executable model could not be built')
    for d in corr['disagreements'][:5]:
        broken.append('correspondence: ' + d.get('what', 'model and implementation differ') + ' on ' + json.dumps(d.get('input'), default=str)[:200])

    # known findings: replay their witnesses on the implementation
    known = load_known(pid)
    for e in known:
        if e.get('status') == 'known':
            try:
                r = prop.replay(ctx, e['witness'])
            except Exception as ex:
                r = {'fails': True, 'detail': f'witness replay raised {ex!r}'}
            if r.get('fails'):
                known_lines.append(f"KNOWN-FINDING: property={pid} {e['what']}")
        elif e.get('status') == 'fixed':
            try:
                r = prop.replay(ctx, e['witness'])
            except Exception as ex:
                r = {'fails': True, 'detail': f'witness replay raised {ex!r}'}
            if r.get('fails'):
                violations.append(({'property': pid, 'kind': 'regression of a fixed finding', 'entry': e['what'],
                                    'input': e['witness'], 'observed': r}, True))

    searched = {'evaluations': 0}
    if not broken and getattr(prop, 'ALWAYS_JUDGE', False):
        # parts of the property that no theorem pins yet (stated as partial in props/<ID>.v) are
        # judged by the spec-side evaluator on the implementation on every run
        try:
            found, searched = prop.search(ctx, [], [])
        except Exception as ex:
            traceback.print_exc()
            found, searched = [], {'evaluations': 0, 'error': repr(ex)}
            broken.append('spec judge crashed: ' + repr(ex)[:200])
        fresh = [v for v in found if not any(e.get('status') == 'known' and prop.matches_known(v, e) for e in known)]
        for v in found:
            for e in known:
                if e.get('status') == 'known' and prop.matches_known(v, e):
                    line = f"KNOWN-FINDING: property={pid} {e['what']}"
                    if line not in known_lines: known_lines.append(line)
        if fresh:
            violations.append(({'property': pid, 'kind': 'failing input', 'broken': ['spec judge (unproved part of a partial theorem set)'],
                                'seed': seed, **fresh[0]}, True))
    elif broken:
        # search the implementation for a concrete failing input, judged by the spec
        try:
            found, searched = prop.search(ctx, broken, corr['disagreements'])
        except Exception as ex:
            traceback.print_exc()
            found, searched = [], {'evaluations': 0, 'error': repr(ex)}
        fresh = []
        for v in found:
            if any(e.get('status') == 'known' and prop.matches_known(v, e) for e in known):
                line = next(f"KNOWN-FINDING: property={pid} {e['what']}" for e in known
                            if e.get('status') == 'known' and prop.matches_known(v, e))
                if line not in known_lines: known_lines.append(line)
                continue
            fresh.append(v)
        if fresh:
            v = fresh[0]
            violations.append(({'property': pid, 'kind': 'failing input', 'broken': broken, 'seed': seed, **v}, True))
        else:
            violations.append(({'property': pid, 'kind': 'no-failing-input-found',
                                'no_longer_checks': broken, 'seed': seed,
                                'search': {k: v for k, v in searched.items() if k != 'samples'}}, False))

    for line in known_lines: print(line)
    rc = 0
    for obj, has_input in violations:
        path = write_replay(pid, obj)
        print(f"VIOLATION property={pid} replay={path}" + ('' if has_input else ' no-failing-input-found'))
        rc = 1

    # evidence
    nontriv = corr['nontrivial']
    ev = {
        'property_id': pid, 'tier': tier, 'seed': seed, 'level': 'proof',
        'coverage': {
            'obligations': max(br['obligations'], 0), 'discharged': br['discharged'],
            'checker_cmd': f"tools/build.sh {' '.join(prop.COQ_TARGETS)}  (coq_makefile + make, coqc 8.16.1, full .vo) then coqc {' '.join(t[:-1] for t in prop.COQ_TARGETS if t.startswith('props/'))} for Print Assumptions",
            'trusted_base': ['Coq 8.16.1 kernel (vm_compute used in Examples/finite tables; no native_compute)']
                            + ['axiom (stdlib): ' + x for x in br['assumptions']]
                            + (['coqchk -o (axioms of the whole loaded closure, incl. libraries only imported): ' + ', '.join(coqchk['axioms'])] if coqchk and coqchk.get('axioms') else [])
                            + ([f"coqchk did not finish within its {coqchk.get('budget_s')} s budget on this file (not counted as a failure; coqc accepted every file)"] if coqchk and coqchk.get('timed_out') else [])
                            + list(getattr(prop, 'TRUSTED', [])),
            'theorems': br['theorems'],
            'proof_files': br['cone'],
            'evaluations': corr['evaluations'] + searched.get('evaluations', 0),
            'distinct_nontrivial': len(nontriv),
            'rule': getattr(prop, 'RULE', ''),
            'samples': corr['samples'][:6] or [{'note': 'correspondence did not run'}],
            'traces_validated_against_impl': corr['evaluations'],
            'disagreements': len(corr['disagreements']),
            'distribution': corr.get('distribution', {}),
            'build_s': br['build_s'],
            'broken': broken,
            'known_findings_reported': known_lines,
            'judge': {k: v for k, v in searched.items() if k != 'samples'},
            'coqchk': coqchk,
        },
        'assumptions': list(getattr(prop, 'ASSUMES', [])),
        'wall_s': round(time.time() - t0, 2),
        'violations': sum(1 for _ in violations),
    }
    os.makedirs(V + '/evidence', exist_ok=True)
    json.dump(ev, open(f"{V}/evidence/{pid}.json", 'w'), indent=1, default=str)
    ctx.close()
    print(f"[{pid}] tier={tier} obligations={br['obligations']} discharged={br['discharged']} "
          f"corr={corr['evaluations']} nontrivial={len(nontriv)} disagreements={len(corr['disagreements'])} "
          f"wall={ev['wall_s']}s rc={rc}")
    return rc


if __name__ == '__main__':
    sys.exit(main())
