(* ocaml/driver.ml — generic line-protocol driver around the extracted [dispatch].
   request  :  <name> TAB <value>
   reply    :  =<value>            final answer
               ?<name> TAB <value> oracle question; the peer answers with one <value> line
   values   :  #<bin>/<bin> rational (binary digits, optional leading '-'), "str", ( v ... ), T, F, N
   Trusted glue: this file only parses/prints values and forwards oracle calls (memoised,
   so that an oracle is a function). *)
open Picomodel

let rec bits_of_pos (p : positive) (acc : Buffer.t) : unit =
  (* LSB-first traversal; we collect and reverse *)
  match p with
  | XH -> Buffer.add_char acc '1'
  | XO p' -> Buffer.add_char acc '0'; bits_of_pos p' acc
  | XI p' -> Buffer.add_char acc '1'; bits_of_pos p' acc

let string_rev s = let n = String.length s in String.init n (fun i -> s.[n - 1 - i])

let pos_to_string p = let b = Buffer.create 64 in bits_of_pos p b; string_rev (Buffer.contents b)

let z_to_string (z : z) = match z with
  | Z0 -> "0" | Zpos p -> pos_to_string p | Zneg p -> "-" ^ pos_to_string p

let pos_of_string (s : string) : positive =
  (* s: binary, MSB first, s.[0] = '1' *)
  let n = String.length s in
  let rec go i acc = if i >= n then acc else go (i + 1) (if s.[i] = '1' then XI acc else XO acc) in
  go 1 XH

let z_of_string (s : string) : z =
  if s = "0" || s = "-0" then Z0
  else if s.[0] = '-' then Zneg (pos_of_string (String.sub s 1 (String.length s - 1)))
  else Zpos (pos_of_string s)

let chars_of_string s = List.init (String.length s) (String.get s)
let string_of_chars l = let b = Buffer.create 16 in List.iter (Buffer.add_char b) l; Buffer.contents b

let rec print_value (b : Buffer.t) (v : value) : unit = match v with
  | VQ q -> Buffer.add_char b '#'; Buffer.add_string b (z_to_string q.qnum);
            Buffer.add_char b '/'; Buffer.add_string b (pos_to_string q.qden)
  | VS s -> Buffer.add_char b '"';
            List.iter (fun c -> match c with
              | '"' -> Buffer.add_string b "\\\"" | '\\' -> Buffer.add_string b "\\\\"
              | '\n' -> Buffer.add_string b "\\n" | '\t' -> Buffer.add_string b "\\t"
              | '\r' -> Buffer.add_string b "\\r"
              | c -> Buffer.add_char b c) s;
            Buffer.add_char b '"'
  | VL l -> Buffer.add_char b '('; List.iter (fun x -> print_value b x; Buffer.add_char b ' ') l; Buffer.add_char b ')'
  | VB true -> Buffer.add_char b 'T'
  | VB false -> Buffer.add_char b 'F'
  | VN -> Buffer.add_char b 'N'

let value_to_string v = let b = Buffer.create 256 in print_value b v; Buffer.contents b

exception Parse_error of string

let parse_value (s : string) : value =
  let n = String.length s in
  let pos = ref 0 in
  let rec skip () = if !pos < n && s.[!pos] = ' ' then (incr pos; skip ()) in
  let rec value () : value =
    skip ();
    if !pos >= n then raise (Parse_error "eof");
    match s.[!pos] with
    | '(' -> incr pos;
        let rec items acc = skip ();
          if !pos >= n then raise (Parse_error "eof in list")
          else if s.[!pos] = ')' then (incr pos; List.rev acc)
          else items (value () :: acc) in
        VL (items [])
    | '"' -> incr pos;
        let b = Buffer.create 16 in
        let rec go () =
          if !pos >= n then raise (Parse_error "eof in string");
          let c = s.[!pos] in
          if c = '"' then incr pos
          else if c = '\\' then begin
            let d = s.[!pos + 1] in
            Buffer.add_char b (match d with 'n' -> '\n' | 't' -> '\t' | 'r' -> '\r' | d -> d);
            pos := !pos + 2; go () end
          else (Buffer.add_char b c; incr pos; go ()) in
        go (); VS (chars_of_string (Buffer.contents b))
    | '#' -> incr pos;
        let start = !pos in
        while !pos < n && s.[!pos] <> '/' do incr pos done;
        let num = String.sub s start (!pos - start) in
        incr pos;
        let start = !pos in
        while !pos < n && (s.[!pos] = '0' || s.[!pos] = '1') do incr pos done;
        let den = String.sub s start (!pos - start) in
        VQ { qnum = z_of_string num; qden = pos_of_string den }
    | 'T' -> incr pos; VB true
    | 'F' -> incr pos; VB false
    | 'N' -> incr pos; VN
    | c -> raise (Parse_error (Printf.sprintf "unexpected %c at %d" c !pos)) in
  value ()

let memo : (string, value) Hashtbl.t = Hashtbl.create 1024
let batch = ref false

let orc (name : char list) (v : value) : value =
  let key = string_of_chars name ^ "\t" ^ value_to_string v in
  match Hashtbl.find_opt memo key with
  | Some r -> r
  | None ->
    if key = "pi\tN" then
      (* math.pi as the exact value of the binary64 constant *)
      parse_value "#11001001000011111101101010100010001000010110100011/1000000000000000000000000000000000000000000000000"
    else begin
      if !batch then failwith ("oracle call in batch mode: " ^ key);
      print_string "?"; print_string key; print_newline ();
      let line = input_line stdin in
      let r = parse_value line in
      Hashtbl.replace memo key r; r
    end

let () =
  if Array.length Sys.argv > 1 && Sys.argv.(1) = "--batch" then batch := true;
  (try
    while true do
      let line = input_line stdin in
      if line = "" then () else
      if line = "%reset" then Hashtbl.reset memo else begin
        match String.index_opt line '\t' with
        | None -> print_string "!no tab"; print_newline ()
        | Some i ->
          let name = String.sub line 0 i in
          let arg = String.sub line (i + 1) (String.length line - i - 1) in
          (try
            let v = parse_value arg in
            let r = dispatch orc (chars_of_string name) v in
            print_string "="; print_string (value_to_string r); print_newline ()
          with
          | Parse_error m -> print_string ("!parse " ^ m); print_newline ()
          | Stack_overflow -> print_string "!stack_overflow"; print_newline ()
          | Failure m -> print_string ("!failure " ^ m); print_newline ())
      end
    done
  with End_of_file -> ())
