(* spec/PathSem.v — what SVG path data MEANS (SVG 1.1 §8.3), written from the standard and
   independent of picosvg's own bookkeeping: a path denotes a list of absolute geometric
   segments.  This is the specification side of C09 (and the judge the search extracts). *)
From Coq Require Import ZArith List Bool Ascii String.
From Pico Require Import Num PyStr G_geom.
Import ListNotations.
Local Open Scope char_scope.

Section PathSem.
  Context {N : NumOps}.
  Local Notation pt := (Point N).
  Local Notation num := (T N).

  Inductive seg :=
  | SegMove (p : pt)                                   (* a new subpath starts at p *)
  | SegLine (a b : pt)
  | SegQuad (a c b : pt)
  | SegCubic (a c1 c2 b : pt)
  | SegArc (a : pt) (rx ry rot large sweep : num) (b : pt)
  | SegClose (a b : pt).                               (* straight line from a back to the subpath start b *)

  (* the control point a following shorthand command reflects, per curve family *)
  Inductive ctrl := NoCtrl | CubicCtrl (p : pt) | QuadCtrl (p : pt).

  Record istate := mk_i { i_cur : pt; i_start : pt; i_ctrl : ctrl }.

  Definition P (x y : num) : pt := mk_Point N x y.
  Definition argn (a : list num) (k : nat) : num := nth k a (zero N).
  (* a coordinate pair, absolute or relative to the current point *)
  Definition at_ (ab : bool) (cur : pt) (x y : num) : pt :=
    if ab then P x y else P (add N (Point_x cur) x) (add N (Point_y cur) y).
  Definition reflect (cur q : pt) : pt :=
    P (sub N (mul N (of_Z N 2%Z) (Point_x cur)) (Point_x q))
      (sub N (mul N (of_Z N 2%Z) (Point_y cur)) (Point_y q)).

  Definition interp_cmd (st : istate) (c : ascii) (a : list num) : istate * list seg :=
    let cur := i_cur st in
    let ab := is_upper c in
    let u := to_upper c in
    if Ascii.eqb u "M" then
      let p := at_ ab cur (argn a 0) (argn a 1) in (mk_i p p NoCtrl, [SegMove p])
    else if Ascii.eqb u "L" then
      let p := at_ ab cur (argn a 0) (argn a 1) in (mk_i p (i_start st) NoCtrl, [SegLine cur p])
    else if Ascii.eqb u "H" then
      let p := P (if ab then argn a 0 else add N (Point_x cur) (argn a 0)) (Point_y cur) in
      (mk_i p (i_start st) NoCtrl, [SegLine cur p])
    else if Ascii.eqb u "V" then
      let p := P (Point_x cur) (if ab then argn a 0 else add N (Point_y cur) (argn a 0)) in
      (mk_i p (i_start st) NoCtrl, [SegLine cur p])
    else if Ascii.eqb u "C" then
      let c1 := at_ ab cur (argn a 0) (argn a 1) in
      let c2 := at_ ab cur (argn a 2) (argn a 3) in
      let p := at_ ab cur (argn a 4) (argn a 5) in
      (mk_i p (i_start st) (CubicCtrl c2), [SegCubic cur c1 c2 p])
    else if Ascii.eqb u "S" then
      (* first control point: reflection of the previous cubic's second control point,
         or the current point when the previous command was not C/c/S/s *)
      let c1 := match i_ctrl st with CubicCtrl q => reflect cur q | _ => cur end in
      let c2 := at_ ab cur (argn a 0) (argn a 1) in
      let p := at_ ab cur (argn a 2) (argn a 3) in
      (mk_i p (i_start st) (CubicCtrl c2), [SegCubic cur c1 c2 p])
    else if Ascii.eqb u "Q" then
      let c1 := at_ ab cur (argn a 0) (argn a 1) in
      let p := at_ ab cur (argn a 2) (argn a 3) in
      (mk_i p (i_start st) (QuadCtrl c1), [SegQuad cur c1 p])
    else if Ascii.eqb u "T" then
      let c1 := match i_ctrl st with QuadCtrl q => reflect cur q | _ => cur end in
      let p := at_ ab cur (argn a 0) (argn a 1) in
      (mk_i p (i_start st) (QuadCtrl c1), [SegQuad cur c1 p])
    else if Ascii.eqb u "A" then
      let p := at_ ab cur (argn a 5) (argn a 6) in
      (mk_i p (i_start st) NoCtrl, [SegArc cur (argn a 0) (argn a 1) (argn a 2) (argn a 3) (argn a 4) p])
    else if Ascii.eqb u "Z" then
      (mk_i (i_start st) (i_start st) NoCtrl, [SegClose cur (i_start st)])
    else (st, []).

  Definition istate0 : istate := mk_i (P (zero N) (zero N)) (P (zero N) (zero N)) NoCtrl.

  Fixpoint interp_from (st : istate) (p : list (ascii * list num)) : istate * list seg :=
    match p with
    | [] => (st, [])
    | (c, a) :: r =>
        let '(st1, s1) := interp_cmd st c a in
        let '(st2, s2) := interp_from st1 r in
        (st2, s1 ++ s2)
    end.

  Definition interp (p : list (ascii * list num)) : list seg := snd (interp_from istate0 p).
End PathSem.
