(* spec/Composite.v — source-over compositing of premultiplied RGBA at one point of the canvas
   (SVG 1.1 §14, simple alpha compositing) and group opacity as an isolated layer. *)
From Coq Require Import Reals Lra List.
Import ListNotations.
Local Open Scope R_scope.

Record rgba := mk_rgba { cr : R; cg : R; cb : R; ca : R }.   (* premultiplied *)
Definition transparent : rgba := mk_rgba 0 0 0 0.
Definition over (src dst : rgba) : rgba :=
  mk_rgba (cr src + cr dst * (1 - ca src)) (cg src + cg dst * (1 - ca src))
          (cb src + cb dst * (1 - ca src)) (ca src + ca dst * (1 - ca src)).
Definition scale (k : R) (c : rgba) : rgba := mk_rgba (k * cr c) (k * cg c) (k * cb c) (k * ca c).

(* what is painted at the point: a leaf contributes its colour (coverage and own opacity already
   applied); a group composites its children in document order and is then faded as a whole *)
Inductive layer := LLeaf (c : rgba) | LGroup (alpha : R) (kids : list layer).

Fixpoint comp (l : layer) : rgba :=
  match l with
  | LLeaf c => c
  | LGroup a kids => scale a ((fix go (ks : list layer) (acc : rgba) : rgba :=
                                 match ks with [] => acc | k :: r => go r (over (comp k) acc) end) kids transparent)
  end.

Definition comp_list (ks : list layer) (acc : rgba) : rgba := fold_left (fun acc k => over (comp k) acc) ks acc.

(* multiplying an opacity into a layer (what flattening a group does to each child) *)
Definition fade (a : R) (l : layer) : layer :=
  match l with LLeaf c => LLeaf (scale a c) | LGroup b kids => LGroup (a * b) kids end.
