(* spec/PathGrammar.v - the SVG 1.1 path data grammar (REC-SVG11 §8.3.9 BNF) as a deterministic
   recursive-descent recogniser with the standard's maximal-munch rule, written from the BNF and
   independent of picosvg's tokenizer.  Result: the exploded command list (moveto continuing as
   lineto) with every number as an exact decimal.  This is the specification side of C10. *)
From Coq Require Import ZArith List Bool Ascii String.
From Pico Require Import Num PyStr Lex.
Import ListNotations.
Local Open Scope char_scope.

(* wsp: #x20 | #x9 | #xD | #xA *)
Definition is_wsp (c : ascii) : bool :=
  Ascii.eqb c " " || Ascii.eqb c "009" || Ascii.eqb c "013" || Ascii.eqb c "010".

Fixpoint skip_wsp (s : chars) : chars :=
  match s with c :: r => if is_wsp c then skip_wsp r else s | [] => [] end.

(* comma-wsp: (wsp+ comma? wsp* ) | (comma wsp* ); returns (consumed a comma?, something consumed?, rest) *)
Definition comma_wsp (s : chars) : bool * bool * chars :=
  let s1 := skip_wsp s in
  let had_ws := negb (Nat.eqb (List.length s1) (List.length s)) in
  match s1 with
  | "," :: r => (true, true, skip_wsp r)
  | _ => (false, had_ws, s1)
  end.

(* number: sign? (digit-sequence ("." digit-sequence?)? | "." digit-sequence) exponent?
   maximal munch; an exponent is taken only when complete *)
Definition g_number (signed : bool) (s : chars) : option (dec * chars) :=
  let '(neg, s1, has_sign) := match s with
                    | c :: r => if is_sign c then (Ascii.eqb c "-", r, true) else (false, s, false)
                    | [] => (false, s, false) end in
  if has_sign && negb signed then None else
  let '(ip, s2) := take_while is_digit s1 in
  let '(fp, s3) := match s2 with
                   | "." :: r => let '(fp, r') := take_while is_digit r in (fp, r')
                   | _ => ([], s2) end in
  match ip, fp with
  | [], [] => None                       (* no digit at all: "." or a bare sign *)
  | _, _ =>
      let '(eneg, ed, s4) := scan_exp s3 in
      Some (mk_number neg ip fp eneg ed, s4)
  end.

Definition g_flag (s : chars) : option (dec * chars) :=
  match s with
  | c :: r => if Ascii.eqb c "0" then Some (mk_dec 0 0, r)
              else if Ascii.eqb c "1" then Some (mk_dec 1 0, r) else None
  | [] => None
  end.

Inductive tk := TNum | TNonNeg | TFlag.

Definition shape (c : ascii) : option (list tk) :=
  let u := to_upper c in
  if Ascii.eqb u "M" || Ascii.eqb u "L" || Ascii.eqb u "T" then Some [TNum; TNum]
  else if Ascii.eqb u "H" || Ascii.eqb u "V" then Some [TNum]
  else if Ascii.eqb u "C" then Some [TNum; TNum; TNum; TNum; TNum; TNum]
  else if Ascii.eqb u "S" || Ascii.eqb u "Q" then Some [TNum; TNum; TNum; TNum]
  else if Ascii.eqb u "A" then Some [TNonNeg; TNonNeg; TNum; TFlag; TFlag; TNum; TNum]
  else if Ascii.eqb u "Z" then Some []
  else None.

Definition g_token (t : tk) (s : chars) : option (dec * chars) :=
  match t with TNum => g_number true s | TNonNeg => g_number false s | TFlag => g_flag s end.

(* one argument set; `prev_flagless` tells whether a mandatory comma-wsp is due (before the
   large-arc flag the BNF requires comma-wsp, everywhere else it is optional) *)
Fixpoint g_argset (ts : list tk) (first : bool) (prev : option tk) (s : chars) : option (list dec * chars) :=
  match ts with
  | [] => Some ([], s)
  | t :: r =>
      let '(comma, any, s1) := if first then (false, false, s) else comma_wsp s in
      let mandatory := match prev, t with Some TNum, TFlag => true | _, _ => false end in
      if mandatory && negb any then None else
      match g_token t s1 with
      | None => None
      | Some (v, s2) =>
          match g_argset r false (Some t) s2 with
          | Some (vs, s3) => Some (v :: vs, s3)
          | None => None
          end
      end
  end.

Definition starts_number (s : chars) : bool :=
  match s with c :: _ => is_digit c || is_sign c || Ascii.eqb c "." | [] => false end.

(* argument sequence: argset (comma-wsp? argset)* *)
Fixpoint g_argseq (fuel : nat) (ts : list tk) (s : chars) : option (list (list dec) * chars) :=
  match fuel with
  | O => None
  | S f =>
      match g_argset ts true None s with
      | None => None
      | Some (vs, s1) =>
          let '(comma, any, s2) := comma_wsp s1 in
          if starts_number s2 then
            match g_argseq f ts s2 with
            | Some (more, s3) => Some (vs :: more, s3)
            | None => None
            end
          else if comma then None            (* a comma must be followed by another argument set *)
          else Some ([vs], s2)
      end
  end.

Definition implicit_next (c : ascii) : ascii :=
  if Ascii.eqb c "m" then "l" else if Ascii.eqb c "M" then "L" else c.

(* commands: letter wsp* argument-sequence, separated by wsp* *)
Fixpoint g_commands (fuel : nat) (first : bool) (s : chars) : option (list (ascii * list dec)) :=
  match fuel with
  | O => None
  | S f =>
      match skip_wsp s with
      | [] => Some []
      | c :: r =>
          if first && negb (Ascii.eqb (to_upper c) "M") then None   (* a path begins with a moveto *)
          else
          match shape c with
          | None => None
          | Some [] => match g_commands f false r with Some t => Some ((c, []) :: t) | None => None end
          | Some ts =>
              match g_argseq (S (List.length r)) ts (skip_wsp r) with
              | None => None
              | Some (sets, r1) =>
                  let cmds := match sets with
                              | [] => []
                              | a0 :: more => (c, a0) :: map (fun a => (implicit_next c, a)) more
                              end in
                  match g_commands f false r1 with Some t => Some (cmds ++ t) | None => None end
              end
          end
      end
  end.

Definition grammar (s : chars) : option (list (ascii * list dec)) :=
  g_commands (S (List.length s)) true s.
