(* extract/Entry_E2.v — entry points of engine E2 (path data codec, grammar). *)
From Coq Require Import ZArith QArith List Bool Ascii String.
From Pico Require Import Num PyStr Value Lex G_meta PathParse PathGrammar Entry_E1.
Import ListNotations.
Local Open Scope string_scope.

Definition chr_of_s (s : string) : ascii := match s with String c _ => c | EmptyString => "?"%char end.

Definition v_cmds (l : list (ascii * list dec)) : value :=
  VL (map (fun c => VL [VS (String (fst c) EmptyString); VL (map v_dec (snd c))]) l).

Definition entry_E2 (orc : oracle) (name : string) (v : value) : option value :=
  if name =? "parse_svg_path" then
    Some (v_res v_cmds (parse_svg_path (getB (arg 0 v)) (list_of_string (getS (arg 1 v)))))
  else if name =? "grammar" then Some (v_opt v_cmds (grammar (list_of_string (getS v))))
  else if name =? "lexeme_ok" then Some (VB (lexeme_ok (getB (arg 0 v)) (list_of_string (getS (arg 1 v)))))
  else if name =? "print_path" then
    Some (VS (string_of_list (print_path string (fun s : string => list_of_string s)
              (map (fun c => (chr_of_s (getS (arg 0 c)), map getS (getL (arg 1 c)))) (getL v)))))
  else None.
