(* extract/Entry_E3.v — entry points of engine E3 (walk and the path rewrites, path semantics). *)
From Coq Require Import ZArith QArith List Bool Ascii String.
From Pico Require Import Num PyStr Value G_geom G_transform G_arc G_meta G_types G_shapes BasicShapes Arc Walk PathSem Entry_E1.
Import ListNotations.
Local Open Scope string_scope.

Definition chr_of (v : value) : ascii := match getS v with String c _ => c | EmptyString => "?"%char end.
Definition path_of (v : value) : @path QOps :=
  map (fun c => (chr_of (arg 0 c), map getQ (getL (arg 1 c)))) (getL v).
Definition v_path (p : @path QOps) : value :=
  VL (map (fun c => VL [VS (String (fst c) EmptyString); VL (map VQ (snd c))]) p).

Definition v_seg_sem (s : @seg QOps) : value :=
  match s with
  | SegMove p => VL [VS "move"; v_pt p]
  | SegLine a b => VL [VS "line"; v_pt a; v_pt b]
  | SegQuad a c b => VL [VS "quad"; v_pt a; v_pt c; v_pt b]
  | SegCubic a c1 c2 b => VL [VS "cubic"; v_pt a; v_pt c1; v_pt c2; v_pt b]
  | SegArc a rx ry rot l s b => VL [VS "arc"; v_pt a; VQ rx; VQ ry; VQ rot; VQ l; VQ s; v_pt b]
  | SegClose a b => VL [VS "close"; v_pt a; v_pt b]
  end.

Definition entry_E3 (orc : oracle) (name : string) (v : value) : option value :=
  let MO := QMath orc in
  if name =? "explicit_lines" then Some (v_path (explicit_lines (N:=QOps) (path_of v)))
  else if name =? "expand_shorthand" then Some (v_path (expand_shorthand (N:=QOps) (path_of v)))
  else if name =? "absolute" then Some (v_path (absolute (N:=QOps) (path_of v)))
  else if name =? "absolute_moveto" then Some (v_path (absolute_moveto (N:=QOps) (path_of v)))
  else if name =? "relative" then Some (v_path (relative (N:=QOps) (path_of v)))
  else if name =? "move" then Some (v_path (move (N:=QOps) (getQ (arg 1 v)) (getQ (arg 2 v)) (path_of (arg 0 v))))
  else if name =? "subpaths" then Some (VL (map v_path (subpaths (N:=QOps) (path_of v))))
  else if name =? "round_path" then Some (v_path (round_path (N:=QOps) (getZ (arg 1 v)) (path_of (arg 0 v))))
  else if name =? "arcs_to_cubics" then Some (v_path (arcs_to_cubics (N:=QOps) MO (path_of v)))
  else if name =? "as_cmd_seq" then Some (v_path (as_cmd_seq (N:=QOps) MO (path_of v)))
  else if name =? "shape_rect" then
    Some (v_path (rect_cmds (N:=QOps) (getQ (arg 0 v)) (getQ (arg 1 v)) (getQ (arg 2 v)) (getQ (arg 3 v)) (getQ (arg 4 v)) (getQ (arg 5 v))))
  else if name =? "shape_ellipse" then
    Some (v_path (SVGEllipse_as_path QOps (getQ (arg 0 v)) (getQ (arg 1 v)) (getQ (arg 2 v)) (getQ (arg 3 v))))
  else if name =? "shape_circle" then
    Some (v_path (SVGCircle_as_path QOps (getQ (arg 0 v)) (getQ (arg 1 v)) (getQ (arg 2 v))))
  else if name =? "shape_line" then
    Some (v_path (SVGLine_as_path QOps (getQ (arg 0 v)) (getQ (arg 1 v)) (getQ (arg 2 v)) (getQ (arg 3 v))))
  else if name =? "shape_polygon" then
    Some (v_path (polygon_cmds (N:=QOps) (map (fun q => (getQ (arg 0 q), getQ (arg 1 q))) (getL v))))
  else if name =? "shape_polyline" then
    Some (v_path (polyline_cmds (N:=QOps) (map (fun q => (getQ (arg 0 q), getQ (arg 1 q))) (getL v))))
  else if name =? "builder" then
    Some (v_path (b_cmd QOps (chr_of (arg 0 v)) (map getQ (getL (arg 1 v))) []))
  else if name =? "interp" then Some (VL (map v_seg_sem (interp (N:=QOps) (path_of v))))
  else if name =? "path_almost_equals" then
    Some (VB (path_almost_equals (N:=QOps) (getQ (arg 2 v)) (path_of (arg 0 v)) (path_of (arg 1 v))))
  else None.
