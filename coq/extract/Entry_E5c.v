(* extract/Entry_E5c.v — entry points for the attribute inheritance model. *)
From Coq Require Import ZArith QArith List Bool Ascii String.
From Pico Require Import Num PyStr Value G_geom G_transform G_inherit Inherit Structure CheckPico Entry_E1.
Import ListNotations.
Local Open Scope string_scope.

Definition aval_of (v : value) : @aval QOps := match v with VQ q => @ANum QOps q | _ => @AStr QOps (getS v) end.
Definition amap_of (v : value) : @amap QOps := map (fun p => (getS (arg 0 p), aval_of (arg 1 p))) (getL v).
Definition v_aval (a : @aval QOps) : value := match a with AStr s => VS s | ANum q => VQ q end.
Definition v_amap (m : @amap QOps) : value := VL (map (fun p => VL [VS (fst p); v_aval (snd p)]) m).

Fixpoint tnode_of (fuel : nat) (v : value) : @tnode QOps :=
  match fuel with
  | O => TN None []
  | S f => TN (match arg 0 v with VL _ => Some (aff_of (arg 0 v)) | _ => None end) (map (tnode_of f) (getL (arg 1 v)))
  end.
Definition opt_aff (v : value) : option (Affine2D QOps) := match v with VL _ => Some (aff_of v) | _ => None end.

Fixpoint xnode_of (fuel : nat) (v : value) : xnode :=
  match fuel with
  | O => XN "" None []
  | S f => XN (getS (arg 0 v)) (match arg 1 v with VS s => Some s | _ => None end) (map (xnode_of f) (getL (arg 2 v)))
  end.
Fixpoint v_xnode (fuel : nat) (n : xnode) : value :=
  match fuel with
  | O => VN
  | S f => VL [VS (xtag n); match xid n with Some s => VS s | None => VN end; VL (map (v_xnode f) (xkids n))]
  end.

Definition entry_E5c (orc : oracle) (name : string) (v : value) : option value :=
  if name =? "inherit_attrib" then
    Some (v_res v_amap (inherit_attrib (N:=QOps) (amap_of (arg 0 v)) (getS (arg 1 v)) (amap_of (arg 2 v)) (getB (arg 3 v)) (map getS (getL (arg 4 v)))))
  else if name =? "attrib_to_pass_on" then
    Some (v_res v_amap (attrib_to_pass_on (N:=QOps) (amap_of (arg 0 v)) (amap_of (arg 1 v))))
  else if name =? "try_remove_group" then
    Some (v_res (fun o => match o with
                          | Removed kids => VL [VS "removed"; VL (map v_amap kids)]
                          | Kept a => VL [VS "kept"; v_amap a]
                          end)
                (try_remove_group (N:=QOps) (amap_of (arg 0 v)) (map (fun k => (getS (arg 0 k), amap_of (arg 1 k))) (getL (arg 1 v))) (getB (arg 2 v))))
  else if name =? "traverse" then Some (VL (map v_aff (traverse (tnode_of 64 v))))
  else if name =? "use_transform" then
    Some (v_aff (element_transform (opt_aff (arg 3 v)) (use_transform (N:=QOps) (getQ (arg 0 v)) (getQ (arg 1 v)) (opt_aff (arg 2 v)))))
  else if name =? "unnest_transform" then
    Some (v_res v_aff (unnest_transform (N:=QOps) (getQ (arg 0 v)) (getQ (arg 1 v)) (getQ (arg 2 v)) (getQ (arg 3 v))
                         (match arg 4 v with VL _ => Some (rect_of (arg 4 v)) | _ => None end) (getS (arg 5 v)) (opt_aff (arg 6 v))))
  else if name =? "gate" then
    let root := xnode_of 64 (arg 2 v) in
    let at_ := getB (arg 0 v) in
    Some (if getB (arg 1 v)
          then VL [VB (gate_ok_drop at_ root); v_xnode 64 (prune (depth root) at_ [("svg", O)] root)]
          else VL [VB (gate_ok at_ root); v_xnode 64 root])
  else if name =? "inheritable_defaults" then Some (v_amap (inheritable_defaults (N:=QOps)))
  else None.
