(* extract/Entry_E5d.v — entry points of the reference bookkeeping model (C08). *)
From Coq Require Import ZArith QArith List String Bool.
From Pico Require Import Num PyStr Value G_geom G_transform CheckPico Refs Noise Termination Shape Stroke Gradient ObjCache Writeback Defs Flatten Entry_E1 Entry_E3 Entry_E5a Entry_E5b Entry_E5c.
Import ListNotations.
Local Open Scope string_scope.

Definition v_optS (o : option string) : value := match o with Some s => VS s | None => VN end.
Definition optS_of (v : value) : option string := match v with VS s => Some s | _ => None end.

(* a use node carries its href as the tag of a fake first child *)
Definition href_of (n : xnode) : string := match xkids n with k :: _ => xtag k | [] => "" end.
Fixpoint find_id (fuel : nat) (i : string) (n : xnode) : option xnode :=
  match fuel with
  | O => None
  | S f => if match xid n with Some j => j =? i | None => false end then Some n
           else fold_left (fun acc k => match acc with Some r => Some r | None => find_id f i k end) (xkids n) None
  end.
Fixpoint has_use (fuel : nat) (n : xnode) : bool :=
  match fuel with O => false | S f => (xtag n =? "use") || existsb (has_use f) (xkids n) end.
Fixpoint passes (fuel : nat) (target : string -> option xnode) (n : xnode) : xnode :=
  match fuel with
  | O => n
  | S f => if has_use 64 n then passes f target (resolve_use_pass target href_of n) else n
  end.

Definition nsk_of (v : value) : nsk := let s := getS v in if s =? "svg" then NsSvg else if s =? "xlink" then NsXlink else NsOther.
Definition v_nsk (n : nsk) : value := VS (match n with NsSvg => "svg" | NsXlink => "xlink" | NsOther => "other" end).
Fixpoint nnode_of (fuel : nat) (v : value) : nnode :=
  match fuel with
  | O => NComment
  | S f => match v with
           | VS s => if s =? "pi" then NPI else NComment
           | _ => NEl (nsk_of (arg 1 v)) (getS (arg 2 v))
                      (map (fun a => (nsk_of (arg 0 a), getS (arg 1 a), getS (arg 2 a))) (getL (arg 3 v)))
                      (map (nnode_of f) (getL (arg 4 v)))
           end
  end.
Fixpoint v_nnode (fuel : nat) (n : nnode) : value :=
  match fuel with
  | O => VN
  | S f => match n with
           | NComment => VS "comment"
           | NPI => VS "pi"
           | NEl ns t a kids => VL [VS "el"; v_nsk ns; VS t; VL (map (fun x => VL [v_nsk (fst (fst x)); VS (snd (fst x)); VS (snd x)]) a);
                                    VL (map (v_nnode f) kids)]
           end
  end.

(* a leaf is a number, a group is [dissolve; [kids]] *)
Fixpoint ftree_of (fuel : nat) (v : value) : ftree :=
  match fuel with
  | O => FLeaf 0
  | S f => match v with
           | VL _ => FGroup (getB (arg 0 v)) (map (ftree_of f) (getL (arg 1 v)))
           | _ => FLeaf (Z.to_nat (getZ v))
           end
  end.
Fixpoint v_ftree (fuel : nat) (t : ftree) : value :=
  match fuel with
  | O => VN
  | S f => match t with
           | FLeaf i => VNat i
           | FGroup d kids => VL [VB d; VL (map (v_ftree f) kids)]
           end
  end.

Definition entry_E5d (orc : oracle) (name : string) (v : value) : option value :=
  if name =? "new_id" then
    Some (match new_id (getS (arg 0 v)) (map getS (getL (arg 1 v))) with
          | Some s => VL [VS "ok"; VS s] | None => VL [VS "err"; VS "ValueError"] end)
  else if name =? "id_of_target" then Some (v_optS (id_of_target (getS v)))
  else if name =? "remove_orphans" then
    Some (VL (map v_optS (remove_orphans (map (fun e => (getS (arg 0 e), getS (arg 1 e))) (getL (arg 0 v)))
                                         (map getS (getL (arg 1 v))) (map optS_of (getL (arg 2 v))))))
  else if name =? "resolve_use_ids" then
    let root := xnode_of 64 v in
    (* el_by_id is captured once, before the first pass *)
    Some (VL (map VS (ids (passes 6 (fun i => find_id 64 i root) root))))
  else if name =? "clean_root" then Some (v_nnode 64 (clean_root (nnode_of 64 v)))
  else if name =? "use_check" then Some (VB (use_check (use_graph href_of (xnode_of 64 v))))
  else if name =? "follow" then
    (* [[id, href|None] ...], start, limit *)
    let tbl := map (fun e => (getS (arg 0 e), optS_of (arg 1 e))) (getL (arg 0 v)) in
    Some (match follow (fun s => assoc_str_opt s tbl) (Z.to_nat (getZ (arg 2 v))) 0 (getS (arg 1 v)) with
          | Resolved d => VL [VS "resolved"; VQ (inject_Z (Z.of_nat d))]
          | Dangling d => VL [VS "dangling"; VQ (inject_Z (Z.of_nat d))]
          | RecursionError => VL [VS "recursion"] end)
  else if name =? "dash_array" then Some (v_res (fun l => VL (map VQ l)) (dash_array (N:=QOps) (shape_of v)))
  else if name =? "stroke_split" then
    Some (v_res (fun l => VL (map v_shape l)) (stroke_split (QMath orc) (QSkia orc) (shape_of (arg 0 v)) (getQ (arg 1 v))))
  else if name =? "transformed_gradient" then
    let gv := arg 0 v in
    let pr (x : value) := (getQ (arg 0 x), getQ (arg 1 x)) in
    let g := @mk_grad QOps (getB (arg 0 gv)) (pr (arg 1 gv)) (pr (arg 2 gv)) (getQ (arg 3 gv)) (getQ (arg 4 gv)) (aff_of (arg 5 gv)) (getB (arg 6 gv)) in
    Some (v_res (fun r : @grad QOps => VL [VL [VQ (fst (g_p1 r)); VQ (snd (g_p1 r))]; VL [VQ (fst (g_p2 r)); VQ (snd (g_p2 r))]; v_aff (g_tf r); VB (negb (g_bbox_units r))])
                (transformed_gradient (N:=QOps) (round_nd QOps 6) (fun a => Affine2D_round QOps a 6) g (rect_of (arg 1 v)) (aff_of (arg 2 v))))
  else if name =? "gradient_from_element" then
    (* [radial, [[k, v]...], vbw, vbh] -> [p1, p2, r, fr, bbox_units] *)
    let tbl := map (fun e => (getS (arg 0 e), getS (arg 1 e))) (getL (arg 1 v)) in
    Some (v_res (fun r : @grad QOps => VL [VL [VQ (fst (g_p1 r)); VQ (snd (g_p1 r))]; VL [VQ (fst (g_p2 r)); VQ (snd (g_p2 r))]; VQ (g_r r); VQ (g_fr r); VB (g_bbox_units r)])
                (from_element (QMath orc) (getB (arg 0 v)) (fun k => assoc_str_opt k tbl) (getQ (arg 2 v)) (getQ (arg 3 v)) (Affine2D_identity QOps)))
  else if name =? "resolve_chain" then
    let maps := map (fun m => map (fun e => (getS (arg 0 e), getS (arg 1 e))) (getL m)) (getL (arg 1 v)) in
    let fields := map (fun f => map getS (getL f)) (getL (arg 0 v)) in
    let nstops := map (fun x => Z.to_nat (getZ x)) (getL (arg 2 v)) in
    (* stops are represented by their owner's index; only the count matters here *)
    let stops := fold_right (fun n acc => match n with O => acc | _ => n end) O nstops in
    Some (VL [VL (map (fun e => VL [VS (fst e); VS (snd e)]) (resolve_chain fields maps)); VQ (inject_Z (Z.of_nat stops))])
  else if name =? "stroke_split_ids" then
    Some (VL (map v_optS (stroke_split_ids (optS_of (arg 0 v)) (getB (arg 1 v)))))
  else if name =? "add_to_defs" then Some (VL (map VS (add_to_defs (map getS (getL (arg 0 v))) (getS (arg 1 v)))))
  else if name =? "reconvert" then Some (VL (map VS (reconvert (map getS (getL v)))))
  else if name =? "flatten" then Some (VL (map (v_ftree 64) (flatten (ftree_of 64 v))))
  else if name =? "replace_el" then
    Some (VL (map (v_ftree 64) (map (ftree_of 64) (getL (arg 0 v)) ++ replace_el (ftree_of 64 (arg 1 v)) ++ map (ftree_of 64) (getL (arg 2 v)))%list))
  else if name =? "write_field" then
    Some (v_optS (write_field (map (fun e => (getS (arg 0 e), getS (arg 1 e))) (getL (arg 0 v))) (getS (arg 1 v)) (getS (arg 2 v)) (getS (arg 3 v))))
  else if name =? "read_field" then
    Some (VS (read_field (map (fun e => (getS (arg 0 e), getS (arg 1 e))) (getL (arg 0 v))) (getS (arg 1 v)) (getS (arg 2 v)) (optS_of (arg 3 v))))
  else None.
