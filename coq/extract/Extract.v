(* extract/Extract.v — extraction of the executable models to OCaml.
   Directives: ExtrOcamlBasic and ExtrOcamlString only (bool, option, unit,
   list, prod, sumbool -> OCaml natives; ascii -> char, string -> char list).
   Z, positive, Q, nat stay Coq inductives. *)
From Coq Require Import Extraction ExtrOcamlBasic ExtrOcamlString.
From Coq Require Import ZArith QArith List String.
From Pico Require Import Num PyStr Value Entry_E1 Entry_E4 Entry_E3 Entry_E2 Entry_E5a Entry_E5b Entry_E5c Entry_E5d.
Import ListNotations.
Local Open Scope string_scope.

Definition dispatch (orc : oracle) (name : string) (v : value) : value :=
  match entry_E1 orc name v with Some r => r | None =>
  match entry_E4 orc name v with Some r => r | None =>
  match entry_E3 orc name v with Some r => r | None =>
  match entry_E2 orc name v with Some r => r | None =>
  match entry_E5a orc name v with Some r => r | None =>
  match entry_E5b orc name v with Some r => r | None =>
  match entry_E5c orc name v with Some r => r | None =>
  match entry_E5d orc name v with Some r => r | None =>
  VL [VS "err"; VS "NoSuchEntry"] end end end end end end end end.


Extraction "picomodel.ml" dispatch.
