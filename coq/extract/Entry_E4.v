(* extract/Entry_E4.v — entry points of engine E4 (arc -> cubic). *)
From Coq Require Import ZArith QArith List Bool Ascii String.
From Pico Require Import Num PyStr Value G_geom G_transform G_arc Arc Entry_E1.
Import ListNotations.
Local Open Scope string_scope.

Definition v_seg (t : option (Point QOps) * option (Point QOps) * Point QOps) : value :=
  VL [v_opt v_pt (fst (fst t)); v_opt v_pt (snd (fst t)); v_pt (snd t)].

Definition entry_E4 (orc : oracle) (name : string) (v : value) : option value :=
  let MO := QMath orc in
  if name =? "arc_to_cubic" then
    Some (v_res (fun l => VL (map v_seg l))
            (arc_to_cubic MO (pt_of (arg 0 v)) (getQ (arg 1 v)) (getQ (arg 2 v)) (getQ (arg 3 v))
                          (getQ (arg 4 v)) (getQ (arg 5 v)) (pt_of (arg 6 v))))
  else None.
