(* extract/Entry_E1.v — entry points of engine E1 (affine algebra, rectangles). *)
From Coq Require Import ZArith QArith List Bool Ascii String.
From Pico Require Import Num PyStr Value Lex G_geom G_transform TransformParse.
Import ListNotations.
Local Open Scope string_scope.

Definition aff_of (v : value) : Affine2D QOps :=
  @mk_Affine2D QOps (getQ (arg 0 v)) (getQ (arg 1 v)) (getQ (arg 2 v))
               (getQ (arg 3 v)) (getQ (arg 4 v)) (getQ (arg 5 v)).
Definition v_aff (a : Affine2D QOps) : value :=
  VL [VQ (Affine2D_a a); VQ (Affine2D_b a); VQ (Affine2D_c a);
      VQ (Affine2D_d a); VQ (Affine2D_e a); VQ (Affine2D_f a)].
Definition pt_of (v : value) : Point QOps := @mk_Point QOps (getQ (arg 0 v)) (getQ (arg 1 v)).
Definition v_pt (p : Point QOps) : value := VL [VQ (Point_x p); VQ (Point_y p)].
Definition rect_of (v : value) : Rect QOps :=
  @mk_Rect QOps (getQ (arg 0 v)) (getQ (arg 1 v)) (getQ (arg 2 v)) (getQ (arg 3 v)).
Definition v_rect (r : Rect QOps) : value :=
  VL [VQ (Rect_x r); VQ (Rect_y r); VQ (Rect_w r); VQ (Rect_h r)].
Definition v_pair {A B} (f : A -> value) (g : B -> value) (p : A * B) : value :=
  VL [f (fst p); g (snd p)].

Definition v_dec (d : dec) : value := VQ (@dec_val QOps d).
Definition tf_name (o : tf_op) : string :=
  match o with TMatrix => "matrix" | TTranslate => "translate" | TScale => "scale"
             | TRotate => "rotate" | TSkewX => "skewx" | TSkewY => "skewy" end.

Definition entry_E1 (orc : oracle) (name : string) (v : value) : option value :=
  let MO := QMath orc in
  if name =? "matmul" then Some (v_aff (Affine2D___matmul__ QOps (aff_of (arg 0 v)) (aff_of (arg 1 v))))
  else if name =? "map_point" then Some (v_pt (Affine2D_map_point QOps (aff_of (arg 0 v)) (pt_of (arg 1 v))))
  else if name =? "compose_ltr" then Some (v_aff (Affine2D_compose_ltr QOps (map aff_of (getL v))))
  else if name =? "inverse" then Some (v_aff (Affine2D_inverse QOps (aff_of v)))
  else if name =? "is_degenerate" then Some (VB (Affine2D_is_degenerate QOps (aff_of v)))
  else if name =? "translate" then
    Some (v_aff (Affine2D_translate QOps (aff_of (arg 0 v)) (getQ (arg 1 v)) (getQ (arg 2 v))))
  else if name =? "scale" then
    Some (v_aff (Affine2D_scale QOps (aff_of (arg 0 v)) (getQ (arg 1 v))
                   (match arg 2 v with VQ q => Some q | _ => None end)))
  else if name =? "rotate" then
    Some (v_aff (Affine2D_rotate QOps MO (aff_of (arg 0 v)) (getQ (arg 1 v)) (getQ (arg 2 v)) (getQ (arg 3 v))))
  else if name =? "skewx" then Some (v_aff (Affine2D_skewx QOps MO (aff_of (arg 0 v)) (getQ (arg 1 v))))
  else if name =? "skewy" then Some (v_aff (Affine2D_skewy QOps MO (aff_of (arg 0 v)) (getQ (arg 1 v))))
  else if name =? "rect_to_rect" then
    Some (v_res v_aff (Affine2D_rect_to_rect QOps (rect_of (arg 0 v)) (rect_of (arg 1 v)) (getS (arg 2 v))))
  else if name =? "decompose_translation" then
    Some (v_res (v_pair v_aff v_aff) (Affine2D_decompose_translation QOps (aff_of v)))
  else if name =? "decompose_scale" then
    Some (v_res (v_pair v_aff v_aff) (Affine2D_decompose_scale QOps MO (aff_of v)))
  else if name =? "affine_round" then
    Some (v_aff (Affine2D_round QOps (aff_of (arg 0 v)) (getZ (arg 1 v))))
  else if name =? "parse_transform_ops" then
    Some (v_res (fun l => VL (map (fun od => VL [VS (tf_name (fst od)); VL (map v_dec (snd od))]) l))
                (parse_transform_ops (list_of_string (getS v))))
  else if name =? "parse_svg_transform" then
    Some (v_res v_aff (parse_svg_transform MO (list_of_string (getS v))))
  else if name =? "py_float" then Some (v_opt v_dec (py_float (list_of_string (getS v))))
  else if name =? "rect_union" then Some (v_rect (Rect_union QOps (rect_of (arg 0 v)) (rect_of (arg 1 v))))
  else if name =? "rect_empty" then Some (VB (Rect_empty QOps (rect_of v)))
  else None.
