(* extract/Value.v — the wire value type shared by every model entry point.
   All glue between the typed models and the line protocol is written here in
   Gallina (total, typed), so the OCaml driver only parses/prints [value]. *)
From Coq Require Import ZArith QArith Qround List Bool Ascii String.
From Pico Require Import Num PyStr.
Import ListNotations.
Local Open Scope string_scope.

Inductive value :=
| VQ (q : Q) | VS (s : string) | VL (l : list value) | VB (b : bool) | VN.

Definition oracle := string -> value -> value.

Definition getQ (v : value) : Q := match v with VQ q => q | _ => 0%Q end.
Definition getS (v : value) : string := match v with VS s => s | _ => EmptyString end.
Definition getL (v : value) : list value := match v with VL l => l | _ => [] end.
Definition getB (v : value) : bool := match v with VB b => b | _ => false end.
Definition getZ (v : value) : Z := match v with VQ q => Qnum q | _ => 0%Z end.
Definition arg (n : nat) (v : value) : value := nth n (getL v) VN.
Definition VZ (z : Z) : value := VQ (inject_Z z).
Definition VNat (n : nat) : value := VZ (Z.of_nat n).

Definition v_err (e : err) : value :=
  VL [VS "err"; VS (match e with
                    | EValue => "ValueError" | EAssert => "AssertionError"
                    | EZeroDiv => "ZeroDivisionError" | ERecursion => "RecursionError"
                    | EOther => "Other" end)].
Definition v_res {A} (f : A -> value) (r : result A) : value :=
  match r with Ok a => VL [VS "ok"; f a] | Err e => v_err e end.
Definition v_opt {A} (f : A -> value) (o : option A) : value :=
  match o with Some a => f a | None => VN end.

(* transcendental functions answered by the oracle (the Python side computes
   math.cos etc. on the float nearest to the rational and returns it exactly) *)
Definition QMath (orc : oracle) : MathOps QOps :=
  @Build_MathOps QOps
    (fun x => getQ (orc "cos" (VQ x)))
    (fun x => getQ (orc "sin" (VQ x)))
    (fun x => getQ (orc "tan" (VQ x)))
    (fun x => getQ (orc "sqrt" (VQ x)))
    (fun y x => getQ (orc "atan2" (VL [VQ y; VQ x])))
    (fun x y => getQ (orc "hypot" (VL [VQ x; VQ y])))
    (fun x => Qceiling x)
    (getQ (orc "pi" VN)).
