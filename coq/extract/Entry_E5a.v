(* extract/Entry_E5a.v — the Skia oracle instance over Q and the entry points of the pathops wrappers. *)
From Coq Require Import ZArith QArith List Bool Ascii String.
From Pico Require Import Num PyStr Value G_geom G_transform Walk Skia Entry_E1 Entry_E3.
Import ListNotations.
Local Open Scope string_scope.

Definition v_rule (r : rule) : value := VB (match r with EvenOdd => true | NonZero => false end).
Definition rule_of_v (v : value) : rule := if getB v then EvenOdd else NonZero.
Definition op_name (k : opkind) : string :=
  match k with OpUnion => "union" | OpIntersection => "intersection" | OpDifference => "difference" end.
Definition op_of_name (s : string) : opkind :=
  if s =? "union" then OpUnion else if s =? "difference" then OpDifference else OpIntersection.

Definition ok_path (v : value) : option (@path QOps) :=
  if getS (arg 0 v) =? "ok" then Some (path_of (arg 1 v)) else None.

Definition QSkia (orc : oracle) : @skia QOps := {|
  sk_op := fun k p1 r1 p2 r2 => ok_path (orc "sk_op" (VL [VS (op_name k); v_path p1; v_rule r1; v_path p2; v_rule r2]));
  sk_simplify := fun p r => ok_path (orc "sk_simplify" (VL [v_path p; v_rule r]));
  sk_transform := fun p a => match ok_path (orc "sk_transform" (VL [v_path p; v_aff a])) with Some q => q | None => [] end;
  sk_stroke_raw := fun p cap join w m tol ds off =>
    match ok_path (orc "sk_stroke_raw" (VL [v_path p; VS cap; VS join; VQ w; VQ m; VQ tol; VL (map VQ ds); VQ off])) with
    | Some q => q | None => [] end;
  sk_bounds := fun p => let r := arg 1 (orc "sk_bounds" (v_path p)) in
                        (getQ (arg 0 r), getQ (arg 1 r), getQ (arg 2 r), getQ (arg 3 r));
  sk_area := fun p r => getQ (arg 1 (orc "sk_area" (VL [v_path p; v_rule r])))
|}.

Definition operands_of (v : value) : list (@path QOps * rule) :=
  map (fun o => (path_of (arg 0 o), rule_of_v (arg 1 o))) (getL v).

Definition entry_E5a (orc : oracle) (name : string) (v : value) : option value :=
  let sk := QSkia orc in
  if name =? "do_pathop" then
    Some (v_res (v_opt v_path) (do_pathop sk (op_of_name (getS (arg 0 v))) (operands_of (arg 1 v))))
  else if name =? "remove_overlaps" then
    Some (v_res v_path (remove_overlaps sk (path_of (arg 0 v)) (rule_of_v (arg 1 v))))
  else if name =? "transform_path" then
    Some (v_res v_path (transform_path sk (path_of (arg 0 v)) (aff_of (arg 1 v))))
  else if name =? "stroke_path" then
    Some (v_res v_path (stroke_path sk (path_of (arg 0 v)) (getS (arg 1 v)) (getS (arg 2 v)) (getQ (arg 3 v))
                                    (getQ (arg 4 v)) (getQ (arg 5 v)) (map getQ (getL (arg 6 v))) (getQ (arg 7 v))))
  else if name =? "bounding_box" then
    Some (v_res (fun b => VL [VQ (fst (fst (fst b))); VQ (snd (fst (fst b))); VQ (snd (fst b)); VQ (snd b)])
                (bounding_box sk (path_of v)))
  else if name =? "path_area" then
    Some (v_res VQ (path_area sk (path_of (arg 0 v)) (rule_of_v (arg 1 v))))
  else None.
