(* extract/Entry_E5b.v — typed shapes on the wire; might_paint and subpath pruning. *)
From Coq Require Import ZArith QArith List Bool Ascii String.
From Pico Require Import Num PyStr Value G_geom G_transform Walk Skia Shape Clip Reuse Structure Clips Entry_E1 Entry_E3 Entry_E5a.
Import ListNotations.
Local Open Scope string_scope.

(* wire order of a shape: id clip-path clip-rule fill fill-opacity fill-rule stroke stroke-width linecap linejoin
   miterlimit dasharray dashoffset stroke-opacity opacity transform style display d *)
Definition shape_of (v : value) : @shape QOps :=
  @mk_shape QOps (getS (arg 0 v)) (getS (arg 1 v)) (getS (arg 2 v)) (getS (arg 3 v)) (getQ (arg 4 v)) (getS (arg 5 v))
           (getS (arg 6 v)) (getQ (arg 7 v)) (getS (arg 8 v)) (getS (arg 9 v)) (getQ (arg 10 v)) (getS (arg 11 v))
           (getQ (arg 12 v)) (getQ (arg 13 v)) (getQ (arg 14 v)) (getS (arg 15 v))
           (map (fun d => (getS (arg 0 d), getS (arg 1 d))) (getL (arg 16 v))) (getS (arg 17 v)) (path_of (arg 18 v)).
Definition v_shape (s : @shape QOps) : value :=
  VL [VS (s_id s); VS (s_clip_path s); VS (s_clip_rule s); VS (s_fill s); VQ (s_fill_opacity s); VS (s_fill_rule s);
      VS (s_stroke s); VQ (s_stroke_width s); VS (s_linecap s); VS (s_linejoin s); VQ (s_miterlimit s); VS (s_dasharray s);
      VQ (s_dashoffset s); VQ (s_stroke_opacity s); VQ (s_opacity s); VS (s_transform s);
      VL (map (fun d => VL [VS (fst d); VS (snd d)]) (s_style s)); VS (s_display s); v_path (s_d s)].

(* remove_empty_subpaths: keep the subpaths that, carrying this shape's own attributes, might paint *)
Definition with_d (sh : @shape QOps) (d : @path QOps) : @shape QOps :=
  @mk_shape QOps (s_id sh) (s_clip_path sh) (s_clip_rule sh) (s_fill sh) (s_fill_opacity sh) (s_fill_rule sh) (s_stroke sh)
    (s_stroke_width sh) (s_linecap sh) (s_linejoin sh) (s_miterlimit sh) (s_dasharray sh) (s_dashoffset sh) (s_stroke_opacity sh)
    (s_opacity sh) (s_transform sh) (s_style sh) (s_display sh) d.
Fixpoint keep_painting (MO : MathOps QOps) (sk : @skia QOps) (sh : @shape QOps) (l : list (@path QOps)) : result (@path QOps) :=
  match l with
  | [] => Ok []
  | sp :: r =>
      match might_paint MO sk (with_d sh sp) with
      | Err e => Err e
      | Ok b => match keep_painting MO sk sh r with
                | Err e => Err e
                | Ok rest => Ok (if b then (sp ++ rest)%list else rest)
                end
      end
  end.
Definition remove_empty_subpaths (MO : MathOps QOps) (sk : @skia QOps) (sh : @shape QOps) : result (@path QOps) :=
  keep_painting MO sk sh (subpaths (N:=QOps) (s_d sh)).

Definition opt_aff_b (v : value) : option (Affine2D QOps) := match v with VL _ => Some (aff_of v) | _ => None end.
Definition clipdef_of (v : value) : @clipdef QOps :=
  mk_clipdef (opt_aff_b (arg 1 v)) (map (fun c => (shape_of (arg 0 c), opt_aff_b (arg 1 c))) (getL (arg 2 v)))
             (match arg 3 v with VS s => Some s | _ => None end)
             (match arg 4 v with VS s => Some s | _ => None end).
Definition lookup_of (v : value) : string -> option (@clipdef QOps) :=
  fun id => match find (fun e => getS (arg 0 e) =? id) (getL v) with Some e => Some (clipdef_of e) | None => None end.

Definition entry_E5b (orc : oracle) (name : string) (v : value) : option value :=
  let MO := QMath orc in let sk := QSkia orc in
  if name =? "might_paint" then Some (v_res VB (might_paint MO sk (shape_of v)))
  else if name =? "apply_style" then Some (v_res v_shape (apply_style (N:=QOps) (shape_of v)))
  else if name =? "remove_empty_subpaths" then Some (v_res v_path (remove_empty_subpaths MO sk (shape_of v)))
  else if name =? "resolve_clip" then
    Some (v_res v_path (resolve_clip MO sk 16 (lookup_of (arg 0 v)) (getS (arg 1 v)) (aff_of (arg 2 v))))
  else if name =? "clip_leaf" then
    Some (v_res v_path (clip_leaf MO sk (path_of (arg 0 v)) (rule_of_v (arg 1 v)) (map path_of (getL (arg 2 v)))))
  else if name =? "affine_between" then
    Some (v_res (v_opt v_aff) (affine_between_code MO (path_of (arg 0 v)) (path_of (arg 1 v)) (getQ (arg 2 v))))
  else if name =? "apply_affine" then Some (v_path (apply_affine MO (aff_of (arg 0 v)) (path_of (arg 1 v))))
  else if name =? "rect_intersection" then
    Some (v_opt v_rect (Rect_intersection QOps (rect_of (arg 0 v)) (rect_of (arg 1 v))))
  else if name =? "shape_bbox" then Some (v_res v_rect (shape_bbox MO sk (shape_of v)))
  else if name =? "clip_shapes" then
    Some (v_res (fun l => VL (map v_shape l)) (clip_shapes MO sk (rect_of (arg 0 v)) (map shape_of (getL (arg 1 v)))))
  else if name =? "union_boxes" then
    Some (match map rect_of (getL v) with [] => VN | b :: r => v_rect (union_boxes b r) end)
  else None.
