(* model/Refs.v — hand model (H) of the id / reference bookkeeping of svg.py (C08):
   _new_id (lowest free "<template>%d"), the id stripping of _resolve_use, the splitting of a
   stroked shape, _id_of_target / _remove_orphaned_gradients. *)
From Coq Require Import ZArith List Bool Ascii String DecimalString Decimal.
From Pico Require Import Num PyStr CheckPico.
Import ListNotations.
Local Open Scope string_scope.

Definition nat_str (n : nat) : string := NilEmpty.string_of_uint (Nat.to_uint n).

(* for i in range(1 << 16): potential = template % i; if no element has that id: return it *)
Fixpoint new_id_loop (prefix : string) (existing : list string) (fuel i : nat) : option string :=
  match fuel with
  | O => None                                   (* raise ValueError("No free id") *)
  | S f => let cand := prefix ++ nat_str i in
           if str_in cand existing then new_id_loop prefix existing f (S i) else Some cand
  end.
Definition new_id (prefix : string) (existing : list string) : option string :=
  new_id_loop prefix existing 65536 0.

(* ids of a tree, in document order *)
Fixpoint ids (n : xnode) : list string :=
  match n with
  | XN _ i kids => (match i with Some s => [s] | None => [] end) ++ flat_map ids kids
  end.

(* for el in new_el.getiterator("*"): del el.attrib["id"] *)
Fixpoint strip_ids (n : xnode) : xnode :=
  match n with XN t _ kids => XN t None (map strip_ids kids) end.

(* one pass of _resolve_use over the tree: every use becomes a group around an id-free copy of its
   target (the use's own id is lost: _try_remove_group keeps nothing but opacity on a kept group and
   id is not inherited by the child of a removed one); `target` is el_by_id *)
Fixpoint resolve_use_pass (target : string -> option xnode) (href : xnode -> string) (n : xnode) : xnode :=
  match n with
  | XN t i kids =>
      if t =? "use" then
        match target (href n) with
        | Some tg => XN "g" None [strip_ids tg]
        | None => n                               (* raises in the code; the pass is then abandoned *)
        end
      else XN t i (map (resolve_use_pass target href) kids)
  end.

(* _stroke: one shape becomes (fill, stroke) with both ids cleared, or the stroke alone keeping it *)
Definition stroke_split_ids (i : option string) (fill_paints : bool) : list (option string) :=
  if fill_paints then [None; None] else [i].

(* ^url[(]#([\w.:-]+)[)](\s+\S+)?$  (ASCII \w; Python's \w also admits non-ASCII letters — not modelled) *)
Definition is_word (c : ascii) : bool :=
  is_lower c || is_upper c || is_digit c || Ascii.eqb c "_" || Ascii.eqb c "-" || Ascii.eqb c "." || Ascii.eqb c ":".
Definition is_space_chr (c : ascii) : bool :=
  Ascii.eqb c " " || Ascii.eqb c "009" || Ascii.eqb c "010" || Ascii.eqb c "011" || Ascii.eqb c "012" || Ascii.eqb c "013".
Fixpoint drop_spaces (s : string) : nat * string :=
  match s with
  | String c r => if is_space_chr c then let '(n, rest) := drop_spaces r in (S n, rest) else (O, s)
  | EmptyString => (O, EmptyString)
  end.
Fixpoint take_nonspace (s : string) : string * string :=
  match s with
  | String c r => if is_space_chr c then (EmptyString, s) else let '(w, rest) := take_nonspace r in (String c w, rest)
  | EmptyString => (EmptyString, EmptyString)
  end.
Definition at_end (s : string) : bool := (s =? "") || (s =? String "010" EmptyString).   (* `$` also matches before a trailing newline *)
(* what may follow the closing parenthesis: nothing, or white space and one fallback token *)
Definition fallback_ok (rest : string) : bool :=
  at_end rest ||
  (let '(n, r1) := drop_spaces rest in
   match n with
   | O => false
   | S _ => let '(w, r2) := take_nonspace r1 in negb (w =? "") && at_end r2
   end).
Fixpoint take_word (s : string) : string * string :=
  match s with
  | String c r => if is_word c then let '(w, rest) := take_word r in (String c w, rest) else (EmptyString, s)
  | EmptyString => (EmptyString, EmptyString)
  end.
Definition id_of_target (url : string) : option string :=
  if str_prefix "url(#" url then
    let '(w, rest) := take_word (substring 5 (String.length url - 5) url) in
    match rest with
    | String ")" after => if negb (w =? "") && fallback_ok after then Some w else None
    | _ => None
    end
  else None.

(* _remove_orphaned_gradients: `els` are the (tag, id) of all elements carrying an id, `grads` the
   ids (if any) of the gradient elements, `fills` the fill of every shape *)
Definition is_gradient_tag (t : string) : bool := (t =? "linearGradient") || (t =? "radialGradient").
Definition count_id (i : string) (els : list (string * string)) : nat :=
  List.length (filter (fun e => snd e =? i) els).
Definition used_gradient (els : list (string * string)) (fill : string) : option string :=
  if str_prefix "url(" fill then
    match id_of_target fill with
    | Some i =>
        (* xpath_one: exactly one element with that id, else ValueError -> skipped *)
        match filter (fun e => snd e =? i) els with
        | [(t, _)] => if is_gradient_tag t then Some i else None
        | _ => None
        end
    | None => None
    end
  else None.
Definition used_ids (els : list (string * string)) (fills : list string) : list string :=
  flat_map (fun f => match used_gradient els f with Some i => [i] | None => [] end) fills.
Definition keep_gradient (used : list string) (g : option string) : bool :=
  match g with Some i => str_in i used | None => false end.
Definition remove_orphans (els : list (string * string)) (fills : list string) (grads : list (option string)) : list (option string) :=
  filter (keep_gradient (used_ids els fills)) grads.
