(* model/Memo.v — hand model (H) of the one memoisation in the code base (C16):
   @lru_cache _inherited_attrib, a class-level cache shared by all SVG objects, cleared at the start
   of every _update_etree and then queried once per cached shape element.
   Keys are (object, element) identities, values the inherited-attribute maps. *)
From Coq Require Import List Bool.
Import ListNotations.

Section Memo.
  Variables K V : Type.
  Variable keq : K -> K -> bool.
  Hypothesis keq_spec : forall a b, keq a b = true <-> a = b.

  Definition cache := list (K * V).
  Fixpoint lookup (c : cache) (k : K) : option V :=
    match c with [] => None | (k', v) :: r => if keq k k' then Some v else lookup r k end.

  (* one memoised call of f *)
  Definition call (f : K -> V) (c : cache) (k : K) : V * cache :=
    match lookup c k with Some v => (v, c) | None => (f k, (k, f k) :: c) end.

  (* the events of a process: cache_clear(), or a call while the underlying function is f
     (the function changes whenever a tree is mutated or another document is being converted) *)
  Inductive event := Clear | Call (f : K -> V) (k : K).

  Fixpoint run (es : list event) (c : cache) : list V * cache :=
    match es with
    | [] => ([], c)
    | Clear :: r => run r []
    | Call f k :: r => let '(v, c') := call f c k in let '(vs, c'') := run r c' in (v :: vs, c'')
    end.

  (* what the same events return without any cache *)
  Fixpoint run_direct (es : list event) : list V :=
    match es with
    | [] => []
    | Clear :: r => run_direct r
    | Call f k :: r => f k :: run_direct r
    end.

  (* discipline: every entry in the cache agrees with the function of every later call in the same
     phase — guaranteed when a phase (the calls between two clears) uses one function, or functions
     that agree on the keys cached so far *)
  Definition coherent_with (c : cache) (f : K -> V) : Prop := forall k v, lookup c k = Some v -> v = f k.

  Fixpoint disciplined (es : list event) (c : cache) : Prop :=
    match es with
    | [] => True
    | Clear :: r => disciplined r []
    | Call f k :: r => coherent_with c f /\ disciplined r (snd (call f c k))
    end.
End Memo.
