(* model/Termination.v — hand model (H) of the loops and recursions of svg.py that follow references
   (C17): the reference-graph check at the head of _resolve_use (after the fix), the pass structure
   of its while loop, and the href recursion of _apply_gradient_template.  (_resolve_clip_path is
   modelled with fuel in model/Clips.v.) *)
From Coq Require Import List Bool Ascii String Arith.
From Pico Require Import PyStr CheckPico.
Import ListNotations.
Local Open Scope string_scope.

Definition graph : Type := list (string * list string).     (* id -> ids referenced by use elements at or below it *)
Definition keys (g : graph) : list string := map fst g.

(* the dict comprehension building `pending`: ids of use descendants-or-self of every id'd element *)
Fixpoint use_refs (href : xnode -> string) (n : xnode) : list string :=
  match n with
  | XN t _ kids => ((if t =? "use" then [href n] else []) ++ flat_map (use_refs href) kids)%list
  end.
Fixpoint use_graph (href : xnode -> string) (n : xnode) : graph :=
  match n with
  | XN t i kids => ((match i with Some s => [(s, use_refs href n)] | None => [] end) ++ flat_map (use_graph href) kids)%list
  end.

(* resolvable = [k for k, refs in pending.items() if not refs & pending.keys()] *)
Definition resolvable (pending : graph) (e : string * list string) : bool :=
  negb (existsb (fun r => str_in r (keys pending)) (snd e)).

(* while pending: ... ; false = raise ValueError("Circular use references") *)
Fixpoint kahn (fuel : nat) (pending : graph) : bool :=
  match pending with
  | [] => true
  | _ => match fuel with
         | O => false
         | S f => match filter (resolvable pending) pending with
                  | [] => false
                  | _ => kahn f (filter (fun e => negb (resolvable pending e)) pending)
                  end
         end
  end.
Definition use_check (g : graph) : bool := kahn (S (List.length g)) g.

(* the while loop of _resolve_use: one pass replaces every use by a copy of its target as it was
   before the pass; abstractly, the targets still referenced under `a` after k passes *)
Definition uses_of (g : graph) (a : string) : list string :=
  match find (fun e => fst e =? a) g with Some e => snd e | None => [] end.
Fixpoint uses_k (g : graph) (k : nat) (a : string) : list string :=
  match k with
  | O => uses_of g a
  | S k' => flat_map (uses_k g k') (uses_k g k' a)
  end.
(* references that still resolve (a dangling one raises ValueError) *)
Definition live (g : graph) (k : nat) (a : string) : list string :=
  filter (fun b => str_in b (keys g)) (uses_k g k a).

(* _apply_gradient_template follows href recursively; Python stops a runaway recursion with
   RecursionError after `limit` frames *)
Inductive chain_end := Resolved (depth : nat) | Dangling (depth : nat) | RecursionError.
Fixpoint follow (href : string -> option (option string)) (limit : nat) (depth : nat) (cur : string) : chain_end :=
  match limit with
  | O => RecursionError
  | S l => match href cur with
           | None => Dangling depth                 (* no element with that id: xpath_one raises ValueError *)
           | Some None => Resolved depth            (* no href: nop *)
           | Some (Some nxt) => follow href l (S depth) nxt
           end
  end.

(* the tidy loop at the end of topicosvg (while True: normalise, round, prune, remove groups; break when
   no group was removed): abstractly, a step returns the new state and whether a group was removed *)
Section TidyLoop.
  Variable state : Type.
  Variable step : state -> state * bool.
  Fixpoint tidy (fuel : nat) (s : state) : option state :=
    match fuel with
    | O => None                                       (* would still be looping *)
    | S f => let '(s', removed) := step s in if removed then tidy f s' else Some s'
    end.
End TidyLoop.
