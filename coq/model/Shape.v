(* model/Shape.v — the typed shape record (SVGShape dataclass fields that the modelled code reads)
   and the hand model (H) of SVGShape.might_paint / apply_style_attribute / normalize_opacity. *)
From Coq Require Import ZArith List Bool Ascii String.
From Pico Require Import Num PyStr Lex G_geom G_transform G_arc G_meta G_types Arc Walk Skia.
Import ListNotations.
Local Open Scope string_scope.

Section Shape.
  Context {N : NumOps}.

  Record shape := mk_shape {
    s_id : string;
    s_clip_path : string; s_clip_rule : string;
    s_fill : string; s_fill_opacity : T N; s_fill_rule : string;
    s_stroke : string; s_stroke_width : T N;
    s_linecap : string; s_linejoin : string; s_miterlimit : T N;
    s_dasharray : string; s_dashoffset : T N; s_stroke_opacity : T N;
    s_opacity : T N;
    s_transform : string;
    s_style : list (string * string);        (* parsed declarations of the style attribute, in order *)
    s_display : string;
    s_d : @path N                            (* the shape as a path (as_path()) *)
  }.

  Definition default_shape (d : @path N) : shape :=
    mk_shape "" "" "nonzero" "black" (one N) "nonzero" "none" (one N) "butt" "miter" (of_Z N 4%Z)
             "none" (zero N) (one N) (one N) "" [] "inline" d.

  (* float(value) of a style declaration *)
  Definition num_of_string (s : string) : option (T N) :=
    match py_float (list_of_string s) with Some d => Some (dec_val d) | None => None end.

  (* apply_style_attribute: declarations whose property is a dataclass field override it
     (numeric fields through float(): a malformed number raises ValueError); later wins *)
  Definition set_field (sh : shape) (prop value : string) : result shape :=
    let num (k : T N -> shape) := match num_of_string value with Some v => Ok (k v) | None => Err EValue end in
    if prop =? "display" then Ok (mk_shape (s_id sh) (s_clip_path sh) (s_clip_rule sh) (s_fill sh) (s_fill_opacity sh) (s_fill_rule sh) (s_stroke sh) (s_stroke_width sh) (s_linecap sh) (s_linejoin sh) (s_miterlimit sh) (s_dasharray sh) (s_dashoffset sh) (s_stroke_opacity sh) (s_opacity sh) (s_transform sh) (s_style sh) value (s_d sh))
    else if prop =? "fill" then Ok (mk_shape (s_id sh) (s_clip_path sh) (s_clip_rule sh) value (s_fill_opacity sh) (s_fill_rule sh) (s_stroke sh) (s_stroke_width sh) (s_linecap sh) (s_linejoin sh) (s_miterlimit sh) (s_dasharray sh) (s_dashoffset sh) (s_stroke_opacity sh) (s_opacity sh) (s_transform sh) (s_style sh) (s_display sh) (s_d sh))
    else if prop =? "fill-rule" then Ok (mk_shape (s_id sh) (s_clip_path sh) (s_clip_rule sh) (s_fill sh) (s_fill_opacity sh) value (s_stroke sh) (s_stroke_width sh) (s_linecap sh) (s_linejoin sh) (s_miterlimit sh) (s_dasharray sh) (s_dashoffset sh) (s_stroke_opacity sh) (s_opacity sh) (s_transform sh) (s_style sh) (s_display sh) (s_d sh))
    else if prop =? "stroke" then Ok (mk_shape (s_id sh) (s_clip_path sh) (s_clip_rule sh) (s_fill sh) (s_fill_opacity sh) (s_fill_rule sh) value (s_stroke_width sh) (s_linecap sh) (s_linejoin sh) (s_miterlimit sh) (s_dasharray sh) (s_dashoffset sh) (s_stroke_opacity sh) (s_opacity sh) (s_transform sh) (s_style sh) (s_display sh) (s_d sh))
    else if prop =? "fill-opacity" then num (fun v => mk_shape (s_id sh) (s_clip_path sh) (s_clip_rule sh) (s_fill sh) v (s_fill_rule sh) (s_stroke sh) (s_stroke_width sh) (s_linecap sh) (s_linejoin sh) (s_miterlimit sh) (s_dasharray sh) (s_dashoffset sh) (s_stroke_opacity sh) (s_opacity sh) (s_transform sh) (s_style sh) (s_display sh) (s_d sh))
    else if prop =? "stroke-opacity" then num (fun v => mk_shape (s_id sh) (s_clip_path sh) (s_clip_rule sh) (s_fill sh) (s_fill_opacity sh) (s_fill_rule sh) (s_stroke sh) (s_stroke_width sh) (s_linecap sh) (s_linejoin sh) (s_miterlimit sh) (s_dasharray sh) (s_dashoffset sh) v (s_opacity sh) (s_transform sh) (s_style sh) (s_display sh) (s_d sh))
    else if prop =? "stroke-width" then num (fun v => mk_shape (s_id sh) (s_clip_path sh) (s_clip_rule sh) (s_fill sh) (s_fill_opacity sh) (s_fill_rule sh) (s_stroke sh) v (s_linecap sh) (s_linejoin sh) (s_miterlimit sh) (s_dasharray sh) (s_dashoffset sh) (s_stroke_opacity sh) (s_opacity sh) (s_transform sh) (s_style sh) (s_display sh) (s_d sh))
    else if prop =? "opacity" then num (fun v => mk_shape (s_id sh) (s_clip_path sh) (s_clip_rule sh) (s_fill sh) (s_fill_opacity sh) (s_fill_rule sh) (s_stroke sh) (s_stroke_width sh) (s_linecap sh) (s_linejoin sh) (s_miterlimit sh) (s_dasharray sh) (s_dashoffset sh) (s_stroke_opacity sh) v (s_transform sh) (s_style sh) (s_display sh) (s_d sh))
    else Ok sh.    (* other properties do not influence the modelled decisions *)

  Fixpoint apply_decls (sh : shape) (ds : list (string * string)) : result shape :=
    match ds with
    | [] => Ok sh
    | (p, v) :: r => match set_field sh p v with Ok sh' => apply_decls sh' r | Err e => Err e end
    end.

  Definition apply_style (sh : shape) : result shape := apply_decls sh (s_style sh).
End Shape.

Section MightPaint.
  Context {N : NumOps} (MO : MathOps N) (sk : @skia N).

  Definition visible (sh : @shape N) (paint : string) (op : T N) : bool :=
    negb (paint =? "none") && negb (eqb N (mul N (s_opacity sh) op) (zero N)).

  Definition only_moves (p : @path N) : bool := forallb (fun c => Ascii.eqb (to_upper (fst c)) "M"%char) p.

  (* the decision ladder of SVGShape.might_paint *)
  Definition might_paint (sh0 : @shape N) : result bool :=
    match apply_style sh0 with
    | Err e => Err e
    | Ok sh =>
        if s_display sh =? "none" then Ok false
        else
          let cmds := as_cmd_seq MO (s_d sh0) in
          if only_moves cmds then Ok false
          else if visible sh (s_stroke sh) (s_stroke_opacity sh) && negb (eqb N (s_stroke_width sh) (zero N)) then Ok true
          else if negb (visible sh (s_fill sh) (s_fill_opacity sh)) then Ok false
          else
            match rule_of_string (s_fill_rule sh) with
            | None => Err EValue                             (* skia_path: invalid fill rule *)
            | Some r =>
                match path_area sk cmds r with
                | Ok a => Ok (ltb N (zero N) a)
                | Err EOther => Ok true                      (* PathOpsError: assume it paints *)
                | Err e => Err e
                end
            end
    end.
End MightPaint.
