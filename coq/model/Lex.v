(* model/Lex.v — character-level scanners shared by the transform-list and path-data
   models (hand-written (H); tied to the code by exhaustive/random string correspondence).
   ASCII only. *)
From Coq Require Import ZArith List Bool Ascii String.
From Pico Require Import Num PyStr.
Import ListNotations.
Local Open Scope char_scope.

Definition chars := list ascii.

Definition digit_val (c : ascii) : Z := Z.of_nat (nat_of_ascii c - 48).

Fixpoint take_while (f : ascii -> bool) (s : chars) : chars * chars :=
  match s with
  | c :: r => if f c then let '(a, b) := take_while f r in (c :: a, b) else ([], s)
  | [] => ([], [])
  end.

Definition digits_val (ds : chars) : Z := fold_left (fun acc c => (acc * 10 + digit_val c)%Z) ds 0%Z.

Definition is_sign (c : ascii) : bool := Ascii.eqb c "+" || Ascii.eqb c "-".
Definition is_e (c : ascii) : bool := Ascii.eqb c "e" || Ascii.eqb c "E".

(* A decimal lexeme denotes mantissa * 10^exponent, exactly. *)
Record dec := mk_dec { d_man : Z; d_exp : Z }.

Definition mk_number (neg : bool) (ip fp : chars) (eneg : bool) (ed : chars) : dec :=
  let m := digits_val (ip ++ fp) in
  let e := digits_val ed in
  mk_dec (if neg then (- m)%Z else m) ((if eneg then (- e)%Z else e) - Z.of_nat (List.length fp))%Z.

(* optional exponent part, regex (?:[eE][-+]?[0-9]+)? : taken only when complete *)
Definition scan_exp (s : chars) : bool * chars * chars :=
  match s with
  | c :: r =>
      if is_e c then
        let '(sg, r1) := match r with
                         | c1 :: r1 => if is_sign c1 then (Ascii.eqb c1 "-", r1) else (false, r)
                         | [] => (false, r) end in
        let '(ed, r2) := take_while is_digit r1 in
        match ed with [] => (false, [], s) | _ => (sg, ed, r2) end
      else (false, [], s)
  | [] => (false, [], s)
  end.

(* Python float(): sign? then digits with optional '.' and more digits, or '.' and digits, then optional exponent — whole string,
   surrounding whitespace stripped.  Underscores, inf and nan are outside the model. *)
Definition py_float (s0 : chars) : option dec :=
  let s := list_of_string (str_strip (string_of_list s0)) in
  let '(neg, s1) := match s with
                    | c :: r => if is_sign c then (Ascii.eqb c "-", r) else (false, s)
                    | [] => (false, s) end in
  let '(ip, s2) := take_while is_digit s1 in
  let '(fp, s3, dot) := match s2 with
                   | "." :: r => let '(fp, r') := take_while is_digit r in (fp, r', true)
                   | _ => ([], s2, false) end in
  match ip, fp with
  | [], [] => None
  | _, _ =>
      let '(eneg, ed, s4) := scan_exp s3 in
      match s4 with
      | [] => Some (mk_number neg ip fp eneg ed)
      | _ => None
      end
  end.

Definition strip_chars_ (s : chars) : chars := list_of_string (str_strip (string_of_list s)).

Definition dec_val {N : NumOps} (d : dec) : T N := of_dec N (d_man d) (d_exp d).
