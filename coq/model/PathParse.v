(* model/PathParse.v - hand model (H) of svg_path_iter.parse_svg_path and of the printer
   svg_meta.path_segment / ntos, at the character level (ASCII).

     parts = _CMD_RE.split(d)[1:]                       text before the first letter is dropped
     raw_args = parts[i+1].strip()
     pieces = [s for s in re.split("[, ]+", raw_args) if s]
     loop: regex.match(piece) with _FLOAT_RE, or "^[01]" for the two arc flags (i mod 7 in 3,4);
           a partially matched piece keeps its remainder for the next argument
     check_cmd: z takes no arguments; otherwise len(args) mod arity = 0
     exploded: one command per argument set, m/M continuing as l/L

   The regular expressions this model was written for are pinned in proofs/E2_pins.v against the
   strings found in the current source (gen/G_regex.v). *)
From Coq Require Import ZArith List Bool Ascii String.
From Pico Require Import Num PyStr Lex G_meta.
Import ListNotations.
Local Open Scope char_scope.

Definition is_cmd_letter (c : ascii) : bool := existsb (fun p => Ascii.eqb c (fst p)) CMD_ARGS.

(* _CMD_RE.split(s)[1:] : list of (letter, text up to the next letter) *)
Definition not_letter (c : ascii) : bool := negb (is_cmd_letter c).
Fixpoint split_cmds_f (fuel : nat) (s : chars) : list (ascii * chars) :=
  match fuel with
  | O => []
  | S f =>
      match s with
      | [] => []
      | c :: r =>
          if is_cmd_letter c then
            let '(body, rest) := take_while not_letter r in (c, body) :: split_cmds_f f rest
          else split_cmds_f f r
      end
  end.
Definition split_cmds (s : chars) : list (ascii * chars) := split_cmds_f (S (List.length s)) s.

Definition is_sep (c : ascii) : bool := Ascii.eqb c "," || Ascii.eqb c " ".

(* [s for s in re.split("[, ]+", text) if s] *)
Fixpoint split_seps (fuel : nat) (s : chars) : list chars :=
  match fuel with
  | O => []
  | S f =>
      let '(_, s1) := take_while is_sep s in
      match s1 with
      | [] => []
      | _ => let '(piece, rest) := take_while (fun c => negb (is_sep c)) s1 in piece :: split_seps f rest
      end
  end.

(* _FLOAT_RE.match(piece): [-+]? ( [0-9]+ (\.[0-9]+)? | \.[0-9]+ ) ([eE][-+]?[0-9]+)?  at the start *)
Definition scan_float_re (s : chars) : option (dec * chars) :=
  let '(neg, s1) := match s with
                    | c :: r => if is_sign c then (Ascii.eqb c "-", r) else (false, s)
                    | [] => (false, s) end in
  let '(ip, s2) := take_while is_digit s1 in
  match ip with
  | _ :: _ =>
      (* optional fraction: taken only when a digit follows the dot *)
      let '(fp, s3) := match s2 with
                       | "." :: r => let '(fp, r') := take_while is_digit r in
                                     match fp with [] => ([], s2) | _ => (fp, r') end
                       | _ => ([], s2) end in
      let '(eneg, ed, s4) := scan_exp s3 in
      Some (mk_number neg ip fp eneg ed, s4)
  | [] =>
      match s2 with
      | "." :: r =>
          let '(fp, r') := take_while is_digit r in
          match fp with
          | [] => None
          | _ => let '(eneg, ed, s4) := scan_exp r' in Some (mk_number neg [] fp eneg ed, s4)
          end
      | _ => None
      end
  end.

Definition scan_flag (s : chars) : option (dec * chars) :=
  match s with
  | c :: r => if Ascii.eqb c "0" then Some (mk_dec 0 0, r)
              else if Ascii.eqb c "1" then Some (mk_dec 1 0, r) else None
  | [] => None
  end.

(* what a printed number may consist of so that the printed path splits back into its tokens: no separator,
   no white space, no command letter; and a lexeme the scanners read back completely *)
Definition tok_char (c : ascii) : bool := negb (is_sep c) && negb (is_pyspace c) && negb (is_cmd_letter c).
Definition lexeme_ok (flag : bool) (t : chars) : bool :=
  match t with [] => false | _ => true end && forallb tok_char t &&
  match (if flag then scan_flag t else scan_float_re t) with Some (_, []) => true | _ => false end.

(* the while loop of _parse_args; i counts yielded arguments *)
Fixpoint parse_args_loop (fuel : nat) (arc : bool) (i : nat) (pieces : list chars) : option (list dec) :=
  match fuel with
  | O => None
  | S f =>
      match pieces with
      | [] => Some []
      | piece :: rest =>
          let flag := arc && (Nat.eqb (Nat.modulo i 7) 3 || Nat.eqb (Nat.modulo i 7) 4) in
          match (if flag then scan_flag piece else scan_float_re piece) with
          | None => None
          | Some (v, rem) =>
              let pieces' := match rem with [] => rest | _ => rem :: rest end in
              match parse_args_loop f arc (S i) pieces' with
              | Some vs => Some (v :: vs)
              | None => None
              end
          end
      end
  end.

Definition parse_cmd_args (cmd : ascii) (body : chars) : option (list dec) :=
  let text := strip_chars_ body in
  let pieces := split_seps (S (List.length text)) text in
  parse_args_loop (S (List.length text)) (Ascii.eqb (to_upper cmd) "A") 0 pieces.

Fixpoint chunk {A} (n : nat) (fuel : nat) (l : list A) : list (list A) :=
  match fuel with
  | O => []
  | S f => match l with [] => [] | _ => firstn n l :: chunk n f (skipn n l) end
  end.

Definition implicit_repeat (c : ascii) : ascii :=
  if Ascii.eqb c "m" then "l" else if Ascii.eqb c "M" then "L" else c.

(* one command: check_cmd + explode *)
Definition finish_cmd (exploded : bool) (cmd : ascii) (args : list dec) : option (list (ascii * list dec)) :=
  match num_args cmd with
  | None => None
  | Some O => match args with [] => Some [(cmd, [])] | _ => None end
  | Some n =>
      if negb (Nat.eqb (Nat.modulo (List.length args) n) 0) then None
      else if negb exploded then Some [(cmd, args)]
      else match chunk n (List.length args) args with
           | [] => Some []
           | first :: more => Some ((cmd, first) :: map (fun a => (implicit_repeat cmd, a)) more)
           end
  end.

Fixpoint parse_cmds (exploded : bool) (l : list (ascii * chars)) : result (list (ascii * list dec)) :=
  match l with
  | [] => Ok []
  | (cmd, body) :: r =>
      match parse_cmd_args cmd body with
      | None => Err EValue
      | Some args =>
          match finish_cmd exploded cmd args with
          | None => Err EValue
          | Some cs => match parse_cmds exploded r with Ok t => Ok (cs ++ t) | Err e => Err e end
          end
      end
  end.

Definition parse_svg_path (exploded : bool) (s : chars) : result (list (ascii * list dec)) :=
  parse_cmds exploded (split_cmds s).

(* ------------------------------------------------------------------ printer *)
(* svg_meta.path_segment: the letter, then the arguments; an (x, y) coordinate pair is joined by a
   comma, everything else by a space.  Number formatting (ntos = CPython str/int) is a parameter. *)
Section Print.
  Variable A : Type.
  Variable pr : A -> chars.

  Definition xy_pair (cmd : ascii) (i : nat) : bool :=
    let '(xs, ys) := cmd_coords cmd in
    existsb (fun xy => Nat.eqb (fst xy) i && Nat.eqb (snd xy) (S i)) (combine xs ys).

  (* combined_args for one argument set starting at index i *)
  Fixpoint combine_args (fuel : nat) (cmd : ascii) (i : nat) (args : list A) : list chars :=
    match fuel with
    | O => []
    | S f =>
        match args with
        | [] => []
        | [a] => [pr a]
        | a :: b :: r =>
            if xy_pair cmd i then (pr a ++ "," :: pr b) :: combine_args f cmd (S (S i)) r
            else pr a :: combine_args f cmd (S i) (b :: r)
        end
    end.

  Fixpoint join_sp (l : list chars) : chars :=
    match l with [] => [] | [x] => x | x :: r => x ++ " " :: join_sp r end.

  Definition print_segment (cmd : ascii) (args : list A) : chars :=
    cmd :: join_sp (combine_args (S (List.length args)) cmd 0 args).

  Definition print_path (p : list (ascii * list A)) : chars :=
    join_sp (map (fun c => print_segment (fst c) (snd c)) p).
End Print.
