(* model/Clip.v — hand model (H) of SVG.clip_to_viewbox on the shape list of a picosvg, and of
   SVG.bounding_box.  Rect arithmetic is generated code (gen/G_geom.v). *)
From Coq Require Import ZArith List Bool Ascii String.
From Pico Require Import Num PyStr G_geom G_transform G_arc G_meta G_types Arc Walk Skia Shape.
Import ListNotations.
Local Open Scope string_scope.

Section Clip.
  Context {N : NumOps} (MO : MathOps N) (sk : @skia N).

  (* SVGShape.bounding_box: Skia bounds of the command sequence as a Rect *)
  Definition shape_bbox (sh : @shape N) : result (Rect N) :=
    match bounding_box sk (as_cmd_seq MO (s_d sh)) with
    | Ok (x1, y1, x2, y2) => Ok (mk_Rect N x1 y1 (sub N x2 x1) (sub N y2 y1))
    | Err e => Err e
    end.

  (* SVG.bounding_box: union of the shapes' boxes (None without shapes) *)
  Fixpoint union_boxes (acc : Rect N) (l : list (Rect N)) : Rect N :=
    match l with [] => acc | b :: r => union_boxes (Rect_union N acc b) r end.

  (* SVGRect(x, y, w, h).as_path().absolute() with rx = ry = 0 *)
  Definition rect_path (r : Rect N) : @path N :=
    let x := Rect_x r in let y := Rect_y r in let w := Rect_w r in let h := Rect_h r in
    absolute [("M"%char, [x; y]); ("H"%char, [sub N (add N x w) (zero N)]); ("V"%char, [sub N (add N y h) (zero N)]);
              ("H"%char, [add N x (zero N)]); ("V"%char, [add N y (zero N)]); ("Z"%char, [])].

  Definition with_geom (sh : @shape N) (d : @path N) (fill_rule : string) : @shape N :=
    mk_shape (s_id sh) (s_clip_path sh) (s_clip_rule sh) (s_fill sh) (s_fill_opacity sh) fill_rule (s_stroke sh)
      (s_stroke_width sh) (s_linecap sh) (s_linejoin sh) (s_miterlimit sh) (s_dasharray sh) (s_dashoffset sh) (s_stroke_opacity sh)
      (s_opacity sh) (s_transform sh) (s_style sh) (s_display sh) d.

  (* one shape: None = dropped (its box misses the viewBox, or - fix 413baa0 - the intersection came back empty);
     otherwise kept as is or cut at the border *)
  Definition clip_shape (vb : Rect N) (sh : @shape N) : result (option (@shape N)) :=
    match shape_bbox sh with
    | Err e => Err e
    | Ok bbox =>
        match Rect_intersection N vb bbox with
        | None => Ok None
        | Some isct =>
            if Rect_eqb N bbox isct then Ok (Some sh)
            else
              match rule_of_string (s_fill_rule sh) with
              | None => Err EValue
              | Some r =>
                  let subject := absolute (s_d sh) in
                  match do_pathop sk OpIntersection [(as_cmd_seq MO subject, r); (as_cmd_seq MO (rect_path isct), NonZero)] with
                  | Ok (Some []) => Ok None
                  | Ok (Some q) => Ok (Some (with_geom sh q "nonzero"))
                  | Ok None => Err EOther
                  | Err e => Err e
                  end
              end
        end
    end.

  Fixpoint clip_shapes (vb : Rect N) (l : list (@shape N)) : result (list (@shape N)) :=
    match l with
    | [] => Ok []
    | sh :: r =>
        match clip_shape vb sh with
        | Err e => Err e
        | Ok o => match clip_shapes vb r with
                  | Err e => Err e
                  | Ok t => Ok (match o with Some s => s :: t | None => t end)
                  end
        end
    end.
End Clip.
