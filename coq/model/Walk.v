(* model/Walk.v — hand model (H) of SVGPath.walk and of the path rewrites built on it.
   A path is its exploded command list [(letter, args)] (what iterating an SVGPath yields);
   the string <-> command-list codec is the subject of C10 (model/PathParse.v).
   All callbacks, the position bookkeeping (_next_pos) and the index tables are generated
   code (gen/G_types.v, gen/G_meta.v); only the loop of `walk` and the thin method wrappers
   are written by hand here. *)
From Coq Require Import ZArith List Bool Ascii String.
From Pico Require Import Num PyStr G_geom G_transform G_arc G_meta G_types Arc.
Import ListNotations.
Local Open Scope char_scope.

Section Walk.
  Context {N : NumOps}.
  Local Notation pt := (Point N).
  Definition command : Type := ascii * list (T N).
  Definition path : Type := list command.

  (* callback(subpath_start, curr_pos, cmd, args, prev_pos, prev_cmd, prev_args) *)
  Definition prev_t : Type := option (pt * ascii * list (T N)).
  Definition callback : Type := pt -> pt -> ascii -> list (T N) -> prev_t -> list command.

  Record wstate := mk_w { w_cur : pt; w_start : pt; w_out : list (pt * ascii * list (T N)) }.

  Definition origin : pt := mk_Point N (zero N) (zero N).

  (* the inner loop over the commands a callback returns *)
  Definition emit (st : wstate) (c : command) : wstate :=
    let '(new_cmd, new_args) := c in
    let next := if Ascii.eqb (to_lower new_cmd) "z" then w_start st
                else _next_pos N (w_cur st) new_cmd new_args in
    mk_w next
         (if Ascii.eqb (to_upper new_cmd) "M" then next else w_start st)
         (w_out st ++ [(w_cur st, new_cmd, new_args)]).

  Definition walk_step (cb : callback) (first : bool) (st : wstate) (c : command) : wstate :=
    let '(cmd, args) := c in
    let cmd := if first && Ascii.eqb cmd "m" then "M" else cmd in
    let prev := match rev (w_out st) with [] => None | p :: _ => Some p end in
    fold_left emit (cb (w_start st) (w_cur st) cmd args prev) st.

  Fixpoint walk_loop (cb : callback) (first : bool) (st : wstate) (p : path) : wstate :=
    match p with
    | [] => st
    | c :: r => walk_loop cb false (walk_step cb first st c) r
    end.

  Definition walk (cb : callback) (p : path) : path :=
    map (fun t => (snd (fst t), snd t)) (w_out (walk_loop cb true (mk_w origin origin []) p)).

  (* ---- the callbacks, adapted to the uniform signature ---- *)
  Definition cb_explicit_lines : callback :=
    fun start cur cmd args _ => _explicit_lines_callback N (Some start) cur cmd args.
  Definition cb_rewrite (f : pt -> ascii -> list (T N) -> ascii * list (T N)) : callback :=
    fun start cur cmd args _ => rewrite_callback N f start cur cmd args.
  Definition cb_move (dx dy : T N) : callback :=
    fun start cur cmd args _ => move_callback N dx dy start cur cmd args.
  Definition cb_expand_shorthand : callback :=
    fun _ cur cmd args prev =>
      match prev with
      | Some (ppos, pcmd, pargs) => expand_shorthand_callback N cur cmd args ppos (Some pcmd) pargs
      | None => expand_shorthand_callback N cur cmd args origin None []
      end.

  (* ---- the public rewrites ---- *)
  Definition explicit_lines (p : path) : path := walk cb_explicit_lines p.
  Definition expand_shorthand (p : path) : path := walk cb_expand_shorthand p.
  Definition absolute (p : path) : path := walk (cb_rewrite (_relative_to_absolute N)) p.
  Definition absolute_moveto (p : path) : path := walk (cb_rewrite (_relative_to_absolute_moveto N)) p.
  Definition relative (p : path) : path :=
    match walk (cb_rewrite (_absolute_to_relative N)) p with
    | (c, a) :: r => ((if Ascii.eqb c "m" then "M" else c), a) :: r     (* result.d[0] == "m" -> "M" *)
    | [] => []
    end.
  Definition move (dx dy : T N) (p : path) : path := walk (cb_move dx dy) p.

  (* subpaths(): a new piece starts at every moveto and after every closepath; a piece that
     follows a closepath gets an explicit moveto to the walk's current position.
     pieces: reversed list of reversed pieces, mirroring the `subpaths` list of SVGPath objects *)
  Definition subpaths_step (pieces : list path) (t : pt * ascii * list (T N)) : list path :=
    let '(pos, c, a) := t in
    let pieces1 :=
      if Ascii.eqb (to_upper c) "M" then [] :: pieces
      else match pieces with
           | [] :: _ :: _ => (* empty last piece and more than one piece *)
               [("M", [Point_x pos; Point_y pos])] :: tl pieces
           | _ => pieces
           end in
    let pieces2 := match pieces1 with
                   | last :: rest => ((c, a) :: last) :: rest
                   | [] => [[(c, a)]]
                   end in
    if Ascii.eqb (to_upper c) "Z" then [] :: pieces2 else pieces2.

  Definition cb_identity : callback := fun _ _ cmd args _ => [(cmd, args)].

  Definition subpaths (p : path) : list path :=
    let trips := w_out (walk_loop cb_identity true (mk_w origin origin []) (absolute_moveto p)) in
    let pieces := fold_left subpaths_step trips [[]] in
    filter (fun s => match s with [] => false | _ => true end) (map (@rev command) (rev pieces)).

  (* round_floats on path data *)
  Definition round_path (nd : Z) (p : path) : path :=
    map (fun c => (fst c, map (round_nd N nd) (snd c))) p.

  (* almost_equals on command lists (zip_longest with a (None, ()) filler) *)
  Fixpoint path_almost_equals (tol : T N) (p q : path) : bool :=
    match p, q with
    | [], [] => true
    | (c1, a1) :: r1, (c2, a2) :: r2 =>
        Ascii.eqb c1 c2 && Nat.eqb (List.length a1) (List.length a2) &&
        forallb (fun xy => negb (ltb N tol (pyabs (sub N (fst xy) (snd xy))))) (combine a1 a2) &&
        path_almost_equals tol r1 r2
    | _, _ => false
    end.
End Walk.

Section WalkArc.
  Context {N : NumOps} (MO : MathOps N).

  (* arcs_to_cubics callback (hand model of the closure: it consumes the arc_to_cubic generator) *)
  Definition cb_arcs_to_cubics : @callback N :=
    fun _ cur cmd args _ =>
      if negb (Ascii.eqb cmd "a" || Ascii.eqb cmd "A") then [(cmd, args)]
      else
        let rx := nth 0 args (zero N) in let ry := nth 1 args (zero N) in
        let rot := nth 2 args (zero N) in let large := nth 3 args (zero N) in
        let sweep := nth 4 args (zero N) in
        let ex := nth 5 args (zero N) in let ey := nth 6 args (zero N) in
        let '(ex, ey) := if Ascii.eqb cmd "a" then (add N ex (Point_x cur), add N ey (Point_y cur)) else (ex, ey) in
        match arc_to_cubic MO cur rx ry rot large sweep (mk_Point N ex ey) with
        | Ok segs =>
            map (fun s => match s with
                          | (Some p1, Some p2, e) =>
                              ("C", [Point_x p1; Point_y p1; Point_x p2; Point_y p2; Point_x e; Point_y e])
                          | (_, _, e) => ("L", [Point_x e; Point_y e])
                          end) segs
        | Err _ => []   (* cannot happen: arc_to_cubic only converts proper arcs (see proofs) *)
        end.

  Definition arcs_to_cubics (p : @path N) : @path N := walk cb_arcs_to_cubics p.

  (* SVGShape.as_cmd_seq for a path: the normal form handed to Skia *)
  Definition as_cmd_seq (p : @path N) : @path N :=
    arcs_to_cubics (absolute (expand_shorthand (explicit_lines p))).
End WalkArc.
