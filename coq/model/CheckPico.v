(* model/CheckPico.v — hand model (H) of SVG.checkpicosvg, the structural gate at the end of
   topicosvg: every element is addressed by its typed-index path (/svg[0]/g[1]/path[0]...), which must
   match one of the allow-list patterns; /svg[0] and /svg[0]/defs[0] must exist; ids must be unique.
   Paths are modelled as lists of (local tag name, index among same-named siblings) — faithful for
   XML names, which contain neither '/' nor '['.  The allow-list regexes are pinned below. *)
From Coq Require Import ZArith List Bool Ascii String.
From Pico Require Import Num PyStr.
Import ListNotations.
Local Open Scope string_scope.

Inductive xnode := XN (tag : string) (id : option string) (kids : list xnode).
Definition xtag (n : xnode) := match n with XN t _ _ => t end.
Definition xid (n : xnode) := match n with XN _ i _ => i end.
Definition xkids (n : xnode) := match n with XN _ _ k => k end.

Definition seg : Type := string * nat.
Definition xpath : Type := list seg.        (* root first *)

(* ^/svg\[0\](/(path|g)\[\d+\])+$ : one or more path/g segments below the root *)
Definition is_pg (s : seg) : bool := (fst s =? "path") || (fst s =? "g").
Definition is_text0 (s : seg) : bool := (fst s =? "text") || (fst s =? "textPath").
Definition is_text1 (s : seg) : bool := (fst s =? "text") || (fst s =? "tspan") || (fst s =? "textPath").

Fixpoint drop_while {A} (f : A -> bool) (l : list A) : list A :=
  match l with x :: r => if f x then drop_while f r else l | [] => [] end.

Definition is_grad (t : string) : bool := (t =? "linearGradient") || (t =? "radialGradient").
(* what may follow /svg[0]/defs[0]: nothing, a gradient, or a gradient and one of its stops *)
Definition defs_tail (r : xpath) : bool :=
  match r with
  | [] => true
  | [(t, _)] => is_grad t
  | [(t, _); (s, _)] => is_grad t && (s =? "stop")
  | _ => false
  end.
Definition allowed (allow_text : bool) (p : xpath) : bool :=
  match p with
  | (t0, n0) :: rest =>
      (t0 =? "svg") && Nat.eqb n0 0 &&
      match rest with
      | [] => true
      | (t1, n1) :: r1 =>
          ((t1 =? "defs") && Nat.eqb n1 0 && defs_tail r1) ||
          forallb is_pg rest ||
          (* (text|textPath)+ then (text|tspan|textPath)* *)
          (allow_text && is_text0 (t1, n1) && forallb is_text1 (drop_while is_text0 rest))
      end
  | [] => false
  end.

(* index of each child among its same-named siblings (defaultdict counter of _traverse) *)
Fixpoint count_tag (t : string) (l : list xnode) : nat :=
  match l with [] => O | n :: r => (if xtag n =? t then 1 else 0) + count_tag t r end.
Fixpoint index_kids (seen : list xnode) (l : list xnode) : list (seg * xnode) :=
  match l with
  | [] => []
  | n :: r => ((xtag n, count_tag (xtag n) seen), n) :: index_kids (seen ++ [n])%list r
  end.

(* all (path, id) contexts of the tree; with `drop`, subtrees whose path is not allowed are removed
   (their descendants are still visited by the generator, harmlessly) — we return the contexts that
   are CHECKED, i.e. every element *)
Fixpoint contexts (fuel : nat) (here : xpath) (n : xnode) : list (xpath * option string) :=
  match fuel with
  | O => []
  | S f => (here, xid n) :: flat_map (fun sn => contexts f (here ++ [fst sn])%list (snd sn)) (index_kids [] (xkids n))
  end.

Fixpoint depth (n : xnode) : nat :=
  match n with XN _ _ kids => S (fold_right (fun k acc => Nat.max (depth k) acc) O kids) end.

Definition all_contexts (root : xnode) : list (xpath * option string) :=
  contexts (depth root) [("svg", O)] root.

Fixpoint dup_ids (seen : list string) (l : list (option string)) : bool :=
  match l with
  | [] => false
  | None :: r => dup_ids seen r
  | Some i :: r => if str_in i seen then true else dup_ids (i :: seen) r
  end.

Definition is_defs_path (p : xpath) : bool :=
  match p with [(a, O); (b, O)] => (a =? "svg") && (b =? "defs") | _ => false end.

(* checkpicosvg(...) == () without drop_unsupported *)
Definition gate_ok (allow_text : bool) (root : xnode) : bool :=
  let cs := all_contexts root in
  forallb (fun c => allowed allow_text (fst c)) cs &&
  existsb (fun c => is_defs_path (fst c)) cs &&
  negb (dup_ids [] (map snd cs)).

(* drop_unsupported: remove every element whose path is not allowed (top-down) *)
Fixpoint prune (fuel : nat) (allow_text : bool) (here : xpath) (n : xnode) : xnode :=
  match fuel with
  | O => n
  | S f =>
      XN (xtag n) (xid n)
         (map (fun sn => prune f allow_text (here ++ [fst sn])%list (snd sn))
              (filter (fun sn => allowed allow_text (here ++ [fst sn])%list) (index_kids [] (xkids n))))
  end.

(* with drop_unsupported the only remaining complaints are a missing defs / duplicate ids among the
   elements that are kept AT THE TIME they are visited (indices are those of the original tree) *)
Definition gate_ok_drop (allow_text : bool) (root : xnode) : bool :=
  let cs := filter (fun c => allowed allow_text (fst c)) (all_contexts root) in
  existsb (fun c => is_defs_path (fst c)) cs &&
  negb (dup_ids [] (map snd cs)).
