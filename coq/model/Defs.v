(* model/Defs.v — hand model (H) of SVG._add_to_defs (svg.py) and of what a second conversion does to
   the gradients of a pico document:
     insert_at = 0
     for i, el in enumerate(defs):
         if new_id < el.attrib["id"]: insert_at = i; break
     defs.insert(insert_at, new_el)
   i.e. before the first entry with a greater id - and at the FRONT when there is none. *)
From Coq Require Import List Bool Ascii String Arith.
From Pico Require Import PyStr.
Import ListNotations.
Local Open Scope string_scope.

(* Python's < on str: lexicographic by code point *)
Fixpoint str_ltb (a b : string) : bool :=
  match a, b with
  | _, EmptyString => false
  | EmptyString, String _ _ => true
  | String x a', String y b' =>
      if Nat.ltb (nat_of_ascii x) (nat_of_ascii y) then true
      else if Nat.ltb (nat_of_ascii y) (nat_of_ascii x) then false else str_ltb a' b'
  end.

(* index of the first entry greater than i, if any *)
Fixpoint first_greater (i : string) (l : list string) : option nat :=
  match l with
  | [] => None
  | j :: r => if str_ltb i j then Some O else match first_greater i r with Some k => Some (S k) | None => None end
  end.

Fixpoint insert_at (n : nat) (i : string) (l : list string) : list string :=
  match n, l with
  | O, _ => i :: l
  | S k, j :: r => j :: insert_at k i r
  | S _, [] => [i]
  end.

Definition add_to_defs (l : list string) (i : string) : list string :=
  match first_greater i l with Some k => insert_at k i l | None => i :: l end.

(* the ids arrive in this sequence *)
Definition build (seq : list string) : list string := fold_left add_to_defs seq [].

(* a second conversion visits the gradients of the pico document leaves-first, i.e. in reverse document order *)
Definition reconvert (l : list string) : list string := build (rev l).

(* what a sorted insertion (append when there is no greater id) would do instead *)
Definition add_sorted (l : list string) (i : string) : list string :=
  match first_greater i l with Some k => insert_at k i l | None => l ++ [i] end.
