(* model/TransformParse.v - hand model (H) of svg_transform.parse_svg_transform:
   finditer of  (?i)(matrix|translate|scale|rotate|skewX|skewY) ws* ( [^)]* )  ;
   args = float(p) for p in re.split(ws* [, or ws] ws*, group2.strip()) ;
   rotate/skewx/skewy convert args[0] with radians ; getattr(transform, op)(args...).
   The per-operation arithmetic is the generated code of gen/G_transform.v. *)
From Coq Require Import ZArith List Bool Ascii String.
From Pico Require Import Num PyStr Lex G_geom G_transform.
Import ListNotations.
Local Open Scope char_scope.

Inductive tf_op := TMatrix | TTranslate | TScale | TRotate | TSkewX | TSkewY.

Definition op_names : list (chars * tf_op) :=
  [ (list_of_string "matrix", TMatrix); (list_of_string "translate", TTranslate);
    (list_of_string "scale", TScale); (list_of_string "rotate", TRotate);
    (list_of_string "skewx", TSkewX); (list_of_string "skewy", TSkewY) ].

(* case-insensitive prefix: name is lowercase *)
Fixpoint ci_prefix (name s : chars) : option chars :=
  match name, s with
  | [], _ => Some s
  | a :: n', c :: s' => if Ascii.eqb a (to_lower c) then ci_prefix n' s' else None
  | _, [] => None
  end.

Fixpoint skip_ws (s : chars) : chars :=
  match s with c :: r => if is_pyspace c then skip_ws r else s | [] => [] end.

Fixpoint until_rparen (s : chars) : option (chars * chars) :=
  match s with
  | [] => None
  | c :: r => if Ascii.eqb c ")" then Some ([], r)
              else match until_rparen r with Some (a, b) => Some (c :: a, b) | None => None end
  end.

(* one regex match attempt at the head of s *)
Definition match_op_here (s : chars) : option (tf_op * chars * chars) :=
  let try1 (no : chars * tf_op) :=
    match ci_prefix (fst no) s with
    | Some r =>
        match skip_ws r with
        | "(" :: r1 => match until_rparen r1 with
                       | Some (body, rest) => Some (snd no, body, rest)
                       | None => None end
        | _ => None
        end
    | None => None
    end in
  fold_left (fun acc no => match acc with Some _ => acc | None => try1 no end) op_names None.

(* finditer: leftmost matches, scanning resumes after each match *)
Fixpoint find_ops (fuel : nat) (s : chars) : list (tf_op * chars) :=
  match fuel with
  | O => []
  | S fuel' =>
      match s with
      | [] => []
      | _ :: r =>
          match match_op_here s with
          | Some (op, body, rest) => (op, body) :: find_ops fuel' rest
          | None => find_ops fuel' r
          end
      end
  end.

(* re.split on ws* [comma or ws] ws* : a separator is a maximal whitespace run optionally
   containing one comma (if no comma, at least one whitespace character) *)
Definition sep_here (s : chars) : option chars :=
  let r := skip_ws s in
  match r with
  | "," :: r1 => Some (skip_ws r1)
  | _ => match s with
         | c :: _ => if is_pyspace c then Some r else None
         | [] => None
         end
  end.

Fixpoint split_args (fuel : nat) (s cur : chars) : list chars :=
  match fuel with
  | O => [rev cur]
  | S fuel' =>
      match s with
      | [] => [rev cur]
      | c :: r =>
          match sep_here s with
          | Some rest => rev cur :: split_args fuel' rest []
          | None => split_args fuel' r (c :: cur)
          end
      end
  end.

Definition strip_chars (s : chars) : chars := list_of_string (str_strip (string_of_list s)).

Fixpoint all_some {A} (l : list (option A)) : option (list A) :=
  match l with
  | [] => Some []
  | Some a :: r => match all_some r with Some t => Some (a :: t) | None => None end
  | None :: _ => None
  end.

(* argument lexemes of one operation as exact decimals; None = float() raised ValueError *)
Definition parse_args (body0 : chars) : option (list dec) :=
  let body := strip_chars body0 in
  all_some (map py_float (split_args (S (List.length body)) body [])).

(* the lexical half: list of (op, argument lexemes), or ValueError *)
Definition parse_transform_ops (s : chars) : result (list (tf_op * list dec)) :=
  let ops := find_ops (S (List.length s)) s in
  let one (ob : tf_op * chars) : option (tf_op * list dec) :=
    match parse_args (snd ob) with Some ds => Some (fst ob, ds) | None => None end in
  match all_some (map one ops) with
  | Some l => Ok l
  | None => Err EValue
  end.

Section Apply.
  Context {N : NumOps} (MO : MathOps N).
  Local Notation A2 := (Affine2D N).

  Definition rad (x : T N) : T N := mul N x (div N (m_pi MO) (of_Z N 180%Z)).

  (* getattr(transform, op)(args...): arity mismatches are TypeError (EOther) *)
  Definition apply_op (t : A2) (op : tf_op) (args : list (T N)) : result A2 :=
    match op, args with
    | TMatrix, [a; b; c; d; e; f] => Ok (Affine2D_matrix N t a b c d e f)
    | TTranslate, [tx] => Ok (Affine2D_translate N t tx (of_Z N 0%Z))
    | TTranslate, [tx; ty] => Ok (Affine2D_translate N t tx ty)
    | TScale, [sx] => Ok (Affine2D_scale N t sx None)
    | TScale, [sx; sy] => Ok (Affine2D_scale N t sx (Some sy))
    | TRotate, [a] => Ok (Affine2D_rotate N MO t (rad a) (of_Z N 0%Z) (of_Z N 0%Z))
    | TRotate, [a; cx] => Ok (Affine2D_rotate N MO t (rad a) cx (of_Z N 0%Z))
    | TRotate, [a; cx; cy] => Ok (Affine2D_rotate N MO t (rad a) cx cy)
    | TSkewX, [a] => Ok (Affine2D_skewx N MO t (rad a))
    | TSkewY, [a] => Ok (Affine2D_skewy N MO t (rad a))
    | _, _ => Err EOther
    end.

  Fixpoint apply_ops (t : A2) (ops : list (tf_op * list (T N))) : result A2 :=
    match ops with
    | [] => Ok t
    | (op, args) :: r => match apply_op t op args with Ok t' => apply_ops t' r | Err e => Err e end
    end.

  (* the code's loop: each match is lexed (ValueError) and applied (TypeError) in turn *)
  Fixpoint run_ops (t : A2) (ops : list (tf_op * chars)) : result A2 :=
    match ops with
    | [] => Ok t
    | (op, body) :: r =>
        match parse_args body with
        | None => Err EValue
        | Some ds => match apply_op t op (map (@dec_val N) ds) with
                     | Ok t' => run_ops t' r
                     | Err e => Err e
                     end
        end
    end.

  Definition parse_svg_transform (s : chars) : result A2 :=
    run_ops (Affine2D_identity N) (find_ops (S (List.length s)) s).
End Apply.
