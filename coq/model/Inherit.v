(* model/Inherit.v — hand model (H) of the attribute inheritance machinery of svg.py:
   _inherit_attrib and its per-attribute handlers, _attrib_to_pass_on, _opacity, _is_removable_group,
   _try_remove_group, _drop_default_attrib.  The handler table, the custom-inheritance set, the
   defaults and the per-tag valid fields are regenerated from the source (gen/G_inherit.v). *)
From Coq Require Import ZArith List Bool Ascii String.
From Pico Require Import Num PyStr Lex G_inherit.
Import ListNotations.
Local Open Scope string_scope.

Section Inherit.
  Context {N : NumOps}.

  (* attribute values: strings as in the XML, or numbers produced by the code (opacity products) *)
  Inductive aval := AStr (s : string) | ANum (q : T N).
  Definition amap := list (string * aval).

  Definition aget (m : amap) (k : string) : option aval :=
    match find (fun p => fst p =? k) m with Some p => Some (snd p) | None => None end.
  Definition ahas (m : amap) (k : string) : bool := match aget m k with Some _ => true | None => false end.
  Fixpoint aset (m : amap) (k : string) (v : aval) : amap :=
    match m with
    | [] => [(k, v)]
    | (k', v') :: r => if k' =? k then (k, v) :: r else (k', v') :: aset r k v
    end.
  Definition adel (m : amap) (k : string) : amap := filter (fun p => negb (fst p =? k)) m.

  Definition num_of (v : aval) : option (T N) :=
    match v with
    | ANum q => Some q
    | AStr s => match py_float (list_of_string s) with Some d => Some (dec_val d) | None => None end
    end.
  Definition str_eq (v : aval) (s : string) : bool := match v with AStr t => t =? s | ANum _ => false end.

  Definition handler_of (name : string) : option handler := assoc_str_opt name INHERIT_HANDLERS.

  Definition attr_supported (tag name : string) : bool :=
    match assoc_str_opt tag VALID_FIELDS with Some fields => str_in name fields | None => true end.

  (* lexicographic order on strings (Python str comparison, ASCII) *)
  Fixpoint str_leb (a b : string) : bool :=
    match a, b with
    | EmptyString, _ => true
    | String _ _, EmptyString => false
    | String x a', String y b' =>
        if Nat.ltb (nat_of_ascii x) (nat_of_ascii y) then true
        else if Nat.ltb (nat_of_ascii y) (nat_of_ascii x) then false else str_leb a' b'
    end.
  Fixpoint insert_sorted (s : string) (l : list string) : list string :=
    match l with [] => [s] | h :: t => if str_leb s h then s :: l else h :: insert_sorted s t end.
  Definition sort_strings (l : list string) : list string := fold_right insert_sorted [] l.

  Fixpoint split_comma (s cur : string) : list string :=
    match s with
    | EmptyString => [cur]
    | String c r => if Ascii.eqb c ","%char then cur :: split_comma r EmptyString
                    else split_comma r (cur ++ String c EmptyString)
    end.
  Fixpoint join_comma (l : list string) : string :=
    match l with [] => "" | [x] => x | x :: r => x ++ "," ++ join_comma r end.

  Definition sval (o : option aval) (d : string) : string :=
    match o with Some (AStr s) => s | Some (ANum _) => "?" | None => d end.

  (* one handler applied to (parent attrib, child attrib) for attribute `name` *)
  Definition inherit_one (h : handler) (attrib child : amap) (name : string) : result amap :=
    match h with
    | HCopy =>
        if ahas child name then Ok child
        else match aget attrib name with Some v => Ok (aset child name v) | None => Ok child end
    | HMultiply =>
        if negb (ahas attrib name) && negb (ahas child name) then Ok child
        else
          let pa := match aget attrib name with Some v => num_of v | None => Some (one N) end in
          let pc := match aget child name with Some v => num_of v | None => Some (one N) end in
          match pa, pc with
          | Some a, Some c => Ok (aset child name (ANum (mul N a c)))
          | _, _ => Err EValue
          end
    | HClipPath =>
        let clips := sort_strings (split_comma (sval (aget child "clip-path") "") "" ++ [sval (aget attrib "clip-path") ""]) in
        Ok (aset child "clip-path" (AStr (join_comma (filter (fun c => negb (c =? "")) clips))))
    | HOverflow =>
        let value := match aget attrib name with Some v => v | None => AStr "visible" end in
        if str_eq value "visible" then Ok child
        else if ahas child name then Ok child
        else match aget attrib name with Some v => Ok (aset child name v) | None => Ok child end
    | HDisplay =>
        let value := match aget attrib name with Some v => v | None => AStr "" end in
        if str_eq value "none" then Ok (aset child name (AStr "none"))
        else if ahas child name then Ok child
        else match aget attrib name with Some v => Ok (aset child name v) | None => Ok child end
    | HMatrix => Err EOther        (* transform strings are handled by the C02 model, not here *)
    | HNone => Ok child
    end.

  (* _inherit_attrib(attrib, child, skip_unhandled, skips) on a child with tag `tag` *)
  Fixpoint inherit_loop (tag : string) (skips : list string) (attrib child : amap) (keys : list string)
    : result (amap * list string) :=
    match keys with
    | [] => Ok (child, [])
    | k :: r =>
        if str_in k skips || negb (attr_supported tag k) then inherit_loop tag skips attrib child r
        else match handler_of k with
             | None => match inherit_loop tag skips attrib child r with
                       | Ok (c, rest_) => Ok (c, k :: rest_)
                       | Err e => Err e end
             | Some h => match inherit_one h attrib child k with
                         | Ok child' => inherit_loop tag skips attrib child' r
                         | Err e => Err e
                         end
             end
    end.

  Definition inherit_attrib (attrib : amap) (tag : string) (child : amap) (skip_unhandled : bool) (skips : list string)
    : result amap :=
    match inherit_loop tag skips attrib child (sort_strings (map fst attrib)) with
    | Err e => Err e
    | Ok (c, rest_) => match rest_ with
                      | [] => Ok c
                      | _ => if skip_unhandled then Ok c else Err EValue     (* "Unable to process attrib" *)
                      end
    end.

  (* _attrib_to_pass_on: the element's own inheritable attributes, then the context's *)
  Definition attrib_to_pass_on (current el_attrib : amap) : result amap :=
    match inherit_attrib el_attrib "dummy" [] true CUSTOM_INHERITANCE with
    | Err e => Err e
    | Ok catcher => inherit_attrib current "dummy" catcher false CUSTOM_INHERITANCE
    end.

  Definition inheritable_defaults : amap := map (fun p => (fst p, AStr (snd p))) INHERITABLE_DEFAULTS.

  (* _opacity(el) = clamp(float(el.attrib.get("opacity", 1.0)), 0, 1) *)
  Definition clamp01 (x : T N) : T N := pymax (pymin x (one N)) (zero N).
  Definition el_opacity (attrib : amap) : result (T N) :=
    match aget attrib "opacity" with
    | None => Ok (one N)
    | Some v => match num_of v with Some q => Ok (clamp01 q) | None => Err EValue end
    end.

  (* _is_removable_group for a <g> with the given attributes and number of real children *)
  Definition is_removable_group (attrib : amap) (num_children : nat) : result bool :=
    match attrib with
    | [] => Ok true
    | _ => if Nat.leb num_children 1 then Ok true
           else match el_opacity attrib with
                | Ok o => Ok (eqb N o (zero N) || eqb N o (one N))
                | Err e => Err e
                end
    end.

  (* _drop_default_attrib on the {opacity} map of a kept group *)
  Definition kept_group_attrib (o : T N) : amap := if eqb N o (one N) then [] else [("opacity", ANum o)].

  (* _try_remove_group: either the children receive the group's (clamped) opacity, or the group is
     kept carrying nothing but its opacity *)
  Inductive group_outcome :=
  | Removed (children : list amap)
  | Kept (attrib : amap).

  Fixpoint push_opacity_all (o : T N) (kids : list (string * amap)) : result (list amap) :=
    match kids with
    | [] => Ok []
    | (tag, a) :: r =>
        match inherit_attrib [("opacity", ANum o)] tag a false [], push_opacity_all o r with
        | Ok a', Ok t => Ok (a' :: t)
        | Err e, _ => Err e
        | _, Err e => Err e
        end
    end.

  Definition try_remove_group (attrib : amap) (kids : list (string * amap)) (push_opacity : bool) : result group_outcome :=
    match is_removable_group attrib (List.length kids), el_opacity attrib with
    | Err e, _ => Err e
    | _, Err e => Err e
    | Ok true, Ok o => if push_opacity then match push_opacity_all o kids with Ok l => Ok (Removed l) | Err e => Err e end
                       else Ok (Removed (map snd kids))
    | Ok false, Ok o => Ok (Kept (kept_group_attrib o))
    end.
End Inherit.
