(* model/Skia.v — Skia (through skia-pathops) as an explicit oracle, and the hand model (H) of
   picosvg's own wrapper logic in svg_pathops.py: which engine calls are made, with which fill
   types, operand order and fallbacks.  What the engine computes is NOT modelled here: theorems
   about geometry assume the contract stated in proofs/E5_pathops.v. *)
From Coq Require Import ZArith List Bool Ascii String.
From Pico Require Import Num PyStr G_geom G_transform Walk.
Import ListNotations.
Local Open Scope string_scope.

Inductive rule := NonZero | EvenOdd.
Inductive opkind := OpUnion | OpIntersection | OpDifference.

Definition rule_of_string (s : string) : option rule :=
  if s =? "nonzero" then Some NonZero else if s =? "evenodd" then Some EvenOdd else None.

Section Skia.
  Context {N : NumOps}.
  Local Notation path := (@path N).

  (* the engine: every call may fail with PathOpsError (None) *)
  Record skia := {
    sk_op : opkind -> path -> rule -> path -> rule -> option path;   (* pathops.op(a, b, op, fix_winding=True) *)
    sk_simplify : path -> rule -> option path;                       (* Path.simplify(fix_winding=True) *)
    sk_transform : path -> Affine2D N -> path;                       (* Path.transform *)
    sk_stroke_raw : path -> string -> string -> T N -> T N -> T N -> list (T N) -> T N -> path;
                                                                     (* Path.stroke + convertConicsToQuads *)
    sk_bounds : path -> T N * T N * T N * T N;                       (* Path.bounds *)
    sk_area : path -> rule -> T N                                    (* Path.area *)
  }.

  Variable sk : skia.

  (* skia_path accepts exactly M L Q Z C (absolute; arcs and shorthand must be gone) *)
  Definition skia_letter (c : ascii) : bool :=
    chr_in c ["M"; "L"; "Q"; "Z"; "C"]%char.
  Definition skia_path_ok (p : path) : bool := forallb (fun c => skia_letter (fst c)) p.

  (* _do_pathop: fold the operands pairwise (each under its own fill rule; intermediate results are
     winding paths), then ALWAYS simplify the result (for/else) *)
  Fixpoint fold_ops (k : opkind) (acc : path) (accr : rule) (rest : list (path * rule)) : result path :=
    match rest with
    | [] => Ok acc
    | (p, r) :: more =>
        if negb (skia_path_ok p) then Err EValue else
        match sk_op sk k acc accr p r with
        | None => Err EOther                      (* PathOpsError propagates *)
        | Some acc' => fold_ops k acc' NonZero more
        end
    end.

  Definition do_pathop (k : opkind) (operands : list (path * rule)) : result (option path) :=
    match operands with
    | [] => Ok None                                (* `if not svg_cmd_seqs: return` *)
    | (p0, r0) :: rest =>
        if negb (skia_path_ok p0) then Err EValue else
        match fold_ops k p0 r0 rest with
        | Err e => Err e
        | Ok acc =>
            (* the running path keeps the first operand's fill type when there was no op *)
            let accr := match rest with [] => r0 | _ => NonZero end in
            match sk_simplify sk acc accr with
            | None => Err EOther
            | Some q => Ok (Some q)
            end
        end
    end.

  Definition remove_overlaps (p : path) (r : rule) : result path :=
    if negb (skia_path_ok p) then Err EValue else
    match sk_simplify sk p r with None => Err EOther | Some q => Ok q end.

  Definition transform_path (p : path) (a : Affine2D N) : result path :=
    if negb (skia_path_ok p) then Err EValue else Ok (sk_transform sk p a).

  (* stroke(): unknown cap/join -> ValueError; outline, then simplify with a fallback to the
     unsimplified outline when the engine fails *)
  Definition cap_ok (s : string) : bool := (s =? "butt") || (s =? "round") || (s =? "square").
  Definition join_ok (s : string) : bool := (s =? "miter") || (s =? "round") || (s =? "bevel").
  Definition stroke_path (p : path) (cap join : string) (width miter tol : T N) (dashes : list (T N)) (offset : T N)
    : result path :=
    if negb (cap_ok cap) || negb (join_ok join) then Err EValue else
    if negb (skia_path_ok p) then Err EValue else
    let outline := sk_stroke_raw sk p cap join width miter tol dashes offset in
    match sk_simplify sk outline NonZero with
    | Some q => Ok q
    | None => Ok outline
    end.

  Definition bounding_box (p : path) : result (T N * T N * T N * T N) :=
    if negb (skia_path_ok p) then Err EValue else Ok (sk_bounds sk p).

  (* path_area: simplify first, then the engine's area of the simplified (winding) path *)
  Definition path_area (p : path) (r : rule) : result (T N) :=
    if negb (skia_path_ok p) then Err EValue else
    match sk_simplify sk p r with
    | None => Err EOther
    | Some q => Ok (sk_area sk q NonZero)
    end.
End Skia.
