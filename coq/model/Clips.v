(* model/Clips.v — hand model (H) of SVG._resolve_clip_path (union of the clipPath's children, each
   under child.transform . clipPath.transform . referrer CTM and its own clip-rule; intersected with
   the clipPath's own clip-path, resolved with the same accumulated transform) and of the clipping
   step of _simplify (shape under fill-rule /\ every clip under nonzero). *)
From Coq Require Import ZArith List Bool Ascii String.
From Pico Require Import Num PyStr G_geom G_transform G_arc G_meta G_types Arc Walk Skia Shape Structure.
Import ListNotations.
Local Open Scope string_scope.

Section Clips.
  Context {N : NumOps} (MO : MathOps N) (sk : @skia N).
  Local Notation A2 := (Affine2D N).

  Record clipdef := mk_clipdef {
    cp_transform : option A2;
    cp_children : list (@shape N * option A2);     (* child shapes (as paths) with their own transform *)
    cp_clip : option string;                        (* clip-path on the clipPath element itself *)
    cp_rule : option string                         (* clip-rule on the clipPath element: inherited by children
                                                       that do not set their own (their s_clip_rule is then "") *)
  }.

  (* SVGShape.apply_transform: a degenerate matrix collapses the shape to "M0,0" *)
  Definition apply_transform (p : @path N) (a : A2) : result (@path N) :=
    if Affine2D_is_degenerate N a then Ok [("M"%char, [zero N; zero N])]
    else transform_path sk (as_cmd_seq MO p) a.

  Definition effective_rule (inh : option string) (sh : @shape N) : string :=
    if s_clip_rule sh =? "" then match inh with Some r => r | None => "nonzero" end else s_clip_rule sh.

  Fixpoint transform_children (inh : option string) (cur : A2) (kids : list (@shape N * option A2)) : result (list (@path N * rule)) :=
    match kids with
    | [] => Ok []
    | (sh, tf) :: r =>
        match rule_of_string (effective_rule inh sh) with
        | None => Err EValue
        | Some cr =>
            match apply_transform (s_d sh) (element_transform tf cur), transform_children inh cur r with
            | Ok q, Ok t => Ok ((as_cmd_seq MO q, cr) :: t)
            | Err e, _ => Err e
            | _, Err e => Err e
            end
        end
    end.

  Fixpoint resolve_clip (fuel : nat) (lookup : string -> option clipdef) (id : string) (transform : A2) : result (@path N) :=
    match fuel with
    | O => Err ERecursion
    | S f =>
        match lookup id with
        | None => Err EValue                          (* resolve_url: no such clipPath *)
        | Some cp =>
            let cur := element_transform (cp_transform cp) transform in
            match transform_children (cp_rule cp) cur (cp_children cp) with
            | Err e => Err e
            | Ok ops =>
                match do_pathop sk OpUnion ops with
                | Err e => Err e
                | Ok ounion =>
                    match ounion with None => Err EOther | Some clip =>
                    match cp_clip cp with
                    | None => Ok clip
                    | Some id2 =>
                        match resolve_clip f lookup id2 cur with
                        | Err e => Err e
                        | Ok clop =>
                            match do_pathop sk OpIntersection [(as_cmd_seq MO clip, NonZero); (as_cmd_seq MO clop, NonZero)] with
                            | Ok (Some q) => Ok q
                            | Ok None => Ok []
                            | Err e => Err e
                            end
                        end
                    end end
                end
            end
        end
    end.

  (* _simplify: p.update_path(intersection((p, *clips), fill_rules=(p.fill_rule, nonzero...))) *)
  Definition clip_leaf (p : @path N) (fill_rule : rule) (clips : list (@path N)) : result (@path N) :=
    match clips with
    | [] => Ok p
    | _ => match do_pathop sk OpIntersection ((as_cmd_seq MO p, fill_rule) :: map (fun c => (as_cmd_seq MO c, NonZero)) clips) with
           | Ok (Some q) => Ok q
           | Ok None => Ok []
           | Err e => Err e
           end
    end.
End Clips.
