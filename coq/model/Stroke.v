(* model/Stroke.v — hand model (H) of the stroke handling (C04): SVGShape.stroke_commands (dash array
   parsing and the odd-length repetition), svg_pathops.stroke (through model/Skia.v with the engine as
   an oracle) and SVG._stroke (the split into a fill piece and a stroke piece). *)
From Coq Require Import ZArith List Bool Ascii String.
From Pico Require Import Num PyStr Lex G_geom G_transform G_arc G_meta G_types Arc Walk Skia Shape.
Import ListNotations.
Local Open Scope string_scope.

Section Stroke.
  Context {N : NumOps} (MO : MathOps N) (sk : @skia N).

  (* re.split(r"[, ]", s) with the empty pieces dropped *)
  Fixpoint split_dashes (s cur : string) : list string :=
    match s with
    | EmptyString => if cur =? "" then [] else [cur]
    | String c r =>
        if Ascii.eqb c ","%char || Ascii.eqb c " "%char
        then (if cur =? "" then split_dashes r "" else cur :: split_dashes r "")
        else split_dashes r (cur ++ String c EmptyString)
    end.

  Fixpoint floats (l : list string) : result (list (T N)) :=
    match l with
    | [] => Ok []
    | s :: r => match num_of_string s, floats r with
                | Some v, Ok t => Ok (v :: t)
                | None, _ => Err EValue
                | _, Err e => Err e
                end
    end.

  (* an odd number of values is repeated to yield an even number *)
  Definition normalize_dashes {A} (l : list A) : list A := if Nat.odd (List.length l) then (l ++ l)%list else l.

  Definition dash_array (sh : @shape N) : result (list (T N)) :=
    if s_dasharray sh =? "none" then Ok []
    else match floats (split_dashes (s_dasharray sh) "") with
         | Ok l => Ok (normalize_dashes l)
         | Err e => Err e
         end.

  Definition stroke_commands (sh : @shape N) (tol : T N) : result (@path N) :=
    match dash_array sh with
    | Err e => Err e
    | Ok dashes => stroke_path sk (as_cmd_seq MO (s_d sh)) (s_linecap sh) (s_linejoin sh) (s_stroke_width sh)
                               (s_miterlimit sh) tol dashes (s_dashoffset sh)
    end.

  (* _reset_attrs(x, lambda field: field.name.startswith("stroke")) plus the listed updates *)
  Definition piece (sh : @shape N) (id fill fill_rule clip_rule : string) (opacity : T N) (d : @path N) : @shape N :=
    mk_shape id (s_clip_path sh) clip_rule fill (one N) fill_rule
             "none" (one N) "butt" "miter" (of_Z N 4%Z) "none" (zero N) (one N)
             opacity (s_transform sh) (s_style sh) (s_display sh) d.

  (* SVG._stroke(shape): pieces in draw order *)
  Definition stroke_split (sh : @shape N) (tol : T N) : result (list (@shape N)) :=
    match stroke_commands sh tol with
    | Err e => Err e
    | Ok sd =>
        let stroke_piece i := piece sh i (s_stroke sh) "nonzero" "nonzero" (mul N (s_opacity sh) (s_stroke_opacity sh)) sd in
        let fill_piece i := piece sh i (s_fill sh) (s_fill_rule sh) (s_clip_rule sh) (mul N (s_opacity sh) (s_fill_opacity sh)) (s_d sh) in
        match might_paint MO sk (fill_piece (s_id sh)) with
        | Err e => Err e
        | Ok false => Ok [stroke_piece (s_id sh)]
        | Ok true => Ok [fill_piece ""; stroke_piece ""]
        end
    end.
End Stroke.
