(* model/Arc.v — hand model (H) of the thin top-level wrapper arc_to_cubic.arc_to_cubic
   (zero-length -> nothing, zero radius -> one straight segment, else the generated
   _arc_to_cubic).  Everything numeric is generated code (gen/G_arc.v). *)
From Coq Require Import ZArith List Bool.
From Pico Require Import Num G_geom G_transform G_arc.
Import ListNotations.

Section Arc.
  Context {N : NumOps} (MO : MathOps N).

  Definition arc_to_cubic (start : Point N) (rx ry rot large sweep : T N) (endp : Point N)
    : result (list (option (Point N) * option (Point N) * Point N)) :=
    let arc := mk_EllipticalArc N start rx ry rot large sweep endp in
    if EllipticalArc_is_zero_length N arc then Ok []
    else if EllipticalArc_is_straight_line N arc then Ok [(None, None, EllipticalArc_end_point arc)]
    else match _arc_to_cubic N MO arc with
         | Ok l => Ok (map (fun t => (Some (fst (fst t)), Some (snd (fst t)), snd t)) l)
         | Err e => Err e
         end.
End Arc.
