(* model/BasicShapes.v — the basic shapes as command lists.
   The as_path bodies of rect / ellipse / circle / line, SVGRect.__post_init__ and SVGPath's builder
   methods are GENERATED from svg_types.py on every run (gen/G_shapes.v, tools/shapes_gen.py).
   Hand-written here (H): polygon / polyline, whose `points` string goes through the path parser
   (C10's subject): "M" + points [+ " Z"] read as path data is a moveto to the first point,
   implicit linetos to the others, and for the polygon a closepath; an empty points string gives
   the empty path.  The two wrapping constants are pinned to the generated ones in the proofs. *)
From Coq Require Import ZArith List Bool Ascii String.
From Pico Require Import Num PyStr G_geom G_shapes.
Import ListNotations.
Local Open Scope char_scope.

Section BasicShapes.
  Context {N : NumOps}.
  Local Notation num := (T N).
  Definition cmds : Type := list (ascii * list num).

  Definition poly_body (pts : list (num * num)) : cmds :=
    match pts with
    | [] => []
    | (x, y) :: r => ("M", [x; y]) :: map (fun q => ("L", [fst q; snd q])) r
    end.
  Definition polyline_cmds (pts : list (num * num)) : cmds := poly_body pts.
  Definition polygon_cmds (pts : list (num * num)) : cmds :=
    match pts with [] => [] | _ => poly_body pts ++ [("Z", [])] end.

  (* constructing an SVGRect runs __post_init__ first *)
  Definition rect_cmds (x y w h rx ry : num) : cmds :=
    match SVGRect_post_init N x y w h rx ry with
    | [x; y; w; h; rx; ry] => SVGRect_as_path N x y w h rx ry
    | _ => []
    end.
End BasicShapes.
