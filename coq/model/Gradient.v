(* model/Gradient.v — hand model (H) of the gradient rewriting of svg.py / svg_types.py (C06), built on
   the translated Affine2D functions (gen/G_transform.v):
   number_or_percentage and the defaults of the gradient dataclasses, as_user_space_units,
   _transformed_gradient, _apply_gradient_translation, _apply_gradient_template.
   Rounding is a parameter: the executable instance rounds to 6 digits like the code, the exact
   theorems take the identity. *)
From Coq Require Import ZArith List Bool Ascii String.
From Pico Require Import Num PyStr Lex G_geom G_transform.
Import ListNotations.
Local Open Scope string_scope.

Section Gradient.
  Context {N : NumOps}.
  Notation Aff := (@Affine2D N).
  Variable rnd : T N -> T N.              (* round(x, 6) *)
  Variable rnd_aff : Aff -> Aff.          (* Affine2D.round(6) *)

  (* float(s[:-1]) / 100 * scale if s.endswith("%") else float(s) *)
  Definition number_or_percentage (s : string) (scale : T N) : option (T N) :=
    let cs := list_of_string s in
    match rev cs with
    | c :: r => if Ascii.eqb c "%"%char
                then match py_float (rev r) with Some d => Some (mul N (div N (dec_val d) (of_Z N 100%Z)) scale) | None => None end
                else match py_float cs with Some d => Some (dec_val d) | None => None end
    | [] => None
    end.

  (* the coordinate pairs _GRADIENT_COORDS moves, plus what stays *)
  Record grad := mk_grad {
    g_radial : bool;
    g_p1 : T N * T N;            (* (x1,y1) / (cx,cy) *)
    g_p2 : T N * T N;            (* (x2,y2) / (fx,fy) *)
    g_r : T N; g_fr : T N;       (* radial only *)
    g_tf : Aff;
    g_bbox_units : bool          (* gradientUnits = objectBoundingBox *)
  }.

  Definition unit_rect : @Rect N := mk_Rect N (zero N) (zero N) (one N) (one N).

  (* as_user_space_units(shape_bbox) *)
  Definition as_user_space (g : grad) (bbox : @Rect N) : result grad :=
    if g_bbox_units g then
      match Affine2D_rect_to_rect N unit_rect bbox "none" with
      | Ok m => Ok (mk_grad (g_radial g) (g_p1 g) (g_p2 g) (g_r g) (g_fr g) (Affine2D_compose_ltr N [g_tf g; m]) false)
      | Err e => Err e
      end
    else Ok g.

  (* _apply_gradient_translation *)
  Definition fold_translation (g : grad) : result grad :=
    match Affine2D_decompose_translation N (g_tf g) with
    | Err e => Err e
    | Ok (tr, ap) =>
        let move (p : T N * T N) :=
          let q := Affine2D_map_point N tr (mk_Point N (fst p) (snd p)) in (rnd (Point_x q), rnd (Point_y q)) in
        let moved := negb (Affine2D_eqb N (rnd_aff tr) (Affine2D_identity N)) in
        Ok (mk_grad (g_radial g) (if moved then move (g_p1 g) else g_p1 g) (if moved then move (g_p2 g) else g_p2 g)
                    (g_r g) (g_fr g) (rnd_aff ap) (g_bbox_units g))
    end.

  (* _transformed_gradient: bbox units -> user space, ancestor transform baked in, translation folded *)
  Definition transformed_gradient (g : grad) (bbox : @Rect N) (ctm : Aff) : result grad :=
    match as_user_space g bbox with
    | Err e => Err e
    | Ok u => fold_translation (mk_grad (g_radial u) (g_p1 u) (g_p2 u) (g_r u) (g_fr u)
                                        (rnd_aff (Affine2D_compose_ltr N [g_tf u; ctm])) false)
    end.
End Gradient.

(* SVGLinearGradient / SVGRadialGradient.from_element: defaults, percentages relative to the viewBox
   (userSpaceOnUse) or to the unit square (objectBoundingBox), r and fr relative to the normalised
   diagonal, fx / fy defaulting to cx / cy.  `get` reads an attribute; the transform is parsed elsewhere. *)
Section FromElement.
  Context {N : NumOps} (MO : MathOps N).
  Definition from_element (radial : bool) (get : string -> option string) (vbw vbh : T N) (tf : @Affine2D N) : result (@grad N) :=
    let units := match get "gradientUnits" with Some u => u | None => "objectBoundingBox" end in
    let scale := if units =? "userSpaceOnUse" then Some (vbw, vbh, false)
                 else if units =? "objectBoundingBox" then Some (one N, one N, true) else None in
    match scale with
    | None => Err EValue
    | Some (w, h, bb) =>
        let diag := div N (m_hypot MO w h) (m_sqrt MO (of_Z N 2%Z)) in
        let num (k dflt : string) (sc : T N) := number_or_percentage (match get k with Some v => v | None => dflt end) sc in
        if radial then
          match num "cx" "50%" w, num "cy" "50%" h, num "r" "50%" diag, num "fr" "0%" diag with
          | Some cx, Some cy, Some r, Some fr =>
              let fx := match get "fx" with Some v => number_or_percentage v w | None => Some cx end in
              let fy := match get "fy" with Some v => number_or_percentage v h | None => Some cy end in
              match fx, fy with
              | Some fx, Some fy => Ok (mk_grad true (cx, cy) (fx, fy) r fr tf bb)
              | _, _ => Err EValue
              end
          | _, _, _, _ => Err EValue
          end
        else
          match num "x1" "0%" w, num "y1" "0%" h, num "x2" "100%" w, num "y2" "0%" h with
          | Some x1, Some y1, Some x2, Some y2 => Ok (mk_grad false (x1, y1) (x2, y2) (zero N) (zero N) tf bb)
          | _, _, _, _ => Err EValue
          end
    end.
End FromElement.

(* _apply_gradient_template on attribute maps: own attributes win, missing ones come from the
   (already resolved) template, for the fields of the gradient's own class; stops likewise *)
Definition tmap := list (string * string).
Definition tget (m : tmap) (k : string) : option string :=
  match find (fun p => fst p =? k) m with Some p => Some (snd p) | None => None end.
Definition inherit_fields (fields : list string) (own tmpl : tmap) : tmap :=
  (own ++ flat_map (fun k => match tget own k, tget tmpl k with
                             | None, Some v => [(k, v)]
                             | _, _ => []
                             end) fields)%list.
Definition inherit_stops {A} (own tmpl : list A) : list A := match own with [] => tmpl | _ => own end.
(* a chain own -> t1 -> t2 ...: each template is resolved first (the recursion of the code) *)
Fixpoint resolve_chain (fields : list (list string)) (chain : list tmap) : tmap :=
  match chain, fields with
  | [], _ => []
  | [g], _ => g
  | g :: rest, f :: fs => inherit_fields f g (resolve_chain fs rest)
  | g :: _, [] => g
  end.
