(* model/Flatten.v — document order under group flattening (C02: "document order (z-order) is kept").
   A group is dissolved by _replace_el(group, list(group)): its children take its place, in their order.
   Whatever set of groups is dissolved (in whatever order the traversal visits them), the sequence of
   leaves - the painting order - is the same. *)
From Coq Require Import List Bool Arith.
Import ListNotations.

Inductive ftree := FLeaf (id : nat) | FGroup (dissolve : bool) (kids : list ftree).

(* nested induction principle *)
Section Ind.
  Variable P : ftree -> Prop.
  Hypothesis Hleaf : forall i, P (FLeaf i).
  Hypothesis Hgroup : forall d kids, Forall P kids -> P (FGroup d kids).
  Fixpoint ftree_ind2 (t : ftree) : P t :=
    match t with
    | FLeaf i => Hleaf i
    | FGroup d kids => Hgroup d kids ((fix go (l : list ftree) : Forall P l :=
                                         match l with [] => Forall_nil P | k :: r => Forall_cons k (ftree_ind2 k) (go r) end) kids)
    end.
End Ind.

(* painting order: the leaves, depth first *)
Fixpoint leaves (t : ftree) : list nat :=
  match t with
  | FLeaf i => [i]
  | FGroup _ kids => flat_map leaves kids
  end.

(* dissolve every group marked so, bottom up; a tree becomes a forest *)
Fixpoint flatten (t : ftree) : list ftree :=
  match t with
  | FLeaf i => [FLeaf i]
  | FGroup d kids => let ks := flat_map flatten kids in if d then ks else [FGroup false ks]
  end.

(* one dissolution step at the root of a subtree: what _replace_el does *)
Definition replace_el (t : ftree) : list ftree := match t with FGroup _ kids => kids | leaf => [leaf] end.

(* instancing: a use of a forest, spliced in where the use stands, k times in a row *)
Fixpoint repeat_forest (k : nat) (f : list ftree) : list ftree := match k with O => [] | S k' => f ++ repeat_forest k' f end.
