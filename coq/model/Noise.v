(* model/Noise.v — hand model (H) of the front end of topicosvg that discards content renderers ignore
   (C14): XMLParser(remove_comments), remove_nonsvg_content, remove_processing_instructions,
   remove_anonymous_symbols, remove_title_meta_desc — on a tree with namespaces and attributes. *)
From Coq Require Import List Bool Ascii String.
From Pico Require Import PyStr.
Import ListNotations.
Local Open Scope string_scope.

Inductive nsk := NsSvg | NsXlink | NsOther.       (* svg (or none, for attributes) / xlink / anything else *)
Definition attr : Type := nsk * string * string.
Inductive nnode :=
| NEl (ns : nsk) (tag : string) (attrs : list attr) (kids : list nnode)
| NComment
| NPI.

Definition good_ns (n : nsk) : bool := match n with NsOther => false | _ => true end.

(* XMLParser(remove_comments=True) *)
Fixpoint drop_comments (n : nnode) : list nnode :=
  match n with
  | NComment => []
  | NPI => [NPI]
  | NEl ns t a kids => [NEl ns t a (flat_map drop_comments kids)]
  end.

(* remove_nonsvg_content: foreign elements go with their subtrees, foreign attributes are deleted *)
Fixpoint drop_nonsvg (n : nnode) : list nnode :=
  match n with
  | NEl ns t a kids =>
      if good_ns ns then [NEl ns t (filter (fun x => good_ns (fst (fst x))) a) (flat_map drop_nonsvg kids)] else []
  | other => [other]
  end.

(* remove_processing_instructions *)
Fixpoint drop_pi (n : nnode) : list nnode :=
  match n with
  | NPI => []
  | NComment => [NComment]
  | NEl ns t a kids => [NEl ns t a (flat_map drop_pi kids)]
  end.

Definition has_plain_id (a : list attr) : bool :=
  existsb (fun x => match x with (NsSvg, name, _) => name =? "id" | _ => false end) a.
Definition is_svg (ns : nsk) : bool := match ns with NsSvg => true | _ => false end.

(* remove_anonymous_symbols: //svg:symbol[not(@id)] *)
Fixpoint drop_anon_symbols (n : nnode) : list nnode :=
  match n with
  | NEl ns t a kids =>
      if is_svg ns && (t =? "symbol") && negb (has_plain_id a) then []
      else [NEl ns t a (flat_map drop_anon_symbols kids)]
  | other => [other]
  end.

(* remove_title_meta_desc: //svg:title, desc, metadata, comment *)
Definition is_tmd (t : string) : bool := (t =? "title") || (t =? "desc") || (t =? "metadata") || (t =? "comment").
Fixpoint drop_tmd (n : nnode) : list nnode :=
  match n with
  | NEl ns t a kids =>
      if is_svg ns && is_tmd t then [] else [NEl ns t a (flat_map drop_tmd kids)]
  | other => [other]
  end.

(* the whole front end, applied to the children of the root (the root itself is the svg element) *)
Definition clean_list (l : list nnode) : list nnode :=
  flat_map drop_tmd (flat_map drop_anon_symbols (flat_map drop_pi (flat_map drop_nonsvg (flat_map drop_comments l)))).
Definition clean_root (root : nnode) : nnode :=
  match root with
  | NEl ns t a kids => NEl ns t (filter (fun x => good_ns (fst (fst x))) a) (clean_list kids)
  | other => other
  end.

(* one-pass characterisation used by the proofs: what survives and in which form *)
Definition noise_el (ns : nsk) (t : string) (a : list attr) : bool :=
  negb (good_ns ns) || (is_svg ns && (((t =? "symbol") && negb (has_plain_id (filter (fun x => good_ns (fst (fst x))) a))) || is_tmd t)).
Fixpoint purge (n : nnode) : list nnode :=
  match n with
  | NComment | NPI => []
  | NEl ns t a kids =>
      if noise_el ns t a then [] else [NEl ns t (filter (fun x => good_ns (fst (fst x))) a) (flat_map purge kids)]
  end.
