(* model/Structure.v — hand model (H) of how transforms accumulate during traversal
   (_element_transform / _traverse), of the transform given to an instantiated <use>
   (_resolve_use) and to an un-nested <svg> (_unnest_svg).  All matrix arithmetic is the
   generated code of gen/G_transform.v. *)
From Coq Require Import ZArith List Bool Ascii String.
From Pico Require Import Num PyStr G_geom G_transform.
Import ListNotations.
Local Open Scope string_scope.

Section Structure.
  Context {N : NumOps}.
  Local Notation A2 := (Affine2D N).

  (* an element tree reduced to what the traversal needs: the element's own transform (if any) *)
  Inductive tnode := TN (own : option A2) (kids : list tnode).

  (* _element_transform: compose_ltr((own, current)) when the attribute is present and non-empty *)
  Definition element_transform (own : option A2) (current : A2) : A2 :=
    match own with Some t => Affine2D_compose_ltr N [t; current] | None => current end.

  (* depth_first(): the context transform of every element, in document order; the root's own
     transform attribute is NOT applied (the root context starts from the identity) *)
  Fixpoint dfs (cur : A2) (t : tnode) : list A2 :=
    match t with
    | TN own kids =>
        let m := element_transform own cur in
        m :: (fix go (l : list tnode) : list A2 := match l with [] => [] | k :: r => (dfs m k ++ go r)%list end) kids
    end.
  Definition traverse (root : tnode) : list A2 :=
    match root with
    | TN _ kids => Affine2D_identity N ::
        (fix go (l : list tnode) : list A2 := match l with [] => [] | k :: r => (dfs (Affine2D_identity N) k ++ go r)%list end) kids
    end.

  (* _resolve_use: translate(x, y) first, then the use element's own transform *)
  Definition use_transform (x y : T N) (own : option A2) : A2 :=
    let affine := Affine2D_translate N (Affine2D_identity N) x y in
    match own with Some t => Affine2D_compose_ltr N [affine; t] | None => affine end.

  (* _unnest_svg: the viewport transform (viewBox -> viewport per preserveAspectRatio, or a plain
     translation when there is no viewBox), then the svg element's own transform *)
  Definition unnest_transform (x y w h : T N) (viewbox : option (Rect N)) (par : string) (own : option A2) : result A2 :=
    let viewport := mk_Rect N x y w h in
    match (match viewbox with
           | Some vb => Affine2D_rect_to_rect N vb viewport par
           | None => Ok (Affine2D_translate N (Affine2D_identity N) x y)
           end) with
    | Err e => Err e
    | Ok t => Ok (match own with Some o => Affine2D_compose_ltr N [t; o] | None => t end)
    end.
End Structure.
