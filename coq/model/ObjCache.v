(* model/ObjCache.v — the SVG object as a tree plus a lazily flushed shape cache (C15).

   State: (tree, optional cache).  `self.elements` falsy (None or []) is modelled as None.
   Each public method is a SKELETON of cache-bookkeeping actions (regenerated from svg.py by
   tools/skeletons.py, gen/G_skeletons.v); what an individual edit or tree mutation does is
   abstract (indexed families of functions), because coherence does not depend on it. *)
From Coq Require Import List Bool String.
Import ListNotations.

Inductive ret := RetSelf | RetClone | RetNone | RetOther | RetRaise | RetFallthrough | RetContinue | RetBreak.

Inductive sk :=
| Done (r : ret)
| Flush (k : sk)                    (* self._update_etree() *)
| Populate (k : sk)                 (* self._elements() / self.shapes() *)
| Edit (n : nat) (k : sk)           (* edit of cached shapes (self.elements[i] = ..., shape.f(inplace=True)) *)
| Mut (n : nat) (k : sk)            (* any mutation of the element tree *)
| Invalidate (k : sk)               (* self.elements = None *)
| IfTree (n : nat) (k1 k2 : sk)     (* branch on data read from the tree *)
| IfCache (n : nat) (k1 k2 : sk)    (* branch on data read from cached shapes *)
| IfHasCache (k1 k2 : sk)           (* `if self.elements:` *)
| While (n : nat) (body k : sk).    (* a loop whose body changes the bookkeeping; the leaves of `body`
                                       are RetContinue (next iteration), RetBreak (go on with k) or RetRaise *)

Inductive mkind := Mutator | Query.
Record method := mk_method {
  m_name : string; m_kind : mkind;
  m_has_inplace : bool;      (* takes an `inplace` parameter *)
  m_prologue_ok : bool;      (* ... and starts with the standard copy prologue:
                                if not inplace: svg = self._clone(); svg.<m>(..., inplace=True); return svg *)
  m_body : sk }.

(* ------------------------------------------------------------------ concrete semantics *)
Section Sem.
  Variables tree cache : Type.
  Variable populate : tree -> cache.            (* parse every shape element into its dataclass *)
  Variable flush : tree -> cache -> tree.       (* rewrite every shape element from its dataclass *)
  Variable edit : nat -> cache -> cache.
  Variable mut : nat -> tree -> tree.
  Variable cond_tree : nat -> tree -> bool.
  Variable cond_cache : nat -> cache -> bool.
  (* how many iterations a loop (statement n) started on a given tree takes at most; every terminating
     execution has such a number, the theorems hold for every choice *)
  Variable bound : nat -> tree -> nat.

  Definition state : Type := tree * option cache.

  Fixpoint run (k : sk) (s : state) : state * ret :=
    match k with
    | Done r => (s, r)
    | Flush k' => run k' (match s with (t, Some c) => (flush t c, None) | _ => s end)
    | Populate k' => run k' (match s with (t, None) => (t, Some (populate t)) | _ => s end)
    | Edit n k' => run k' (match s with (t, Some c) => (t, Some (edit n c)) | _ => s end)
    | Mut n k' => run k' (mut n (fst s), snd s)
    | Invalidate k' => run k' (fst s, None)
    | IfTree n k1 k2 => if cond_tree n (fst s) then run k1 s else run k2 s
    | IfCache n k1 k2 => match snd s with
                         | Some c => if cond_cache n c then run k1 s else run k2 s
                         | None => run k2 s
                         end
    | IfHasCache k1 k2 => match snd s with Some _ => run k1 s | None => run k2 s end
    | While n body k' =>
        (fix loop (i : nat) (s : state) : state * ret :=
           match i with
           | O => run k' s
           | S i' => let sr := run body s in
                     match snd sr with
                     | RetContinue => loop i' (fst sr)
                     | RetBreak => run k' (fst sr)
                     | _ => sr
                     end
           end) (bound n (fst s)) s
    end.

  (* what serialising the object yields *)
  Definition abs (s : state) : tree := match s with (t, Some c) => flush t c | (t, None) => t end.

  (* the copying form of a method with the standard prologue (after the _clone fix: flush first) *)
  Definition run_copy (k : sk) (s : state) : state * state :=
    let s1 := match s with (t, Some c) => (flush t c, None) | _ => s end in
    (s1, fst (run k (fst s1, None))).
End Sem.

(* ------------------------------------------------------------------ the static analysis *)
(* how the lazily cached run L relates to the run E that starts from the serialised-and-reparsed
   object: Init  L = (t, Some c), E = (flush t c, None)
           Lag   L = (t, Some c), E = (flush t c0, Some c)
           Same  L = E *)
Inductive rel := Init | Lag | Same.

Fixpoint pure_sk (k : sk) : bool :=
  match k with
  | Done _ => true
  | IfTree _ a b => pure_sk a && pure_sk b
  | IfCache _ a b => pure_sk a && pure_sk b
  | IfHasCache a b => pure_sk a && pure_sk b
  | _ => false
  end.

(* loop bodies end every path by continue, break or raise (a `return` inside a loop is rejected by the extractor) *)
Fixpoint loop_leaves (k : sk) : bool :=
  match k with
  | Done r => match r with RetContinue | RetBreak | RetRaise => true | _ => false end
  | Flush k' | Populate k' | Edit _ k' | Mut _ k' | Invalidate k' => loop_leaves k'
  | IfTree _ a b | IfCache _ a b | IfHasCache a b => loop_leaves a && loop_leaves b
  | While _ body k' => loop_leaves body && loop_leaves k'
  end.

Fixpoint wf (r : rel) (k : sk) : bool :=
  match k with
  | Done _ => true
  | Flush k' => wf Same k'
  | Populate k' => wf (match r with Init => Lag | x => x end) k'
  | Edit _ k' => match r with Init => false | x => wf x k' end
  | Mut _ k' => match r with Same => wf Same k' | _ => false end
  | Invalidate k' => match r with Same => wf Same k' | _ => false end
  | IfTree _ a b => match r with Same => wf Same a && wf Same b | _ => pure_sk a && pure_sk b end
  | IfCache _ a b => match r with Init => false | x => wf x a && wf x b end
  | IfHasCache a b => match r with Init => false | x => wf x a && wf x b end
  | While _ body k' => match r with Same => wf Same body && wf Same k' | _ => false end
  end.

(* every leaf of an in-place body returns the receiver (or raises) *)
Fixpoint returns_self (k : sk) : bool :=
  match k with
  | Done r => match r with RetSelf | RetRaise => true | _ => false end
  | Flush k' | Populate k' | Edit _ k' | Mut _ k' | Invalidate k' => returns_self k'
  | IfTree _ a b | IfCache _ a b | IfHasCache a b => returns_self a && returns_self b
  | While _ body k' => loop_leaves body && returns_self k'
  end.

(* ------------------------------------------------------------------ cache freshness *)
(* A cached shape list refers to elements of the tree; a tree mutation while the cache is held makes
   it potentially STALE: flushing, editing or keeping it afterwards writes to / returns dead
   elements.  Ghost semantics: the run also tracks `stale` and whether a stale cache was ever used. *)
Section Ghost.
  Variables tree cache : Type.
  Variable populate : tree -> cache.
  Variable flush : tree -> cache -> tree.
  Variable edit : nat -> cache -> cache.
  Variable mut : nat -> tree -> tree.
  Variable cond_tree : nat -> tree -> bool.
  Variable cond_cache : nat -> cache -> bool.
  Variable bound : nat -> tree -> nat.

  Definition has_cache (s : state tree cache) : bool := match snd s with Some _ => true | None => false end.

  (* returns (final state, stale at exit, a stale cache was used, how the run ended) *)
  Fixpoint run_g (k : sk) (s : state tree cache) (stale used : bool) : state tree cache * bool * bool * ret :=
    match k with
    | Done r => (s, has_cache s && stale, used, r)
    | Flush k' => run_g k' (match s with (t, Some c) => (flush t c, None) | _ => s end) false (used || (has_cache s && stale))
    | Populate k' => run_g k' (match s with (t, None) => (t, Some (populate t)) | _ => s end)
                           (has_cache s && stale) (used || (has_cache s && stale))
    | Edit n k' => run_g k' (match s with (t, Some c) => (t, Some (edit n c)) | _ => s end) (has_cache s && stale) (used || (has_cache s && stale))
    | Mut n k' => run_g k' (mut n (fst s), snd s) (stale || has_cache s) used
    | Invalidate k' => run_g k' (fst s, None) false used
    | IfTree n k1 k2 => if cond_tree n (fst s) then run_g k1 s stale used else run_g k2 s stale used
    | IfCache n k1 k2 => match snd s with
                         | Some c => if cond_cache n c then run_g k1 s stale (used || stale) else run_g k2 s stale (used || stale)
                         | None => run_g k2 s stale used
                         end
    | IfHasCache k1 k2 => match snd s with Some _ => run_g k1 s stale used | None => run_g k2 s stale used end
    | While n body k' =>
        (fix loop (i : nat) (s : state tree cache) (stale used : bool) : state tree cache * bool * bool * ret :=
           match i with
           | O => run_g k' s stale used
           | S i' => match run_g body s stale used with
                     | (s', stale', used', RetContinue) => loop i' s' stale' used'
                     | (s', stale', used', RetBreak) => run_g k' s' stale' used'
                     | res => res
                     end
           end) (bound n (fst s)) s stale used
    end.
End Ghost.

(* the analysis tracks exactly whether a cache is present (its evolution is deterministic) and
   whether it may be stale; it is run from both possible entry situations *)
Fixpoint wf_fresh (present stale : bool) (k : sk) : bool :=
  match k with
  | Done _ => negb (present && stale)
  | Flush k' => negb (present && stale) && wf_fresh false false k'
  | Populate k' => negb (present && stale) && wf_fresh true false k'
  | Edit _ k' => negb (present && stale) && wf_fresh present (present && stale) k'
  | Mut _ k' => wf_fresh present (stale || present) k'
  | Invalidate k' => wf_fresh false false k'
  | IfTree _ a b => wf_fresh present stale a && wf_fresh present stale b
  | IfCache _ a b => if present then negb stale && wf_fresh present stale a && wf_fresh present stale b
                     else wf_fresh present stale b
  | IfHasCache a b => if present then wf_fresh true stale a else wf_fresh false stale b
  | While _ body k' =>
      (* first iteration / immediate exit from the entry situation; later ones from any non-stale situation *)
      wf_fresh present stale body && wf_fresh present stale k' &&
      wf_fresh false false body && wf_fresh true false body && wf_fresh false false k' && wf_fresh true false k'
  end.

Definition method_ok (m : method) : bool :=
  wf Init (m_body m) && wf_fresh true false (m_body m) && wf_fresh false false (m_body m) &&
  match m_kind m with
  | Mutator => (negb (m_has_inplace m) || (m_prologue_ok m && returns_self (m_body m)))
  | Query => true
  end.
