(* model/Reuse.v — hand model (H) of svg_reuse.affine_between and of the verification step
   (_try_affine / _apply_affine / _affine_callback / _round).  The staged search is modelled with
   its candidate matrices computed as in the code for arc-free paths; the SOUNDNESS theorem
   (proofs/E6_reuse.v) treats the candidates as arbitrary, because every exit is guarded. *)
From Coq Require Import ZArith List Bool Ascii String.
From Pico Require Import Num PyStr G_geom G_transform G_arc G_meta G_types Arc Walk.
Import ListNotations.
Local Open Scope char_scope.

Section Reuse.
  Context {N : NumOps} (MO : MathOps N).
  Local Notation A2 := (Affine2D N).
  Local Notation path := (@path N).

  Definition eps9 : T N := of_dec N 1 (-9).
  Definition snap0 (x : T N) : T N := if almost_equal N x (zero N) eps9 then zero N else x.
  Definition vnorm (x y : T N) : T N := m_sqrt MO (add N (mul N x x) (mul N y y)).

  (* _affine_callback: every (x, y) coordinate pair is mapped — absolute commands as points,
     relative commands as vectors — and snapped to 0 within 1e-9; arc radii are scaled by the
     lengths of the matrix's basis vectors *)
  Definition affine_args (a : A2) (cmd : ascii) (args : list (T N)) : list (T N) :=
    let '(xs, ys) := cmd_coords cmd in
    fold_left (fun args (ij : nat * nat) =>
                 let '(i, j) := ij in
                 let x := nth i args (zero N) in let y := nth j args (zero N) in
                 let '(nx, ny) :=
                   if Ascii.eqb cmd (to_upper cmd)
                   then let p := Affine2D_map_point N a (mk_Point N x y) in (Point_x p, Point_y p)
                   else let v := Affine2D_map_vector N a (mk_Vector N x y) in (Vector_x v, Vector_y v) in
                 let args := upd (upd args i (snap0 nx)) j (snap0 ny) in
                 if Ascii.eqb (to_upper cmd) "A" then
                   let rx := nth (i - 5) args (zero N) in let ry := nth (j - 5) args (zero N) in
                   upd (upd args (i - 5) (mul N rx (vnorm (Affine2D_a a) (Affine2D_b a))))
                       (j - 5) (mul N ry (vnorm (Affine2D_c a) (Affine2D_d a)))
                 else args)
              (combine xs ys) args.

  Definition cb_affine (a : A2) : @callback N := fun _ _ cmd args _ => [(cmd, affine_args a cmd args)].
  Definition apply_affine (a : A2) (p : path) : path := walk (cb_affine a) p.

  Definition try_affine (a : A2) (s1 s2 : path) (tol : T N) : bool :=
    path_almost_equals tol (apply_affine a s1) s2.

  (* _round: the coarsest rounding (3..12 digits) that still verifies, else the matrix itself *)
  Fixpoint round_search (digits : list Z) (a : A2) (s1 s2 : path) (tol : T N) : A2 :=
    match digits with
    | [] => a
    | d :: r => let ra := Affine2D_round N a d in
                if try_affine ra s1 s2 tol then ra else round_search r a s1 s2 tol
    end.
  Definition round_digits : list Z := [3; 4; 5; 6; 7; 8; 9; 10; 11; 12]%Z.

  (* _affine_friendly *)
  Definition friendly (p : path) : path := relative (expand_shorthand (explicit_lines p)).

  Definition first_move (p : path) : result (T N * T N) :=
    match p with
    | (c, [x; y]) :: _ => if Ascii.eqb (to_upper c) "M" then Ok (x, y) else Err EValue
    | _ => Err EValue
    end.

  (* the search, with the 2nd and 3rd candidate matrices supplied by `cand2`, `cand3`
     (None = the code bails out with no answer; Err = an exception escapes) *)
  Section Search.
    Variable cand2 : path -> path -> result (option A2).
    Variable cand3 : path -> path -> result (option A2).

    Definition affine_between (p1 p2 : path) (tol : T N) : result (option A2) :=
      if path_almost_equals tol p1 p2 then Ok (Some (Affine2D_identity N))
      else
        let s1 := friendly p1 in let s2 := friendly p2 in
        match first_move s1, first_move s2 with
        | Err e, _ => Err e
        | _, Err e => Err e
        | Ok (x1, y1), Ok (x2, y2) =>
            let a1 := Affine2D_translate N (Affine2D_identity N) (sub N x2 x1) (sub N y2 y1) in
            if try_affine a1 s1 s2 tol then Ok (Some (round_search round_digits a1 s1 s2 tol))
            else
              match cand2 s1 s2 with
              | Err e => Err e
              | Ok None => Ok None
              | Ok (Some a2) =>
                  if try_affine a2 s1 s2 tol then Ok (Some (round_search round_digits a2 s1 s2 tol))
                  else
                    match cand3 s1 s2 with
                    | Err e => Err e
                    | Ok None => Ok None
                    | Ok (Some a3) =>
                        if try_affine a3 s1 s2 tol then Ok (Some (round_search round_digits a3 s1 s2 tol))
                        else Ok None
                    end
              end
        end.
  End Search.

  (* ---- the candidate generators as coded, for arc-free affine-friendly paths ---- *)
  (* _vectors: M -> its coordinates; z -> (0,0); otherwise the end point offset *)
  Definition vec_of (c : ascii * list (T N)) : T N * T N :=
    let '(cmd, args) := c in
    if Ascii.eqb cmd "z" then (zero N, zero N)
    else let '(xs, ys) := cmd_coords cmd in
         (nth (nth_back 1 xs O) args (zero N), nth (nth_back 1 ys O) args (zero N)).
  Definition vectors (p : path) : list (T N * T N) := map vec_of p.

  Definition sig_factor : T N := of_Z N 5%Z.
  (* first index >= 1 whose val exceeds 5 * tolerance *)
  Fixpoint first_sig (val : T N * T N -> T N) (thr : T N) (idx : nat) (vs : list (T N * T N)) : option (nat * (T N * T N)) :=
    match vs with
    | [] => None
    | v :: r => if negb (Nat.eqb idx 0) && ltb N thr (pyabs (val v)) then Some (idx, v) else first_sig val thr (S idx) r
    end.

  Definition angle (v : T N * T N) : T N := m_atan2 MO (snd v) (fst v).

  Definition affine_vec2vec (initial target : T N * T N) : A2 :=
    let ang := sub N (angle target) (angle initial) in
    let rot := Affine2D_rotate N MO (Affine2D_identity N) ang (zero N) (zero N) in
    let v := Affine2D_map_vector N rot (mk_Vector N (fst initial) (snd initial)) in
    let nv := vnorm (Vector_x v) (Vector_y v) in
    let s := if eqb N nv (zero N) then zero N else div N (vnorm (fst target) (snd target)) nv in
    Affine2D_compose_ltr N [rot; Affine2D_scale N (Affine2D_identity N) s (Some s)].

  Definition stage2 (tol : T N) (s1 s2 : path) : result (option (A2 * (T N * T N))) :=
    match first_move s1, first_move s2 with
    | Ok (x1, y1), Ok (x2, y2) =>
        match first_sig fst (mul N sig_factor tol) 0 (vectors s2) with
        | None => Ok None
        | Some (idx, v2) =>
            match nth_error (vectors s1) idx with
            | None => Err EOther                  (* StopIteration escapes *)
            | Some v1 =>
                let to_origin := Affine2D_translate N (Affine2D_identity N) (opp N x1) (opp N y1) in
                let align := affine_vec2vec v1 v2 in
                let to_s2 := Affine2D_translate N (Affine2D_identity N) x2 y2 in
                Ok (Some (Affine2D_compose_ltr N [to_origin; align; to_s2], v2))
            end
        end
    | Err e, _ => Err e
    | _, Err e => Err e
    end.

  Definition cand2_code (tol : T N) (s1 s2 : path) : result (option A2) :=
    match stage2 tol s1 s2 with Ok (Some (a, _)) => Ok (Some a) | Ok None => Ok None | Err e => Err e end.

  Fixpoint first_sig_both (thr : T N) (idx : nat) (v1 v2 : list (T N * T N)) : option (T N * T N) :=
    match v1, v2 with
    | a :: r1, b :: r2 =>
        if negb (Nat.eqb idx 0) && ltb N thr (pyabs (snd a)) && ltb N thr (pyabs (snd b)) then Some (snd a, snd b)
        else first_sig_both thr (S idx) r1 r2
    | _, _ => None
    end.

  Definition cand3_code (tol : T N) (s1 s2 : path) : result (option A2) :=
    match first_move s1, first_move s2, first_sig fst (mul N sig_factor tol) 0 (vectors s2) with
    | Ok (x1, y1), Ok (x2, y2), Some (idx, v2) =>
        match nth_error (vectors s1) idx with
        | None => Err EOther
        | Some v1 =>
            let to_origin1 := Affine2D_translate N (Affine2D_identity N) (opp N x1) (opp N y1) in
            let to_origin2 := Affine2D_translate N (Affine2D_identity N) (opp N x2) (opp N y2) in
            let align := affine_vec2vec v1 v2 in
            let a2 := angle v2 in
            let onto_x := Affine2D_rotate N MO (Affine2D_identity N) (opp N a2) (zero N) (zero N) in
            let off_x := Affine2D_rotate N MO (Affine2D_identity N) a2 (zero N) (zero N) in
            let to_s2 := Affine2D_translate N (Affine2D_identity N) x2 y2 in
            let s1p := apply_affine (Affine2D_compose_ltr N [to_origin1; align; onto_x]) s1 in
            let s2p := apply_affine (Affine2D_compose_ltr N [to_origin2; onto_x]) s2 in
            match first_sig_both (mul N sig_factor tol) 0 (vectors s1p) (vectors s2p) with
            | None => Ok None
            | Some (y1v, y2v) =>
                Ok (Some (Affine2D_compose_ltr N
                            [to_origin1; align; onto_x;
                             Affine2D_scale N (Affine2D_identity N) (one N) (Some (div N y2v y1v)); off_x; to_s2]))
            end
        end
    | Err e, _, _ => Err e
    | _, Err e, _ => Err e
    | _, _, None => Ok None
    end.

  Definition affine_between_code (p1 p2 : path) (tol : T N) : result (option A2) :=
    affine_between (cand2_code tol) (cand3_code tol) p1 p2 tol.
End Reuse.
