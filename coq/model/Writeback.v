(* model/Writeback.v — hand model (H) of how a cached shape is written back to its element and read
   again (svg.py to_element / from_element), for one string-valued field, and the static question the
   C05 pin asks of a method skeleton: is a cached shape written back before <use> is instantiated?

   to_element(obj, **inherited):   the attribute is OMITTED when its value equals the value inherited from
                                   the element's context (or, for a field with no inherited value, the default)
   from_element(el, **inherited):  own attribute, else the inherited value, else the default
                                   (a blank value counts as absent and gives the default)
   The omission makes the written element depend on the context it was written in. *)
From Coq Require Import List Bool Ascii String Arith.
From Pico Require Import PyStr ObjCache.
Import ListNotations.
Local Open Scope string_scope.

Definition smap := list (string * string).
Definition sget (m : smap) (k : string) : option string :=
  match find (fun p => fst p =? k) m with Some p => Some (snd p) | None => None end.

Fixpoint blank (s : string) : bool :=
  match s with
  | EmptyString => true
  | String c r => (Ascii.eqb c " " || Ascii.eqb c "009" || Ascii.eqb c "010" || Ascii.eqb c "013" || Ascii.eqb c "011" || Ascii.eqb c "012")%char && blank r
  end.

(* the attribute to_element writes for field k holding v (None: omitted) *)
Definition write_field (inh : smap) (default k v : string) : option string :=
  match sget inh k with
  | Some iv => if v =? iv then None else Some v
  | None => if v =? default then None else Some v
  end.

(* the field value from_element reads for field k *)
Definition read_field (inh : smap) (default k : string) (own : option string) : string :=
  let raw := match own with Some v => Some v | None => sget inh k end in
  match raw with
  | Some v => if blank v then default else v
  | None => default
  end.

(* ---- static analysis of a skeleton: may a cached shape list be flushed (written back with the
   context-dependent omission above) on a path that has not yet executed tree mutation `target`?
   c: what is known about the cache (Some true: held, Some false: not held, None: unknown). *)
Definition may_hold (c : option bool) : bool := match c with Some false => false | _ => true end.

Fixpoint wb_before (target : nat) (c : option bool) (k : sk) : bool :=
  match k with
  | Done _ => false
  | Flush k' => may_hold c || wb_before target (Some false) k'
  | Populate k' => wb_before target (Some true) k'
  | Edit _ k' => wb_before target c k'
  | Mut n k' => if Nat.eqb n target then false else wb_before target c k'
  | Invalidate k' => wb_before target (Some false) k'
  | IfTree _ a b | IfCache _ a b => wb_before target c a || wb_before target c b
  | IfHasCache a b => match c with
                      | Some true => wb_before target c a
                      | Some false => wb_before target c b
                      | None => wb_before target (Some true) a || wb_before target (Some false) b
                      end
  | While _ body k' => wb_before target c body || wb_before target None body || wb_before target None k'
  end.

(* the label of the tree mutation a method of the form `self._update_etree(); <mutation>; return self` performs *)
Definition sole_mutation (k : sk) : option nat :=
  match k with Flush (Mut n (Done _)) => Some n | _ => None end.
