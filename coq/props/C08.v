(* props/C08.v — C08: converted documents have no duplicate, dangling or orphaned references.
   Proved about the hand model Refs.v (tied to svg.py by the differential run of tools/props/c08.py):
   each id-producing or id-moving mechanism preserves uniqueness, orphan removal leaves exactly the
   gradients some shape refers to, and the final gate admits only documents with unique ids.
   How the mechanisms compose inside topicosvg is decided on every run by the end-to-end judge — partial. *)
From Coq Require Import ZArith List Bool Ascii String.
From Pico Require Import Num PyStr CheckPico Refs E5_gate E5_refs.
Import ListNotations.
Local Open Scope string_scope.

(* _new_id (used by _transformed_gradient and _unnest_svg): the generated id is not yet in use, it is the
   lowest free "<template>j", and adding it keeps ids unique *)
Theorem C08_new_id_fresh : forall prefix existing s, new_id prefix existing = Some s ->
  ~ In s existing /\ exists j, s = prefix ++ nat_str j /\ forall k, (k < j)%nat -> In (prefix ++ nat_str k) existing.
Proof.
  intros prefix existing s H. destruct (new_id_loop_fresh prefix existing _ _ _ H) as [Hn [j [Hj [Hs Hk]]]].
  split; [exact Hn|]. exists j. split; [exact Hs|]. intros k Hlt. apply Hk. split; [apply Nat.le_0_l|exact Hlt].
Qed.
Theorem C08_new_id_keeps_unique : forall prefix existing s,
  NoDup existing -> new_id prefix existing = Some s -> NoDup (s :: existing).
Proof. exact new_id_keeps_unique. Qed.

(* instancing use content, any number of passes: no id is introduced or duplicated *)
Theorem C08_use_keeps_unique : forall target href k n,
  NoDup (ids n) -> NoDup (ids (resolve_use_passes target href k n)).
Proof. exact resolve_use_unique. Qed.

(* splitting a stroked shape in two *)
Theorem C08_stroke_keeps_unique : forall i fp before after,
  NoDup (some_ids (before ++ [i] ++ after)) -> NoDup (some_ids (before ++ stroke_split_ids i fp ++ after)).
Proof. exact stroke_split_unique. Qed.

(* orphan removal: what stays is referenced, what is referenced stays *)
Theorem C08_orphans_all_used : forall els fills grads g, In g (remove_orphans els fills grads) ->
  exists i, g = Some i /\ exists f, In f fills /\ used_gradient els f = Some i.
Proof. exact remove_orphans_all_used. Qed.
Theorem C08_orphans_keeps_used : forall els fills grads f i,
  In f fills -> used_gradient els f = Some i -> In (Some i) grads -> In (Some i) (remove_orphans els fills grads).
Proof. exact remove_orphans_keeps_used. Qed.

(* the gate: a normal return of topicosvg has unique ids *)
Theorem C08_gate_unique_ids : forall root, gate_ok false root = true ->
  NoDup (fold_right (fun o acc => match o with Some i => i :: acc | None => acc end) [] (map snd (all_contexts root))).
Proof. intros root H. exact (proj2 (proj2 (gate_sound root H))). Qed.

(* non-vacuity *)
Example C08_new_id_example : new_id "g_" ["g_0"; "x"; "g_1"; "g_3"] = Some "g_2".
Proof. vm_compute. reflexivity. Qed.
Example C08_orphans_example :
  remove_orphans [("linearGradient", "a"); ("clipPath", "b"); ("radialGradient", "c")] ["url(#a)"; "url(#b)"; "red"] [Some "a"; Some "c"; None] = [Some "a"].
Proof. vm_compute. reflexivity. Qed.

Definition C08_all := (C08_new_id_fresh, C08_new_id_keeps_unique, C08_use_keeps_unique, C08_stroke_keeps_unique,
                       C08_orphans_all_used, C08_orphans_keeps_used, C08_gate_unique_ids, C08_new_id_example, C08_orphans_example).
Print Assumptions C08_all.
