(* props/C11.v — C11: transform strings and affine algebra follow the SVG specification.
   Only statements, `exact`, Print Assumptions and non-vacuity Examples live here.
   All definitions are those generated from /repo/src/picosvg/svg_transform.py. *)
From Coq Require Import ZArith Reals Lra List Bool String.
From Pico Require Import Num PyStr G_geom G_transform E1_affine.
Import ListNotations.
Local Open Scope R_scope.

(* matrix product = composition of the maps, right operand applied first *)
Theorem C11_matmul_is_composition (A B : Aff) (p : Pt) :
  mapP (matmul A B) p = mapP A (mapP B p).
Proof. exact (matmul_map_point A B p). Qed.
Print Assumptions C11_matmul_is_composition.

Theorem C11_matmul_assoc (A B C : Aff) : matmul (matmul A B) C = matmul A (matmul B C).
Proof. exact (matmul_assoc A B C). Qed.

(* left-to-right composition maps a point through the first transform first (any length) *)
Theorem C11_compose_ltr_first_first (l : list Aff) (p : Pt) :
  mapP (compose_ltr l) p = fold_left (fun q A => mapP A q) l p.
Proof. exact (compose_ltr_applies_first_first l p). Qed.
Print Assumptions C11_compose_ltr_first_first.

(* the primitive operations are the SVG 1.1 matrices *)
Theorem C11_translate (tx ty x y : R) :
  mapP (Affine2D_translate ROps ident tx ty) (mkP x y) = mkP (x + tx) (y + ty).
Proof. exact (translate_maps tx ty x y). Qed.
Theorem C11_scale (sx sy x y : R) :
  mapP (Affine2D_scale ROps ident sx (Some sy)) (mkP x y) = mkP (sx * x) (sy * y).
Proof. exact (scale_maps sx sy x y). Qed.
Theorem C11_rotate_about_centre (a cx cy x y : R) :
  mapP (Affine2D_rotate ROps RMath ident a cx cy) (mkP x y) =
  mkP (cx + (cos a * (x - cx) - sin a * (y - cy))) (cy + (sin a * (x - cx) + cos a * (y - cy))).
Proof. exact (rotate_maps a cx cy x y). Qed.
Theorem C11_skewx (a x y : R) :
  mapP (Affine2D_skewx ROps RMath ident a) (mkP x y) = mkP (x + tan a * y) y.
Proof. exact (skewx_maps a x y). Qed.
Theorem C11_skewy (a x y : R) :
  mapP (Affine2D_skewy ROps RMath ident a) (mkP x y) = mkP x (y + tan a * x).
Proof. exact (skewy_maps a x y). Qed.
Print Assumptions C11_rotate_about_centre.

(* inversion undoes every non-degenerate transform (the code's own 2^-52 threshold) *)
Theorem C11_inverse_left (A : Aff) :
  Affine2D_is_degenerate ROps A = false -> matmul (Affine2D_inverse ROps A) A = ident.
Proof. exact (inverse_left A). Qed.
Theorem C11_inverse_right (A : Aff) :
  Affine2D_is_degenerate ROps A = false -> matmul A (Affine2D_inverse ROps A) = ident.
Proof. exact (inverse_right A). Qed.
Theorem C11_inverse_degenerate (A : Aff) :
  Affine2D_is_degenerate ROps A = true -> Affine2D_inverse ROps A = Affine2D_degenerate ROps.
Proof. exact (inverse_degenerate A). Qed.
Print Assumptions C11_inverse_left.

(* non-vacuity: a concrete non-degenerate, non-identity matrix *)
Example C11_nonvacuous : Affine2D_is_degenerate ROps (mkA 2 0 1 3 5 7) = false.
Proof.
  apply is_degenerate_false. cbv [Affine2D_determinant Affine2D_a Affine2D_b Affine2D_c Affine2D_d sub mul ROps].
  replace (2 * 3 - 0 * 1) with 6 by ring. rewrite Rabs_pos_eq by lra.
  pose proof eps52_lt_1. lra.
Qed.
