(* props/C11.v — C11: transform strings and affine algebra follow the SVG specification.
   Only statements, `exact`, Print Assumptions and non-vacuity Examples live here.
   All definitions are those generated from /repo/src/picosvg/svg_transform.py. *)
From Coq Require Import ZArith Reals Lra List Bool String.
From Pico Require Import Num PyStr Lex G_geom G_transform TransformParse E1_affine E1_viewport E1_tfparse E1_scale.
Import ListNotations.
Local Open Scope R_scope.

(* matrix product = composition of the maps, right operand applied first *)
Theorem C11_matmul_is_composition (A B : Aff) (p : Pt) :
  mapP (matmul A B) p = mapP A (mapP B p).
Proof. exact (matmul_map_point A B p). Qed.
Print Assumptions C11_matmul_is_composition.

Theorem C11_matmul_assoc (A B C : Aff) : matmul (matmul A B) C = matmul A (matmul B C).
Proof. exact (matmul_assoc A B C). Qed.

(* left-to-right composition maps a point through the first transform first (any length) *)
Theorem C11_compose_ltr_first_first (l : list Aff) (p : Pt) :
  mapP (compose_ltr l) p = fold_left (fun q A => mapP A q) l p.
Proof. exact (compose_ltr_applies_first_first l p). Qed.
Print Assumptions C11_compose_ltr_first_first.

(* the primitive operations are the SVG 1.1 matrices *)
Theorem C11_translate (tx ty x y : R) :
  mapP (Affine2D_translate ROps ident tx ty) (mkP x y) = mkP (x + tx) (y + ty).
Proof. exact (translate_maps tx ty x y). Qed.
Theorem C11_scale (sx sy x y : R) :
  mapP (Affine2D_scale ROps ident sx (Some sy)) (mkP x y) = mkP (sx * x) (sy * y).
Proof. exact (scale_maps sx sy x y). Qed.
Theorem C11_rotate_about_centre (a cx cy x y : R) :
  mapP (Affine2D_rotate ROps RMath ident a cx cy) (mkP x y) =
  mkP (cx + (cos a * (x - cx) - sin a * (y - cy))) (cy + (sin a * (x - cx) + cos a * (y - cy))).
Proof. exact (rotate_maps a cx cy x y). Qed.
Theorem C11_skewx (a x y : R) :
  mapP (Affine2D_skewx ROps RMath ident a) (mkP x y) = mkP (x + tan a * y) y.
Proof. exact (skewx_maps a x y). Qed.
Theorem C11_skewy (a x y : R) :
  mapP (Affine2D_skewy ROps RMath ident a) (mkP x y) = mkP x (y + tan a * x).
Proof. exact (skewy_maps a x y). Qed.
Print Assumptions C11_rotate_about_centre.

(* inversion undoes every non-degenerate transform (the code's own 2^-52 threshold) *)
Theorem C11_inverse_left (A : Aff) :
  Affine2D_is_degenerate ROps A = false -> matmul (Affine2D_inverse ROps A) A = ident.
Proof. exact (inverse_left A). Qed.
Theorem C11_inverse_right (A : Aff) :
  Affine2D_is_degenerate ROps A = false -> matmul A (Affine2D_inverse ROps A) = ident.
Proof. exact (inverse_right A). Qed.
Theorem C11_inverse_degenerate (A : Aff) :
  Affine2D_is_degenerate ROps A = true -> Affine2D_inverse ROps A = Affine2D_degenerate ROps.
Proof. exact (inverse_degenerate A). Qed.
Print Assumptions C11_inverse_left.

(* a transform attribute denotes the product of its listed operations' SVG matrices, in order
   (angles in degrees, optional arguments defaulted), for operation lists of any length *)
Theorem C11_transform_list_is_product ops (t M : Aff) :
  apply_ops (N:=ROps) RMath t ops = Ok M ->
  exists ms, map (fun oa => op_matrix (fst oa) (snd oa)) ops = map Some ms /\ M = fold_left matmul ms t.
Proof. exact (apply_ops_is_product ops t M). Qed.
Theorem C11_product_maps_last_first ms (t : Aff) p :
  mapP (fold_left matmul ms t) p = mapP t (fold_right (fun m q => mapP m q) p ms).
Proof. exact (product_maps ms t p). Qed.
Print Assumptions C11_transform_list_is_product.

(* serialising then re-reading a transform returns the same matrix (operation level;
   the character level is covered by the string correspondence) *)
Theorem C11_tostring_fromstring (A : Aff) :
  apply_ops (N:=ROps) RMath ident [tostring_op A] = Ok A.
Proof. exact (tostring_fromstring_ops A). Qed.

(* viewport mapping: preserveAspectRatio align x meet|slice is the SVG 1.1 §7.8 transform *)
Theorem C11_viewport_aligned (src dst : Rct) xa ya slice :
  Rect_w src <> 0 -> Rect_h src <> 0 -> Rect_w dst <> 0 -> Rect_h dst <> 0 ->
  Affine2D_rect_to_rect ROps src dst (par_string xa ya slice) = Ok (spec_viewport src dst xa ya slice).
Proof. exact (rect_to_rect_aligned src dst xa ya slice). Qed.
Theorem C11_viewport_default_meet (src dst : Rct) xa ya :
  Rect_w src <> 0 -> Rect_h src <> 0 -> Rect_w dst <> 0 -> Rect_h dst <> 0 ->
  Affine2D_rect_to_rect ROps src dst (align_name xa ya) = Ok (spec_viewport src dst xa ya false).
Proof. exact (rect_to_rect_default_is_meet src dst xa ya). Qed.
Theorem C11_viewport_none (src dst : Rct) :
  Rect_w src <> 0 -> Rect_h src <> 0 -> Rect_w dst <> 0 -> Rect_h dst <> 0 ->
  Affine2D_rect_to_rect ROps src dst "none" =
  Ok (mkA (Rect_w dst / Rect_w src) 0 0 (Rect_h dst / Rect_h src)
          (Rect_x dst - Rect_x src * (Rect_w dst / Rect_w src))
          (Rect_y dst - Rect_y src * (Rect_h dst / Rect_h src))).
Proof. exact (rect_to_rect_none src dst). Qed.
Theorem C11_meet_places_source_inside (src dst : Rct) xa ya :
  0 < Rect_w src -> 0 < Rect_h src -> 0 < Rect_w dst -> 0 < Rect_h dst ->
  let s := Rmin (Rect_w dst / Rect_w src) (Rect_h dst / Rect_h src) in
  Affine2D_a (spec_viewport src dst xa ya false) = s /\ Affine2D_d (spec_viewport src dst xa ya false) = s /\
  (Rect_x dst <= img_lo xa (Rect_x dst) (Rect_w dst) (Rect_x src) (Rect_w src) s /\
   img_hi xa (Rect_x dst) (Rect_w dst) (Rect_x src) (Rect_w src) s <= Rect_x dst + Rect_w dst) /\
  (Rect_y dst <= img_lo ya (Rect_y dst) (Rect_h dst) (Rect_y src) (Rect_h src) s /\
   img_hi ya (Rect_y dst) (Rect_h dst) (Rect_y src) (Rect_h src) s <= Rect_y dst + Rect_h dst).
Proof. exact (viewport_meet_inside src dst xa ya). Qed.
Theorem C11_slice_covers_destination (src dst : Rct) xa ya :
  0 < Rect_w src -> 0 < Rect_h src ->
  let s := Rmax (Rect_w dst / Rect_w src) (Rect_h dst / Rect_h src) in
  Affine2D_a (spec_viewport src dst xa ya true) = s /\ Affine2D_d (spec_viewport src dst xa ya true) = s /\
  (img_lo xa (Rect_x dst) (Rect_w dst) (Rect_x src) (Rect_w src) s <= Rect_x dst /\
   Rect_x dst + Rect_w dst <= img_hi xa (Rect_x dst) (Rect_w dst) (Rect_x src) (Rect_w src) s) /\
  (img_lo ya (Rect_y dst) (Rect_h dst) (Rect_y src) (Rect_h src) s <= Rect_y dst /\
   Rect_y dst + Rect_h dst <= img_hi ya (Rect_y dst) (Rect_h dst) (Rect_y src) (Rect_h src) s).
Proof. exact (viewport_slice_covers src dst xa ya). Qed.
Theorem C11_alignment_edges d0 dlen s0 slen s :
  img_lo AMin d0 dlen s0 slen s = d0 /\ img_hi AMax d0 dlen s0 slen s = d0 + dlen /\
  (img_lo AMid d0 dlen s0 slen s + img_hi AMid d0 dlen s0 slen s) / 2 = d0 + dlen / 2.
Proof. exact (conj (align_min d0 dlen s0 slen s) (conj (align_max d0 dlen s0 slen s) (align_mid d0 dlen s0 slen s))). Qed.
Print Assumptions C11_viewport_aligned.

(* translation decomposition: a normal return gives a pure translation and the 2x2 part that
   recompose within the code's own 1e-4 self-check; and the algebra is exact when a <> 0 *)
Theorem C11_decompose_translation (A T L : Aff) :
  Affine2D_decompose_translation ROps A = Ok (T, L) ->
  L = mkA (Affine2D_a A) (Affine2D_b A) (Affine2D_c A) (Affine2D_d A) 0 0 /\
  (exists x y, T = Affine2D_translate ROps ident x y) /\
  Affine2D_almost_equals ROps A (compose_ltr [T; L]) (1 * Rpow10 (-4)) = true.
Proof. exact (decompose_translation_parts A T L). Qed.
Theorem C11_decompose_translation_exact (a b c d e f : R) :
  a <> 0 -> a * d - b * c <> 0 ->
  let y' := (f - e * b / a) / (d - b * c / a) in
  let x' := (e - c * y') / a in
  matmul (mkA a b c d 0 0) (mkA 1 0 0 1 x' y') = mkA a b c d e f.
Proof. exact (decompose_translation_exact a b c d e f). Qed.
(* decompose_scale: the scale part is the pair of column lengths; whenever it is invertible the parts recompose exactly *)
Theorem C11_decompose_scale (MO : MathOps ROps) (A S Rm : Aff) :
  Affine2D_decompose_scale ROps MO A = Ok (S, Rm) ->
  S = scale_part MO A /\ Rm = compose_ltr [Affine2D_inverse ROps S; A] /\
  Affine2D_almost_equals ROps A (compose_ltr [S; Rm]) (1 * Rpow10 (-4)) = true.
Proof. exact (decompose_scale_parts MO A S Rm). Qed.
Theorem C11_decompose_scale_recomposes (MO : MathOps ROps) (A S Rm : Aff) :
  Affine2D_decompose_scale ROps MO A = Ok (S, Rm) -> Affine2D_is_degenerate ROps S = false -> compose_ltr [S; Rm] = A.
Proof. exact (decompose_scale_recomposes MO A S Rm). Qed.
Print Assumptions C11_decompose_scale_recomposes.
Print Assumptions C11_decompose_translation.

(* non-vacuity: a concrete non-degenerate, non-identity matrix *)
Example C11_nonvacuous : Affine2D_is_degenerate ROps (mkA 2 0 1 3 5 7) = false.
Proof.
  apply is_degenerate_false. cbv [Affine2D_determinant Affine2D_a Affine2D_b Affine2D_c Affine2D_d sub mul ROps].
  replace (2 * 3 - 0 * 1) with 6 by ring. rewrite Rabs_pos_eq by lra.
  pose proof eps52_lt_1. lra.
Qed.
