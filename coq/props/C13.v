(* props/C13.v — C13: boolean path operations compute the set operation under each operand's fill rule.
   Proofs RELATIVE TO the engine contract (Section hypotheses, discharged by nobody: they are the
   precise statement of what is assumed about Skia).  picosvg's own contribution — operand order,
   per-operand fill types, the pairwise fold, the final simplify, error propagation, the stroke
   fallback, the accepted command set — is what is proved, for operand lists of any length. *)
From Coq Require Import ZArith Reals List Bool Ascii String.
From Pico Require Import Num PyStr G_geom G_transform Walk Skia E1_affine E3_walk E5_pathops.
Import ListNotations.

Section C13.
  Variable inside : pathR -> rule -> Pt -> Prop.
  Variable sk : @skia ROps.
  Hypothesis op_contract : forall k p1 r1 p2 r2 q,
    sk_op sk k p1 r1 p2 r2 = Some q -> forall r pt, inside q r pt <-> opsem k (inside p1 r1 pt) (inside p2 r2 pt).
  Hypothesis simplify_contract : forall p r q,
    sk_simplify sk p r = Some q -> forall r' pt, inside q r' pt <-> inside p r pt.

  Theorem C13_pathop_is_set_operation k p0 r0 rest q :
    do_pathop sk k ((p0, r0) :: rest) = Ok (Some q) ->
    forall r pt, inside q r pt <-> fold_sem inside k pt (inside p0 r0 pt) rest.
  Proof. exact (do_pathop_sem inside sk op_contract simplify_contract k p0 r0 rest q). Qed.

  Theorem C13_remove_overlaps p r q :
    remove_overlaps sk p r = Ok q -> forall r' pt, inside q r' pt <-> inside p r pt.
  Proof. exact (remove_overlaps_sem inside sk simplify_contract p r q). Qed.

  Theorem C13_engine_failure_is_an_error k p0 r0 rest acc :
    skia_path_ok p0 = true -> fold_ops sk k p0 r0 rest = Ok acc ->
    sk_simplify sk acc (match rest with [] => r0 | _ => NonZero end) = None ->
    do_pathop sk k ((p0, r0) :: rest) = Err EOther.
  Proof. exact (do_pathop_fails_closed sk k p0 r0 rest acc). Qed.

  Theorem C13_op_failure_is_an_error k acc accr p r rest :
    skia_path_ok p = true -> sk_op sk k acc accr p r = None -> fold_ops sk k acc accr ((p, r) :: rest) = Err EOther.
  Proof. exact (fold_ops_fails_closed sk k acc accr p r rest). Qed.

  Theorem C13_stroke_fallback_same_interior p cap join w m tol ds off q :
    stroke_path sk p cap join w m tol ds off = Ok q ->
    forall pt, inside q NonZero pt <-> inside (sk_stroke_raw sk p cap join w m tol ds off) NonZero pt.
  Proof. exact (stroke_fallback inside sk simplify_contract p cap join w m tol ds off q). Qed.

  Theorem C13_only_MLQCZ_reach_the_engine k ops q :
    do_pathop sk k ops = Ok (Some q) -> Forall (fun o => skia_path_ok (fst o) = true) ops.
  Proof. exact (skia_accepts_only_MLQCZ sk k ops q). Qed.
End C13.

Definition C13_all := (C13_pathop_is_set_operation, C13_remove_overlaps, C13_engine_failure_is_an_error,
  C13_op_failure_is_an_error, C13_stroke_fallback_same_interior, C13_only_MLQCZ_reach_the_engine).
Print Assumptions C13_all.
