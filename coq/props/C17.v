(* props/C17.v — C17: conversion always terminates with a picosvg or an exception.
   Proved about the hand models (tied to svg.py by the differential run of tools/props/c17.py):
   * the reference-graph check at the head of _resolve_use needs at most one round per id (the model's
     fuel is never what rejects), rejects every self reference, and a graph it accepts is ranked;
   * on a ranked graph the expansion loop of _resolve_use has no live reference left after |ids|+1
     passes, i.e. the `while True` exits (or a dangling reference raises);
   * the tidy loop of topicosvg exits within #groups + 1 iterations when removals shrink the group count;
   * following gradient hrefs ends, for every table of references, in a result or in an exception
     (RecursionError for every cyclic chain);
   * _resolve_clip_path: fuelled model in Clips.v (C03), cycles end in the recursion error.
   Wall-clock time, memory and the XML parser's entity handling are runtime behaviour: the
   watchdogged adversarial judge decides them on every run — partial. *)
From Coq Require Import List Bool Ascii String Arith.
From Pico Require Import PyStr CheckPico Termination E5_termination.
Import ListNotations.
Local Open Scope string_scope.

Theorem C17_check_fuel_irrelevant : forall fuel fuel' pending,
  List.length pending <= fuel -> List.length pending <= fuel' -> kahn fuel pending = kahn fuel' pending.
Proof. exact kahn_fuel_irrelevant. Qed.

Theorem C17_check_accepts_only_ranked : forall g, use_check g = true ->
  exists rank, ranked g rank /\ forall a, rank a <= S (List.length g).
Proof. exact use_check_ranked. Qed.

Theorem C17_check_rejects_self_reference : forall g a refs, In (a, refs) g -> In a refs -> use_check g = false.
Proof. intros g a refs. apply kahn_self_loop. Qed.

Theorem C17_expansion_ends : forall g, use_check g = true -> forall a, live g (S (List.length g)) a = [].
Proof. exact expansion_ends. Qed.

(* the tidy loop at the end of topicosvg: as long as a reported removal means that a group disappeared
   (observed on real conversions by the correspondence run), it exits within #groups + 1 iterations *)
Theorem C17_tidy_loop_ends : forall (state : Type) (step : state -> state * bool) (groups : state -> nat),
  (forall s, snd (step s) = true -> groups (fst (step s)) < groups s) ->
  forall fuel s, groups s < fuel -> exists s', tidy state step fuel s = Some s'.
Proof. exact tidy_ends. Qed.

Theorem C17_href_chain_ends : forall href limit depth cur,
  match follow href limit depth cur with
  | Resolved d | Dangling d => depth <= d < depth + limit
  | RecursionError => True
  end.
Proof. exact follow_total. Qed.

Theorem C17_href_cycle_raises : forall href limit depth cur,
  (forall s, exists nxt, href s = Some (Some nxt)) -> follow href limit depth cur = RecursionError.
Proof. exact follow_cycle. Qed.

(* non-vacuity: an acyclic graph with sharing is accepted, a 3-cycle is rejected *)
Example C17_accepts : use_check [("a", ["b"; "c"]); ("b", ["c"]); ("c", []); ("d", ["zz"])] = true.
Proof. vm_compute. reflexivity. Qed.
Example C17_rejects_3cycle : use_check [("a", ["b"]); ("b", ["c"]); ("c", ["a"]); ("d", [])] = false.
Proof. vm_compute. reflexivity. Qed.

Definition C17_all := (C17_tidy_loop_ends, C17_check_fuel_irrelevant, C17_check_accepts_only_ranked, C17_check_rejects_self_reference, C17_expansion_ends,
                       C17_href_chain_ends, C17_href_cycle_raises, C17_accepts, C17_rejects_3cycle).
Print Assumptions C17_all.
