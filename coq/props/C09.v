(* props/C09.v — C09: rewriting shapes and path data never changes the curve. *)
From Coq Require Import ZArith Reals Lra List Bool String.
From Pico Require Import Num G_geom G_meta G_types Walk PathSem.
Import ListNotations.
