(* props/C09.v — C09: rewriting shapes and path data never changes the curve they describe.
   Paths are exploded command lists; their meaning is spec/PathSem.v (SVG 1.1 §8.3).  The
   callbacks, _next_pos and the index tables are regenerated from svg_types.py / svg_meta.py on
   every run; the walk loop is model/Walk.v (correspondence-checked).

   PARTIAL with respect to the property text: proved for command lists of any length —
   explicit_lines, expand_shorthand (reflection only after a curve of the same family),
   absolute / absolute_moveto / relative (exact, for paths without 1e-9 near misses of the subpath
   start: the code snaps those), move, the target forms, and the rounding bound.  Not proved here
   (correspondence + spec judge on every run): subpaths() splitting, the arcs_to_cubics step of
   as_cmd_seq (its numerics are C12's theorems).  The basic shapes: rect / ellipse / circle / line are proved, of the
   as_path bodies, __post_init__ and builder methods REGENERATED from svg_types.py (gen/G_shapes.v), to interpret to exactly the
   outlines of SVG 1.1 chapter 9; polygon / polyline (any number of points) of the hand model tied by correspondence.  When a 1e-9 snap does fire
   the moved segment is proved to end exactly on the subpath start with its other arguments untouched
   (so the drift is the <= 1e-9 the snap condition itself states); that the curve of a snapped path stays
   within 1e-8 of the original is judged on near-closing inputs on every run. *)
From Coq Require Import ZArith Reals Lra List Bool Ascii String.
From Pico Require Import Num PyStr G_geom G_meta G_types Walk PathSem E3_walk E3_rewrites E3_shorthand E3_forms E3_chain E3_snap G_transform E1_affine G_shapes BasicShapes E3_shapes E3_letters.
Import ListNotations.
Local Open Scope char_scope.

(* the code's position bookkeeping is the standard's, for each of the 20 commands *)
Theorem C09_walk_tracks_current_point (i : ist) (c : cmdR) :
  wf_cmd c ->
  track (i_cur i) (i_start i) c =
  (i_cur (fst (icmd i (fst c) (snd c))), i_start (fst (icmd i (fst c) (snd c)))).
Proof. exact (emit_tracks i c). Qed.

Theorem C09_explicit_lines (p : pathR) :
  wf_path p -> interpR (explicit_lines (N:=ROps) p) = interpR p.
Proof. exact (explicit_lines_preserves p). Qed.

Theorem C09_expand_shorthand (p : pathR) :
  wf_path p -> interpR (expand_shorthand (N:=ROps) p) = interpR p.
Proof. exact (expand_shorthand_preserves p). Qed.

Theorem C09_absolute (p : pathR) :
  wf_path p -> pre_all (pre_nosnap (_relative_to_absolute ROps)) true istate0 p ->
  interpR (absolute (N:=ROps) p) = interpR p.
Proof. exact (absolute_preserves p). Qed.

Theorem C09_absolute_moveto (p : pathR) :
  wf_path p -> pre_all (pre_nosnap (_relative_to_absolute_moveto ROps)) true istate0 p ->
  interpR (absolute_moveto (N:=ROps) p) = interpR p.
Proof. exact (absolute_moveto_preserves p). Qed.

Theorem C09_relative (p : pathR) :
  wf_path p -> pre_all (pre_nosnap (_absolute_to_relative ROps)) true istate0 p ->
  interpR (relative (N:=ROps) p) = interpR p.
Proof. exact (relative_preserves p). Qed.

Theorem C09_move (dx dy : R) (p : pathR) :
  wf_path p -> (match p with (c, _) :: _ => c = "M" \/ c = "m" | [] => True end) ->
  interpR (move (N:=ROps) dx dy p) = map (shift_seg dx dy) (interpR p).
Proof. exact (move_shifts dx dy p). Qed.

(* target forms *)
Theorem C09_no_lowercase_after_absolute (p : pathR) : Forall is_abs_cmd (absolute (N:=ROps) p).
Proof. exact (absolute_form p). Qed.
Theorem C09_no_HV_after_explicit_lines (p : pathR) : Forall not_hv (explicit_lines (N:=ROps) p).
Proof. exact (explicit_lines_form p). Qed.
Theorem C09_no_ST_after_expand_shorthand (p : pathR) :
  Forall (fun c => In (fst c) letters) p -> Forall not_st (expand_shorthand (N:=ROps) p).
Proof. exact (expand_shorthand_form p). Qed.

(* whatever of the twenty letters the source uses - arcs included - after the three rewrites in topicosvg's order only the
   absolute letters M L C Q A Z are left (the path-data clause of C01) *)
Theorem C09_converted_letters (p : pathR) :
  Forall (fun c => In (fst c) letters) p ->
  Forall (fun c => In (fst c) ["M";"L";"C";"Q";"Z";"A"]) (absolute (N:=ROps) (expand_shorthand (N:=ROps) (explicit_lines (N:=ROps) p))).
Proof. exact (converted_letters p). Qed.

(* the rewrites compose: the normal form handed to Skia (as_cmd_seq = arcs_to_cubics . absolute . expand_shorthand .
   explicit_lines) describes the same curve as a well-formed arc-free path and uses M L C Q Z only (arcs: C12) *)
Theorem C09_as_cmd_seq (MO : MathOps ROps) (p : pathR) :
  wf_path p -> Forall (fun c => In (fst c) S0) p ->
  pre_all (pre_nosnap (_relative_to_absolute ROps)) true istate0 (expand_shorthand (N:=ROps) (explicit_lines (N:=ROps) p)) ->
  interpR (as_cmd_seq MO p) = interpR p /\ Forall (fun c => In (fst c) S3) (as_cmd_seq MO p).
Proof. exact (as_cmd_seq_preserves MO p). Qed.

(* when the 1e-9 snap does fire, the moved segment - absolute or relative - ends exactly on the subpath start *)
Theorem C09_snapped_segment_ends_on_start (cur tgt : Pt) c (a : list R) :
  In c drawing_letters -> num_args c = Some (List.length a) ->
  _next_pos ROps cur (fst (_move_endpoint ROps cur c a tgt)) (snd (_move_endpoint ROps cur c a tgt)) = tgt.
Proof. exact (move_endpoint_lands cur tgt c a). Qed.

Theorem C09_rewrite_snap_lands (rw : rw_t) (s cur : Pt) c (a : list R) pv :
  In (fst (rw cur c a)) drawing_letters -> num_args (fst (rw cur c a)) = Some (List.length (snd (rw cur c a))) ->
  Point_eqb ROps (_next_pos ROps cur (fst (rw cur c a)) (snd (rw cur c a))) s = false ->
  Point_almost_equals ROps (_next_pos ROps cur (fst (rw cur c a)) (snd (rw cur c a))) s eps9 = true ->
  _next_pos ROps cur (fst (f_rewrite rw s cur c a pv)) (snd (f_rewrite rw s cur c a pv)) = s.
Proof. exact (rewrite_snap_lands rw s cur c a pv). Qed.

(* ... and nothing else changes: same letter, same leading arguments (control points, radii, flags); H/V become the line to the start *)
Theorem C09_snap_changes_only_the_end_point (cur tgt : Pt) c (a : list R) :
  In c endpoint_last_letters -> num_args c = Some (List.length a) ->
  fst (_move_endpoint ROps cur c a tgt) = c /\
  firstn (List.length a - 2) (snd (_move_endpoint ROps cur c a tgt)) = firstn (List.length a - 2) a /\
  List.length (snd (_move_endpoint ROps cur c a tgt)) = List.length a.
Proof. exact (move_endpoint_keeps_rest cur tgt c a). Qed.

(* rounding to n digits moves no coordinate by more than half a unit in the last place *)
Theorem C09_rounding (nd : Z) (p : pathR) :
  Forall2 (fun c c' => fst c = fst c' /\
                       Forall2 (fun x y => Rabs (y - x) <= / Rpow10 nd / 2)%R (snd c) (snd c'))
          p (round_path (N:=ROps) nd p).
Proof. exact (round_path_close nd p). Qed.

(* ---- basic shapes: SVG 1.1 chapter 9 outlines, of the regenerated as_path bodies ---- *)
Local Open Scope R_scope.
(* every builder method of SVGPath writes the command it is named after (table regenerated from the source) *)
Theorem C09_builder_writes_its_letter (c : ascii) : builder_letter c = c.
Proof. exact (builder_letter_id c). Qed.

Theorem C09_line (x1 y1 x2 y2 : R) :
  interpR (SVGLine_as_path ROps x1 y1 x2 y2) = [SegMove (mk_Point ROps x1 y1); SegLine (mk_Point ROps x1 y1) (mk_Point ROps x2 y2)].
Proof. exact (line_outline x1 y1 x2 y2). Qed.

Theorem C09_ellipse (rx ry cx cy : R) :
  interpR (SVGEllipse_as_path ROps rx ry cx cy) =
  [SegMove (mk_Point ROps (cx + rx) cy);
   SegArc (mk_Point ROps (cx + rx) cy) rx ry 0 1 1 (mk_Point ROps (cx - rx) cy);
   SegArc (mk_Point ROps (cx - rx) cy) rx ry 0 1 1 (mk_Point ROps (cx + rx) cy);
   SegClose (mk_Point ROps (cx + rx) cy) (mk_Point ROps (cx + rx) cy)]%R.
Proof. exact (ellipse_outline rx ry cx cy). Qed.

Theorem C09_ellipse_halves (rx ry cx cy : R) :
  rx <> 0%R -> ry <> 0%R ->
  on_ellipse cx cy rx ry (mk_Point ROps (cx + rx) cy) /\ on_ellipse cx cy rx ry (mk_Point ROps (cx - rx) cy) /\
  (((cx + rx) + (cx - rx)) / 2 = cx)%R /\ ((cy + cy) / 2 = cy)%R.
Proof. exact (ellipse_arc_ends rx ry cx cy). Qed.

Theorem C09_circle (r cx cy : R) :
  interpR (SVGCircle_as_path ROps r cx cy) = interpR (SVGEllipse_as_path ROps r r cx cy).
Proof. exact (circle_outline r cx cy). Qed.

Theorem C09_rect_radii (x y w h rx ry : R) :
  SVGRect_post_init ROps x y w h rx ry =
  [x; y; w; h;
   Rmin (if Reqb rx 0 then ry else rx) (w / 2);
   Rmin (if Reqb ry 0 then (if Reqb rx 0 then ry else rx) else ry) (h / 2)]%R.
Proof. exact (rect_radii x y w h rx ry). Qed.

Theorem C09_rect_sharp (x y w h : R) :
  interpR (SVGRect_as_path ROps x y w h 0 0) =
  [SegMove (mk_Point ROps (x + 0) y);
   SegLine (mk_Point ROps (x + 0) y) (mk_Point ROps (x + w - 0) y);
   SegLine (mk_Point ROps (x + w - 0) y) (mk_Point ROps (x + w - 0) (y + h - 0));
   SegLine (mk_Point ROps (x + w - 0) (y + h - 0)) (mk_Point ROps (x + 0) (y + h - 0));
   SegLine (mk_Point ROps (x + 0) (y + h - 0)) (mk_Point ROps (x + 0) (y + 0));
   SegClose (mk_Point ROps (x + 0) (y + 0)) (mk_Point ROps (x + 0) y)]%R.
Proof. exact (rect_outline_sharp x y w h). Qed.

Theorem C09_rect_rounded (x y w h rx ry : R) :
  (0 < rx)%R ->
  interpR (SVGRect_as_path ROps x y w h rx ry) =
  [SegMove (mk_Point ROps (x + rx) y);
   SegLine (mk_Point ROps (x + rx) y) (mk_Point ROps (x + w - rx) y);
   SegArc (mk_Point ROps (x + w - rx) y) rx ry 0 0 1 (mk_Point ROps (x + w) (y + ry));
   SegLine (mk_Point ROps (x + w) (y + ry)) (mk_Point ROps (x + w) (y + h - ry));
   SegArc (mk_Point ROps (x + w) (y + h - ry)) rx ry 0 0 1 (mk_Point ROps (x + w - rx) (y + h));
   SegLine (mk_Point ROps (x + w - rx) (y + h)) (mk_Point ROps (x + rx) (y + h));
   SegArc (mk_Point ROps (x + rx) (y + h)) rx ry 0 0 1 (mk_Point ROps x (y + h - ry));
   SegLine (mk_Point ROps x (y + h - ry)) (mk_Point ROps x (y + ry));
   SegArc (mk_Point ROps x (y + ry)) rx ry 0 0 1 (mk_Point ROps (x + rx) y);
   SegClose (mk_Point ROps (x + rx) y) (mk_Point ROps (x + rx) y)]%R.
Proof. exact (rect_outline_rounded x y w h rx ry). Qed.

Theorem C09_rect_corner (x y w rx ry : R) :
  rx <> 0%R -> ry <> 0%R ->
  on_ellipse (x + w - rx) (y + ry) rx ry (mk_Point ROps (x + w - rx) y) /\
  on_ellipse (x + w - rx) (y + ry) rx ry (mk_Point ROps (x + w) (y + ry)).
Proof. exact (rect_corner_on_ellipse x y w rx ry). Qed.

Theorem C09_polyline (x y : R) (r : list (R * R)) :
  interpR (polyline_cmds (N:=ROps) ((x, y) :: r)) = SegMove (mk_Point ROps x y) :: chain (mk_Point ROps x y) r.
Proof. exact (polyline_outline x y r). Qed.

Theorem C09_polygon (x y : R) (r : list (R * R)) :
  interpR (polygon_cmds (N:=ROps) ((x, y) :: r)) =
  SegMove (mk_Point ROps x y) :: chain (mk_Point ROps x y) r ++ [SegClose (last_pt (mk_Point ROps x y) r) (mk_Point ROps x y)].
Proof. exact (polygon_outline x y r). Qed.

(* non-vacuity: a concrete path with relative commands, a shorthand after a curve of the other
   family and a closepath followed by drawing is well formed *)
Example C09_nonvacuous :
  wf_path [("M", [1; 2]); ("q", [1; 2; 3; 0]); ("S", [5; 5; 6; 0]); ("z", []); ("l", [1; 1])]%R.
Proof. repeat constructor; cbn; tauto. Qed.

(* one traversal for the axioms of the whole property file *)
Definition C09_all := (C09_walk_tracks_current_point, C09_explicit_lines, C09_expand_shorthand, C09_absolute,
  C09_absolute_moveto, C09_relative, C09_move, C09_no_lowercase_after_absolute, C09_no_HV_after_explicit_lines,
  C09_no_ST_after_expand_shorthand, C09_converted_letters, C09_as_cmd_seq, C09_snapped_segment_ends_on_start, C09_rewrite_snap_lands, C09_snap_changes_only_the_end_point, C09_rounding,
  C09_builder_writes_its_letter, C09_line, C09_ellipse, C09_ellipse_halves, C09_circle, C09_rect_radii, C09_rect_sharp, C09_rect_rounded,
  C09_rect_corner, C09_polyline, C09_polygon).
Print Assumptions C09_all.
