(* props/C12.v — C12: arc-to-cubic conversion tracks the true elliptical arc.
   Statements only; the definitions are those generated from arc_to_cubic.py (gen/G_arc.v)
   plus the 10-line wrapper model/Arc.v.

   PARTIAL.  Proved for every arc: output shape and segment count, per-segment angle bound,
   the closed-form radial error (every cubic point lies between the corrected ellipse and the
   same ellipse enlarged by 0.03 %), continuity of consecutive segments, exact final end point,
   radius correction (absolute values, scaling by sqrt(Lambda) exactly when the radii are too
   small), zero radius -> one line, coincident end points -> nothing.
   Not proved (exercised by the correspondence and judged by the spec-side search only): that the
   centre parametrisation places the first start point on the arc's start point and that the
   sign choices realise the large-arc / sweep flags (needs cos/sin of atan2 and the sign analysis
   of the cross product). *)
From Coq Require Import ZArith Reals Lra List Bool String.
From Pico Require Import Num G_geom G_transform G_arc Arc E1_affine E4_bezier E4_arc E4_center E4_sweep.
Import ListNotations.
Local Open Scope R_scope.

(* the converter emits, for the radius-corrected arc and its centre parametrisation, exactly
   n = ceil(|theta_arc| / (pi/2 + 0.001)) cubic segments *)
Theorem C12_output_shape (arc0 : EArc) :
  let arc := EllipticalArc_correct_out_of_range_radii ROps RMath arc0 in
  _arc_to_cubic ROps RMath arc0 =
  match EllipticalArc_end_to_center_parametrization ROps RMath arc with
  | Err e => Err e
  | Ok ap => Ok (map (seg arc ap (seg_count ap)) (zrange (seg_count ap)))
  end.
Proof. exact (arc_to_cubic_shape arc0). Qed.
Print Assumptions C12_output_shape.

Theorem C12_segment_angle (ap : CP) :
  (1 <= seg_count ap)%Z ->
  Rabs (CenterParametrization_theta_arc ap / IZR (seg_count ap)) <= PI / 2 + 1 / 1000.
Proof. exact (seg_angle_bound ap). Qed.

Theorem C12_at_least_one_segment (ap : CP) :
  CenterParametrization_theta_arc ap <> 0 -> (1 <= seg_count ap)%Z.
Proof. exact (seg_count_pos ap). Qed.

(* closed form of the radial error of the circular-arc cubic with k = 4/3 tan(d/4) *)
Theorem C12_error_identity th0 d s :
  cos (d / 4) <> 0 -> cos (d / 2) <> 0 ->
  (arcX th0 d s) ^ 2 + (arcY th0 d s) ^ 2 - 1 =
  16 * s ^ 2 * (1 - s) ^ 2 * (2 * s - 1) ^ 2 * (tan (d / 4)) ^ 6 / (1 + (tan (d / 4)) ^ 2) ^ 2.
Proof. exact (unit_arc_error_identity th0 d s). Qed.

(* accuracy, for every arc, every segment, every parameter value *)
Theorem C12_within_3e_4_of_ellipse (arc : EArc) (ap : CP) i s :
  let n := seg_count ap in
  (1 <= n)%Z -> 0 <= s <= 1 ->
  let Tr := frame arc ap in
  let th0 := seg_theta ap n i in
  let th1 := seg_theta ap n (i + 1) in
  let c := seg arc ap n i in
  exists q,
    bezP (mapP Tr (mkP (cos th0) (sin th0))) (fst (fst c)) (snd (fst c)) (mapP Tr (mkP (cos th1) (sin th1))) s
      = mapP Tr q /\
    1 <= Point_x q ^ 2 + Point_y q ^ 2 <= (1 + 3 / 10000) ^ 2.
Proof. exact (segment_tracks_ellipse arc ap i s). Qed.
Print Assumptions C12_within_3e_4_of_ellipse.

(* continuity and exact end *)
Theorem C12_segments_chain (ap : CP) n i :
  IZR n <> 0 -> seg_theta ap n (i + 1) - seg_theta ap n i = CenterParametrization_theta_arc ap / IZR n.
Proof. exact (seg_theta_step ap n i). Qed.
Theorem C12_inner_end_is_next_start (arc : EArc) (ap : CP) n i :
  (i <> n - 1)%Z ->
  snd (seg arc ap n i) = mapP (frame arc ap) (mkP (cos (seg_theta ap n (i + 1))) (sin (seg_theta ap n (i + 1)))).
Proof. exact (seg_end_inner arc ap n i). Qed.
Theorem C12_last_end_is_given_end (arc : EArc) (ap : CP) n :
  snd (seg arc ap n (n - 1)) = EllipticalArc_end_point arc.
Proof. exact (seg_end_last arc ap n). Qed.

(* radius correction *)
Theorem C12_radius_correction (arc : EArc) :
  EllipticalArc_is_straight_line ROps arc = false ->
  EllipticalArc_is_zero_length ROps arc = false ->
  let arc' := EllipticalArc_correct_out_of_range_radii ROps RMath arc in
  let L := lam (Rabs (EllipticalArc_rx arc)) (Rabs (EllipticalArc_ry arc)) (mid_in_frame arc) in
  0 < EllipticalArc_rx arc' /\ 0 < EllipticalArc_ry arc' /\
  (L <= 1 -> EllipticalArc_rx arc' = Rabs (EllipticalArc_rx arc) /\ EllipticalArc_ry arc' = Rabs (EllipticalArc_ry arc)) /\
  (1 < L -> EllipticalArc_rx arc' = Rabs (EllipticalArc_rx arc) * sqrt L /\
            EllipticalArc_ry arc' = Rabs (EllipticalArc_ry arc) * sqrt L /\
            lam (EllipticalArc_rx arc') (EllipticalArc_ry arc') (mid_in_frame arc) = 1) /\
  EllipticalArc_start_point arc' = EllipticalArc_start_point arc /\
  EllipticalArc_end_point arc' = EllipticalArc_end_point arc /\
  EllipticalArc_rotation arc' = EllipticalArc_rotation arc /\
  EllipticalArc_large arc' = EllipticalArc_large arc /\ EllipticalArc_sweep arc' = EllipticalArc_sweep arc.
Proof. exact (radii_correction arc). Qed.
Print Assumptions C12_radius_correction.

(* degenerate arcs *)
Theorem C12_zero_radius_line start rx ry rot large sweep endp :
  (rx = 0 \/ ry = 0) -> Point_eqb ROps endp start = false ->
  arc_to_cubic RMath start rx ry rot large sweep endp = Ok [(None, None, endp)].
Proof. exact (zero_radius_gives_line start rx ry rot large sweep endp). Qed.
Theorem C12_coincident_nothing start rx ry rot large sweep endp :
  Point_eqb ROps endp start = true ->
  arc_to_cubic RMath start rx ry rot large sweep endp = Ok [].
Proof. exact (coincident_endpoints_give_nothing start rx ry rot large sweep endp). Qed.

(* the centre computed in normalised coordinates is mapped back by the exact inverse of the normalising map, for all non-zero
   radii and every rotation - no determinant threshold (fix: Affine2D.inverse() called scale(1/rx,1/ry) degenerate for rx*ry >= ~4.5e15) *)
Theorem C12_centre_mapped_back_by_the_exact_inverse (rx ry angle : R) (p : @Point ROps) :
  rx <> 0 -> ry <> 0 ->
  Affine2D_map_point ROps (back_map rx ry angle) (Affine2D_map_point ROps (norm_map rx ry angle) p) = p.
Proof. exact (back_map_inverts rx ry angle p). Qed.

Theorem C12_centre_is_back_mapped (self : @EllipticalArc ROps) cp :
  EllipticalArc_end_to_center_parametrization ROps RMath self = Ok cp ->
  exists q, CenterParametrization_center_point cp =
            Affine2D_map_point ROps (back_map (EllipticalArc_rx self) (EllipticalArc_ry self)
                                              (EllipticalArc_rotation self * (PI / 180))) q.
Proof. exact (center_is_back_mapped self cp). Qed.
Print Assumptions C12_centre_is_back_mapped.

(* the swept angle has the sign the sweep flag selects and is less than a full turn (atan2 ranges over (-pi, pi]) *)
Theorem C12_sweep_flag_selects_the_direction (self : @EllipticalArc ROps) cp :
  EllipticalArc_end_to_center_parametrization ROps RMath self = Ok cp ->
  (EllipticalArc_sweep self <> 0 -> 0 <= CenterParametrization_theta_arc cp < 2 * PI) /\
  (EllipticalArc_sweep self = 0 -> - (2 * PI) < CenterParametrization_theta_arc cp <= 0).
Proof. exact (sweep_selects_the_sign self cp). Qed.
Print Assumptions C12_sweep_flag_selects_the_direction.

(* non-vacuity: a quarter-turn segment meets the angle premise *)
Example C12_nonvacuous : Rabs (PI / 2) <= seg_angle_max.
Proof. unfold seg_angle_max. pose proof PI_RGT_0. rewrite Rabs_pos_eq by lra. lra. Qed.
