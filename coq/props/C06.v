(* props/C06.v — C06: rewritten gradients assign the same colour to every point of their shapes.
   Proved (exact arithmetic; the model is built on the Affine2D functions translated from svg_transform.py
   and tied to _transformed_gradient / _apply_gradient_template by the differential run):
   * bounding-box units -> user space, baking the ancestor transform into gradientTransform and folding
     the translation into the coordinates together send every gradient-space point p to a point p' with
        new_gradientTransform(p') = ancestor_transform(user_space_point(p))   and   parameter'(p') = parameter(p)
     for linear gradients (projection onto the gradient vector) and for radial gradients (any function of the
     point and the two circles relative to the focal point) — hence every point of the transformed shape keeps
     its colour; this needs the translation decomposition to recompose exactly, which is proved for its main
     branch (|a| > 1e-9, invertible matrix);
   * template resolution gives each attribute its own value if set and otherwise the template's, for the
     attributes of the gradient's own class only.
   The 6-decimal rounding of the code, the degenerate branches of decompose_translation (|a| <= 1e-9,
   translations below 1e-9) and the end-to-end claim are decided by the colour-sampling judge — partial. *)
From Coq Require Import ZArith List Bool Ascii String Reals.
From Pico Require Import Num PyStr G_geom G_transform Gradient E1_affine E5_gradient.
Import ListNotations.
Local Open Scope R_scope.

Theorem C06_units_to_user_space : forall radial_formula (g u : gradR) (bbox : Rct),
  Rect_w bbox <> 0 -> Rect_h bbox <> 0 -> as_userE g bbox = Ok u ->
  g_bbox_units u = false /\ (forall p, user_point u bbox p = user_point g bbox p) /\
  (forall p, param radial_formula u p = param radial_formula g p).
Proof. exact as_user_space_same. Qed.

Theorem C06_translation_folding : forall radial_formula (g g' : gradR),
  g_bbox_units g = false -> foldE g = Ok g' ->
  (forall tr ap, Affine2D_decompose_translation ROps (g_tf g) = Ok (tr, ap) -> matmul ap tr = g_tf g) ->
  exists dx dy : R, forall p : Pt,
    let p' := mkP (Point_x p + dx) (Point_y p + dy) in
    mapP (g_tf g') p' = mapP (g_tf g) p /\ param radial_formula g' p' = param radial_formula g p.
Proof. exact fold_translation_same. Qed.

Theorem C06_transformed_gradient_same_colouring : forall radial_formula (g g' : gradR) (bbox : Rct) (ctm : Aff),
  Rect_w bbox <> 0 -> Rect_h bbox <> 0 -> transformedE g bbox ctm = Ok g' ->
  (forall A tr ap, Affine2D_decompose_translation ROps A = Ok (tr, ap) -> matmul ap tr = A) ->
  exists dx dy : R, forall p : Pt,
    let p' := mkP (Point_x p + dx) (Point_y p + dy) in
    mapP (g_tf g') p' = mapP ctm (user_point g bbox p) /\ param radial_formula g' p' = param radial_formula g p.
Proof. exact transformed_gradient_same. Qed.

Theorem C06_decomposition_exact_main_branch : forall (A tr ap : Aff),
  Affine2D_decompose_translation ROps A = Ok (tr, ap) ->
  Rabs (Affine2D_a A) > of_dec ROps 1 (-9) -> Affine2D_a A * Affine2D_d A - Affine2D_b A * Affine2D_c A <> 0 ->
  (Affine2D_e A <> 0 \/ Affine2D_f A <> 0 ->
   Affine2D_almost_equals ROps A (mkA (Affine2D_a A) (Affine2D_b A) (Affine2D_c A) (Affine2D_d A) 0 0) (of_dec ROps 1 (-9)) = false) ->
  matmul ap tr = A.
Proof. exact decompose_translation_exact_main. Qed.

Theorem C06_template_attribute : forall fields own tmpl k,
  tget (inherit_fields fields own tmpl) k =
  match tget own k with Some v => Some v | None => if str_in k fields then tget tmpl k else None end.
Proof. exact inherit_fields_get. Qed.

Definition C06_all := (C06_units_to_user_space, C06_translation_folding, C06_transformed_gradient_same_colouring,
                       C06_decomposition_exact_main_branch, C06_template_attribute).
Print Assumptions C06_all.
