(* props/C07.v — C07: conversion is idempotent.
   Proved (about the models, which the correspondence runs tie to the code): a document in pico form is
   a fixed point of the individual rewriting steps of a second pass —
     * every path rewrite (explicit_lines, expand_shorthand, absolute, round_floats) is the identity on
       absolute M/L/C/Q/A/Z paths whose numbers are rounded to nd <= 8 digits (absolute needs the
       rounding: it snaps end points within 1e-9 of the subpath start);
     * rounding is idempotent;
     * a kept group (only an opacity in (0,1), at least two children) is kept unchanged;
     * orphan removal is idempotent.
   Not proved: stability of gradient rewriting, of float printing (ntos) under re-parsing and of the
   step order; the byte-level judge decides the whole property on every run — partial. *)
From Coq Require Import ZArith List Bool Ascii String Reals.
From Pico Require Import Num PyStr G_meta Walk Inherit Refs E3_idem E5_idem Defs E5_defs.
Import ListNotations.

Theorem C07_round_idempotent : forall nd x, Rround_nd nd (Rround_nd nd x) = Rround_nd nd x.
Proof. exact Rround_nd_idem. Qed.

Theorem C07_pico_path_fixed : forall nd (p : @path ROps), (nd <= 8)%Z ->
  Forall (fun c : @command ROps => @pico_cmd ROps c /\ num_args (fst c) = Some (List.length (snd c))) p ->
  let q := @round_path ROps nd p in
  @explicit_lines ROps q = q /\ @expand_shorthand ROps q = q /\ @absolute ROps q = q /\ @round_path ROps nd q = q.
Proof. exact pico_path_fixed. Qed.

Theorem C07_pico_group_fixed : forall (o : R) (kids : list (string * @amap ROps)) (push : bool),
  (0 < o < 1)%R -> (2 <= List.length kids)%nat ->
  @try_remove_group ROps [("opacity"%string, @ANum ROps o)] kids push = Ok (@Kept ROps [("opacity"%string, @ANum ROps o)]).
Proof. exact pico_group_fixed. Qed.

Theorem C07_orphan_removal_idempotent : forall els fills grads,
  remove_orphans els fills (remove_orphans els fills grads) = remove_orphans els fills grads.
Proof. exact remove_orphans_idem. Qed.

(* non-vacuity: a concrete rounded pico path meets the premise *)
Example C07_premise_met :
  Forall (fun c : @command ROps => @pico_cmd ROps c /\ num_args (fst c) = Some (List.length (snd c)))
         [("M"%char, [1; 2]%R); ("L"%char, [3; 4]%R); ("Z"%char, [])].
Proof. repeat constructor; cbn; tauto. Qed.

(* the order of defs: _add_to_defs inserts before the first greater id and at the FRONT when there is none.  A strictly
   ascending order is a fixed point of re-conversion for any number of gradients; an order built with a front insertion is
   not in general - the recorded finding, exhibited in the model (its witness is replayed on the implementation on every run) *)
Theorem C07_ascending_defs_are_a_fixed_point l : ascending l = true -> reconvert l = l.
Proof. exact (ascending_is_fixed_point l). Qed.

Theorem C07_defs_order_refuted : exists l o, reconvert (drop o (reconvert l)) <> drop o (reconvert l).
Proof. exact defs_order_refuted. Qed.

Definition C07_all := (C07_round_idempotent, C07_pico_path_fixed, C07_pico_group_fixed, C07_orphan_removal_idempotent, C07_premise_met, C07_ascending_defs_are_a_fixed_point, C07_defs_order_refuted).
Print Assumptions C07_all.
