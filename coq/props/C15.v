(* props/C15.v — C15: an SVG object always equals its serialisation, whatever the operation history.

   The skeleton of every public method is regenerated from svg.py on every run (gen/G_skeletons.v).
   `wf` is a static analysis of skeletons, proved sound once and for all (E6_cache.wf_sound) for ANY
   interpretation of the tree, the cache, the individual edits and mutations that satisfies the two
   conversion laws  populate (flush t c) = c  and  flush (flush t c) c' = flush t c'.
   Then: every history (any length, in place or copying per step, queries interleaved) over the
   methods of the table yields the same serialisation as re-parsing between every two steps. *)
From Coq Require Import List Bool String.
From Pico Require Import ObjCache G_skeletons E6_cache.
Import ListNotations.
Local Open Scope string_scope.

(* apply_style_attributes used to take a different code path when the cache was populated (the analysis
   rejected exactly that method; fixed in c21f908): no method is excluded any more *)
Definition excluded : list string := [].

Theorem C15_table_ok :
  forallb (fun m => existsb (String.eqb (m_name m)) excluded || method_ok m) skeleton_table = true.
Proof. vm_compute. reflexivity. Qed.

(* the analysis does reject the old shape of that method: edit the cache when it is held, flush, then mutate *)
Example C15_cached_branch_refuted :
  method_ok (mk_method "old_apply_style_attributes" Mutator true true
               (IfHasCache (Populate (Edit 1 (Flush (Mut 2 (Done RetSelf))))) (Mut 2 (Done RetSelf)))) = false.
Proof. vm_compute. reflexivity. Qed.

(* topicosvg (which calls apply_style_attributes after a flush) is coherent *)
Example C15_topicosvg_ok : wf Init sk_topicosvg = true.
Proof. vm_compute. reflexivity. Qed.

Section Interpretation.
  Variables tree cache : Type.
  Variable populate : tree -> cache.
  Variable flush : tree -> cache -> tree.
  Variable edit : nat -> cache -> cache.
  Variable mut : nat -> tree -> tree.
  Variable cond_tree : nat -> tree -> bool.
  Variable cond_cache : nat -> cache -> bool.
  Variable bound : nat -> tree -> nat.
  Hypothesis populate_flush : forall t c, populate (flush t c) = c.
  Hypothesis flush_flush : forall t c c', flush (flush t c) c' = flush t c'.

  Theorem C15_operation_commutes_with_reparse k s :
    wf Init k = true ->
    abs tree cache flush (fst (run tree cache populate flush edit mut cond_tree cond_cache bound k s)) =
    abs tree cache flush (fst (run tree cache populate flush edit mut cond_tree cond_cache bound k (abs tree cache flush s, None))).
  Proof. exact (op_commutes_with_reparse tree cache populate flush edit mut cond_tree cond_cache bound populate_flush flush_flush k s). Qed.

  Theorem C15_history_coherent (h : list (sk * bool)) s :
    Forall (fun st => wf Init (fst st) = true) h ->
    abs tree cache flush (run_lazy tree cache populate flush edit mut cond_tree cond_cache bound h s) =
    run_reference tree cache populate flush edit mut cond_tree cond_cache bound h (abs tree cache flush s).
  Proof. exact (history_coherent tree cache populate flush edit mut cond_tree cond_cache bound populate_flush flush_flush h s). Qed.

  Theorem C15_copy_leaves_receiver k s :
    let '(recv, res) := run_copy tree cache populate flush edit mut cond_tree cond_cache bound k s in
    abs tree cache flush recv = abs tree cache flush s /\
    res = fst (run tree cache populate flush edit mut cond_tree cond_cache bound k (abs tree cache flush s, None)).
  Proof. exact (copy_ok tree cache populate flush edit mut cond_tree cond_cache bound k s). Qed.

  (* a method accepted by the freshness analysis never flushes, edits, reads or returns a cache
     whose elements a tree mutation may have detached (e.g. a forgotten `self.elements = None`) *)
  Theorem C15_no_stale_cache k s :
    wf_fresh (has_cache tree cache s) false k = true ->
    let '(_, stale', used', _) := run_g tree cache populate flush edit mut cond_tree cond_cache bound k s false false in
    stale' = false /\ used' = false.
  Proof. exact (fun H => fresh_sound tree cache populate flush edit mut cond_tree cond_cache bound k s false false H eq_refl). Qed.
End Interpretation.

(* non-vacuity: the laws are satisfiable by a non-trivial interpretation (tree = list of optional
   numbers, cache = the numbers present) on which edits are visible *)
Example C15_nonvacuous :
  let populate := fun t : list nat => t in
  let flush := fun (t c : list nat) => c in
  (forall t c, populate (flush t c) = c) /\ (forall t c c', flush (flush t c) c' = flush t c') /\
  abs (list nat) (list nat) flush (fst (run (list nat) (list nat) populate flush (fun _ c => map S c) (fun _ t => t) (fun _ _ => true) (fun _ _ => true) (fun _ _ => 2)
        sk_round_floats ([1; 2], None))) = [2; 3].
Proof. cbn. repeat split. Qed.

Definition C15_all := (C15_table_ok, C15_cached_branch_refuted, C15_operation_commutes_with_reparse, C15_history_coherent, C15_copy_leaves_receiver, C15_no_stale_cache).
Print Assumptions C15_all.
