(* props/C04.v — C04: strokes are rendered into equivalent filled outlines drawn above the fill.
   Proved about the hand model Stroke.v (tied to the code, with the real engine, by the differential run):
   * the dash array handed to the engine (odd-length lists doubled) selects exactly the on-intervals
     SVG prescribes for the list as written, for every interval index (hence every offset);
   * painting the fill piece (opacity x fill-opacity) below the stroke piece (opacity x stroke-opacity)
     composites, at every point, like the stroked shape on its own opacity layer whenever the shape's
     opacity is 1 or only one of the two pieces covers the point — the property's scope; outside it the
     two differ (refuted by example).
   The outline geometry comes from the Skia stroker (an oracle): that it is the right region is decided on
   every run by the three-valued stroke evaluator at sample points — partial. *)
From Coq Require Import ZArith List Bool Ascii String Arith Reals.
From Pico Require Import Num PyStr Stroke Composite E5_stroke.
Import ListNotations.

Theorem C04_dashes_select_same_intervals : forall (A : Type) (dflt : A) (d : list A) (k : nat), d <> [] ->
  engine_dash dflt (normalize_dashes d) k = svg_dash dflt d k.
Proof. exact @dashes_select_same_intervals. Qed.

Theorem C04_dash_array_even : forall (A : Type) (d : list A), Nat.even (List.length (normalize_dashes d)) = true.
Proof. exact @normalize_dashes_even. Qed.

Theorem C04_split_composites_like_stroked : forall inF inS o fo so fr fg fb sr sg sb,
  o = 1%R \/ inF = false \/ inS = false ->
  pico_stroked inF inS o fo so fr fg fb sr sg sb = svg_stroked inF inS o fo so fr fg fb sr sg sb.
Proof. exact split_composites_like_stroked. Qed.

Example C04_out_of_scope_differs :
  pico_stroked true true (1/2) 1 1 1 0 0 0 0 1 <> svg_stroked true true (1/2) 1 1 1 0 0 0 0 1.
Proof. exact split_differs_when_translucent_and_overlapping. Qed.

(* non-vacuity: 5,3,2 behaves as 5,3,2,5,3,2 — interval 3 is the OFF interval of length 5 *)
Example C04_dash_example : engine_dash 0 (normalize_dashes [5; 3; 2]) 3 = (5, false) /\ svg_dash 0 [5; 3; 2] 3 = (5, false).
Proof. split; reflexivity. Qed.

Definition C04_all := (C04_dashes_select_same_intervals, C04_dash_array_even, C04_split_composites_like_stroked, C04_out_of_scope_differs, C04_dash_example).
Print Assumptions C04_all.
