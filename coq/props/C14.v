(* props/C14.v — C14: content that renderers ignore never influences the converted document.
   Proved about the hand model Noise.v of the cleaning front end (tied to svg.py by the differential run):
   inserting comments, processing instructions, title/desc/metadata, foreign-namespace elements (with any
   content), id-less symbols (with any content) at ANY positions and depths, and adding foreign-namespace
   attributes to ANY elements, leaves the cleaned tree unchanged; and cleaning removes nothing else.
   Everything downstream of the cleaning works on the cleaned tree only.  Bare wrapper groups, whitespace
   and the XML declaration (parser level) and the end-to-end claim are decided by the judge — partial. *)
From Coq Require Import List Bool Ascii String.
From Pico Require Import PyStr Noise E5_noise.
Import ListNotations.
Local Open Scope string_scope.

Theorem C14_noise_invisible : forall root root', noisy root root' -> clean_root root = clean_root root'.
Proof. exact noise_invisible_to_cleaning. Qed.

Theorem C14_cleaning_is_purge : forall l, clean_list l = flat_map purge l.
Proof. exact clean_list_purge. Qed.

Theorem C14_nothing_else_removed : forall n, noise_free n = true -> purge n = [n].
Proof. exact purge_noise_free. Qed.

(* non-vacuity: a noisy variant of a small document, noise nested inside noise and inside a gradient *)
Example C14_example :
  noisy (NEl NsSvg "svg" [] [NEl NsSvg "linearGradient" [(NsSvg, "id", "a")] [NEl NsSvg "stop" [] []]; NEl NsSvg "path" [] []])
        (NEl NsSvg "svg" [(NsOther, "version", "1")]
             [NComment; NEl NsSvg "linearGradient" [(NsSvg, "id", "a"); (NsOther, "label", "x")] [NPI; NEl NsSvg "stop" [] []];
              NEl NsSvg "symbol" [] [NEl NsSvg "path" [] []; NComment]; NEl NsSvg "path" [] [NEl NsSvg "title" [] []]]).
Proof.
  apply noisy_el; [reflexivity|].
  apply nl_insert; [reflexivity|]. apply nl_keep.
  - apply noisy_el; [reflexivity|]. apply nl_insert; [reflexivity|]. apply nl_keep; [apply noisy_el; [reflexivity|constructor]|constructor].
  - apply nl_insert; [reflexivity|]. apply nl_keep; [|constructor].
    apply noisy_el; [reflexivity|]. apply nl_insert; [reflexivity|constructor].
Qed.

Definition C14_all := (C14_noise_invisible, C14_cleaning_is_purge, C14_nothing_else_removed, C14_example).
Print Assumptions C14_all.
