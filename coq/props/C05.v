(* props/C05.v — C05: every output path carries the paint and opacity the SVG cascade assigns.
   Proved: (i) the compositing algebra that justifies the group-flattening rule (a group may be
   dissolved, its opacity multiplied into the children, exactly when its opacity is 0 or 1 or it
   has at most one child; a translucent group with overlapping children must be kept — refuted
   counterexample included); (ii) the inherited context: every handler touches only its own
   attribute, and a property handled by the copy handler resolves to the element's own value,
   else the context's (nearest ancestor wins, by induction along the ancestor chain).
   The handler table, defaults and valid-field table are regenerated from svg.py on every run.
   End-to-end (decided on every run by the spec-side renderer on the implementation): the
   converted document composites to the source's colour at every usable sample point. *)
From Coq Require Import ZArith Reals Lra List Bool Ascii String.
From Pico Require Import Num PyStr Lex G_inherit Inherit Composite E5_cascade ObjCache G_skeletons Writeback E5_writeback.
Import ListNotations.
Local Open Scope R_scope.

Theorem C05_over_is_associative (x y z : rgba) : over x (over y z) = over (over x y) z.
Proof. exact (over_assoc x y z). Qed.

Theorem C05_opaque_group_flattens kids acc : over (comp (LGroup 1 kids)) acc = comp_list kids acc.
Proof. exact (flatten_opaque_group kids acc). Qed.

Theorem C05_transparent_group_vanishes kids acc :
  over (comp (LGroup 0 kids)) acc = acc /\ comp_list (map (fade 0) kids) acc = acc.
Proof. exact (flatten_transparent_group kids acc). Qed.

Theorem C05_single_child_group_flattens a k acc : over (comp (LGroup a [k])) acc = comp_list [fade a k] acc.
Proof. exact (flatten_single_child a k acc). Qed.

Theorem C05_opacity_multiplies a l : comp (fade a l) = scale a (comp l).
Proof. exact (comp_fade a l). Qed.

Example C05_translucent_group_must_be_kept :
  let top := LLeaf (mk_rgba 1 0 0 1) in let bottom := LLeaf (mk_rgba 0 0 1 1) in
  over (comp (LGroup (1/2) [bottom; top])) transparent <> comp_list (map (fade (1/2)) [bottom; top]) transparent.
Proof. exact translucent_group_refuted. Qed.

(* cascade: through the whole _inherit_attrib loop *)
Theorem C05_copied_property_resolves_to_own_else_context tag skips (attrib : amapR) keys child c rest k :
  NoDup keys -> In k keys -> handler_of k = Some HCopy ->
  str_in k skips = false -> attr_supported tag k = true ->
  inherit_loop tag skips attrib child keys = Ok (c, rest) ->
  aget c k = match aget child k with Some v => Some v | None => aget attrib k end.
Proof. exact (inherit_loop_copy tag skips attrib keys child c rest k). Qed.

Theorem C05_handlers_touch_only_their_attribute tag skips (attrib : amapR) keys child c rest k :
  inherit_loop tag skips attrib child keys = Ok (c, rest) -> ~ In k keys -> aget c k = aget child k.
Proof. exact (inherit_loop_other tag skips attrib keys child c rest k). Qed.

(* the generated table says: fill, fill-opacity, fill-rule, stroke*, clip-rule are copied *)
Example C05_table_copy_properties :
  forallb (fun k => match handler_of k with Some HCopy => true | _ => false end)
          ["fill"; "fill-opacity"; "fill-rule"; "stroke"; "stroke-width"; "stroke-opacity"; "clip-rule"]%string = true /\
  handler_of "opacity" = Some HMultiply /\ handler_of "display" = Some HDisplay.
Proof. vm_compute. repeat split. Qed.

(* write-back: a cached shape written to its element (to_element omits a value equal to the one the context supplies)
   and read again (from_element) gives the same field in the context it was written in; read in ANOTHER context
   an omitted own value is replaced by that context's - so no cached shape may be written back before <use> is
   instantiated (which moves a copy of the target into the context of the referencing element). *)
Theorem C05_writeback_roundtrip_in_context inh default k v :
  blank v = false -> read_field inh default k (write_field inh default k v) = v.
Proof. exact (read_write_same_context inh default k v). Qed.

Theorem C05_written_value_is_context_bound inh inh' default k v iv' :
  sget inh k = Some v -> sget inh' k = Some iv' -> blank iv' = false ->
  read_field inh' default k (write_field inh default k v) = iv'.
Proof. exact (written_value_is_context_bound inh inh' default k v iv'). Qed.

Theorem C05_differing_value_survives_a_move inh inh' default k v iv :
  sget inh k = Some iv -> v <> iv -> blank v = false ->
  read_field inh' default k (write_field inh default k v) = v.
Proof. exact (differing_value_survives inh inh' default k v iv). Qed.

(* the skeleton of topicosvg regenerated from svg.py: on a freshly parsed object (no cached shapes) no path writes cached
   shapes back before the tree mutation of resolve_use *)
Theorem C05_use_instantiated_before_any_writeback :
  match sole_mutation sk_resolve_use with
  | Some n => wb_before n (Some false) sk_topicosvg = false
  | None => False
  end.
Proof. vm_compute. reflexivity. Qed.

Definition C05_all := (C05_over_is_associative, C05_opaque_group_flattens, C05_transparent_group_vanishes, C05_single_child_group_flattens,
  C05_opacity_multiplies, C05_copied_property_resolves_to_own_else_context, C05_handlers_touch_only_their_attribute, C05_table_copy_properties,
  C05_writeback_roundtrip_in_context, C05_written_value_is_context_bound, C05_differing_value_survives_a_move, C05_use_instantiated_before_any_writeback).
Print Assumptions C05_all.
