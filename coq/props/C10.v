(* props/C10.v — C10: path data parses per the SVG grammar or is rejected; printing round-trips.

   PARTIAL.  What is machine-checked here: (i) the hand model of the tokenizer is pinned to the
   regular expressions and lexer tables regenerated from the current source (E2_pins): any edit of
   _CMD_RE, _SEPARATOR_RE, _FLOAT_RE, _BOOL_RE, the arc argument typing or the implicit-repeat map
   breaks an obligation; (ii) totality: the model has exactly two outcomes, a command list or
   ValueError; (iii) the model agrees with the grammar (spec/PathGrammar.v, written from the SVG 1.1
   BNF) on a fixed table of adversarial strings, by computation.
   (iv) the print/parse round trip: for EVERY exploded command list whose numbers print to lexemes
   the scanners read back completely (no separator, white-space or command-letter characters; the two
   arc flags printed as 0 / 1), parsing the printed path returns exactly the list — all lengths, all
   commands (E2_roundtrip.print_parse_roundtrip).  That the real printer (ntos = CPython str / int)
   produces such lexemes is checked on every number the correspondence run prints (lexeme_ok).
   NOT yet a theorem (decided on every run by the exhaustive-string correspondence between the
   implementation and the model, and by the grammar judge on the implementation): soundness
   against the grammar for ALL strings. *)
From Coq Require Import ZArith List Bool Ascii String.
From Pico Require Import Num PyStr Lex G_meta G_regex PathParse PathGrammar E2_pins E2_roundtrip.
Import ListNotations.
Local Open Scope string_scope.

Theorem C10_model_pinned_to_source_regexes :
  CMD_RE_src = "([mzlhvcsqtaMZLHVCSQTA])" /\ SEPARATOR_RE_src = "[, ]+" /\
  FLOAT_RE_src = "[-+]?(?:(?:[0-9]+)(?:\.[0-9]+)?|(?:\.[0-9]+))(?:[eE][-+]?[0-9]+)?" /\
  BOOL_RE_src = "^[01]" /\ ARC_ARGUMENT_REGEXES = "FFFBBFF" /\ ARC_ARGUMENT_CONVERTERS = "fffiiff" /\
  IMPLICIT_REPEAT_CMD = [("M", "L"); ("m", "l")].
Proof.
  exact (conj pin_cmd_re (conj pin_separator_re (conj pin_float_re (conj pin_bool_re
        (conj (proj1 pin_arc_types) (conj (proj2 pin_arc_types) pin_implicit_repeat)))))).
Qed.

Theorem C10_parse_total (exploded : bool) (s : chars) :
  (exists r, parse_svg_path exploded s = Ok r) \/ parse_svg_path exploded s = Err EValue.
Proof.
  unfold parse_svg_path. generalize (split_cmds s). intro l.
  induction l as [|[c b] r IH]; cbn [parse_cmds]; [left; eexists; reflexivity|].
  destruct (parse_cmd_args c b); [|right; reflexivity].
  destruct (finish_cmd exploded c l); [|right; reflexivity].
  destruct IH as [[t Ht]|Ht]; rewrite Ht; [left; eexists; reflexivity|right; reflexivity].
Qed.

(* a table of adversarial conforming strings on which model and grammar agree (a TEST by
   computation, not the unbounded claim) *)
Definition agree (s : string) : bool :=
  match grammar (list_of_string s), parse_svg_path true (list_of_string s) with
  | Some g, Ok r =>
      forallb (fun p => Ascii.eqb (fst (fst p)) (fst (snd p)) &&
                        forallb (fun d => Z.eqb (d_man (fst d) * 10 ^ (d_exp (fst d) + 400)) (d_man (snd d) * 10 ^ (d_exp (snd d) + 400)))
                                (combine (snd (fst p)) (snd (snd p))) &&
                        Nat.eqb (List.length (snd (fst p))) (List.length (snd (snd p))))
              (combine g r) && Nat.eqb (List.length g) (List.length r)
  | Some _, Err _ => true          (* rejection of a conforming string is allowed *)
  | None, _ => true
  end.

Example C10_table :
  forallb agree ["M01 02"; "M1,2 3,4"; "m1-2-3.5.5"; "M.5.5"; "M1e2-1E-2"; "M0 0a1 1 0 1110 10";
                 "M1 2z"; "M 1 2 L 3 4 Z"; "M1,2l3,4 5,6c1 2 3 4 5 6 7 8 9 10 11 12";
                 "M1 2h3v4H5V6"; "M1 2 S1 2 3 4 s1,2,3,4 T1 2 t3 4 q1 2 3 4"; "M+1+2"; "M1.5e+02 007"] = true.
Proof. vm_compute. reflexivity. Qed.

(* printing then parsing returns the command list *)
Theorem C10_print_parse_roundtrip : forall (A : Type) (pr : A -> chars) (val : A -> dec) (p : list (ascii * list A)),
  Forall (cmd_ok A pr val) p ->
  parse_svg_path true (print_path A pr p) = Ok (map (fun ca => (fst ca, map val (snd ca))) p).
Proof. exact print_parse_roundtrip. Qed.

(* the boolean the correspondence run evaluates on every printed number implies the token premise *)
Theorem C10_lexeme_ok_is_premise : forall t, lexeme_ok false t = true -> token t /\ exists v, scan_float_re t = Some (v, []).
Proof.
  intros t H. unfold lexeme_ok in H. apply andb_true_iff in H. destruct H as [H Hs]. apply andb_true_iff in H. destruct H as [Hne Ht].
  split; [split; [destruct t; [discriminate|discriminate]|exact Ht]|].
  destruct (scan_float_re t) as [[v [|c r]]|]; try discriminate. exists v. reflexivity.
Qed.

Example C10_roundtrip_premise_met :
  Forall (cmd_ok nat pr_digit val_digit)
         [("M"%char, [1; 2]%nat); ("A"%char, [3; 4; 0; 1; 0; 5; 6]%nat); ("l"%char, [7; 8]%nat); ("Z"%char, [])].
Proof. exact roundtrip_premise_met. Qed.

Definition C10_all := (C10_model_pinned_to_source_regexes, C10_parse_total, C10_table, C10_print_parse_roundtrip, C10_lexeme_ok_is_premise, C10_roundtrip_premise_met).
Print Assumptions C10_all.
