(* props/C01.v — C01: conversion output conforms to the documented picosvg grammar.
   topicosvg returns normally only when checkpicosvg reports nothing, so every normal return satisfies
   the gate; the theorems say what the gate guarantees about the returned tree (structure and ids).
   The attribute / path-data half of the grammar is NOT enforced by the gate (the code's own TODO); it
   is decided by the end-to-end judge (tools/props/c01.py + tools/pico.py) on every run — partial. *)
From Coq Require Import ZArith List Bool Ascii String.
From Pico Require Import Num PyStr CheckPico E5_gate G_regex.
Import ListNotations.
Local Open Scope string_scope.

(* every element path the allow-list admits has one of the five README shapes *)
Theorem C01_allowed_paths : forall p, allowed false p = true -> path_shape p.
Proof. exact allowed_sound. Qed.

(* a tree that passes the gate: all element paths conform, the defs exists, ids are unique *)
Theorem C01_gate_sound : forall root, gate_ok false root = true ->
  Forall (fun c => path_shape (fst c)) (all_contexts root) /\
  Exists (fun c => fst c = [("svg", O); ("defs", O)]) (all_contexts root) /\
  NoDup (fold_right (fun o acc => match o with Some i => i :: acc | None => acc end) [] (map snd (all_contexts root))).
Proof. exact gate_sound. Qed.

(* drop_unsupported: whatever the input tree, after pruning every remaining element has an allowed path
   (for either value of allow_text), so the gate can only still report a missing defs or duplicate ids —
   "with drop_unsupported the call does not fail because of unsupported elements" *)
Theorem C01_drop_unsupported_leaves_allowed_paths : forall at_ root,
  Forall (fun c => allowed at_ (fst c) = true) (all_contexts (prune (depth root) at_ [("svg", O)] root)).
Proof. exact prune_all_allowed. Qed.

(* non-vacuity: a concrete pico tree passes the gate, a tree with a rect does not *)
Example C01_gate_accepts :
  gate_ok false (XN "svg" None [XN "defs" None [XN "linearGradient" (Some "a") [XN "stop" None []]];
                               XN "g" None [XN "path" None []; XN "path" (Some "b") []]]) = true.
Proof. vm_compute. reflexivity. Qed.
Example C01_gate_rejects : gate_ok false (XN "svg" None [XN "defs" None []; XN "rect" None []]) = false.
Proof. vm_compute. reflexivity. Qed.

(* the allow-list of the current source is the one `allowed` models (regenerated on every run) *)
Example C01_allowlist_pinned : CHECKPICO_ALLOWLIST_srcs =
  ["^/svg\[0\]$"; "^/svg\[0\]/defs\[0\]$"; "^/svg\[0\]/defs\[0\]/(linear|radial)Gradient\[\d+\](/stop\[\d+\])?$";
   "^/svg\[0\](/(path|g)\[\d+\])+$"; "^/svg\[0\](/(text|textPath)\[\d+\])+(/(text|tspan|textPath)\[\d+\])*$"].
Proof. reflexivity. Qed.

Definition C01_all := (C01_allowed_paths, C01_gate_sound, C01_drop_unsupported_leaves_allowed_paths, C01_gate_accepts, C01_gate_rejects, C01_allowlist_pinned).
Print Assumptions C01_all.
