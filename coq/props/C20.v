(* props/C20.v — C20: a reported reuse transform really maps one shape onto the other.
   The staged search is model/Reuse.v (hand model, correspondence-checked on 160/390+ pairs with the
   candidate matrices computed as coded).  The soundness theorems hold for ARBITRARY candidate
   generators: only the control flow and the verification step matter.
   "An exact translation is always found" is proved on the affine-friendly (relative) forms the
   search compares: two forms that differ only in their initial moveto make the first candidate -
   the translation between the starting points - verify for every tolerance >= 1e-9 (the mapped
   coordinates are snapped to 0 within 1e-9), whatever the later stages would propose.
   PARTIAL: that the friendly form of a translated shape differs from the original's only in the
   moveto (it does in exact arithmetic, by C09's theorems; floats add noise far below any tolerance in
   use) and the geometric reading of the verification step are decided by the judge. *)
From Coq Require Import ZArith Reals Lra List Bool Ascii String.
From Pico Require Import Num PyStr G_geom G_transform G_meta G_types Walk Reuse E1_affine E3_walk E6_reuse E6_translation E6_arcflags.
Import ListNotations.

Theorem C20_reported_transform_is_verified (cand2 cand3 : pathR -> pathR -> result (option Aff)) (p1 p2 : pathR) tol A :
  affine_between RMath cand2 cand3 p1 p2 tol = Ok (Some A) ->
  (A = ident /\ Forall2 (close_cmd tol) p1 p2) \/
  Forall2 (close_cmd tol) (apply_affine RMath A (friendlyR p1)) (friendlyR p2).
Proof. exact (reported_transform_maps_outline cand2 cand3 p1 p2 tol A). Qed.

Theorem C20_identical_shapes_give_identity (cand2 cand3 : pathR -> pathR -> result (option Aff)) (p : pathR) tol :
  (0 <= tol)%R -> affine_between RMath cand2 cand3 p p tol = Ok (Some ident).
Proof. exact (identical_shapes_give_identity cand2 cand3 p tol). Qed.

Theorem C20_nothing_reported_beyond_tolerance (cand2 cand3 : pathR -> pathR -> result (option Aff)) (p1 p2 : pathR) tol :
  path_almost_equals (N:=ROps) tol p1 p2 = false ->
  (forall A, try_affineR A (friendlyR p1) (friendlyR p2) tol = false) ->
  forall A, affine_between RMath cand2 cand3 p1 p2 tol <> Ok (Some A).
Proof. exact (nothing_reported_without_verification cand2 cand3 p1 p2 tol). Qed.

Theorem C20_almost_equals_means_commandwise_close tol (p q : pathR) :
  path_almost_equals (N:=ROps) tol p q = true -> Forall2 (close_cmd tol) p q.
Proof. exact (path_almost_equals_spec tol p q). Qed.

Theorem C20_exact_translation_is_found (cand2 cand3 : pathR -> pathR -> result (option Aff)) (p1 p2 r : pathR) tol x1 y1 x2 y2 :
  (eps9R <= tol)%R ->
  friendlyR p1 = ("M"%char, [x1; y1]) :: r -> friendlyR p2 = ("M"%char, [x2; y2]) :: r -> Forall rel_wf r ->
  exists A, affine_between RMath cand2 cand3 p1 p2 tol = Ok (Some A).
Proof. exact (exact_translation_found cand2 cand3 p1 p2 r tol x1 y1 x2 y2). Qed.

Example C20_translation_premise_met :
  Forall rel_wf [("l"%char, [3; 0]); ("q"%char, [1; 2; 0; 3]); ("c"%char, [0; 1; -1; 2; -2; 2]); ("a"%char, [2; 1; 0; 0; 1; -1; -1]); ("z"%char, [])]%R.
Proof. exact rel_wf_example. Qed.

(* the recorded finding, exhibited in the model (a `refuted` statement about arcs, not a guarantee): every affine map - a
   reflection included - leaves an arc's x-axis rotation and both flags as they were *)
Theorem C20_arc_parameters_not_transformed_refuted (A : Aff) (c : Ascii.ascii) (rx ry rot large sweep x y : R) :
  c = "A"%char \/ c = "a"%char ->
  let out := affine_args RMath A c [rx; ry; rot; large; sweep; x; y] in
  nth 2 out 0%R = rot /\ nth 3 out 0%R = large /\ nth 4 out 0%R = sweep /\ List.length out = 7%nat.
Proof. exact (arc_parameters_not_transformed A c rx ry rot large sweep x y). Qed.

Definition C20_all := (C20_arc_parameters_not_transformed_refuted, C20_reported_transform_is_verified, C20_identical_shapes_give_identity,
  C20_nothing_reported_beyond_tolerance, C20_almost_equals_means_commandwise_close, C20_exact_translation_is_found).
Print Assumptions C20_all.
