(* props/C18.v — C18: pruning of invisible content is conservative.
   Relative to the engine contract for area and simplify (Section hypotheses); the decision ladder
   of might_paint (model/Shape.v, hand model validated with the real engine in the loop) is what is
   proved.  remove_empty_subpaths is covered by the correspondence and the exact-polygon judge. *)
From Coq Require Import ZArith Reals List Bool Ascii String.
From Pico Require Import Num PyStr Lex G_geom G_transform Walk Skia Shape E1_affine E3_walk E5_pathops E5_paint.
Import ListNotations.
Local Open Scope string_scope.

Section C18.
  Variable inside : pathR -> rule -> Pt -> Prop.
  Variable in_stroke : shapeR -> pathR -> Pt -> Prop.
  Variable sk : @skia ROps.
  Hypothesis simplify_contract : forall p r q,
    sk_simplify sk p r = Some q -> forall r' pt, inside q r' pt <-> inside p r pt.
  Hypothesis area_contract : forall q, ~ (0 < sk_area sk q NonZero)%R -> forall pt, ~ inside q NonZero pt.
  Hypothesis moves_enclose_nothing : forall (p : pathR) r pt, only_moves (N:=ROps) p = true -> ~ inside p r pt.
  Hypothesis moves_stroke_nothing : forall sh (p : pathR) pt, only_moves (N:=ROps) p = true -> ~ in_stroke sh p pt.

  (* a shape reported as unable to paint paints nothing: neither fill nor stroke, at any point *)
  Theorem C18_might_paint_false_is_sound (sh0 sh : shapeR) :
    apply_style sh0 = Ok sh ->
    might_paint RMath sk sh0 = Ok false ->
    forall pt, ~ fill_paints inside sh (cmds_of sh0) pt /\ ~ stroke_paints in_stroke sh (cmds_of sh0) pt.
  Proof.
    intros Hst Hm. exact (might_paint_false_sound inside in_stroke sk simplify_contract area_contract
                            moves_enclose_nothing moves_stroke_nothing sh0 sh Hst (apply_style_keeps_d sh0 sh Hst) Hm).
  Qed.

  Theorem C18_visible_stroke_is_kept (sh0 sh : shapeR) :
    apply_style sh0 = Ok sh -> s_display sh <> "none" -> only_moves (N:=ROps) (cmds_of sh0) = false ->
    visible sh (s_stroke sh) (s_stroke_opacity sh) = true -> s_stroke_width sh <> 0%R ->
    might_paint RMath sk sh0 = Ok true.
  Proof. exact (might_paint_visible_stroke sk sh0 sh). Qed.

  Theorem C18_positive_area_is_kept (sh0 sh : shapeR) r a :
    apply_style sh0 = Ok sh -> s_display sh <> "none" -> only_moves (N:=ROps) (cmds_of sh0) = false ->
    visible sh (s_fill sh) (s_fill_opacity sh) = true -> rule_of_string (s_fill_rule sh) = Some r ->
    path_area sk (cmds_of sh0) r = Ok a -> (0 < a)%R ->
    might_paint RMath sk sh0 = Ok true.
  Proof. exact (might_paint_positive_area sk sh0 sh r a). Qed.

  Theorem C18_engine_failure_is_kept (sh0 sh : shapeR) r :
    apply_style sh0 = Ok sh -> s_display sh <> "none" -> only_moves (N:=ROps) (cmds_of sh0) = false ->
    visible sh (s_fill sh) (s_fill_opacity sh) = true -> rule_of_string (s_fill_rule sh) = Some r ->
    path_area sk (cmds_of sh0) r = Err EOther ->
    might_paint RMath sk sh0 = Ok true.
  Proof. exact (might_paint_engine_failure sk sh0 sh r). Qed.

  (* consequently removing unpainted shapes never changes what the list of shapes paints *)
  Theorem C18_remove_unpainted_preserves_rendering (shapes : list shapeR) pt :
    Exists (fun s0 => paints inside in_stroke s0 pt) (filter (keeps sk) shapes) <->
    Exists (fun s0 => paints inside in_stroke s0 pt) shapes.
  Proof.
    apply (remove_unpainted_preserves inside in_stroke sk simplify_contract area_contract moves_enclose_nothing moves_stroke_nothing).
    apply Forall_forall. intros s0 _ sh H. exact (apply_style_keeps_d s0 sh H).
  Qed.
End C18.

Definition C18_all := (C18_might_paint_false_is_sound, C18_visible_stroke_is_kept, C18_positive_area_is_kept,
  C18_engine_failure_is_kept, C18_remove_unpainted_preserves_rendering).
Print Assumptions C18_all.
