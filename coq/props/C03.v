(* props/C03.v — C03: clip paths are rendered into exactly the clipped geometry.
   RELATIVE TO the engine contract (set operations, simplify, transform moves the interior) and to
   C09's claim that the command-sequence normal form has the same interior.  Proved for clipPath ->
   clipPath chains of any length (fuel-indexed) and any number of children / stacked clips:
   the resolved clip region and the clipped leaf.  Which clips reach which leaf (stacking along the
   ancestor chain, clip-path on use) is decided by the rendering judge on the implementation. *)
From Coq Require Import ZArith Reals Lra List Bool Ascii String.
From Pico Require Import Num PyStr G_geom G_transform Walk Skia Shape Structure Clips E1_affine E3_walk E5_pathops E5_paint E5_clips.
Import ListNotations.

Section C03.
  Variable inside : pathR -> rule -> Pt -> Prop.
  Variable sk : @skia ROps.
  Hypothesis op_contract : forall k p1 r1 p2 r2 q,
    sk_op sk k p1 r1 p2 r2 = Some q -> forall r pt, inside q r pt <-> opsem k (inside p1 r1 pt) (inside p2 r2 pt).
  Hypothesis simplify_contract : forall p r q,
    sk_simplify sk p r = Some q -> forall r' pt, inside q r' pt <-> inside p r pt.
  Hypothesis transform_contract : forall p a r pt, inside (sk_transform sk p a) r pt <-> image a (inside p r) pt.
  Hypothesis cmdseq_contract : forall (q : pathR) r pt, inside (as_cmd_seq RMath q) r pt <-> inside q r pt.

  (* clip region = union of the children (each under its effective clip-rule, placed by
     child.transform . clipPath.transform . referrer CTM)  /\  the clipPath's own clip, recursively *)
  Theorem C03_resolved_clip_region fuel lookup id transform c :
    nondegenerate fuel lookup id transform ->
    resolve_clip RMath sk fuel lookup id transform = Ok c ->
    forall r pt, inside c r pt <-> clip_region inside fuel lookup id transform pt.
  Proof. exact (resolve_clip_sem inside sk op_contract simplify_contract transform_contract cmdseq_contract fuel lookup id transform c). Qed.

  (* the clipped leaf: inside the shape's fill under its FILL rule and inside every clip *)
  Theorem C03_clipped_leaf (p : pathR) fr clips q :
    clips <> [] -> clip_leaf RMath sk p fr clips = Ok q ->
    forall r pt, inside q r pt <-> inside p fr pt /\ Forall (fun c => inside c NonZero pt) clips.
  Proof. exact (clip_leaf_sem inside sk op_contract simplify_contract cmdseq_contract p fr clips q). Qed.
End C03.

Definition C03_all := (C03_resolved_clip_region, C03_clipped_leaf).
Print Assumptions C03_all.
