(* props/C02.v — C02: flattening groups, transforms, use and nested svg preserves the rendering.
   Proved (over R, arithmetic regenerated from svg_transform.py): the transform reaching any element
   at any depth maps a point through the element's own transform first and then through each
   ancestor's, parent last; an instantiated <use> is moved by (x, y) before its transform; a nested
   <svg> gets the SVG viewport transform (C11's theorem) followed by its own transform.
   End-to-end (decided on every run by the spec-side renderer on the implementation): the converted
   document paints the same ordered stack as the source over the structural grammar. *)
From Coq Require Import ZArith Reals Lra List Bool Ascii String.
From Pico Require Import Num PyStr G_geom G_transform Structure E1_affine E1_viewport E5_structure Flatten E5_flatten.
Import ListNotations.
Local Open Scope R_scope.

Theorem C02_ctm_accumulates_parent_first path (t : tnodeR) cur m chain p :
  ctm_at cur t path = Some m -> chain_at t path = Some chain ->
  mapP m p = mapP cur (through chain p).
Proof. exact (ctm_accumulates path t cur m chain p). Qed.

Theorem C02_use_moves_then_transforms x y (own : option Aff) px py :
  mapP (use_transform (N:=ROps) x y own) (mkP px py) =
  match own with Some t => mapP t (mkP (px + x) (py + y)) | None => mkP (px + x) (py + y) end.
Proof. exact (use_transform_spec x y own px py). Qed.

Theorem C02_nested_svg_viewport x y w h (vb : Rct) xa ya slice (own : option Aff) p :
  Rect_w vb <> 0 -> Rect_h vb <> 0 -> w <> 0 -> h <> 0 ->
  exists m, unnest_transform (N:=ROps) x y w h (Some vb) (par_string xa ya slice) own = Ok m /\
            mapP m p = match own with
                       | Some o => mapP o (mapP (spec_viewport vb (mkR x y w h) xa ya slice) p)
                       | None => mapP (spec_viewport vb (mkR x y w h) xa ya slice) p
                       end.
Proof. exact (unnest_transform_viewbox x y w h vb xa ya slice own p). Qed.

Theorem C02_nested_svg_without_viewbox x y w h par (own : option Aff) px py :
  exists m, unnest_transform (N:=ROps) x y w h None par own = Ok m /\
            mapP m (mkP px py) = match own with Some o => mapP o (mkP (px + x) (py + y)) | None => mkP (px + x) (py + y) end.
Proof. exact (unnest_transform_no_viewbox x y w h par own px py). Qed.

(* document order (z-order) under flattening: whichever groups are dissolved, for trees of any depth and width the
   leaves come out in the same order, nothing is lost or duplicated, no dissolvable group is left, and k instances of
   a forest are k copies in place *)
Theorem C02_flattening_keeps_painting_order (t : ftree) : flat_map leaves (flatten t) = leaves t.
Proof. exact (flatten_keeps_order t). Qed.

Theorem C02_replacing_a_group_by_its_children_keeps_order (before after : list ftree) (t : ftree) :
  flat_map leaves (before ++ replace_el t ++ after) = flat_map leaves (before ++ t :: after).
Proof. exact (replace_el_keeps_order before after t). Qed.

Theorem C02_flattened_forest_is_flat (t : ftree) : forallb no_dissolvable (flatten t) = true.
Proof. exact (flatten_is_flat t). Qed.

Theorem C02_instances_appear_once_per_use_in_place (k : nat) (f : list ftree) :
  flat_map leaves (repeat_forest k f) = List.concat (List.repeat (flat_map leaves f) k).
Proof. exact (instances_in_order k f). Qed.

Definition C02_all := (C02_ctm_accumulates_parent_first, C02_use_moves_then_transforms, C02_nested_svg_viewport, C02_nested_svg_without_viewbox, C02_flattening_keeps_painting_order, C02_replacing_a_group_by_its_children_keeps_order, C02_flattened_forest_is_flat, C02_instances_appear_once_per_use_in_place).
Print Assumptions C02_all.
