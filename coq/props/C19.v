(* props/C19.v — C19: clipping to the viewBox and bounding boxes are geometrically exact.
   Rect.intersection / Rect.union are generated code, proved over the reals.  The clip theorems are
   RELATIVE TO the engine contract (set operations; the open interior lies strictly inside the
   ordered bounds; the rectangle path encloses the open rectangle).  Tightness of Skia's bounds
   (true extrema) and the group cleanup after clipping are decided by the correspondence/judge. *)
From Coq Require Import ZArith Reals Lra List Bool Ascii String.
From Pico Require Import Num PyStr G_geom G_transform Walk Skia Shape Clip E1_affine E1_viewport E1_rect E3_walk E5_pathops E5_paint E5_clip.
Import ListNotations.
Local Open Scope string_scope.

Theorem C19_rect_intersection_is_overlap (A B Rr : Rct) :
  (0 <= Rect_w A -> 0 <= Rect_h A -> 0 <= Rect_w B -> 0 <= Rect_h B ->
  Rect_intersection ROps A B = Some Rr ->
  0 < Rect_w Rr /\ 0 < Rect_h Rr /\
  forall x y, in_rect Rr x y <-> in_rect A x y /\ in_rect B x y)%R.
Proof. exact (intersection_some A B Rr). Qed.

Theorem C19_rect_intersection_none_iff_no_area (A B : Rct) :
  (0 <= Rect_w A -> 0 <= Rect_h A -> 0 <= Rect_w B -> 0 <= Rect_h B ->
  Rect_intersection ROps A B = None ->
  forall x y, ~ (in_rect_open A x y /\ in_rect_open B x y))%R.
Proof. exact (intersection_none A B). Qed.

Theorem C19_rect_union_is_least_box (A B : Rct) :
  (0 <= Rect_w A -> 0 <= Rect_h A -> 0 <= Rect_w B -> 0 <= Rect_h B ->
  let U := Rect_union ROps A B in
  Rect_x U = Rmin (Rect_x A) (Rect_x B) /\ Rect_y U = Rmin (Rect_y A) (Rect_y B) /\
  Rect_x U + Rect_w U = Rmax (Rect_x A + Rect_w A) (Rect_x B + Rect_w B) /\
  Rect_y U + Rect_h U = Rmax (Rect_y A + Rect_h A) (Rect_y B + Rect_h B) /\
  (forall x y, in_rect A x y \/ in_rect B x y -> in_rect U x y))%R.
Proof. exact (union_spec A B). Qed.

Section C19.
  Variable inside : pathR -> rule -> Pt -> Prop.
  Variable sk : @skia ROps.
  Hypothesis op_contract : forall k p1 r1 p2 r2 q,
    sk_op sk k p1 r1 p2 r2 = Some q -> forall r pt, inside q r pt <-> opsem k (inside p1 r1 pt) (inside p2 r2 pt).
  Hypothesis simplify_contract : forall p r q,
    sk_simplify sk p r = Some q -> forall r' pt, inside q r' pt <-> inside p r pt.
  Hypothesis bounds_contract : forall p r pt,
    inside p r pt ->
    let '(x1, y1, x2, y2) := sk_bounds sk p in (x1 < Point_x pt < x2 /\ y1 < Point_y pt < y2)%R.
  Hypothesis bounds_ordered : forall p, let '(x1, y1, x2, y2) := sk_bounds sk p in (x1 <= x2 /\ y1 <= y2)%R.
  Hypothesis rect_interior : forall (r : Rct) pt,
    inside (as_cmd_seq RMath (rect_path r)) NonZero pt <-> in_rect_open r (Point_x pt) (Point_y pt).
  Hypothesis empty_no_interior : forall r pt, ~ inside [] r pt.

  (* a shape disappears only when nothing of it is inside the viewBox: its box misses the viewBox, or (fix 413baa0) the box
     reaches in but the intersection is empty *)
  Theorem C19_dropped_shape_had_nothing_inside (vb : Rct) (sh : shapeR) r bbox :
    (0 <= Rect_w vb)%R -> (0 <= Rect_h vb)%R ->
    rule_of_string (s_fill_rule sh) = Some r -> shape_bbox RMath sk sh = Ok bbox ->
    clip_shape RMath sk vb sh = Ok None ->
    (forall pt, ~ (shape_inside inside sh r pt /\ in_rect_open vb (Point_x pt) (Point_y pt))) \/
    (forall pt, ~ (inside (as_cmd_seq RMath (absolute (s_d sh))) r pt /\
                   in_rect_open vb (Point_x pt) (Point_y pt) /\ in_rect_open bbox (Point_x pt) (Point_y pt))).
  Proof. exact (clip_shape_dropped inside sk op_contract simplify_contract bounds_contract bounds_ordered rect_interior empty_no_interior vb sh r bbox). Qed.

  (* a shape that stays has geometry *)
  Theorem C19_kept_shape_has_geometry (vb : Rct) (sh sh' : shapeR) :
    clip_shape RMath sk vb sh = Ok (Some sh') -> sh' = sh \/ s_d sh' <> [].
  Proof. exact (clip_shape_kept_nonempty sk vb sh sh'). Qed.

  Theorem C19_clipped_document_has_no_empty_shape (vb : Rct) (l out : list shapeR) :
    clip_shapes RMath sk vb l = Ok out -> Forall (fun s' => In s' l \/ s_d s' <> []) out.
  Proof. exact (clip_shapes_nonempty sk vb l out). Qed.

  (* order unchanged: the clipped document lists the surviving shapes in the source's painting order *)
  Theorem C19_painting_order_is_kept (vb : Rct) (l out : list shapeR) :
    clip_shapes RMath sk vb l = Ok out ->
    out = flat_map (fun sh => match clip_shape RMath sk vb sh with Ok (Some s) => [s] | _ => [] end) l.
  Proof. exact (clip_shapes_keeps_order sk vb l out). Qed.

  Theorem C19_kept_shape_is_cut_at_the_border (vb : Rct) (sh sh' : shapeR) r bbox :
    (0 <= Rect_w vb)%R -> (0 <= Rect_h vb)%R ->
    rule_of_string (s_fill_rule sh) = Some r -> shape_bbox RMath sk sh = Ok bbox ->
    clip_shape RMath sk vb sh = Ok (Some sh') ->
    (sh' = sh /\ forall pt, shape_inside inside sh r pt -> in_rect_open vb (Point_x pt) (Point_y pt)) \/
    (s_fill_rule sh' = "nonzero" /\ s_fill sh' = s_fill sh /\ s_opacity sh' = s_opacity sh /\ s_id sh' = s_id sh /\
     forall r' pt, inside (s_d sh') r' pt <->
                   inside (as_cmd_seq RMath (absolute (s_d sh))) r pt /\
                   in_rect_open vb (Point_x pt) (Point_y pt) /\ in_rect_open bbox (Point_x pt) (Point_y pt)).
  Proof. exact (clip_shape_kept inside sk op_contract simplify_contract bounds_contract bounds_ordered rect_interior vb sh sh' r bbox). Qed.
End C19.

Definition C19_all := (C19_rect_intersection_is_overlap, C19_rect_intersection_none_iff_no_area, C19_rect_union_is_least_box,
  C19_dropped_shape_had_nothing_inside, C19_kept_shape_has_geometry, C19_clipped_document_has_no_empty_shape, C19_painting_order_is_kept, C19_kept_shape_is_cut_at_the_border).
Print Assumptions C19_all.
