(* props/C16.v — C16: output bytes depend only on input bytes and options.
   What a theorem can carry here is the LOGIC through which a conversion could depend on history or
   on container order; hash randomisation, process boundaries and the interpreter itself are outside
   any model and are exercised by the multi-process judge — partial.
   Proved:
   * the only memoisation (lru_cache on _inherited_attrib, shared by all SVG objects) is invisible under
     the discipline the code follows — cache_clear at the start of each _update_etree, then one function
     per phase — for ANY history of phases, whatever documents were converted before;
   * _inherit_attrib iterates sorted keys: its result does not depend on the order of the attribute map;
   * the inventory of caches, module-level state mutation, hash()/id()/environ/time/random uses and of
     sequences built from sets is regenerated from the sources on every run and pinned here: a new cache
     or hash-order dependency breaks this file. *)
From Coq Require Import ZArith List Bool Ascii String Permutation.
From Pico Require Import Num PyStr Lex G_inherit Inherit Memo E6_determinism G_inventory.
Import ListNotations.
Local Open Scope string_scope.

Theorem C16_memo_invisible : forall (K V : Type) (keq : K -> K -> bool), (forall a b, keq a b = true <-> a = b) ->
  forall (ps : list ((K -> V) * list K)) (c : cache K V),
  fst (run K V keq (phases K V ps) c) = run_direct K V (phases K V ps).
Proof. intros K V keq H ps c. exact (clear_before_use_is_invisible K V keq H ps c). Qed.

Theorem C16_memo_discipline_suffices : forall (K V : Type) (keq : K -> K -> bool) es c,
  disciplined K V keq es c -> fst (run K V keq es c) = run_direct K V es.
Proof. intros K V keq es c. exact (memo_invisible K V keq es c). Qed.

Theorem C16_inherit_attrib_order_free : forall (m1 m2 : @amap QOps) tag child su skips,
  NoDup (map fst m1) -> Permutation m1 m2 ->
  inherit_attrib m1 tag child su skips = inherit_attrib m2 tag child su skips.
Proof. exact (@inherit_attrib_order_free QOps). Qed.

Theorem C16_sorted_iteration_order_free : forall l1 l2, Permutation l1 l2 -> sort_strings l1 = sort_strings l2.
Proof. exact sort_strings_order_free. Qed.

(* the state / nondeterminism inventory of the current sources *)
Example C16_inventory_pinned : STATE_INVENTORY =
  [("svg", "cache:lru_cache", "_inherited_attrib");
   ("svg", "call:open", "parse");
   ("svg", "sequence-from-set", "tuple({'offset', 'stop_color', 'stop_opacity'})");
   ("picosvg", "call:open", "_run")].
Proof. reflexivity. Qed.

(* non-vacuity of the memo theorem: a stale entry (no clear between two functions) IS visible *)
Example C16_memo_needs_discipline :
  fst (run nat nat Nat.eqb [Call nat nat (fun _ => 1) 0; Call nat nat (fun _ => 2) 0] []) = [1; 1] /\
  run_direct nat nat [Call nat nat (fun _ => 1) 0; Call nat nat (fun _ => 2) 0] = [1; 2].
Proof. split; reflexivity. Qed.

Definition C16_all := (C16_memo_invisible, C16_memo_discipline_suffices, C16_inherit_attrib_order_free, C16_sorted_iteration_order_free, C16_inventory_pinned, C16_memo_needs_discipline).
Print Assumptions C16_all.
