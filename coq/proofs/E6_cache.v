(* proofs/E6_cache.v — soundness of the skeleton analysis: a method whose skeleton passes `wf`
   gives the same serialisation whether it runs on the lazily cached object or on the object
   serialised and re-parsed first; hence any history of such methods does (C15). *)
From Coq Require Import List Bool String.
From Pico Require Import ObjCache.
Import ListNotations.

Section Sound.
  Variables tree cache : Type.
  Variable populate : tree -> cache.
  Variable flush : tree -> cache -> tree.
  Variable edit : nat -> cache -> cache.
  Variable mut : nat -> tree -> tree.
  Variable cond_tree : nat -> tree -> bool.
  Variable cond_cache : nat -> cache -> bool.
  Variable bound : nat -> tree -> nat.

  (* the two laws of the shape dataclass <-> element conversion *)
  Hypothesis populate_flush : forall t c, populate (flush t c) = c.
  Hypothesis flush_flush : forall t c c', flush (flush t c) c' = flush t c'.

  Notation run := (run tree cache populate flush edit mut cond_tree cond_cache bound).
  Notation abs := (abs tree cache flush).
  Notation state := (state tree cache).

  Definition related (r : rel) (L E : state) : Prop :=
    match r with
    | Init => exists t c, L = (t, Some c) /\ E = (flush t c, None)
    | Lag => exists t c0 c, L = (t, Some c) /\ E = (flush t c0, Some c)
    | Same => L = E
    end.

  Lemma related_abs r L E : related r L E -> abs L = abs E.
  Proof.
    destruct r; cbn [related].
    - intros [t [c [-> ->]]]. reflexivity.
    - intros [t [c0 [c [-> ->]]]]. cbn [abs]. rewrite flush_flush. reflexivity.
    - intros ->. reflexivity.
  Qed.

  Lemma pure_run k : pure_sk k = true -> forall s, fst (run k s) = s.
  Proof.
    induction k as [rr|k IHk|k IHk|n k IHk|n k IHk|k IHk|n k1 IHk1 k2 IHk2|n k1 IHk1 k2 IHk2|k1 IHk1 k2 IHk2|n body IHbody k IHk];
      cbn [pure_sk]; intro H; try discriminate; intro s; cbn [run].
    - reflexivity.
    - apply andb_true_iff in H. destruct H. destruct (cond_tree n (fst s)); auto.
    - apply andb_true_iff in H. destruct H. destruct (snd s); [destruct (cond_cache n c)|]; auto.
    - apply andb_true_iff in H. destruct H. destruct (snd s); auto.
  Qed.

  Theorem wf_sound k : forall r L E,
    wf r k = true -> related r L E -> abs (fst (run k L)) = abs (fst (run k E)).
  Proof.
    induction k as [rr|k IHk|k IHk|n k IHk|n k IHk|k IHk|n k1 IHk1 k2 IHk2|n k1 IHk1 k2 IHk2|k1 IHk1 k2 IHk2|n body IHbody k IHk];
      intros r L E Hwf Hrel; cbn [wf] in Hwf; cbn [run].
    - (* Done *) cbn [fst]. eapply related_abs; eassumption.
    - (* Flush *) apply (IHk Same); [exact Hwf|]. destruct r; cbn [related] in *.
      + destruct Hrel as [t [c [-> ->]]]. reflexivity.
      + destruct Hrel as [t [c0 [c [-> ->]]]]. rewrite flush_flush. reflexivity.
      + subst. reflexivity.
    - (* Populate *) destruct r.
      + apply (IHk Lag); [exact Hwf|]. destruct Hrel as [t [c [-> ->]]].
        exists t, c, c. split; [reflexivity|]. rewrite populate_flush. reflexivity.
      + apply (IHk Lag); [exact Hwf|]. destruct Hrel as [t [c0 [c [-> ->]]]]. exists t, c0, c. split; reflexivity.
      + apply (IHk Same); [exact Hwf|]. cbn [related] in *. subst. reflexivity.
    - (* Edit *) destruct r; [discriminate| |].
      + apply (IHk Lag); [exact Hwf|]. destruct Hrel as [t [c0 [c [-> ->]]]]. exists t, c0, (edit n c). split; reflexivity.
      + apply (IHk Same); [exact Hwf|]. cbn [related] in *. subst. reflexivity.
    - (* Mut *) destruct r; try discriminate. apply (IHk Same); [exact Hwf|]. cbn [related] in *. subst. reflexivity.
    - (* Invalidate *) destruct r; try discriminate. apply (IHk Same); [exact Hwf|]. cbn [related] in *. subst. reflexivity.
    - (* IfTree *) destruct r.
      + apply andb_true_iff in Hwf. destruct Hwf as [H1 H2].
        assert (HL : fst (if cond_tree n (fst L) then run k1 L else run k2 L) = L)
          by (destruct (cond_tree n (fst L)); apply pure_run; assumption).
        assert (HE : fst (if cond_tree n (fst E) then run k1 E else run k2 E) = E)
          by (destruct (cond_tree n (fst E)); apply pure_run; assumption).
        rewrite HL, HE. eapply related_abs; eassumption.
      + apply andb_true_iff in Hwf. destruct Hwf as [H1 H2].
        assert (HL : fst (if cond_tree n (fst L) then run k1 L else run k2 L) = L)
          by (destruct (cond_tree n (fst L)); apply pure_run; assumption).
        assert (HE : fst (if cond_tree n (fst E) then run k1 E else run k2 E) = E)
          by (destruct (cond_tree n (fst E)); apply pure_run; assumption).
        rewrite HL, HE. eapply related_abs; eassumption.
      + apply andb_true_iff in Hwf. destruct Hwf as [H1 H2]. cbn [related] in Hrel. subst E.
        destruct (cond_tree n (fst L)); [apply (IHk1 Same)|apply (IHk2 Same)]; try assumption; reflexivity.
    - (* IfCache *) destruct r; [discriminate| |]; apply andb_true_iff in Hwf; destruct Hwf as [H1 H2].
      + destruct Hrel as [t [c0 [c [-> ->]]]]. cbn [snd].
        destruct (cond_cache n c); [apply (IHk1 Lag)|apply (IHk2 Lag)]; try assumption; exists t, c0, c; split; reflexivity.
      + cbn [related] in Hrel. subst E. destruct (snd L); [destruct (cond_cache n c)|];
          [apply (IHk1 Same)|apply (IHk2 Same)|apply (IHk2 Same)]; try assumption; reflexivity.
    - (* IfHasCache *) destruct r; [discriminate| |]; apply andb_true_iff in Hwf; destruct Hwf as [H1 H2].
      + destruct Hrel as [t [c0 [c [-> ->]]]]. cbn [snd]. apply (IHk1 Lag); [assumption|]. exists t, c0, c; split; reflexivity.
      + cbn [related] in Hrel. subst E. destruct (snd L); [apply (IHk1 Same)|apply (IHk2 Same)]; try assumption; reflexivity.
    - (* While: only accepted once both runs coincide *)
      destruct r; try discriminate. cbn [related] in Hrel. subst E. reflexivity.
  Qed.

  (* one operation, in place: running it on the cached object and then serialising equals running
     it on the serialised-and-reparsed object *)
  Corollary op_commutes_with_reparse k s :
    wf Init k = true -> abs (fst (run k s)) = abs (fst (run k (abs s, None))).
  Proof.
    intro H. destruct s as [t [c|]].
    - apply (wf_sound k Init); [exact H|]. exists t, c. split; reflexivity.
    - reflexivity.
  Qed.

  (* copying form: the receiver's serialisation is unchanged and the copy is what the in-place form
     produces on the serialised object *)
  Corollary copy_ok k s :
    let '(recv, res) := run_copy tree cache populate flush edit mut cond_tree cond_cache bound k s in
    abs recv = abs s /\ res = fst (run k (abs s, None)).
  Proof.
    unfold run_copy. destruct s as [t [c|]]; cbn [fst abs]; split; reflexivity.
  Qed.

  (* histories: a list of (skeleton, in place?) steps; the reference re-parses between steps *)
  Fixpoint run_lazy (h : list (sk * bool)) (s : state) : state :=
    match h with
    | [] => s
    | (k, true) :: r => run_lazy r (fst (run k s))
    | (k, false) :: r => run_lazy r (snd (run_copy tree cache populate flush edit mut cond_tree cond_cache bound k s))
    end.
  Fixpoint run_reference (h : list (sk * bool)) (t : tree) : tree :=
    match h with
    | [] => t
    | (k, _) :: r => run_reference r (abs (fst (run k (t, None))))
    end.

  Theorem history_coherent (h : list (sk * bool)) : forall s,
    Forall (fun st => wf Init (fst st) = true) h ->
    abs (run_lazy h s) = run_reference h (abs s).
  Proof.
    induction h as [|[k inplace] r IH]; intros s Hh; cbn [run_lazy run_reference]; [reflexivity|].
    inversion Hh as [|? ? Hk Hr]; subst. cbn [fst] in Hk.
    destruct inplace.
    - rewrite IH by exact Hr. rewrite (op_commutes_with_reparse k s Hk). reflexivity.
    - rewrite IH by exact Hr. f_equal. unfold run_copy. cbn [snd]. destruct s as [t [c|]]; reflexivity.
  Qed.
End Sound.

(* ------------------------------------------------------------------ freshness analysis is sound *)
Section Fresh.
  Variables tree cache : Type.
  Variable populate : tree -> cache.
  Variable flush : tree -> cache -> tree.
  Variable edit : nat -> cache -> cache.
  Variable mut : nat -> tree -> tree.
  Variable cond_tree : nat -> tree -> bool.
  Variable cond_cache : nat -> cache -> bool.
  Variable bound : nat -> tree -> nat.
  Notation run_g := (run_g tree cache populate flush edit mut cond_tree cond_cache bound).
  Notation hc := (has_cache tree cache).

  (* if the analysis accepts, a run never flushes, edits, reads or returns a stale cache *)
  Theorem fresh_sound k : forall s stale used,
    wf_fresh (hc s) stale k = true -> used = false ->
    let '(_, stale', used', _) := run_g k s stale used in stale' = false /\ used' = false.
  Proof.
    induction k as [rr|k IHk|k IHk|n k IHk|n k IHk|k IHk|n k1 IHk1 k2 IHk2|n k1 IHk1 k2 IHk2|k1 IHk1 k2 IHk2|n body IHbody k IHk];
      intros s stale used Hwf Hu; cbn [wf_fresh] in Hwf; cbn [run_g]; subst used; cbn [orb].
    - apply negb_true_iff in Hwf. split; [exact Hwf|reflexivity].
    - apply andb_true_iff in Hwf. destruct Hwf as [H1 H2]. apply negb_true_iff in H1. rewrite H1.
      apply IHk; [|reflexivity]. destruct s as [t [c|]]; exact H2.
    - apply andb_true_iff in Hwf. destruct Hwf as [H1 H2]. apply negb_true_iff in H1. rewrite H1.
      apply IHk; [|reflexivity]. destruct s as [t [c|]]; exact H2.
    - apply andb_true_iff in Hwf. destruct Hwf as [H1 H2]. apply negb_true_iff in H1. rewrite H1.
      apply IHk; [|reflexivity]. destruct s as [t [c|]]; cbn [has_cache snd andb] in *; [subst stale|]; exact H2.
    - apply IHk; [|reflexivity]. destruct s as [t [c|]]; cbn [has_cache snd fst orb] in *; [rewrite orb_true_r in *|rewrite orb_false_r in *]; exact Hwf.
    - apply IHk; [exact Hwf|reflexivity].
    - apply andb_true_iff in Hwf. destruct Hwf as [H1 H2].
      destruct (cond_tree n (fst s)); [apply IHk1|apply IHk2]; try assumption; reflexivity.
    - destruct s as [t [c|]]; cbn [has_cache snd] in *.
      + apply andb_true_iff in Hwf. destruct Hwf as [H12 H3]. apply andb_true_iff in H12. destruct H12 as [H1 H2].
        apply negb_true_iff in H1. subst stale.
        destruct (cond_cache n c); [apply IHk1|apply IHk2]; try assumption; reflexivity.
      + apply IHk2; [exact Hwf|reflexivity].
    - destruct s as [t [c|]]; cbn [has_cache snd] in *; [apply IHk1|apply IHk2]; try assumption; reflexivity.
    - (* While *)
      repeat (apply andb_true_iff in Hwf; let H := fresh "Hw" in destruct Hwf as [Hwf H]).
      rename Hwf into Hb0. rename Hw3 into Hk0. rename Hw2 into Hbf. rename Hw1 into Hbt. rename Hw0 into Hkf. rename Hw into Hkt.
      assert (Hany_b : forall s', wf_fresh (hc s') false body = true) by (intro s'; destruct (hc s'); assumption).
      assert (Hany_k : forall s', wf_fresh (hc s') false k = true) by (intro s'; destruct (hc s'); assumption).
      generalize (bound n (fst s)). intro i. revert s stale Hb0 Hk0.
      induction i as [|i IHi]; intros s stale Hb0 Hk0.
      + apply IHk; [exact Hk0|reflexivity].
      + specialize (IHbody s stale false Hb0 eq_refl).
        destruct (run_g body s stale false) as [[[s' st'] u'] r']. destruct IHbody as [-> ->].
        destruct r'; try (split; reflexivity).
        * apply IHi; [apply Hany_b|apply Hany_k].
        * apply IHk; [apply Hany_k|reflexivity].
  Qed.
End Fresh.
