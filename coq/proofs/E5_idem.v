(* proofs/E5_idem.v — the tree half of idempotence (C07): a group in pico form is a fixed point of
   _try_remove_group, orphan removal and the gate's pruning are idempotent. *)
From Coq Require Import ZArith List Bool Ascii String Reals Lra Lia.
From Pico Require Import Num PyStr Lex G_inherit Inherit CheckPico Refs E5_refs.
Import ListNotations.
Local Open Scope string_scope.

Lemma clamp01_id (o : R) : (0 < o < 1)%R -> @clamp01 ROps o = o.
Proof.
  intros [H0 H1]. unfold clamp01, pymax, pymin. cbn [ltb ROps one zero].
  destruct (Rltb 1 o) eqn:E1; [apply Rltb_true in E1; lra|].
  destruct (Rltb o 0) eqn:E2; [apply Rltb_true in E2; lra|reflexivity].
Qed.

(* a kept group of the output: nothing but an opacity strictly between 0 and 1, at least two children *)
Theorem pico_group_fixed (o : R) (kids : list (string * @amap ROps)) (push : bool) :
  (0 < o < 1)%R -> (2 <= List.length kids)%nat ->
  @try_remove_group ROps [("opacity", @ANum ROps o)] kids push = Ok (@Kept ROps [("opacity", @ANum ROps o)]).
Proof.
  intros Ho Hk. unfold try_remove_group, is_removable_group.
  assert (E : @el_opacity ROps [("opacity", @ANum ROps o)] = Ok o).
  { unfold el_opacity, aget. cbn [find fst snd String.eqb Ascii.eqb Bool.eqb num_of]. rewrite clamp01_id by exact Ho. reflexivity. }
  rewrite E.
  destruct (Nat.leb (List.length kids) 1) eqn:El; [apply Nat.leb_le in El; lia|].
  cbn [eqb ROps zero one].
  assert (Reqb o 0 = false) by (destruct (Reqb o 0) eqn:X; [apply Reqb_true in X; lra|reflexivity]).
  assert (Reqb o 1 = false) by (destruct (Reqb o 1) eqn:X; [apply Reqb_true in X; lra|reflexivity]).
  rewrite H, H0. cbn [orb]. unfold kept_group_attrib. cbn [eqb ROps one]. rewrite H0. reflexivity.
Qed.

(* orphan removal is idempotent *)
Lemma filter_idem {A} (f : A -> bool) l : filter f (filter f l) = filter f l.
Proof.
  induction l as [|x r IH]; cbn [filter]; [reflexivity|].
  destruct (f x) eqn:E; cbn [filter]; [rewrite E, IH|rewrite IH]; reflexivity.
Qed.
Theorem remove_orphans_idem els fills grads :
  remove_orphans els fills (remove_orphans els fills grads) = remove_orphans els fills grads.
Proof. unfold remove_orphans. apply filter_idem. Qed.
