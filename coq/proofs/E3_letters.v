(* proofs/E3_letters.v — the command letters of converted path data (the path-data clause of C01):
   whatever of the twenty letters a path uses, after explicit_lines, expand_shorthand and absolute - the order
   in which topicosvg applies them - only the absolute letters M L C Q A Z are left (arcs are kept as arcs). *)
From Coq Require Import ZArith Reals Lra Lia List Bool Ascii String.
From Pico Require Import Num PyStr G_geom G_transform G_meta G_types Walk PathSem E1_affine E3_walk E3_rewrites E3_shorthand E3_chain.
Import ListNotations.
Local Open Scope char_scope.

Definition T0 : list ascii := S0 ++ ["A";"a"].
Definition T1 : list ascii := S1 ++ ["A";"a"].
Definition T2 : list ascii := S2 ++ ["A";"a"].
Definition T3 : list ascii := S3 ++ ["A"].

Lemma T0_is_letters l : In l letters -> In l T0.
Proof. unfold letters, T0, S0. cbn [In app]. tauto. Qed.

Lemma explicit_T s cur l (a : list R) pv : In l T0 -> In (fst (f_explicit s cur l a pv)) T1.
Proof.
  intro H. unfold T0, T1 in *. apply in_app_or in H. destruct H as [H|H].
  - apply in_or_app. left. apply explicit_S, H.
  - apply in_or_app. right. unfold f_explicit, _explicit_lines_callback. split_set H; crunch; in_set.
Qed.

Lemma expand_T s cur l (a : list R) pv : In l T1 -> In (fst (f_expand s cur l a pv)) T2.
Proof.
  intro H. unfold T1, T2 in *. apply in_app_or in H. destruct H as [H|H].
  - apply in_or_app. left. apply expand_S, H.
  - apply in_or_app. right. unfold f_expand, cb_expand_shorthand.
    destruct pv as [[[pp pc] pa]|]; split_set H;
      unfold expand_shorthand_callback; crunch; cbn [fst snd]; crunch; in_set.
Qed.

Lemma abs_T s cur l (a : list R) pv : In l T2 -> In (fst (f_rewrite (_relative_to_absolute ROps) s cur l a pv)) T3.
Proof.
  intro H. unfold T2, T3 in *. apply in_app_or in H. destruct H as [H|H].
  - apply in_or_app. left. apply abs_S, H.
  - apply in_or_app. right. unfold f_rewrite, rewrite_callback.
    destruct (_relative_to_absolute ROps cur l a) as [c1 a1] eqn:E.
    assert (H1 : c1 = "A").
    { unfold _relative_to_absolute, _rewrite_coords in E. split_set H; revert E; crunch; intro E; injection E as <- _; reflexivity. }
    subst c1.
    destruct (negb (Point_eqb ROps (_next_pos ROps cur "A" a1) s) && Point_almost_equals ROps (_next_pos ROps cur "A" a1) s (of_dec ROps 1 (-9))).
    + unfold _move_endpoint. crunch. repeat match goal with |- context [if ?b then _ else _] => destruct b end; in_set.
    + in_set.
Qed.

Theorem converted_letters (p : pathR) :
  Forall (fun c => In (fst c) letters) p ->
  Forall (fun c => In (fst c) ["M";"L";"C";"Q";"Z";"A"])
         (absolute (N:=ROps) (expand_shorthand (N:=ROps) (explicit_lines (N:=ROps) p))).
Proof.
  intro H.
  assert (H1 : Forall (fun c => In (fst c) T1) (explicit_lines (N:=ROps) p)).
  { unfold explicit_lines. rewrite explicit_is_lift1.
    apply (walk1_forall_rel f_explicit (fun l => In l T0) (fun c => In (fst c) T1)).
    - unfold T0, S0. cbn [In app]. tauto.
    - intros. apply explicit_T. assumption.
    - eapply Forall_impl; [|exact H]. intros c Hc. apply T0_is_letters, Hc. }
  assert (H2 : Forall (fun c => In (fst c) T2) (expand_shorthand (N:=ROps) (explicit_lines (N:=ROps) p))).
  { unfold expand_shorthand at 1. rewrite expand_is_lift1.
    apply (walk1_forall_rel f_expand (fun l => In l T1) (fun c => In (fst c) T2)).
    - unfold T1, S1. cbn [In app]. tauto.
    - intros. apply expand_T. assumption.
    - exact H1. }
  assert (H3 : Forall (fun c => In (fst c) T3) (absolute (N:=ROps) (expand_shorthand (N:=ROps) (explicit_lines (N:=ROps) p)))).
  { unfold absolute at 1. rewrite rewrite_is_lift1.
    apply (walk1_forall_rel _ (fun l => In l T2) (fun c => In (fst c) T3)).
    - unfold T2, S2. cbn [In app]. tauto.
    - intros. apply abs_T. assumption.
    - exact H2. }
  eapply Forall_impl; [|exact H3]. intros c Hc. unfold T3, S3 in Hc. cbn [In app] in *. tauto.
Qed.
