(* proofs/E5_clips.v — a resolved clip path is the union of the clipPath's children (each under its
   clip-rule, placed by child.transform . clipPath.transform . referrer CTM) intersected with the
   clipPath's own clip; a clipped leaf is its fill region intersected with every clip (C03).
   Relative to the engine contract (set operations, transform moves the interior) and to C09's claim
   that the command-sequence normal form has the same interior. *)
From Coq Require Import ZArith Reals Lra List Bool Ascii String Setoid.
From Pico Require Import Num PyStr G_geom G_transform Walk Skia Shape Structure Clips E1_affine E3_walk E5_pathops E5_paint.
Import ListNotations.
Local Open Scope string_scope.

Notation clipdefR := (@clipdef ROps).

Section ClipSem.
  Variable inside : pathR -> rule -> Pt -> Prop.
  Variable sk : @skia ROps.
  Hypothesis op_contract : forall k p1 r1 p2 r2 q,
    sk_op sk k p1 r1 p2 r2 = Some q -> forall r pt, inside q r pt <-> opsem k (inside p1 r1 pt) (inside p2 r2 pt).
  Hypothesis simplify_contract : forall p r q,
    sk_simplify sk p r = Some q -> forall r' pt, inside q r' pt <-> inside p r pt.
  (* transforming a path moves its interior by the matrix *)
  Definition image (a : Aff) (S : Pt -> Prop) (pt : Pt) : Prop := exists q, mapP a q = pt /\ S q.
  Hypothesis transform_contract : forall p a r pt, inside (sk_transform sk p a) r pt <-> image a (inside p r) pt.
  (* C09: the normal form handed to the engine describes the same region *)
  Hypothesis cmdseq_contract : forall (q : pathR) r pt, inside (as_cmd_seq RMath q) r pt <-> inside q r pt.

  (* what one clipPath child contributes *)
  Definition child_region (inh : option string) (cur : Aff) (ch : shapeR * option Aff) (pt : Pt) : Prop :=
    exists cr, rule_of_string (effective_rule inh (fst ch)) = Some cr /\
               image (element_transform (snd ch) cur) (inside (s_d (fst ch)) cr) pt.

  Fixpoint clip_region (fuel : nat) (lookup : string -> option clipdefR) (id : string) (transform : Aff) (pt : Pt) : Prop :=
    match fuel with
    | O => False
    | S f =>
        match lookup id with
        | None => False
        | Some cp =>
            let cur := element_transform (cp_transform cp) transform in
            Exists (fun ch => child_region (cp_rule cp) cur ch pt) (cp_children cp) /\
            match cp_clip cp with None => True | Some id2 => clip_region f lookup id2 cur pt end
        end
    end.

  Lemma fold_union_iff pt (rest : list (pathR * rule)) : forall first,
    fold_sem inside OpUnion pt first rest <-> first \/ Exists (fun o => inside (fst o) (snd o) pt) rest.
  Proof.
    induction rest as [|o r IH]; intro first; cbn [fold_sem fold_left].
    - split; [tauto|intros [H|H]; [exact H|inversion H]].
    - fold (fold_sem inside OpUnion pt (opsem OpUnion first (inside (fst o) (snd o) pt)) r). rewrite IH. cbn [opsem].
      split.
      + intros [[H|H]|H]; [tauto|right; left; exact H|right; right; exact H].
      + intros [H|H]; [tauto|]. inversion H; subst; tauto.
  Qed.

  Lemma transform_children_sem inh cur kids : forall ops,
    Forall (fun ch => Affine2D_is_degenerate ROps (element_transform (snd ch) cur) = false) kids ->
    transform_children RMath sk inh cur kids = Ok ops ->
    forall pt, Exists (fun o => inside (fst o) (snd o) pt) ops <-> Exists (fun ch => child_region inh cur ch pt) kids.
  Proof.
    induction kids as [|[sh tf] r IH]; intros ops Hnd H pt; cbn [transform_children] in H.
    - injection H as <-. split; intro E; inversion E.
    - inversion Hnd as [|? ? Hd Hr]; subst. cbn [snd] in Hd.
      destruct (rule_of_string (effective_rule inh sh)) as [cr|] eqn:Er; [|discriminate].
      unfold apply_transform in H. rewrite Hd in H. unfold transform_path in H.
      destruct (negb (skia_path_ok (N:=ROps) (as_cmd_seq RMath (s_d sh)))); [discriminate|].
      destruct (transform_children RMath sk inh cur r) as [t|e] eqn:Et; [|discriminate].
      injection H as <-. specialize (IH t Hr eq_refl pt).
      split; intro E; inversion E as [? ? Hh|? ? Ht]; subst.
      + left. cbn [fst snd] in Hh. exists cr. split; [exact Er|]. cbn [fst snd].
        rewrite !cmdseq_contract in Hh. apply transform_contract in Hh.
        destruct Hh as [q [Hq Hin]]. exists q. split; [exact Hq|]. rewrite !cmdseq_contract in Hin. exact Hin.
      + right. apply IH. exact Ht.
      + left. cbn [fst snd]. destruct Hh as [cr' [Er' [q [Hq Hin]]]]. cbn [fst snd] in *. rewrite Er in Er'. injection Er' as <-.
        rewrite !cmdseq_contract. apply transform_contract. exists q. split; [exact Hq|]. rewrite !cmdseq_contract. exact Hin.
      + right. apply IH. exact Ht.
  Qed.

  (* every child transform along the chain is invertible enough for apply_transform not to collapse *)
  Fixpoint nondegenerate (fuel : nat) (lookup : string -> option clipdefR) (id : string) (transform : Aff) : Prop :=
    match fuel with
    | O => True
    | S f => match lookup id with
             | None => True
             | Some cp =>
                 let cur := element_transform (cp_transform cp) transform in
                 Forall (fun ch => Affine2D_is_degenerate ROps (element_transform (snd ch) cur) = false) (cp_children cp) /\
                 match cp_clip cp with None => True | Some id2 => nondegenerate f lookup id2 cur end
             end
    end.

  Theorem resolve_clip_sem fuel lookup : forall id transform c,
    nondegenerate fuel lookup id transform ->
    resolve_clip RMath sk fuel lookup id transform = Ok c ->
    forall r pt, inside c r pt <-> clip_region fuel lookup id transform pt.
  Proof.
    induction fuel as [|f IH]; intros id transform c Hnd H r pt; cbn [resolve_clip] in H; [discriminate|].
    cbn [clip_region nondegenerate] in *.
    destruct (lookup id) as [cp|]; [|discriminate].
    set (cur := element_transform (cp_transform cp) transform) in *.
    destruct Hnd as [Hkids Hnest].
    destruct (transform_children RMath sk (cp_rule cp) cur (cp_children cp)) as [ops|e] eqn:Eo; [|discriminate].
    destruct (do_pathop sk OpUnion ops) as [[clip|]|e] eqn:Eu; try discriminate.
    assert (Hclip : forall r pt, inside clip r pt <-> Exists (fun ch => child_region (cp_rule cp) cur ch pt) (cp_children cp)).
    { intros r0 pt0. destruct ops as [|[p0 r0'] rest]; [discriminate|].
      rewrite (do_pathop_sem inside sk op_contract simplify_contract _ _ _ _ _ Eu r0 pt0).
      rewrite fold_union_iff.
      rewrite <- (transform_children_sem (cp_rule cp) cur (cp_children cp) _ Hkids Eo pt0).
      split; [intros [H0|H0]; [left; exact H0|right; exact H0]|intro H0; inversion H0; subst; tauto]. }
    destruct (cp_clip cp) as [id2|].
    - destruct (resolve_clip RMath sk f lookup id2 cur) as [clop|e] eqn:Ec; [|discriminate].
      destruct (do_pathop sk OpIntersection _) as [[q|]|e] eqn:Ei; try discriminate.
      + injection H as <-.
        rewrite (do_pathop_sem inside sk op_contract simplify_contract _ _ _ _ _ Ei r pt).
        cbn [fold_sem fold_left fst snd opsem]. rewrite !cmdseq_contract, Hclip, (IH id2 cur clop Hnest Ec NonZero pt). tauto.
      + (* the engine returned no path object: cannot happen for a non-empty operand list *)
        unfold do_pathop in Ei. destruct (negb _); [discriminate|]. destruct (fold_ops _ _ _ _ _); [|discriminate].
        destruct (sk_simplify _ _ _); discriminate.
    - injection H as <-. rewrite Hclip. tauto.
  Qed.

  Lemma fold_inter_iff pt (rest : list (pathR * rule)) : forall first,
    fold_sem inside OpIntersection pt first rest <-> first /\ Forall (fun o => inside (fst o) (snd o) pt) rest.
  Proof.
    induction rest as [|o r IH]; intro first; cbn [fold_sem fold_left].
    - split; [intro H; split; [exact H|constructor]|tauto].
    - fold (fold_sem inside OpIntersection pt (opsem OpIntersection first (inside (fst o) (snd o) pt)) r). rewrite IH. cbn [opsem].
      split; [intros [[H1 H2] H3]; split; [exact H1|constructor; assumption]|intros [H1 H2]; inversion H2; subst; tauto].
  Qed.

  (* the clipped leaf: fill region under the shape's own fill rule, inside every clip *)
  Theorem clip_leaf_sem (p : pathR) fr clips q :
    clips <> [] -> clip_leaf RMath sk p fr clips = Ok q ->
    forall r pt, inside q r pt <-> inside p fr pt /\ Forall (fun c => inside c NonZero pt) clips.
  Proof.
    intros Hne H r pt. unfold clip_leaf in H. destruct clips as [|c0 cs]; [contradiction|].
    destruct (do_pathop sk OpIntersection _) as [[q'|]|e] eqn:Ei; try discriminate.
    - injection H as <-.
      rewrite (do_pathop_sem inside sk op_contract simplify_contract _ _ _ _ _ Ei r pt).
      rewrite fold_inter_iff.
      assert (HF : Forall (fun o : pathR * rule => inside (fst o) (snd o) pt) (map (fun c => (as_cmd_seq RMath c, NonZero)) (c0 :: cs))
                   <-> Forall (fun c => inside c NonZero pt) (c0 :: cs)).
      { generalize (c0 :: cs). intro l. induction l as [|c l IHl]; cbn [map]; [split; constructor|].
        split; intro H0; inversion H0; subst; constructor; try (apply IHl; assumption); cbn [fst snd] in *.
        - match goal with Hx : inside (as_cmd_seq RMath c) NonZero pt |- _ => exact (proj1 (cmdseq_contract _ _ _) Hx) end.
        - match goal with Hx : inside c NonZero pt |- _ => exact (proj2 (cmdseq_contract _ _ _) Hx) end. }
      rewrite HF. split; intros [H1 H2]; (split; [|exact H2]);
        [exact (proj1 (cmdseq_contract _ _ _) H1)|exact (proj2 (cmdseq_contract _ _ _) H1)].
    - unfold do_pathop in Ei. destruct (negb _); [discriminate|]. destruct (fold_ops _ _ _ _ _); [|discriminate].
      destruct (sk_simplify _ _ _); discriminate.
  Qed.
End ClipSem.
