(* proofs/E1_scale.v — decompose_scale (C11): whenever the scale part is invertible the two parts
   recompose to the original transform exactly; the scale part is the pair of column lengths. *)
From Coq Require Import ZArith Reals Lra List Bool.
From Pico Require Import Num PyStr G_geom G_transform E1_affine.
Import ListNotations.
Local Open Scope R_scope.

Definition scale_part (MO : MathOps ROps) (A : Aff) : Aff :=
  mkA (m_hypot MO (Affine2D_a A) (Affine2D_b A)) 0 0 (m_hypot MO (Affine2D_c A) (Affine2D_d A)) 0 0.

Theorem decompose_scale_parts (MO : MathOps ROps) (A S Rm : Aff) :
  Affine2D_decompose_scale ROps MO A = Ok (S, Rm) ->
  S = scale_part MO A /\ Rm = compose_ltr [Affine2D_inverse ROps S; A] /\
  Affine2D_almost_equals ROps A (compose_ltr [S; Rm]) (1 * Rpow10 (-4)) = true.
Proof.
  unfold Affine2D_decompose_scale.
  match goal with |- (if ?c then _ else _) = _ -> _ => destruct c eqn:E end; [|discriminate].
  intro H. injection H as <- <-. repeat split. exact E.
Qed.

(* exact recomposition: map through the scale first, then through the remainder *)
Theorem decompose_scale_exact (MO : MathOps ROps) (A : Aff) :
  Affine2D_is_degenerate ROps (scale_part MO A) = false ->
  compose_ltr [scale_part MO A; compose_ltr [Affine2D_inverse ROps (scale_part MO A); A]] = A.
Proof.
  intro Hd. rewrite !compose_ltr_cons, !compose_ltr_nil, !matmul_ident_l.
  rewrite matmul_assoc, (inverse_left _ Hd). apply matmul_ident_r.
Qed.

(* so a normal return of a non-degenerate scale part recomposes exactly, not only within the 1e-4 self-check *)
Corollary decompose_scale_recomposes (MO : MathOps ROps) (A S Rm : Aff) :
  Affine2D_decompose_scale ROps MO A = Ok (S, Rm) -> Affine2D_is_degenerate ROps S = false ->
  compose_ltr [S; Rm] = A.
Proof.
  intros H Hd. destruct (decompose_scale_parts MO A S Rm H) as [-> [-> _]]. apply decompose_scale_exact. exact Hd.
Qed.
