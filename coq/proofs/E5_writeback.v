(* proofs/E5_writeback.v — writing a cached shape back and reading it again is the identity exactly
   in the context it was written in. *)
From Coq Require Import List Bool Ascii String Arith.
From Pico Require Import PyStr ObjCache Writeback.
Import ListNotations.
Local Open Scope string_scope.

Theorem read_write_same_context inh default k v :
  blank v = false -> read_field inh default k (write_field inh default k v) = v.
Proof.
  intro Hb. unfold read_field, write_field.
  destruct (sget inh k) as [iv|] eqn:Ei.
  - destruct (v =? iv) eqn:E.
    + apply String.eqb_eq in E. subst iv. rewrite Hb. reflexivity.
    + rewrite Hb. reflexivity.
  - destruct (v =? default) eqn:E.
    + apply String.eqb_eq in E. subst. reflexivity.
    + rewrite Hb. reflexivity.
Qed.

(* an own value equal to what the old context supplied is not in the element: read in another
   context, the shape takes that context's value instead of its own *)
Theorem written_value_is_context_bound inh inh' default k v iv' :
  sget inh k = Some v -> sget inh' k = Some iv' -> blank iv' = false ->
  read_field inh' default k (write_field inh default k v) = iv'.
Proof.
  intros Hi Hi' Hb. unfold read_field, write_field. rewrite Hi, String.eqb_refl, Hi', Hb. reflexivity.
Qed.

(* a value the old context did not supply survives any move *)
Theorem differing_value_survives inh inh' default k v iv :
  sget inh k = Some iv -> v <> iv -> blank v = false ->
  read_field inh' default k (write_field inh default k v) = v.
Proof.
  intros Hi Hne Hb. unfold read_field, write_field. rewrite Hi.
  destruct (v =? iv) eqn:E; [apply String.eqb_eq in E; contradiction|]. rewrite Hb. reflexivity.
Qed.

Example explicit_default_lost :
  let defs_ctx := [("fill", "black")] in let use_ctx := [("fill", "red")] in
  read_field use_ctx "black" "fill" (write_field defs_ctx "black" "fill" "black") = "red" /\
  read_field use_ctx "black" "fill" (Some "black") = "black".
Proof. vm_compute. split; reflexivity. Qed.

(* the static analysis is monotone in what is known: knowing less never hides a write-back *)
Lemma wb_before_unknown target k : forall c, wb_before target c k = true -> wb_before target None k = true.
Proof.
  induction k as [r|k IH|k IH|n k IH|n k IH|k IH|n a IHa b IHb|n a IHa b IHb|a IHa b IHb|n body IHb k IHk]; intros c H; cbn [wb_before] in *.
  - exact H.
  - reflexivity.
  - exact H.
  - eapply IH; exact H.
  - destruct (Nat.eqb n target); [exact H | eapply IH; exact H].
  - exact H.
  - apply orb_true_iff in H. apply orb_true_iff. destruct H as [H|H]; [left; eapply IHa | right; eapply IHb]; exact H.
  - apply orb_true_iff in H. apply orb_true_iff. destruct H as [H|H]; [left; eapply IHa | right; eapply IHb]; exact H.
  - apply orb_true_iff. destruct c as [[|]|]; [left; exact H | right; exact H | apply orb_true_iff in H; exact H].
  - apply orb_true_iff in H. destruct H as [H|H].
    + apply orb_true_iff in H. destruct H as [H|H]; apply orb_true_iff; left; apply orb_true_iff; [left; eapply IHb; exact H | right; exact H].
    + apply orb_true_iff. right. exact H.
Qed.
