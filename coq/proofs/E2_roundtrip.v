(* proofs/E2_roundtrip.v — printing a command list and parsing the result gives the list back (C10),
   for any number printer whose tokens the float scanner reads back completely. *)
From Coq Require Import ZArith List Bool Ascii String Lia.
From Pico Require Import Num PyStr Lex G_meta PathParse.
Import ListNotations.
Local Open Scope char_scope.

(* ------------------------------------------------------------------ generic list / scanner facts *)
Lemma take_while_app f a b : forallb f a = true -> (match b with [] => True | c :: _ => f c = false end) ->
  take_while f (a ++ b) = (a, b).
Proof.
  intros Ha Hb. induction a as [|x r IH]; cbn [app take_while].
  - destruct b as [|c b']; [reflexivity|]. cbn [take_while]. rewrite Hb. reflexivity.
  - cbn [forallb] in Ha. apply andb_true_iff in Ha. destruct Ha as [Hx Hr]. rewrite Hx, (IH Hr). reflexivity.
Qed.

Lemma take_while_all f a : forallb f a = true -> take_while f a = (a, []).
Proof. intro H. rewrite <- (app_nil_r a) at 1. apply take_while_app; [exact H|exact I]. Qed.

Lemma take_while_none f c r : f c = false -> take_while f (c :: r) = ([], c :: r).
Proof. intro H. cbn [take_while]. rewrite H. reflexivity. Qed.

(* ------------------------------------------------------------------ strip on character lists *)
Fixpoint dropw (f : ascii -> bool) (l : chars) : chars :=
  match l with c :: r => if f c then dropw f r else l | [] => [] end.

Lemma los_sol l : list_of_string (string_of_list l) = l.
Proof. induction l as [|c r IH]; cbn; [reflexivity|]. rewrite IH. reflexivity. Qed.
Lemma sol_los s : string_of_list (list_of_string s) = s.
Proof. induction s as [|c r IH]; cbn; [reflexivity|]. rewrite IH. reflexivity. Qed.
Lemma los_lstrip s : list_of_string (lstrip s) = dropw is_pyspace (list_of_string s).
Proof. induction s as [|c r IH]; cbn [lstrip list_of_string dropw]; [reflexivity|]. destruct (is_pyspace c); [exact IH|reflexivity]. Qed.
Lemma los_rev_aux s acc : list_of_string (str_rev_aux s acc) = (rev (list_of_string s) ++ list_of_string acc)%list.
Proof.
  revert acc. induction s as [|c r IH]; intro acc; cbn [str_rev_aux list_of_string rev app]; [reflexivity|].
  rewrite IH. cbn [list_of_string]. rewrite <- app_assoc. reflexivity.
Qed.
Lemma los_rev s : list_of_string (str_rev s) = rev (list_of_string s).
Proof. unfold str_rev. rewrite los_rev_aux. cbn [list_of_string]. apply app_nil_r. Qed.

Lemma strip_chars_spec (s : chars) : strip_chars_ s = rev (dropw is_pyspace (rev (dropw is_pyspace s))).
Proof.
  unfold strip_chars_, str_strip, rstrip. rewrite los_rev, los_lstrip, los_rev, los_lstrip, los_sol. reflexivity.
Qed.

Definition not_space (c : ascii) : bool := negb (is_pyspace c).

Lemma dropw_id l : (match l with [] => True | c :: _ => is_pyspace c = false end) -> dropw is_pyspace l = l.
Proof. destruct l as [|c r]; [reflexivity|]. intro H. cbn [dropw]. rewrite H. reflexivity. Qed.

(* a body whose first and last characters are not white space, followed by one space, strips to itself *)
Lemma strip_body_space (body : chars) :
  (match body with [] => True | c :: _ => is_pyspace c = false end) ->
  (match rev body with [] => True | c :: _ => is_pyspace c = false end) ->
  strip_chars_ (body ++ [" "]) = body /\ strip_chars_ body = body.
Proof.
  intros Hf Hl. rewrite !strip_chars_spec. split.
  - destruct body as [|c r].
    + reflexivity.
    + assert (E1 : dropw is_pyspace ((c :: r) ++ [" "]) = (c :: r) ++ [" "]) by (cbn [app dropw]; rewrite Hf; reflexivity).
      rewrite E1. rewrite rev_app_distr. cbn [rev app] in *.
      assert (E2 : dropw is_pyspace (" " :: (rev r ++ [c])%list) = (rev r ++ [c])%list).
      { cbn [dropw]. change (is_pyspace " ") with true. cbn iota. apply dropw_id. exact Hl. }
      rewrite E2. rewrite rev_app_distr. cbn [rev app]. rewrite rev_involutive. reflexivity.
  - rewrite (dropw_id body Hf). rewrite (dropw_id (rev body) Hl). apply rev_involutive.
Qed.

(* ------------------------------------------------------------------ tokens and separators *)
(* a printed number: non-empty, no separator / white-space / command-letter characters *)
Definition token (t : chars) : Prop := t <> [] /\ forallb tok_char t = true.

Lemma tok_char_nonsep c : tok_char c = true -> is_sep c = false.
Proof. unfold tok_char. intro H. apply andb_true_iff in H. destruct H as [H _]. apply andb_true_iff in H. destruct H as [H _]. apply negb_true_iff in H. exact H. Qed.
Lemma tok_char_nonspace c : tok_char c = true -> is_pyspace c = false.
Proof. unfold tok_char. intro H. apply andb_true_iff in H. destruct H as [H _]. apply andb_true_iff in H. destruct H as [_ H]. apply negb_true_iff in H. exact H. Qed.
Lemma tok_char_nonletter c : tok_char c = true -> not_letter c = true.
Proof. unfold tok_char, not_letter. intro H. apply andb_true_iff in H. destruct H as [_ H]. exact H. Qed.

Lemma forallb_impl {A} (f g : A -> bool) l : (forall x, f x = true -> g x = true) -> forallb f l = true -> forallb g l = true.
Proof. intros H. induction l as [|x r IH]; cbn [forallb]; [tauto|]. intro E. apply andb_true_iff in E. destruct E as [E1 E2]. rewrite (H _ E1), (IH E2). reflexivity. Qed.

(* tokens joined by single separator characters *)
Fixpoint weave (toks : list chars) (seps : list ascii) : chars :=
  match toks with
  | [] => []
  | [t] => t
  | t :: r => match seps with s :: ss => t ++ s :: weave r ss | [] => t ++ weave r [] end
  end.

Lemma split_seps_weave : forall toks seps pre fuel,
  Forall token toks -> forallb is_sep seps = true -> forallb is_sep pre = true ->
  List.length toks = S (List.length seps) -> List.length toks < fuel ->
  split_seps fuel (pre ++ weave toks seps) = toks.
Proof.
  induction toks as [|t r IH]; intros seps pre fuel Ht Hs Hp Hl Hf; [discriminate|].
  destruct fuel as [|f]; [lia|]. cbn [split_seps].
  inversion Ht as [|? ? [Hne Htc] Hr]; subst.
  destruct t as [|c0 t0]; [contradiction|].
  assert (Hc0 : is_sep c0 = false) by (cbn [forallb] in Htc; apply andb_true_iff in Htc; apply tok_char_nonsep; tauto).
  destruct r as [|t2 r2].
  - (* last token *)
    cbn [weave]. rewrite (take_while_app is_sep pre (c0 :: t0) Hp Hc0).
    assert (Hn : forallb (fun c => negb (is_sep c)) (c0 :: t0) = true).
    { eapply forallb_impl; [|exact Htc]. intros x Hx. rewrite (tok_char_nonsep x Hx). reflexivity. }
    rewrite (take_while_all _ _ Hn). destruct f; [cbn in Hf; lia|]. cbn [split_seps take_while]. reflexivity.
  - destruct seps as [|s ss]; [cbn in Hl; lia|]. cbn [forallb] in Hs. apply andb_true_iff in Hs. destruct Hs as [Hs1 Hs2].
    change (weave ((c0 :: t0) :: t2 :: r2) (s :: ss)) with ((c0 :: t0) ++ s :: weave (t2 :: r2) ss).
    assert (E1 : take_while is_sep (pre ++ (c0 :: t0) ++ s :: weave (t2 :: r2) ss) = (pre, (c0 :: t0) ++ s :: weave (t2 :: r2) ss)).
    { apply take_while_app; [exact Hp|exact Hc0]. }
    rewrite E1. cbn [app].
    assert (Hn : forallb (fun c => negb (is_sep c)) (c0 :: t0) = true).
    { eapply forallb_impl; [|exact Htc]. intros x Hx. rewrite (tok_char_nonsep x Hx). reflexivity. }
    assert (E2 : take_while (fun c => negb (is_sep c)) ((c0 :: t0) ++ s :: weave (t2 :: r2) ss) = (c0 :: t0, s :: weave (t2 :: r2) ss)).
    { apply take_while_app; [exact Hn|]. rewrite Hs1. reflexivity. }
    change (c0 :: (t0 ++ s :: weave (t2 :: r2) ss)%list) with ((c0 :: t0) ++ s :: weave (t2 :: r2) ss)%list.
    rewrite E2. f_equal.
    apply (IH ss [s] f Hr Hs2); [cbn [forallb]; rewrite Hs1; reflexivity|cbn [List.length] in *; lia|cbn [List.length] in *; lia].
Qed.

(* ------------------------------------------------------------------ the argument loop on whole tokens *)
Definition is_flag_pos (arc : bool) (i : nat) : bool := arc && (Nat.eqb (Nat.modulo i 7) 3 || Nat.eqb (Nat.modulo i 7) 4).
Definition reads (arc : bool) (i : nat) (t : chars) (v : dec) : Prop :=
  (if is_flag_pos arc i then scan_flag t else scan_float_re t) = Some (v, []).
Inductive reads_all (arc : bool) : nat -> list chars -> list dec -> Prop :=
| ra_nil i : reads_all arc i [] []
| ra_cons i t v ts vs : reads arc i t v -> reads_all arc (S i) ts vs -> reads_all arc i (t :: ts) (v :: vs).

Lemma parse_args_tokens arc : forall toks vals i fuel,
  reads_all arc i toks vals -> List.length toks < fuel -> parse_args_loop fuel arc i toks = Some vals.
Proof.
  induction toks as [|t r IH]; intros vals i fuel H Hf; inversion H; subst.
  - destruct fuel; [lia|]. reflexivity.
  - destruct fuel as [|f]; [lia|]. cbn [parse_args_loop].
    match goal with Hr : reads arc i t _ |- _ => unfold reads, is_flag_pos in Hr; rewrite Hr end.
    match goal with Hra : reads_all arc (S i) r ?vs |- _ => rewrite (IH vs (S i) f Hra); [reflexivity|cbn [List.length] in Hf; lia] end.
Qed.

(* ------------------------------------------------------------------ the printed argument list is a weave *)
Section PrintedArgs.
  Variable A : Type.
  Variable pr : A -> chars.

  Lemma join_sp_cons (x : chars) (l : list chars) : l <> [] -> join_sp (x :: l) = (x ++ " " :: join_sp l)%list.
  Proof. destruct l; [contradiction|reflexivity]. Qed.
  Lemma weave_cons (t : chars) (r : list chars) s ss : r <> [] -> weave (t :: r) (s :: ss) = (t ++ s :: weave r ss)%list.
  Proof. destruct r; [contradiction|reflexivity]. Qed.

  Lemma combine_args_nonempty fuel cmd i a r : combine_args A pr (S fuel) cmd i (a :: r) <> [].
  Proof. cbn [combine_args]. destruct r as [|b r']; [discriminate|]. destruct (xy_pair cmd i); discriminate. Qed.

  Lemma combine_args_weave cmd : forall fuel args i, List.length args < fuel -> args <> [] ->
    exists seps, List.length args = S (List.length seps) /\ forallb is_sep seps = true /\
                 join_sp (combine_args A pr fuel cmd i args) = weave (map pr args) seps.
  Proof.
    induction fuel as [|f IH]; intros args i Hf Hne; [lia|].
    destruct args as [|a [|b r]]; [contradiction| |].
    - exists []. repeat split; reflexivity.
    - cbn [combine_args]. destruct (xy_pair cmd i).
      + destruct r as [|c r'].
        * exists [","]. split; [reflexivity|]. split; [reflexivity|].
          destruct f; [cbn in Hf; lia|]. cbn [combine_args join_sp map weave]. reflexivity.
        * destruct (IH (c :: r') (S (S i))) as [seps [Hl [Hs Hj]]]; [cbn [List.length] in *; lia|discriminate|].
          exists ("," :: " " :: seps). split; [cbn [List.length] in *; lia|]. split; [cbn [forallb]; rewrite Hs; reflexivity|].
          destruct f as [|f']; [cbn in Hf; lia|].
          rewrite join_sp_cons by apply combine_args_nonempty. rewrite Hj.
          cbn [map]. rewrite weave_cons by discriminate. rewrite weave_cons by discriminate.
          rewrite <- app_assoc. reflexivity.
      + destruct (IH (b :: r) (S i)) as [seps [Hl [Hs Hj]]]; [cbn [List.length] in *; lia|discriminate|].
        exists (" " :: seps). split; [cbn [List.length] in *; lia|]. split; [cbn [forallb]; rewrite Hs; reflexivity|].
        destruct f as [|f']; [cbn in Hf; lia|].
        rewrite join_sp_cons by apply combine_args_nonempty. rewrite Hj.
        cbn [map]. rewrite weave_cons by discriminate. reflexivity.
  Qed.
End PrintedArgs.

(* ------------------------------------------------------------------ one printed argument list parses back *)
Lemma weave_last : forall toks seps, toks <> [] -> exists front, weave toks seps = (front ++ last toks [])%list.
Proof.
  induction toks as [|t r IH]; intros seps Hne; [contradiction|].
  destruct r as [|t2 r2]; [exists []; reflexivity|].
  destruct seps as [|s ss].
  - destruct (IH [] ltac:(discriminate)) as [front Hf]. exists (t ++ front)%list.
    change (weave (t :: t2 :: r2) []) with (t ++ weave (t2 :: r2) [])%list. rewrite Hf, app_assoc. reflexivity.
  - destruct (IH ss ltac:(discriminate)) as [front Hf]. exists (t ++ s :: front)%list.
    change (weave (t :: t2 :: r2) (s :: ss)) with (t ++ s :: weave (t2 :: r2) ss)%list. rewrite Hf.
    rewrite <- app_assoc. reflexivity.
Qed.

Lemma weave_length : forall toks seps, Forall token toks -> List.length toks <= List.length (weave toks seps).
Proof.
  induction toks as [|t r IH]; intros seps H; [cbn; lia|].
  inversion H as [|? ? [Hne _] Hr]; subst.
  assert (1 <= List.length t) by (destruct t; [contradiction|cbn; lia]).
  destruct r as [|t2 r2]; [cbn; lia|].
  destruct seps as [|s ss].
  - change (weave (t :: t2 :: r2) []) with (t ++ weave (t2 :: r2) [])%list. rewrite app_length. specialize (IH [] Hr). cbn [List.length] in *. lia.
  - change (weave (t :: t2 :: r2) (s :: ss)) with (t ++ s :: weave (t2 :: r2) ss)%list. rewrite app_length. cbn [List.length]. specialize (IH ss Hr). cbn [List.length] in *. lia.
Qed.

Lemma token_first_nonspace t : token t -> match t with [] => True | c :: _ => is_pyspace c = false end.
Proof. intros [Hne H]. destruct t as [|c r]; [exact I|]. cbn [forallb] in H. apply andb_true_iff in H. apply tok_char_nonspace. tauto. Qed.
Lemma token_last_nonspace t : token t -> match rev t with [] => True | c :: _ => is_pyspace c = false end.
Proof.
  intros [Hne H]. destruct (rev t) as [|c r] eqn:E; [exact I|].
  assert (Hin : In c t) by (apply in_rev; rewrite E; left; reflexivity).
  rewrite forallb_forall in H. apply tok_char_nonspace. exact (H c Hin).
Qed.

Lemma last_In {A} (l : list A) d : l <> [] -> In (last l d) l.
Proof. induction l as [|x r IH]; [contradiction|]. intros _. destruct r as [|y r']; [left; reflexivity|right; apply IH; discriminate]. Qed.

Lemma parse_printed_body (arc : bool) cmd (toks : list chars) (seps : list ascii) (vals : list dec) :
  arc = Ascii.eqb (to_upper cmd) "A" -> toks <> [] ->
  Forall token toks -> forallb is_sep seps = true -> List.length toks = S (List.length seps) ->
  reads_all arc 0 toks vals ->
  parse_cmd_args cmd (weave toks seps) = Some vals /\ parse_cmd_args cmd (weave toks seps ++ [" "]) = Some vals.
Proof.
  intros Harc Hne Ht Hs Hl Hr.
  set (body := weave toks seps).
  assert (Hfirst : match body with [] => True | c :: _ => is_pyspace c = false end).
  { unfold body. destruct toks as [|t r]; [contradiction|]. inversion Ht as [|? ? Htk _]; subst.
    pose proof (token_first_nonspace t Htk) as Hf. destruct Htk as [Htne _]. destruct t as [|c t']; [contradiction|].
    destruct r as [|t2 r2]; [exact Hf|]. destruct seps; exact Hf. }
  assert (Hlast : match rev body with [] => True | c :: _ => is_pyspace c = false end).
  { unfold body. destruct (weave_last toks seps Hne) as [front ->]. rewrite rev_app_distr.
    assert (Hlt : token (last toks [])).
    { rewrite Forall_forall in Ht. apply Ht. apply last_In. exact Hne. }
    pose proof (token_last_nonspace _ Hlt) as Hl'. destruct Hlt as [Hltne _].
    destruct (rev (last toks [])) as [|c r] eqn:E; [|exact Hl'].
    exfalso. apply Hltne. rewrite <- (rev_involutive (last toks [])), E. reflexivity. }
  destruct (strip_body_space body Hfirst Hlast) as [E1 E2].
  unfold parse_cmd_args. rewrite E1, E2, <- Harc.
  assert (Hsp : split_seps (S (List.length body)) body = toks).
  { apply (split_seps_weave toks seps [] (S (List.length body)) Ht Hs eq_refl Hl).
    pose proof (weave_length toks seps Ht). fold body in H. lia. }
  rewrite Hsp.
  assert (Hp : parse_args_loop (S (List.length body)) arc 0 toks = Some vals).
  { apply parse_args_tokens; [exact Hr|]. pose proof (weave_length toks seps Ht). fold body in H. lia. }
  rewrite Hp. split; reflexivity.
Qed.

(* ------------------------------------------------------------------ splitting the printed path at the letters *)
Definition seg_str (s : ascii * chars) : chars := fst s :: snd s.
Definition seg_ok (s : ascii * chars) : Prop := is_cmd_letter (fst s) = true /\ forallb not_letter (snd s) = true.
Fixpoint with_spaces (segs : list (ascii * chars)) : list (ascii * chars) :=
  match segs with
  | [] => []
  | [s] => [s]
  | (c, b) :: r => (c, (b ++ [" "])%list) :: with_spaces r
  end.

Lemma split_cmds_join : forall segs fuel, Forall seg_ok segs -> List.length segs < fuel ->
  split_cmds_f fuel (join_sp (map seg_str segs)) = with_spaces segs.
Proof.
  induction segs as [|[c b] r IH]; intros fuel Hs Hf.
  - destruct fuel; reflexivity.
  - destruct fuel as [|f]; [lia|]. inversion Hs as [|? ? [Hc Hb] Hr]; subst. cbn [fst snd] in *.
    destruct r as [|[c2 b2] r2].
    + cbn [map join_sp seg_str fst snd split_cmds_f with_spaces]. rewrite Hc. rewrite (take_while_all _ _ Hb).
      destruct f; reflexivity.
    + inversion Hr as [|? ? [Hc2 _] _]; subst. cbn [fst] in Hc2.
      change (map seg_str ((c, b) :: (c2, b2) :: r2)) with (seg_str (c, b) :: map seg_str ((c2, b2) :: r2)).
      rewrite join_sp_cons by discriminate.
      set (tail := join_sp (map seg_str ((c2, b2) :: r2))).
      assert (Htail : match tail with [] => True | x :: _ => not_letter x = false end).
      { unfold tail. cbn [map]. destruct r2; cbn [map join_sp seg_str fst snd app]; unfold not_letter; rewrite Hc2; reflexivity. }
      cbn [seg_str fst snd app split_cmds_f]. rewrite Hc.
      assert (E : take_while not_letter (b ++ " " :: tail) = ((b ++ [" "])%list, tail)).
      { replace (b ++ " " :: tail)%list with ((b ++ [" "]) ++ tail)%list by (rewrite <- app_assoc; reflexivity).
        apply take_while_app; [rewrite forallb_app, Hb; reflexivity|exact Htail]. }
      rewrite E. cbn [with_spaces]. f_equal. apply IH; [exact Hr|cbn [List.length] in *; lia].
Qed.

(* ------------------------------------------------------------------ the round trip *)
Section RoundTrip.
  Variable A : Type.
  Variable pr : A -> chars.        (* the number printer (ntos) *)
  Variable val : A -> dec.         (* the decimal value a printed number denotes *)

  (* one command of an exploded command list: a command letter with exactly one argument set, whose
     printed numbers are tokens the scanners read back completely (flags at the arc's flag positions) *)
  Definition cmd_ok (ca : ascii * list A) : Prop :=
    is_cmd_letter (fst ca) = true /\ num_args (fst ca) = Some (List.length (snd ca)) /\
    Forall (fun a => token (pr a)) (snd ca) /\
    reads_all (Ascii.eqb (to_upper (fst ca)) "A") 0 (map pr (snd ca)) (map val (snd ca)).

  Definition body_of (ca : ascii * list A) : chars := join_sp (combine_args A pr (S (List.length (snd ca))) (fst ca) 0 (snd ca)).

  Lemma body_no_letters ca : cmd_ok ca -> forallb not_letter (body_of ca) = true.
  Proof.
    intros [_ [_ [Ht _]]]. unfold body_of. destruct (snd ca) as [|a r] eqn:E; [reflexivity|].
    destruct (combine_args_weave A pr (fst ca) (S (List.length (a :: r))) (a :: r) 0 ltac:(lia) ltac:(discriminate)) as [seps [Hl [Hs ->]]].
    assert (G : forall toks seps0, Forall token toks -> forallb is_sep seps0 = true -> forallb not_letter (weave toks seps0) = true).
    { induction toks as [|t r0 IH]; intros seps0 HT HS; [reflexivity|].
      inversion HT as [|? ? [_ Htc] Hr0]; subst.
      assert (Hn : forallb not_letter t = true) by (eapply forallb_impl; [|exact Htc]; apply tok_char_nonletter).
      destruct r0 as [|t2 r2]; [exact Hn|].
      destruct seps0 as [|s ss].
      - change (weave (t :: t2 :: r2) []) with (t ++ weave (t2 :: r2) [])%list. rewrite forallb_app, Hn. apply IH; [exact Hr0|reflexivity].
      - change (weave (t :: t2 :: r2) (s :: ss)) with (t ++ s :: weave (t2 :: r2) ss)%list. rewrite forallb_app, Hn. cbn [forallb andb].
        cbn [forallb] in HS. apply andb_true_iff in HS. destruct HS as [Hs1 Hs2].
        assert (not_letter s = true).
        { unfold is_sep in Hs1. apply orb_true_iff in Hs1. destruct Hs1 as [H|H]; apply Ascii.eqb_eq in H; subst s; vm_compute; reflexivity. }
        rewrite H. apply IH; assumption. }
    apply G; [|exact Hs]. apply Forall_map. rewrite <- E in Ht. rewrite E in Ht. exact Ht.
  Qed.

  Lemma parse_one (ca : ascii * list A) : cmd_ok ca ->
    parse_cmd_args (fst ca) (body_of ca) = Some (map val (snd ca)) /\
    parse_cmd_args (fst ca) (body_of ca ++ [" "]) = Some (map val (snd ca)).
  Proof.
    intros [Hc [Hn [Ht Hr]]]. unfold body_of. destruct (snd ca) as [|a r] eqn:E.
    - cbn [List.length combine_args join_sp map app]. split; vm_compute; reflexivity.
    - destruct (combine_args_weave A pr (fst ca) (S (List.length (a :: r))) (a :: r) 0 ltac:(lia) ltac:(discriminate)) as [seps [Hl [Hs ->]]].
      apply (parse_printed_body (Ascii.eqb (to_upper (fst ca)) "A") (fst ca) (map pr (a :: r)) seps (map val (a :: r))).
      + reflexivity.
      + discriminate.
      + apply Forall_map. exact Ht.
      + exact Hs.
      + rewrite map_length. exact Hl.
      + exact Hr.
  Qed.

  Lemma chunk_whole {B} n (l : list B) : n = List.length l -> l <> [] -> chunk n (List.length l) l = [l].
  Proof.
    intros Hn Hne. destruct l as [|x r]; [contradiction|]. cbn [List.length chunk]. subst n.
    rewrite firstn_all. rewrite skipn_all. destruct (List.length r); reflexivity.
  Qed.

  Lemma finish_one (ca : ascii * list A) : cmd_ok ca ->
    finish_cmd true (fst ca) (map val (snd ca)) = Some [(fst ca, map val (snd ca))].
  Proof.
    intros [_ [Hn _]]. unfold finish_cmd. rewrite Hn. rewrite map_length.
    destruct (snd ca) as [|a r] eqn:E; [reflexivity|].
    cbn [List.length]. rewrite Nat.mod_same by lia. cbn [Nat.eqb negb].
    replace (S (List.length r)) with (List.length (map val (a :: r))) by (rewrite map_length; reflexivity).
    rewrite chunk_whole; [reflexivity|rewrite map_length; reflexivity|discriminate].
  Qed.

  Lemma parse_cmds_cons e c b r : parse_cmds e ((c, b) :: r) =
    match parse_cmd_args c b with
    | None => Err EValue
    | Some args => match finish_cmd e c args with
                   | None => Err EValue
                   | Some cs => match parse_cmds e r with Ok t => Ok (cs ++ t)%list | Err x => Err x end
                   end
    end.
  Proof. reflexivity. Qed.
  Lemma with_spaces_cons c b x r : with_spaces ((c, b) :: x :: r) = (c, (b ++ [" "])%list) :: with_spaces (x :: r).
  Proof. reflexivity. Qed.

  Lemma parse_with_spaces : forall p, Forall cmd_ok p ->
    parse_cmds true (with_spaces (map (fun ca => (fst ca, body_of ca)) p)) = Ok (map (fun ca => (fst ca, map val (snd ca))) p).
  Proof.
    induction p as [|ca r IH]; intro H; [reflexivity|].
    inversion H as [|? ? Hca Hr]; subst. destruct (parse_one ca Hca) as [P1 P2].
    destruct r as [|ca2 r2].
    - cbn [map with_spaces]. rewrite parse_cmds_cons, P1, (finish_one ca Hca). reflexivity.
    - specialize (IH Hr).
      change (map (fun ca0 : ascii * list A => (fst ca0, body_of ca0)) (ca :: ca2 :: r2))
        with ((fst ca, body_of ca) :: (fst ca2, body_of ca2) :: map (fun ca0 : ascii * list A => (fst ca0, body_of ca0)) r2).
      rewrite with_spaces_cons, parse_cmds_cons, P2, (finish_one ca Hca).
      change ((fst ca2, body_of ca2) :: map (fun ca0 : ascii * list A => (fst ca0, body_of ca0)) r2)
        with (map (fun ca0 : ascii * list A => (fst ca0, body_of ca0)) (ca2 :: r2)).
      rewrite IH. reflexivity.
  Qed.

  Theorem print_parse_roundtrip (p : list (ascii * list A)) : Forall cmd_ok p ->
    parse_svg_path true (print_path A pr p) = Ok (map (fun ca => (fst ca, map val (snd ca))) p).
  Proof.
    intro H. unfold parse_svg_path, print_path, split_cmds.
    assert (E : map (fun c : ascii * list A => print_segment A pr (fst c) (snd c)) p = map seg_str (map (fun ca => (fst ca, body_of ca)) p)).
    { rewrite map_map. apply map_ext. intros [c a]. reflexivity. }
    rewrite E. rewrite split_cmds_join.
    - apply parse_with_spaces. exact H.
    - apply Forall_map. eapply Forall_impl; [|exact H]. intros ca Hca. split; [exact (proj1 Hca)|exact (body_no_letters ca Hca)].
    - rewrite map_length.
      assert (G : forall l : list chars, (forall x, In x l -> x <> []) -> List.length l <= List.length (join_sp l)).
      { induction l as [|x r IHl]; intro Hx; [cbn; lia|]. destruct r as [|y r'].
        - cbn. destruct x; [exfalso; apply (Hx []); [left; reflexivity|reflexivity]|cbn; lia].
        - rewrite join_sp_cons by discriminate. rewrite app_length. cbn [List.length].
          assert (1 <= List.length x) by (destruct x; [exfalso; apply (Hx []); [left; reflexivity|reflexivity]|cbn; lia]).
          specialize (IHl (fun z Hz => Hx z (or_intror Hz))). cbn [List.length] in *. lia. }
      specialize (G (map seg_str (map (fun ca => (fst ca, body_of ca)) p))).
      rewrite !map_length in G. apply Nat.lt_succ_r. apply G.
      intros x Hx. apply in_map_iff in Hx. destruct Hx as [s [<- _]]. discriminate.
  Qed.
End RoundTrip.

(* non-vacuity: single-digit numbers printed as their digit; a path with an arc (flags at positions 3 and 4) *)
Definition pr_digit (n : nat) : chars := [ascii_of_nat (48 + n)].
Definition val_digit (n : nat) : dec := mk_dec (Z.of_nat n) 0.
Example roundtrip_premise_met :
  Forall (cmd_ok nat pr_digit val_digit)
         [("M", [1; 2]%nat); ("A", [3; 4; 0; 1; 0; 5; 6]%nat); ("l", [7; 8]%nat); ("Z", [])].
Proof.
  repeat (constructor; [split; [reflexivity|split; [reflexivity|split;
    [repeat (constructor; [split; [discriminate|reflexivity]|]); constructor
    |repeat (constructor; [reflexivity|]); constructor]]]|]); constructor.
Qed.
Example roundtrip_example :
  print_path nat pr_digit [("M", [1; 2]%nat); ("A", [3; 4; 0; 1; 0; 5; 6]%nat); ("l", [7; 8]%nat); ("Z", [])]
  = list_of_string "M1,2 A3 4 0 1 0 5,6 l7,8 Z".
Proof. vm_compute. reflexivity. Qed.
