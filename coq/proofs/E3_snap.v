(* proofs/E3_snap.v — the 1e-9 snap of _rewrite_path: the segment that is moved ends exactly on the
   subpath start, for absolute and relative commands alike, and keeps its other arguments. *)
From Coq Require Import ZArith Reals Lra List Bool Ascii String.
From Pico Require Import Num PyStr G_geom G_transform G_meta G_types Walk PathSem E1_affine E3_walk E3_rewrites.
Import ListNotations.
Local Open Scope R_scope.
Local Open Scope char_scope.

Definition drawing_letters : list ascii :=
  ["M"; "m"; "L"; "l"; "H"; "h"; "V"; "v"; "C"; "c"; "S"; "s"; "Q"; "q"; "T"; "t"; "A"; "a"].

Lemma point_eq (a b c d : R) : a = c -> b = d -> mkP a b = mkP c d.
Proof. intros -> ->. reflexivity. Qed.

Theorem move_endpoint_lands (cur tgt : Pt) c (a : list R) :
  In c drawing_letters -> num_args c = Some (List.length a) ->
  _next_pos ROps cur (fst (_move_endpoint ROps cur c a tgt)) (snd (_move_endpoint ROps cur c a tgt)) = tgt.
Proof.
  intros Hc Ha. destruct tgt as [tx ty]. destruct cur as [cx cy].
  unfold drawing_letters in Hc. cbn [In] in Hc.
  repeat (destruct Hc as [<-|Hc]); [..|contradiction];
    fix_arity Ha a;
    unfold _move_endpoint, _explicit_lines_callback, _next_pos; crunch; cbn [Point_x Point_y fst snd]; crunch; Rnorm;
    apply point_eq; cbn [Point_x Point_y]; ring.
Qed.

(* the same through rewrite_callback: whenever the snap fires on a drawing command, the rewritten
   command ends exactly on the subpath start (so a following closepath draws nothing new) *)
Theorem rewrite_snap_lands (rw : rw_t) (s cur : Pt) c (a : list R) pv :
  In (fst (rw cur c a)) drawing_letters -> num_args (fst (rw cur c a)) = Some (List.length (snd (rw cur c a))) ->
  Point_eqb ROps (_next_pos ROps cur (fst (rw cur c a)) (snd (rw cur c a))) s = false ->
  Point_almost_equals ROps (_next_pos ROps cur (fst (rw cur c a)) (snd (rw cur c a))) s eps9 = true ->
  _next_pos ROps cur (fst (f_rewrite rw s cur c a pv)) (snd (f_rewrite rw s cur c a pv)) = s.
Proof.
  unfold f_rewrite, rewrite_callback. destruct (rw cur c a) as [c1 a1]. cbn [fst snd]. fold eps9.
  intros Hc Ha He Hn. rewrite He, Hn. cbn [negb andb].
  pose proof (move_endpoint_lands cur s c1 a1 Hc Ha) as H.
  destruct (_move_endpoint ROps cur c1 a1 s) as [c2 a2]. exact H.
Qed.

(* the snap changes nothing but the end point: same letter and same leading arguments (control points, radii, flags)
   for every letter that carries its end point as its last two arguments; H/V become the L/l to the target *)
Definition endpoint_last_letters : list ascii := ["M"; "m"; "L"; "l"; "C"; "c"; "S"; "s"; "Q"; "q"; "T"; "t"; "A"; "a"].

Theorem move_endpoint_keeps_rest (cur tgt : Pt) c (a : list R) :
  In c endpoint_last_letters -> num_args c = Some (List.length a) ->
  fst (_move_endpoint ROps cur c a tgt) = c /\
  firstn (List.length a - 2) (snd (_move_endpoint ROps cur c a tgt)) = firstn (List.length a - 2) a /\
  List.length (snd (_move_endpoint ROps cur c a tgt)) = List.length a.
Proof.
  intros Hc Ha. destruct tgt as [tx ty]. destruct cur as [cx cy].
  unfold endpoint_last_letters in Hc. cbn [In] in Hc.
  repeat (destruct Hc as [<-|Hc]); [..|contradiction];
    fix_arity Ha a;
    unfold _move_endpoint, _explicit_lines_callback; crunch; cbn [Point_x Point_y fst snd]; crunch;
    repeat split; reflexivity.
Qed.

Theorem move_endpoint_hv (cur tgt : Pt) c (a : list R) :
  In c ["H"; "h"; "V"; "v"] -> num_args c = Some (List.length a) ->
  fst (_move_endpoint ROps cur c a tgt) = (if is_lower c then "l" else "L") /\
  List.length (snd (_move_endpoint ROps cur c a tgt)) = 2%nat.
Proof.
  intros Hc Ha. destruct tgt as [tx ty]. destruct cur as [cx cy]. cbn [In] in Hc.
  repeat (destruct Hc as [<-|Hc]); [..|contradiction];
    fix_arity Ha a;
    unfold _move_endpoint, _explicit_lines_callback; crunch; cbn [Point_x Point_y fst snd]; crunch;
    split; reflexivity.
Qed.
