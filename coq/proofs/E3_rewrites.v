(* proofs/E3_rewrites.v — each path rewrite preserves the meaning of the path (SVG 1.1 §8.3),
   for command lists of any length: instances of the generic simulation theorem. *)
From Coq Require Import ZArith Reals Lra Lia List Bool Ascii String FunctionalExtensionality.
From Pico Require Import Num PyStr G_geom G_transform G_meta G_types Walk PathSem E1_affine E3_walk.
Import ListNotations.
Local Open Scope char_scope.

Ltac eq_crunch :=
  repeat (first [reflexivity | apply point_eq; ring | progress f_equal]); try ring.

Ltac destruct_ist i := destruct i as [[?cx ?cy] [?sx ?sy] ?ct].

(* the first command: a relative moveto from the origin is the absolute one *)
Lemma first_m (a : list R) :
  icmd ist0 "m" a = icmd ist0 "M" a.
Proof.
  unfold interp_cmd, istate0, at_, P, argn. crunch. Rnorm. cbn [i_cur Point_x Point_y].
  eq_crunch.
Qed.

(* ------------------------------------------------------------------ explicit_lines *)
Definition f_explicit : cb1_t := fun s cur c a _ =>
  match _explicit_lines_callback ROps (Some s) cur c a with [x] => x | _ => (c, a) end.

Lemma explicit_is_lift1 : @cb_explicit_lines ROps = lift1 f_explicit.
Proof.
  unfold cb_explicit_lines, lift1, f_explicit.
  extensionality s. extensionality cur. extensionality c. extensionality a. extensionality p.
  unfold _explicit_lines_callback.
  repeat match goal with |- context [if ?b then _ else _] => destruct b end; reflexivity.
Qed.

Definition no_pre : bool -> ist -> cmdR -> Prop := fun _ _ _ => True.
Lemma no_pre_all first i p : pre_all no_pre first i p.
Proof. revert first i. induction p as [|[c a] r IH]; intros; cbn [pre_all]; [exact I|split; [exact I|apply IH]]. Qed.

Lemma explicit_step : step_ok f_explicit (fun i o _ => i = o) (fun s => s) no_pre.
Proof.
  intros i o prev c a first HI [Hl Ha] _ Hf _. subst o. cbn [fst snd] in *.
  rewrite map_id.
  assert (G : let out := f_explicit (i_start i) (i_cur i) (first_fix first c) a prev in
              wf_cmd out /\ icmd i (fst out) (snd out) = icmd i c a).
  { destruct first.
    - destruct (Hf eq_refl) as [-> [_ _]].
      split_letters Hl; fix_arity Ha a; unfold first_fix, f_explicit, _explicit_lines_callback, wf_cmd, letters;
        crunch; cbn [fst snd]; (split; [split; [cbn; tauto|reflexivity]|]);
        try reflexivity;
        unfold interp_cmd, istate0, at_, P, argn; crunch; Rnorm; cbn [i_cur i_start i_ctrl Point_x Point_y fst snd]; eq_crunch.
    - destruct_ist i.
      split_letters Hl; fix_arity Ha a; unfold first_fix, f_explicit, _explicit_lines_callback, wf_cmd, letters;
        crunch; cbn [fst snd]; (split; [split; [cbn; tauto|reflexivity]|]);
        try reflexivity;
        unfold interp_cmd, at_, P, argn; crunch; Rnorm; cbn [i_cur i_start i_ctrl Point_x Point_y fst snd]; eq_crunch. }
  destruct G as [G1 G2]. split; [exact G1|]. rewrite G2. split; reflexivity.
Qed.

Theorem explicit_lines_preserves (p : pathR) :
  wf_path p -> interpR (explicit_lines (N:=ROps) p) = interpR p.
Proof.
  intro H. unfold explicit_lines. rewrite explicit_is_lift1.
  rewrite (walk1_sim f_explicit (fun i o _ => i = o) (fun s => s) no_pre eq_refl explicit_step p H (no_pre_all _ _ _)).
  apply map_id.
Qed.

(* ------------------------------------------------------------------ absolute / relative *)
Definition rw_t : Type := Pt -> ascii -> list R -> cmdR.
Definition eps9 : R := of_dec ROps 1 (-9).

Definition f_rewrite (rw : rw_t) : cb1_t := fun s cur c a _ =>
  match rewrite_callback ROps rw s cur c a with [x] => x | _ => (c, a) end.

Lemma rewrite_is_lift1 (rw : rw_t) : @cb_rewrite ROps rw = lift1 (f_rewrite rw).
Proof.
  unfold cb_rewrite, lift1, f_rewrite.
  extensionality s. extensionality cur. extensionality c. extensionality a. extensionality p.
  unfold rewrite_callback. destruct (rw cur c a) as [c1 a1].
  destruct (negb _ && _); [destruct (_move_endpoint ROps cur c1 a1 s)|]; reflexivity.
Qed.

(* _rewrite_path snaps an end point that lies within 1e-9 of the subpath start, without being
   equal to it, onto the start.  The exact theorems assume that no position of the path is such a
   near miss (in particular: any path whose coordinates are multiples of 1e-8, e.g. rounded paths). *)
Definition pre_nosnap (rw : rw_t) : bool -> ist -> cmdR -> Prop := fun _ i ca =>
  let '(c1, a1) := rw (i_cur i) (fst ca) (snd ca) in
  let np := _next_pos ROps (i_cur i) c1 a1 in
  Point_eqb ROps np (i_start i) = true \/ Point_almost_equals ROps np (i_start i) eps9 = false.

Lemma f_rewrite_nosnap (rw : rw_t) s cur c a pv :
  (let '(c1, a1) := rw cur c a in
   let np := _next_pos ROps cur c1 a1 in
   Point_eqb ROps np s = true \/ Point_almost_equals ROps np s eps9 = false) ->
  f_rewrite rw s cur c a pv = rw cur c a.
Proof.
  unfold f_rewrite, rewrite_callback. destruct (rw cur c a) as [c1 a1]. fold eps9.
  intros [H|H]; rewrite H; cbn [negb andb]; try reflexivity.
  destruct (negb _); reflexivity.
Qed.

Ltac rw_cases Hl Ha a rwdef :=
  split_letters Hl; fix_arity Ha a;
  unfold first_fix, rwdef, _relative_to_absolute, _absolute_to_relative, _rewrite_coords, wf_cmd, letters;
  crunch; cbn [fst snd]; Rnorm; crunch;
  (split; [split; [cbn; tauto|reflexivity]|]);
  try reflexivity;
  unfold interp_cmd, istate0, at_, P, argn; crunch; Rnorm; cbn [i_cur i_start i_ctrl Point_x Point_y fst snd]; eq_crunch.

Lemma rw_step_generic (rw : rw_t) :
  (forall (i : ist) c a (first : bool), wf_cmd (c, a) -> (first = true -> i = istate0) ->
     let out := rw (i_cur i) (first_fix first c) a in
     wf_cmd out /\ icmd i (fst out) (snd out) = icmd i c a) ->
  step_ok (f_rewrite rw) (fun i o _ => i = o) (fun s => s) (pre_nosnap rw).
Proof.
  intros Hrw i o prev c a first HI Hwf Hpre Hf _. subst o. rewrite map_id.
  unfold pre_nosnap in Hpre. cbn [fst snd] in Hpre.
  rewrite (f_rewrite_nosnap rw _ _ _ _ prev Hpre).
  destruct (Hrw i c a first Hwf) as [G1 G2]; [intro E; apply (Hf E)|].
  split; [exact G1|]. rewrite G2. split; reflexivity.
Qed.

Lemma abs_local (i : ist) c a (first : bool) :
  wf_cmd (c, a) -> (first = true -> i = istate0) ->
  let out := _relative_to_absolute ROps (i_cur i) (first_fix first c) a in
  wf_cmd out /\ icmd i (fst out) (snd out) = icmd i c a.
Proof.
  intros [Hl Ha] Hf. cbn [fst snd] in *. destruct first.
  - rewrite (Hf eq_refl). rw_cases Hl Ha a _relative_to_absolute.
  - destruct_ist i. rw_cases Hl Ha a _relative_to_absolute.
Qed.

Lemma absmove_local (i : ist) c a (first : bool) :
  wf_cmd (c, a) -> (first = true -> i = istate0) ->
  let out := _relative_to_absolute_moveto ROps (i_cur i) (first_fix first c) a in
  wf_cmd out /\ icmd i (fst out) (snd out) = icmd i c a.
Proof.
  intros [Hl Ha] Hf. cbn [fst snd] in *. destruct first.
  - rewrite (Hf eq_refl). rw_cases Hl Ha a _relative_to_absolute_moveto.
  - destruct_ist i. rw_cases Hl Ha a _relative_to_absolute_moveto.
Qed.

Lemma rel_local (i : ist) c a (first : bool) :
  wf_cmd (c, a) -> (first = true -> i = istate0) ->
  let out := _absolute_to_relative ROps (i_cur i) (first_fix first c) a in
  wf_cmd out /\ icmd i (fst out) (snd out) = icmd i c a.
Proof.
  intros [Hl Ha] Hf. cbn [fst snd] in *. destruct first.
  - rewrite (Hf eq_refl). rw_cases Hl Ha a _absolute_to_relative.
  - destruct_ist i. rw_cases Hl Ha a _absolute_to_relative.
Qed.

Theorem absolute_preserves (p : pathR) :
  wf_path p -> pre_all (pre_nosnap (_relative_to_absolute ROps)) true istate0 p ->
  interpR (absolute (N:=ROps) p) = interpR p.
Proof.
  intros H Hp. unfold absolute. rewrite rewrite_is_lift1.
  rewrite (walk1_sim _ (fun i o _ => i = o) (fun s => s) _ eq_refl (rw_step_generic _ abs_local) p H Hp).
  apply map_id.
Qed.

Theorem absolute_moveto_preserves (p : pathR) :
  wf_path p -> pre_all (pre_nosnap (_relative_to_absolute_moveto ROps)) true istate0 p ->
  interpR (absolute_moveto (N:=ROps) p) = interpR p.
Proof.
  intros H Hp. unfold absolute_moveto. rewrite rewrite_is_lift1.
  rewrite (walk1_sim _ (fun i o _ => i = o) (fun s => s) _ eq_refl (rw_step_generic _ absmove_local) p H Hp).
  apply map_id.
Qed.

Theorem relative_walk_preserves (p : pathR) :
  wf_path p -> pre_all (pre_nosnap (_absolute_to_relative ROps)) true istate0 p ->
  interpR (walkR (cb_rewrite (_absolute_to_relative ROps)) p) = interpR p.
Proof.
  intros H Hp. rewrite rewrite_is_lift1.
  rewrite (walk1_sim _ (fun i o _ => i = o) (fun s => s) _ eq_refl (rw_step_generic _ rel_local) p H Hp).
  apply map_id.
Qed.

(* relative(): afterwards the first letter is forced back to "M" — harmless at the origin *)
Theorem relative_preserves (p : pathR) :
  wf_path p -> pre_all (pre_nosnap (_absolute_to_relative ROps)) true istate0 p ->
  interpR (relative (N:=ROps) p) = interpR p.
Proof.
  intros H Hp. rewrite <- (relative_walk_preserves p H Hp). unfold relative.
  destruct (walkR (cb_rewrite (_absolute_to_relative ROps)) p) as [|[c a] r]; [reflexivity|].
  destruct (Ascii.eqb c "m") eqn:E; [|reflexivity].
  apply Ascii.eqb_eq in E. subst c. unfold interp. cbn [interp_from]. rewrite first_m. reflexivity.
Qed.

(* ------------------------------------------------------------------ move *)
Definition shift_pt (dx dy : R) (p : Pt) : Pt := mkP (Point_x p + dx)%R (Point_y p + dy)%R.
Definition shift_ctrl dx dy (c : @ctrl ROps) : @ctrl ROps :=
  match c with NoCtrl => NoCtrl | CubicCtrl p => CubicCtrl (shift_pt dx dy p) | QuadCtrl p => QuadCtrl (shift_pt dx dy p) end.
Definition shift_ist dx dy (i : ist) : ist :=
  mk_i (shift_pt dx dy (i_cur i)) (shift_pt dx dy (i_start i)) (shift_ctrl dx dy (i_ctrl i)).
Definition shift_seg dx dy (s : segR) : segR :=
  let f := shift_pt dx dy in
  match s with
  | SegMove p => SegMove (f p)
  | SegLine a b => SegLine (f a) (f b)
  | SegQuad a c b => SegQuad (f a) (f c) (f b)
  | SegCubic a c1 c2 b => SegCubic (f a) (f c1) (f c2) (f b)
  | SegArc a rx ry rot l sw b => SegArc (f a) rx ry rot l sw (f b)
  | SegClose a b => SegClose (f a) (f b)
  end.

Definition f_move (dx dy : R) : cb1_t := fun s cur c a _ =>
  match move_callback ROps dx dy s cur c a with [x] => x | _ => (c, a) end.

Lemma move_is_lift1 dx dy : @cb_move ROps dx dy = lift1 (f_move dx dy).
Proof.
  unfold cb_move, lift1, f_move.
  extensionality s. extensionality cur. extensionality c. extensionality a. extensionality p.
  unfold move_callback. destruct (is_lower c); [reflexivity|]. destruct (cmd_coords c). reflexivity.
Qed.

(* a path has to begin with a moveto (every valid path does) *)
Definition pre_moveto : bool -> ist -> cmdR -> Prop := fun first _ ca => first = true -> fst ca = "M".

Definition inv_move dx dy : ist -> ist -> @prev_t ROps -> Prop := fun i o prev =>
  match prev with None => i = istate0 /\ o = istate0 | Some _ => o = shift_ist dx dy i end.

Ltac move_finish :=
  cbn [i_cur i_start i_ctrl Point_x Point_y fst snd map shift_seg shift_ctrl];
  unfold shift_pt, reflect, P; Rnorm; cbn [Point_x Point_y]; (split; eq_crunch).

Lemma move_step dx dy : step_ok (f_move dx dy) (inv_move dx dy) (shift_seg dx dy) pre_moveto.
Proof.
  intros i o prev c a first HI [Hl Ha] Hpre Hf Hnf. cbn [fst snd] in *.
  unfold pre_moveto in Hpre. cbn [fst] in Hpre.
  destruct first.
  - (* first command: a moveto from the origin *)
    destruct (Hf eq_refl) as [-> [-> ->]]. specialize (Hpre eq_refl).
    assert (Hc : c = "M" \/ c = "m").
    { unfold first_fix in Hpre. cbn [andb] in Hpre. destruct (Ascii.eqb c "m") eqn:E; [right; apply Ascii.eqb_eq; exact E|left; exact Hpre]. }
    destruct Hc as [-> | ->]; fix_arity Ha a;
      unfold first_fix, f_move, move_callback, wf_cmd, letters, inv_move; crunch; cbn [fst snd]; Rnorm; crunch;
      (split; [split; [cbn; tauto|reflexivity]|]);
      unfold interp_cmd, istate0, at_, P, argn, shift_ist, shift_ctrl; crunch; Rnorm; move_finish.
  - destruct prev as [pv|]; [|exfalso; apply (Hnf eq_refl); reflexivity].
    unfold inv_move in HI. subst o. destruct_ist i.
    split_letters Hl; fix_arity Ha a;
      unfold first_fix, f_move, move_callback, wf_cmd, letters, inv_move; crunch; cbn [fst snd]; Rnorm; crunch;
      (split; [split; [cbn; tauto|reflexivity]|]);
      unfold interp_cmd, at_, P, argn, shift_ist, reflect; crunch; Rnorm;
      destruct ct as [|[px py]|[px py]]; move_finish.
Qed.

Theorem move_shifts (dx dy : R) (p : pathR) :
  wf_path p -> (match p with (c, _) :: _ => c = "M" \/ c = "m" | [] => True end) ->
  interpR (move (N:=ROps) dx dy p) = map (shift_seg dx dy) (interpR p).
Proof.
  intros H Hm. unfold move. rewrite move_is_lift1.
  apply (walk1_sim _ (inv_move dx dy) (shift_seg dx dy) pre_moveto); [split; reflexivity|apply move_step|exact H|].
  destruct p as [|[c a] r]; [exact I|]. cbn [pre_all]. split.
  - unfold pre_moveto. intros _. cbn [fst]. unfold first_fix. cbn [andb].
    destruct Hm as [-> | ->]; reflexivity.
  - clear. generalize (fst (icmd ist0 c a)). induction r as [|[c2 a2] r IH]; intro i; cbn [pre_all]; [exact I|].
    split; [unfold pre_moveto; discriminate|apply IH].
Qed.
