(* proofs/E3_shapes.v — the basic shapes become the outlines SVG 1.1 chapter 9 prescribes.
   Everything about rect / ellipse / circle / line is proved of the code regenerated from
   svg_types.py (gen/G_shapes.v); polygon / polyline of the hand model (model/BasicShapes.v). *)
From Coq Require Import ZArith Reals Lra Lia List Bool Ascii String.
From Pico Require Import Num PyStr G_geom G_meta G_shapes BasicShapes PathSem E1_affine E3_walk.
Import ListNotations.
Local Open Scope char_scope.
Local Open Scope R_scope.

(* ---- the builder API writes the command it is named after ---- *)
Lemma builder_table_faithful : forallb (fun p => Ascii.eqb (fst p) (snd p)) (BUILDER ++ ARC_BUILDER) = true.
Proof. vm_compute. reflexivity. Qed.

Lemma assoc_chr_diag (l : list (ascii * ascii)) c :
  forallb (fun p => Ascii.eqb (fst p) (snd p)) l = true -> assoc_chr c l c = c.
Proof.
  unfold assoc_chr. induction l as [|[k v] l IH]; cbn [forallb find fst snd]; intro H; [reflexivity|].
  apply andb_prop in H. destruct H as [Hk Hl]. apply Ascii.eqb_eq in Hk. subst v.
  cbn [find fst]. destruct (Ascii.eqb c k) eqn:E.
  - cbn [snd]. apply Ascii.eqb_eq in E. congruence.
  - apply IH, Hl.
Qed.

Theorem builder_letter_id (c : ascii) : builder_letter c = c.
Proof. apply assoc_chr_diag, builder_table_faithful. Qed.

Theorem end_letter_closes : END_LETTER = "Z".
Proof. reflexivity. Qed.

Theorem builders_cover :
  map fst (BUILDER ++ ARC_BUILDER) = ["M";"m";"H";"h";"V";"v";"L";"l";"C";"Q";"A";"a"].
Proof. reflexivity. Qed.

Ltac shape_eval :=
  unfold b_cmd, b_arc, b_end; rewrite ?builder_letter_id; rewrite ?end_letter_closes;
  cbn [app]; unfold interp; cbn [interp_from];
  unfold interp_cmd, at_, P, argn; cbn [i_cur i_start i_ctrl istate0 fst snd Point_x Point_y];
  crunch; Rnorm; cbn [i_cur i_start i_ctrl fst snd Point_x Point_y app].

Notation Pr x y := (mk_Point ROps x y).

(* ---- line (9.5) ---- *)
Theorem line_outline (x1 y1 x2 y2 : R) :
  interpR (SVGLine_as_path ROps x1 y1 x2 y2) = [SegMove (Pr x1 y1); SegLine (Pr x1 y1) (Pr x2 y2)].
Proof. unfold SVGLine_as_path. shape_eval. reflexivity. Qed.

(* ---- ellipse and circle (9.3, 9.4): two half turns through the 3 o'clock and 9 o'clock points ---- *)
Theorem ellipse_outline (rx ry cx cy : R) :
  interpR (SVGEllipse_as_path ROps rx ry cx cy) =
  [SegMove (Pr (cx + rx) cy);
   SegArc (Pr (cx + rx) cy) rx ry 0 1 1 (Pr (cx - rx) cy);
   SegArc (Pr (cx - rx) cy) rx ry 0 1 1 (Pr (cx + rx) cy);
   SegClose (Pr (cx + rx) cy) (Pr (cx + rx) cy)].
Proof. unfold SVGEllipse_as_path. shape_eval. reflexivity. Qed.

Theorem circle_outline (r cx cy : R) :
  interpR (SVGCircle_as_path ROps r cx cy) = interpR (SVGEllipse_as_path ROps r r cx cy).
Proof. reflexivity. Qed.

(* the two arc end points are antipodal points of the ellipse with centre (cx, cy) and radii rx, ry:
   each arc is therefore exactly half of that ellipse, whatever the flags select *)
Definition on_ellipse (cx cy rx ry : R) (p : Pt) : Prop :=
  ((Point_x p - cx) / rx) ^ 2 + ((Point_y p - cy) / ry) ^ 2 = 1.

Theorem ellipse_arc_ends (rx ry cx cy : R) :
  rx <> 0 -> ry <> 0 ->
  on_ellipse cx cy rx ry (Pr (cx + rx) cy) /\ on_ellipse cx cy rx ry (Pr (cx - rx) cy) /\
  ((cx + rx) + (cx - rx)) / 2 = cx /\ (cy + cy) / 2 = cy.
Proof.
  intros Hx Hy. unfold on_ellipse. cbn [Point_x Point_y].
  repeat split; field; tauto.
Qed.

(* ---- rect (9.2) ---- *)
(* __post_init__: an unset (zero) radius takes the other one, then each is capped at half the side *)
Theorem rect_radii (x y w h rx ry : R) :
  SVGRect_post_init ROps x y w h rx ry =
  [x; y; w; h;
   Rmin (if Reqb rx 0 then ry else rx) (w / 2);
   Rmin (if Reqb ry 0 then (if Reqb rx 0 then ry else rx) else ry) (h / 2)].
Proof.
  unfold SVGRect_post_init, truthy, pymin. Rnorm. cbn [eqb ltb ROps].
  assert (Hmin : forall a b, (if Rltb b a then b else a) = Rmin a b).
  { intros a b. unfold Rmin. destruct (Rltb b a) eqn:E.
    - apply Rltb_true in E. destruct (Rle_dec a b); [lra|reflexivity].
    - apply Rltb_false in E. destruct (Rle_dec a b); [reflexivity|lra]. }
  rewrite !Hmin.
  destruct (Reqb rx 0) eqn:E1; destruct (Reqb ry 0) eqn:E2; cbn [negb]; rewrite ?E1, ?E2; cbn [negb]; rewrite ?E1, ?E2; cbn [negb];
    try reflexivity.
Qed.

Corollary rect_radii_capped (x y w h rx ry : R) :
  match SVGRect_post_init ROps x y w h rx ry with
  | [_; _; _; _; rx'; ry'] => rx' <= w / 2 /\ ry' <= h / 2
  | _ => False
  end.
Proof. rewrite rect_radii. split; apply Rmin_r. Qed.

(* square corners: the four sides through the four corners, in the order the standard gives *)
Theorem rect_outline_sharp (x y w h : R) :
  interpR (SVGRect_as_path ROps x y w h 0 0) =
  [SegMove (Pr (x + 0) y);
   SegLine (Pr (x + 0) y) (Pr (x + w - 0) y);
   SegLine (Pr (x + w - 0) y) (Pr (x + w - 0) (y + h - 0));
   SegLine (Pr (x + w - 0) (y + h - 0)) (Pr (x + 0) (y + h - 0));
   SegLine (Pr (x + 0) (y + h - 0)) (Pr (x + 0) (y + 0));
   SegClose (Pr (x + 0) (y + 0)) (Pr (x + 0) y)].
Proof.
  unfold SVGRect_as_path. Rnorm. cbn [ltb ROps].
  replace (Rltb 0 0) with false by (symmetry; apply Rltb_false; lra).
  shape_eval. reflexivity.
Qed.

(* rounded corners: exactly the ten steps of SVG 1.1 section 9.2 *)
Theorem rect_outline_rounded (x y w h rx ry : R) :
  0 < rx ->
  interpR (SVGRect_as_path ROps x y w h rx ry) =
  [SegMove (Pr (x + rx) y);
   SegLine (Pr (x + rx) y) (Pr (x + w - rx) y);
   SegArc (Pr (x + w - rx) y) rx ry 0 0 1 (Pr (x + w) (y + ry));
   SegLine (Pr (x + w) (y + ry)) (Pr (x + w) (y + h - ry));
   SegArc (Pr (x + w) (y + h - ry)) rx ry 0 0 1 (Pr (x + w - rx) (y + h));
   SegLine (Pr (x + w - rx) (y + h)) (Pr (x + rx) (y + h));
   SegArc (Pr (x + rx) (y + h)) rx ry 0 0 1 (Pr x (y + h - ry));
   SegLine (Pr x (y + h - ry)) (Pr x (y + ry));
   SegArc (Pr x (y + ry)) rx ry 0 0 1 (Pr (x + rx) y);
   SegClose (Pr (x + rx) y) (Pr (x + rx) y)].
Proof.
  intro Hrx. unfold SVGRect_as_path. Rnorm. cbn [ltb ROps].
  replace (Rltb 0 rx) with true by (symmetry; apply Rltb_true; exact Hrx).
  shape_eval. reflexivity.
Qed.

(* each corner arc joins two points of the ellipse centred on the corner's centre: e.g. top right *)
Theorem rect_corner_on_ellipse (x y w rx ry : R) :
  rx <> 0 -> ry <> 0 ->
  on_ellipse (x + w - rx) (y + ry) rx ry (Pr (x + w - rx) y) /\
  on_ellipse (x + w - rx) (y + ry) rx ry (Pr (x + w) (y + ry)).
Proof. intros Hx Hy. unfold on_ellipse. cbn [Point_x Point_y]. split; field; tauto. Qed.

(* ---- polygon / polyline (9.6, 9.7), any number of points ---- *)
Fixpoint chain (a : Pt) (r : list (R * R)) : list segR :=
  match r with
  | [] => []
  | (x, y) :: r' => SegLine a (Pr x y) :: chain (Pr x y) r'
  end.
Definition last_pt (a : Pt) (r : list (R * R)) : Pt :=
  match rev r with [] => a | (x, y) :: _ => Pr x y end.

Lemma lines_interp (r : list (R * R)) (cur s : Pt) ct :
  interp_from (mk_i cur s ct) (map (fun q : R * R => ("L", [fst q; snd q])) r) =
  (mk_i (last_pt cur r) s (match r with [] => ct | _ => NoCtrl end), chain cur r).
Proof.
  revert cur ct. induction r as [|[x y] r IH]; intros cur ct.
  - reflexivity.
  - cbn [map interp_from fst snd].
    unfold interp_cmd at 1, at_, P, argn. cbn [i_cur i_start]. crunch. Rnorm.
    rewrite IH. cbn [chain]. f_equal. f_equal.
    + unfold last_pt. cbn [rev]. destruct (rev r) as [|[a b] t] eqn:E; cbn [app]; reflexivity.
    + destruct r; reflexivity.
Qed.

Theorem polyline_outline (x y : R) (r : list (R * R)) :
  interpR (polyline_cmds (N:=ROps) ((x, y) :: r)) = SegMove (Pr x y) :: chain (Pr x y) r.
Proof.
  unfold polyline_cmds, poly_body, interp. cbn [interp_from].
  unfold interp_cmd at 1, at_, P, argn. cbn [i_cur i_start istate0]. crunch. Rnorm.
  rewrite lines_interp. reflexivity.
Qed.

Lemma interp_snoc_Z (i : ist) (l : pathR) :
  interp_from i (l ++ [("Z", [])]) =
  let '(i1, s1) := interp_from i l in
  (mk_i (i_start i1) (i_start i1) NoCtrl, s1 ++ [SegClose (i_cur i1) (i_start i1)]).
Proof.
  rewrite interp_from_app. destruct (interp_from i l) as [i1 s1]. cbn [interp_from].
  unfold interp_cmd, at_, P, argn. crunch. reflexivity.
Qed.

Theorem polygon_outline (x y : R) (r : list (R * R)) :
  interpR (polygon_cmds (N:=ROps) ((x, y) :: r)) =
  SegMove (Pr x y) :: chain (Pr x y) r ++ [SegClose (last_pt (Pr x y) r) (Pr x y)].
Proof.
  unfold polygon_cmds, poly_body, interp. cbn [app interp_from].
  unfold interp_cmd at 1, at_, P, argn. cbn [i_cur i_start istate0]. crunch. Rnorm.
  rewrite interp_snoc_Z, lines_interp. reflexivity.
Qed.

Theorem empty_points_empty_path : polygon_cmds (N:=ROps) [] = [] /\ polyline_cmds (N:=ROps) [] = [].
Proof. split; reflexivity. Qed.

(* the constants the points string is wrapped in (regenerated from the source) *)
Theorem poly_wrapping :
  SVGPolygon_prefix = "M"%string /\ SVGPolygon_suffix = " Z"%string /\
  SVGPolyline_prefix = "M"%string /\ SVGPolyline_suffix = ""%string.
Proof. repeat split; reflexivity. Qed.
