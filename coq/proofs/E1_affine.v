(* proofs/E1_affine.v — affine algebra of svg_transform.py over the reals (C11). *)
From Coq Require Import ZArith Reals Lra Lia List Bool String.
From Pico Require Import Num PyStr G_geom G_transform.
Import ListNotations.
Local Open Scope R_scope.

Notation Aff := (Affine2D ROps).
Notation Pt := (Point ROps).
Notation mkA := (@mk_Affine2D ROps).
Notation mkP := (@mk_Point ROps).
Notation matmul := (Affine2D___matmul__ ROps).
Notation mapP := (Affine2D_map_point ROps).
Notation ident := (Affine2D_identity ROps).

Ltac runfold :=
  cbv beta iota zeta delta
    [Affine2D___matmul__ Affine2D_map_point Affine2D_map_vector Affine2D_identity
     Affine2D_matrix Affine2D_determinant Affine2D_degenerate
     Affine2D_a Affine2D_b Affine2D_c Affine2D_d Affine2D_e Affine2D_f
     Point_x Point_y Vector_x Vector_y Rect_x Rect_y Rect_w Rect_h
     add sub mul div opp zero one of_Z of_dec T ROps];
  change (T ROps) with R in *.

Lemma affine_eq (a b c d e f a' b' c' d' e' f' : R) :
  a = a' -> b = b' -> c = c' -> d = d' -> e = e' -> f = f' ->
  mkA a b c d e f = mkA a' b' c' d' e' f'.
Proof. intros; subst; reflexivity. Qed.

Lemma point_eq (x y x' y' : R) : x = x' -> y = y' -> mkP x y = mkP x' y'.
Proof. intros; subst; reflexivity. Qed.

Lemma matmul_map_point (A B : Aff) (p : Pt) :
  mapP (matmul A B) p = mapP A (mapP B p).
Proof. destruct A, B, p. runfold. apply point_eq; ring. Qed.

Lemma matmul_assoc (A B C : Aff) : matmul (matmul A B) C = matmul A (matmul B C).
Proof. destruct A, B, C. runfold. apply affine_eq; ring. Qed.

Lemma matmul_ident_l (A : Aff) : matmul ident A = A.
Proof. destruct A. runfold. apply affine_eq; ring. Qed.

Lemma matmul_ident_r (A : Aff) : matmul A ident = A.
Proof. destruct A. runfold. apply affine_eq; ring. Qed.

Lemma map_point_ident (p : Pt) : mapP ident p = p.
Proof. destruct p. runfold. apply point_eq; ring. Qed.

(* ---------------------------------------------------------------- compose_ltr *)
Notation compose_ltr := (Affine2D_compose_ltr ROps).

Lemma compose_ltr_nil : compose_ltr [] = ident.
Proof. reflexivity. Qed.

Lemma compose_ltr_cons (A : Aff) l : compose_ltr (A :: l) = matmul (compose_ltr l) A.
Proof. unfold Affine2D_compose_ltr. simpl rev. rewrite fold_left_app. reflexivity. Qed.

(* "left-to-right composition maps a point through the first transform first",
   for transform lists of any length *)
Lemma compose_ltr_applies_first_first l : forall p,
  mapP (compose_ltr l) p = fold_left (fun q A => mapP A q) l p.
Proof.
  induction l as [|A l IH]; intro p.
  - rewrite compose_ltr_nil. apply map_point_ident.
  - rewrite compose_ltr_cons, matmul_map_point. cbn [fold_left]. apply IH.
Qed.

Lemma compose_ltr_app l1 l2 : compose_ltr (l1 ++ l2) = matmul (compose_ltr l2) (compose_ltr l1).
Proof.
  induction l1 as [|A l1 IH]; cbn [app].
  - rewrite compose_ltr_nil, matmul_ident_r. reflexivity.
  - rewrite !compose_ltr_cons, IH, matmul_assoc. reflexivity.
Qed.

(* ---------------------------------------------------------------- equality test *)
Lemma Affine2D_eqb_true (A B : Aff) : Affine2D_eqb ROps A B = true <-> A = B.
Proof.
  destruct A, B. unfold Affine2D_eqb. runfold. cbn [eqb ROps].
  rewrite !andb_true_iff, !Reqb_true. split.
  - intros [[[[[? ?] ?] ?] ?] ?]. subst. reflexivity.
  - intros H. injection H. intuition.
Qed.

(* ---------------------------------------------------------------- constructors *)
Lemma translate_spec (A : Aff) tx ty :
  Affine2D_translate ROps A tx ty = matmul A (mkA 1 0 0 1 tx ty).
Proof.
  unfold Affine2D_translate. cbn [eqb ROps of_Z].
  destruct (Reqb 0 tx && Reqb 0 ty) eqn:E; [|reflexivity].
  apply andb_true_iff in E. destruct E as [E1 E2].
  apply Reqb_true in E1, E2. subst. destruct A. runfold. apply affine_eq; ring.
Qed.

Lemma scale_spec (A : Aff) sx sy :
  Affine2D_scale ROps A sx (Some sy) = matmul A (mkA sx 0 0 sy 0 0).
Proof. reflexivity. Qed.
Lemma scale_default (A : Aff) sx :
  Affine2D_scale ROps A sx None = matmul A (mkA sx 0 0 sx 0 0).
Proof. reflexivity. Qed.

Lemma rotate_spec (A : Aff) a cx cy :
  Affine2D_rotate ROps RMath A a cx cy =
  matmul (matmul (matmul A (mkA 1 0 0 1 cx cy)) (mkA (cos a) (sin a) (- sin a) (cos a) 0 0))
         (mkA 1 0 0 1 (- cx) (- cy)).
Proof. unfold Affine2D_rotate. rewrite !translate_spec. reflexivity. Qed.

Lemma skewx_spec (A : Aff) a :
  Affine2D_skewx ROps RMath A a = matmul A (mkA 1 0 (tan a) 1 0 0).
Proof. reflexivity. Qed.
Lemma skewy_spec (A : Aff) a :
  Affine2D_skewy ROps RMath A a = matmul A (mkA 1 (tan a) 0 1 0 0).
Proof. reflexivity. Qed.
Lemma matrix_spec (A : Aff) a b c d e f :
  Affine2D_matrix ROps A a b c d e f = matmul A (mkA a b c d e f).
Proof. reflexivity. Qed.

(* what the primitive matrices do to a point: the SVG 1.1 definitions *)
Lemma translate_maps tx ty x y :
  mapP (Affine2D_translate ROps ident tx ty) (mkP x y) = mkP (x + tx) (y + ty).
Proof. rewrite translate_spec. runfold. apply point_eq; ring. Qed.
Lemma scale_maps sx sy x y :
  mapP (Affine2D_scale ROps ident sx (Some sy)) (mkP x y) = mkP (sx * x) (sy * y).
Proof. rewrite scale_spec. runfold. apply point_eq; ring. Qed.
Lemma rotate_maps a cx cy x y :
  mapP (Affine2D_rotate ROps RMath ident a cx cy) (mkP x y) =
  mkP (cx + (cos a * (x - cx) - sin a * (y - cy))) (cy + (sin a * (x - cx) + cos a * (y - cy))).
Proof. rewrite rotate_spec. runfold. apply point_eq; ring. Qed.
Lemma rotate_fixes_centre a cx cy :
  mapP (Affine2D_rotate ROps RMath ident a cx cy) (mkP cx cy) = mkP cx cy.
Proof. rewrite rotate_maps. apply point_eq; ring. Qed.
Lemma skewx_maps a x y :
  mapP (Affine2D_skewx ROps RMath ident a) (mkP x y) = mkP (x + tan a * y) y.
Proof. rewrite skewx_spec. runfold. apply point_eq; ring. Qed.
Lemma skewy_maps a x y :
  mapP (Affine2D_skewy ROps RMath ident a) (mkP x y) = mkP x (y + tan a * x).
Proof. rewrite skewy_spec. runfold. apply point_eq; ring. Qed.

(* ---------------------------------------------------------------- inverse *)
Definition eps52 : R := 1 / IZR 4503599627370496.
Lemma eps52_pos : 0 < eps52.
Proof. unfold eps52. apply Rdiv_lt_0_compat; [lra|]. apply IZR_lt. reflexivity. Qed.

Lemma eps52_lt_1 : eps52 < 1.
Proof.
  unfold eps52. assert (K : 1 < IZR 4503599627370496) by (apply IZR_lt; reflexivity).
  apply (Rmult_lt_reg_r (IZR 4503599627370496)); [lra|]. field_simplify; lra.
Qed.

Lemma pyabs_R x : @pyabs ROps x = Rabs x.
Proof.
  unfold pyabs. cbn [ltb ROps zero opp]. unfold Rltb, Rabs.
  destruct (Rlt_dec x 0), (Rcase_abs x); try reflexivity; lra.
Qed.

Lemma is_degenerate_false (A : Aff) :
  Affine2D_is_degenerate ROps A = false <-> eps52 < Rabs (Affine2D_determinant ROps A).
Proof.
  unfold Affine2D_is_degenerate. rewrite pyabs_R. cbn [leb ROps div one of_Z].
  fold eps52. apply Rleb_false.
Qed.

Lemma inverse_left (A : Aff) :
  Affine2D_is_degenerate ROps A = false -> matmul (Affine2D_inverse ROps A) A = ident.
Proof.
  intro Hd. unfold Affine2D_inverse.
  destruct (Affine2D_eqb ROps A ident) eqn:E.
  - apply Affine2D_eqb_true in E. subst. apply matmul_ident_l.
  - rewrite Hd. apply is_degenerate_false in Hd. pose proof eps52_pos.
    assert (Hdet : Affine2D_determinant ROps A <> 0).
    { intro H0. rewrite H0, Rabs_R0 in Hd. lra. }
    destruct A. revert Hdet. runfold. intro Hdet. apply affine_eq; field; exact Hdet.
Qed.

Lemma inverse_right (A : Aff) :
  Affine2D_is_degenerate ROps A = false -> matmul A (Affine2D_inverse ROps A) = ident.
Proof.
  intro Hd. unfold Affine2D_inverse.
  destruct (Affine2D_eqb ROps A ident) eqn:E.
  - apply Affine2D_eqb_true in E. subst. apply matmul_ident_l.
  - rewrite Hd. apply is_degenerate_false in Hd. pose proof eps52_pos.
    assert (Hdet : Affine2D_determinant ROps A <> 0).
    { intro H0. rewrite H0, Rabs_R0 in Hd. lra. }
    destruct A. revert Hdet. runfold. intro Hdet. apply affine_eq; field; exact Hdet.
Qed.

Lemma inverse_undoes (A : Aff) p :
  Affine2D_is_degenerate ROps A = false -> mapP (Affine2D_inverse ROps A) (mapP A p) = p.
Proof. intro H. rewrite <- matmul_map_point, inverse_left by exact H. apply map_point_ident. Qed.

Lemma inverse_degenerate (A : Aff) :
  Affine2D_is_degenerate ROps A = true -> Affine2D_inverse ROps A = Affine2D_degenerate ROps.
Proof.
  intro Hd. unfold Affine2D_inverse.
  destruct (Affine2D_eqb ROps A ident) eqn:E; [|rewrite Hd; reflexivity].
  apply Affine2D_eqb_true in E. subst. exfalso.
  unfold Affine2D_is_degenerate in Hd. rewrite pyabs_R in Hd. cbn [leb ROps div one of_Z] in Hd.
  apply Rleb_true in Hd. revert Hd. runfold.
  replace (1 * 1 - 0 * 0) with 1 by ring. rewrite Rabs_R1. fold eps52.
  pose proof eps52_lt_1. lra.
Qed.
