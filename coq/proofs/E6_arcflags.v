(* proofs/E6_arcflags.v — the recorded C20 finding, exhibited in the model: whatever affine map is applied to an arc command,
   its x-axis rotation, large-arc flag and sweep flag are carried over unchanged (only the end point is mapped and the two radii
   are scaled).  For a reflection the true image of the arc has the opposite sweep flag, and for a rotation of an ellipse arc
   a different x-axis rotation; the verification step, which compares these untouched numbers, cannot notice. *)
From Coq Require Import ZArith Reals Lra List Bool Ascii String.
From Pico Require Import Num PyStr G_geom G_transform G_meta G_types Walk Reuse E1_affine E3_walk.
Import ListNotations.
Local Open Scope char_scope.

Theorem arc_parameters_not_transformed (A : @Affine2D ROps) (c : ascii) (rx ry rot large sweep x y : R) :
  c = "A" \/ c = "a" ->
  let out := affine_args RMath A c [rx; ry; rot; large; sweep; x; y] in
  nth 2 out 0%R = rot /\ nth 3 out 0%R = large /\ nth 4 out 0%R = sweep /\ List.length out = 7%nat.
Proof.
  intros [-> | ->]; unfold affine_args; crunch; cbn [fold_left combine]; crunch;
    cbn [upd nth Nat.sub List.length]; repeat split; reflexivity.
Qed.

(* in particular under the reflection (x, y) -> (x, -y): the arc M0,0 a2,2 0 0 1 2,2 keeps sweep = 1, although its mirror image
   is the arc with sweep = 0 (SVG 1.1 F.6: the sweep flag names the direction of increasing angle, which a reflection reverses) *)
Example mirrored_arc_keeps_its_sweep_flag :
  nth 4 (affine_args RMath (mk_Affine2D ROps 1%R 0%R 0%R (-1)%R 0%R 0%R) "a" [2%R; 2%R; 0%R; 0%R; 1%R; 2%R; 2%R]) 0%R = 1%R.
Proof. apply (arc_parameters_not_transformed (mk_Affine2D ROps 1%R 0%R 0%R (-1)%R 0%R 0%R) "a" 2%R 2%R 0%R 0%R 1%R 2%R 2%R). right. reflexivity. Qed.
