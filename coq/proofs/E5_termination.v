(* proofs/E5_termination.v — the reference-following loops end (C17): the reference-graph check of
   _resolve_use needs at most one round per id; when it accepts, the graph has a rank function and the
   expansion loop runs out of live references within |ids| passes; reference chains through
   gradient hrefs end in a result or an exception for every input. *)
From Coq Require Import List Bool Ascii String Arith Lia.
From Pico Require Import PyStr CheckPico Refs E5_refs Termination.
Import ListNotations.
Local Open Scope string_scope.

Lemma filter_split_length {A} (f : A -> bool) l : List.length (filter f l) + List.length (filter (fun x => negb (f x)) l) = List.length l.
Proof. induction l as [|x r IH]; cbn [filter List.length]; [reflexivity|]. destruct (f x); cbn [negb List.length]; lia. Qed.

(* the model's fuel is never the reason for a rejection: each round removes at least one id *)
Lemma kahn_fuel_irrelevant fuel : forall fuel' pending,
  List.length pending <= fuel -> List.length pending <= fuel' -> kahn fuel pending = kahn fuel' pending.
Proof.
  induction fuel as [|f IH]; intros fuel' pending H1 H2.
  - destruct pending; [destruct fuel'; reflexivity|cbn in H1; lia].
  - destruct pending as [|e r]; [destruct fuel'; reflexivity|].
    destruct fuel' as [|f']; [cbn in H2; lia|].
    cbn [kahn]. destruct (filter (resolvable (e :: r)) (e :: r)) as [|d ds] eqn:E; [reflexivity|].
    pose proof (filter_split_length (resolvable (e :: r)) (e :: r)) as HL. rewrite E in HL. cbn [List.length] in HL.
    apply IH; cbn [List.length] in *; lia.
Qed.

(* soundness: an accepted graph is ranked — every reference to an id of the graph goes strictly down *)
Definition ranked (g : graph) (rank : string -> nat) : Prop :=
  forall a refs b, In (a, refs) g -> In b refs -> In b (keys g) -> rank b < rank a.

Lemma in_keys_filter_neg (pending : graph) (P : string * list string -> bool) a refs :
  In (a, refs) pending -> P (a, refs) = false -> In (a, refs) (filter (fun e => negb (P e)) pending).
Proof. intros Hin HP. apply filter_In. split; [exact Hin|]. rewrite HP. reflexivity. Qed.

Theorem kahn_ranked fuel : forall pending, kahn fuel pending = true ->
  exists rank, ranked pending rank /\ forall a, rank a <= fuel.
Proof.
  induction fuel as [|f IH]; intros pending H.
  - destruct pending; [|discriminate]. exists (fun _ => 0). split; [intros a refs b []|intro; lia].
  - destruct pending as [|e r]; [exists (fun _ => 0); split; [intros a refs b []|intro; lia]|].
    cbn [kahn] in H. set (p := e :: r) in *.
    destruct (filter (resolvable p) p) as [|d ds] eqn:E; [discriminate|].
    destruct (IH _ H) as [rank' [Hr Hb]].
    set (rest := filter (fun e0 => negb (resolvable p e0)) p) in *.
    exists (fun a => if str_in a (keys rest) then S (rank' a) else 0). split.
    + intros a refs b Hin Hb_in Hbk.
      destruct (resolvable p (a, refs)) eqn:Ra.
      * (* a was resolvable: none of its references is a key — contradiction *)
        exfalso. unfold resolvable in Ra. apply negb_true_iff in Ra. cbn [snd] in Ra.
        assert (existsb (fun r0 => str_in r0 (keys p)) refs = true).
        { apply existsb_exists. exists b. split; [exact Hb_in|apply str_in_spec; exact Hbk]. }
        congruence.
      * assert (Har : In (a, refs) rest) by (apply in_keys_filter_neg; assumption).
        assert (Hak : str_in a (keys rest) = true) by (apply str_in_spec; apply in_map_iff; exists (a, refs); split; [reflexivity|exact Har]).
        rewrite Hak. destruct (str_in b (keys rest)) eqn:Bk; [|lia].
        apply str_in_spec in Bk. apply -> Nat.succ_lt_mono. exact (Hr a refs b Har Hb_in Bk).
    + intro a. destruct (str_in a (keys rest)); [specialize (Hb a); lia|lia].
Qed.

Corollary use_check_ranked g : use_check g = true -> exists rank, ranked g rank /\ forall a, rank a <= S (List.length g).
Proof. apply kahn_ranked. Qed.

(* completeness direction used by the correspondence: a self reference is always rejected *)
Lemma kahn_self_loop fuel : forall pending a refs, In (a, refs) pending -> In a refs -> kahn fuel pending = false.
Proof.
  induction fuel as [|f IH]; intros pending a refs Hin Hself.
  - destruct pending; [contradiction|reflexivity].
  - destruct pending as [|e r]; [contradiction|]. cbn [kahn]. set (p := e :: r) in *.
    destruct (filter (resolvable p) p) as [|d ds] eqn:E; [reflexivity|].
    apply (IH _ a refs); [|exact Hself]. apply in_keys_filter_neg; [exact Hin|].
    unfold resolvable. apply negb_false_iff. cbn [snd]. apply existsb_exists. exists a. split; [exact Hself|].
    apply str_in_spec. apply in_map_iff. exists (a, refs). split; [reflexivity|exact Hin].
Qed.

(* ------------------------------------------------------------------ the expansion loop ends *)
Lemma uses_of_in (g : graph) a b : In b (uses_of g a) -> exists refs, In (a, refs) g /\ In b refs.
Proof.
  unfold uses_of. destruct (find (fun e => fst e =? a) g) as [[a' refs]|] eqn:E; [|contradiction].
  intro H. apply find_some in E. destruct E as [Hin He]. cbn [fst snd] in *. apply String.eqb_eq in He. subst. exists refs. tauto.
Qed.

Lemma uses_of_nonkey (g : graph) a : ~ In a (keys g) -> uses_of g a = [].
Proof.
  intro H. unfold uses_of. destruct (find (fun e => fst e =? a) g) as [[a' refs]|] eqn:E; [|reflexivity].
  apply find_some in E. destruct E as [Hin He]. cbn [fst] in He. apply String.eqb_eq in He. subst.
  exfalso. apply H. apply in_map_iff. exists (a, refs). split; [reflexivity|exact Hin].
Qed.

Lemma uses_k_nonkey (g : graph) k : forall a, ~ In a (keys g) -> uses_k g k a = [].
Proof.
  induction k as [|k IH]; intros a H; cbn [uses_k]; [apply uses_of_nonkey; exact H|]. rewrite (IH a H). reflexivity.
Qed.

Theorem uses_k_rank (g : graph) rank : ranked g rank ->
  forall k a b, In b (uses_k g k a) -> In b (keys g) -> rank b + k < rank a.
Proof.
  intros Hr. induction k as [|k IH]; intros a b Hb Hbk; cbn [uses_k] in Hb.
  - destruct (uses_of_in g a b Hb) as [refs [Hin Hbr]]. pose proof (Hr a refs b Hin Hbr Hbk). lia.
  - apply in_flat_map in Hb. destruct Hb as [c [Hc Hb]].
    destruct (in_dec string_dec c (keys g)) as [Hck|Hck].
    + pose proof (IH a c Hc Hck). pose proof (IH c b Hb Hbk). lia.
    + rewrite (uses_k_nonkey g k c Hck) in Hb. contradiction.
Qed.

(* after |ids|+1 passes no reference to an existing id is left anywhere: the while loop has exited
   (or a dangling reference has raised) *)
Theorem expansion_ends (g : graph) : use_check g = true -> forall a, live g (S (List.length g)) a = [].
Proof.
  intros H a. destruct (use_check_ranked g H) as [rank [Hr Hb]].
  unfold live. destruct (filter _ _) as [|b l] eqn:E; [reflexivity|]. exfalso.
  assert (Hin : In b (filter (fun b0 => str_in b0 (keys g)) (uses_k g (S (List.length g)) a))) by (rewrite E; left; reflexivity).
  apply filter_In in Hin. destruct Hin as [Hb1 Hb2]. apply str_in_spec in Hb2.
  pose proof (uses_k_rank g rank Hr _ a b Hb1 Hb2). specialize (Hb a). lia.
Qed.

(* ------------------------------------------------------------------ href chains *)
Theorem follow_total href limit depth cur :
  match follow href limit depth cur with
  | Resolved d | Dangling d => depth <= d < depth + limit
  | RecursionError => True
  end.
Proof.
  revert depth cur. induction limit as [|l IH]; intros depth cur; cbn [follow]; [exact I|].
  destruct (href cur) as [[nxt|]|]; [|lia|lia].
  specialize (IH (S depth) nxt). destruct (follow href l (S depth) nxt); try exact I; lia.
Qed.

(* a cyclic chain ends in RecursionError (an exception), never in a result *)
Theorem follow_cycle href limit : forall depth cur,
  (forall s, exists nxt, href s = Some (Some nxt)) -> follow href limit depth cur = RecursionError.
Proof.
  induction limit as [|l IH]; intros depth cur H; cbn [follow]; [reflexivity|].
  destruct (H cur) as [nxt ->]. apply IH. exact H.
Qed.

(* ------------------------------------------------------------------ the tidy loop of topicosvg *)
Section TidyEnds.
  Variable state : Type.
  Variable step : state -> state * bool.
  Variable groups : state -> nat.                     (* number of <g> elements *)
  (* what _remove_redundant_groups guarantees: it reports a removal only if a group disappeared, and the
     other steps of the loop body never add groups *)
  Hypothesis removal_decreases : forall s, snd (step s) = true -> groups (fst (step s)) < groups s.

  Theorem tidy_ends : forall fuel s, groups s < fuel -> exists s', tidy state step fuel s = Some s'.
  Proof.
    induction fuel as [|f IH]; intros s H; [lia|]. cbn [tidy].
    destruct (step s) as [s' removed] eqn:E. destruct removed.
    - apply IH. pose proof (removal_decreases s) as Hd. rewrite E in Hd. cbn [fst snd] in Hd. specialize (Hd eq_refl). lia.
    - exists s'. reflexivity.
  Qed.
End TidyEnds.
