(* proofs/E5_defs.v — the order _add_to_defs builds is not a fixed point of re-conversion (C07's recorded
   finding, exhibited in the model), although strictly ascending orders are. *)
From Coq Require Import List Bool Ascii String Arith Lia.
From Pico Require Import PyStr Defs.
Import ListNotations.
Local Open Scope string_scope.

(* the witness of the known finding: gradients in document order b, d, a, c, where d is unused and dropped after the
   conversion (the traversal visits leaves first, so the ids arrive in reverse document order) *)
Definition drop (o : string) (l : list string) : list string := filter (fun i => negb (i =? o)) l.

Example defs_order_not_a_fixed_point :
  let pass1 := drop "d" (reconvert ["b"; "d"; "a"; "c"]) in
  pass1 = ["b"; "a"; "c"] /\ reconvert pass1 = ["a"; "b"; "c"] /\ reconvert (reconvert pass1) = reconvert pass1.
Proof. vm_compute. repeat split. Qed.

Theorem defs_order_refuted : exists l o, reconvert (drop o (reconvert l)) <> drop o (reconvert l).
Proof. exists ["b"; "d"; "a"; "c"], "d". vm_compute. discriminate. Qed.

(* ---- strictly ascending lists are fixed points *)
Fixpoint ascending (l : list string) : bool :=
  match l with
  | a :: ((b :: _) as r) => str_ltb a b && ascending r
  | _ => true
  end.

Lemma str_ltb_irrefl a : str_ltb a a = false.
Proof. induction a as [|c a IH]; cbn [str_ltb]; [reflexivity|]. rewrite Nat.ltb_irrefl. exact IH. Qed.

Lemma str_ltb_trans a : forall b c, str_ltb a b = true -> str_ltb b c = true -> str_ltb a c = true.
Proof.
  induction a as [|x a IH]; intros [|y b] [|z c] H1 H2; cbn [str_ltb] in *; try discriminate; try reflexivity.
  destruct (Nat.ltb_spec (nat_of_ascii x) (nat_of_ascii y)) as [Hxy|Hxy].
  - destruct (Nat.ltb_spec (nat_of_ascii y) (nat_of_ascii z)) as [Hyz|Hyz].
    + destruct (Nat.ltb_spec (nat_of_ascii x) (nat_of_ascii z)); [reflexivity|lia].
    + destruct (Nat.ltb_spec (nat_of_ascii z) (nat_of_ascii y)); [discriminate|].
      assert (nat_of_ascii y = nat_of_ascii z) by lia.
      destruct (Nat.ltb_spec (nat_of_ascii x) (nat_of_ascii z)); [reflexivity|lia].
  - destruct (Nat.ltb_spec (nat_of_ascii y) (nat_of_ascii x)); [discriminate|].
    assert (Exy : nat_of_ascii x = nat_of_ascii y) by lia.
    destruct (Nat.ltb_spec (nat_of_ascii y) (nat_of_ascii z)) as [Hyz|Hyz].
    + destruct (Nat.ltb_spec (nat_of_ascii x) (nat_of_ascii z)); [reflexivity|lia].
    + destruct (Nat.ltb_spec (nat_of_ascii z) (nat_of_ascii y)); [discriminate|].
      destruct (Nat.ltb_spec (nat_of_ascii x) (nat_of_ascii z)); [reflexivity|].
      destruct (Nat.ltb_spec (nat_of_ascii z) (nat_of_ascii x)); [lia|].
      eapply IH; eassumption.
Qed.

(* inserting something smaller than the head of an ascending list puts it in front *)
Lemma add_smaller_front i j r : str_ltb i j = true -> add_to_defs (j :: r) i = i :: j :: r.
Proof. intro H. unfold add_to_defs. cbn [first_greater]. rewrite H. reflexivity. Qed.

Lemma ascending_app_r l r : ascending (l ++ r) = true -> ascending r = true.
Proof.
  induction l as [|a l IH]; intro H; [exact H|]. apply IH.
  cbn [app] in H. destruct (l ++ r)%list as [|b t] eqn:E; [reflexivity|].
  cbn [ascending] in H. apply andb_true_iff in H. exact (proj2 H).
Qed.

(* building from the reverse of l on top of acc gives l ++ acc when the whole is ascending *)
Lemma build_rev_ascending l : forall acc, ascending (l ++ acc) = true -> fold_left add_to_defs (rev l) acc = (l ++ acc)%list.
Proof.
  induction l as [|x l IH] using rev_ind; intros acc H; [reflexivity|].
  rewrite rev_app_distr. cbn [rev app fold_left].
  rewrite <- app_assoc in H. cbn [app] in H.
  assert (Hstep : add_to_defs acc x = x :: acc).
  { destruct acc as [|a acc]; [reflexivity|]. apply add_smaller_front.
    apply ascending_app_r in H. cbn [ascending] in H. apply andb_true_iff in H. exact (proj1 H). }
  rewrite Hstep, (IH (x :: acc) H), <- app_assoc. reflexivity.
Qed.

Theorem ascending_is_fixed_point l : ascending l = true -> reconvert l = l.
Proof.
  intro H. unfold reconvert, build. rewrite (build_rev_ascending l []); [apply app_nil_r|rewrite app_nil_r; exact H].
Qed.

(* with the sorted insertion (append instead of front) every build is ascending whenever the ids are distinct -
   stated for the witness only; the repair itself breaks a golden file and is not made (DESIGN 12.4) *)
Example sorted_insertion_would_be_stable :
  fold_left add_sorted (rev ["b"; "d"; "a"; "c"]) [] = ["a"; "b"; "c"; "d"].
Proof. vm_compute. reflexivity. Qed.
