(* proofs/E3_walk.v — the walk state machine agrees with the SVG path interpreter, and a
   generic simulation theorem: a callback that is locally meaning-preserving yields a
   meaning-preserving rewrite for command lists of any length. *)
From Coq Require Import ZArith Reals Lra Lia List Bool Ascii String.
From Pico Require Import Num PyStr G_geom G_transform G_meta G_types Walk PathSem E1_affine.
Import ListNotations.
Local Open Scope char_scope.

Notation cmdR := (ascii * list R)%type.
Notation pathR := (list cmdR).
Notation ist := (@istate ROps).
Notation segR := (@seg ROps).
Notation wst := (@wstate ROps).
Notation interpR := (@interp ROps).
Notation walkR := (@walk ROps).
Notation icmd := (@interp_cmd ROps).
Notation ist0 := (@istate0 ROps).

Definition letters : list ascii :=
  ["M";"m";"L";"l";"H";"h";"V";"v";"C";"c";"S";"s";"Q";"q";"T";"t";"A";"a";"Z";"z"].

(* a command is well formed when its letter is one of the 20 and it carries exactly one
   argument set of that letter's arity (what iterating an SVGPath yields) *)
Definition wf_cmd (c : cmdR) : Prop := In (fst c) letters /\ num_args (fst c) = Some (List.length (snd c)).
Definition wf_path (p : pathR) : Prop := Forall wf_cmd p.

Lemma interp_from_app (i : ist) (l1 l2 : pathR) :
  interp_from i (l1 ++ l2) =
  let '(i1, s1) := interp_from i l1 in let '(i2, s2) := interp_from i1 l2 in (i2, s1 ++ s2).
Proof.
  revert i. induction l1 as [|[c a] l1 IH]; intro i; cbn [app interp_from].
  - destruct (interp_from i l2). reflexivity.
  - destruct (interp_cmd i c a) as [i1 s1]. rewrite IH.
    destruct (interp_from i1 l1) as [i2 s2]. destruct (interp_from i2 l2) as [i3 s3].
    rewrite app_assoc. reflexivity.
Qed.

(* ------------------------------------------------------------------ *)
(* case analysis over the 20 letters with concrete argument lists       *)
Ltac split_letters H :=
  unfold letters in H; cbn [In] in H;
  repeat (destruct H as [<-|H]); [..|contradiction].

Ltac fix_arity Ha a :=
  cbn in Ha;
  repeat (destruct a as [|? a]; cbn [List.length] in Ha; try discriminate Ha); clear Ha.

(* evaluate closed letter computations without touching real-number terms *)
Ltac eval_letters :=
  repeat match goal with
  | |- context [is_upper (Ascii ?a ?b ?c ?d ?e ?f ?g ?h)] =>
      let t := constr:(is_upper (Ascii a b c d e f g h)) in let v := eval vm_compute in t in change t with v
  | |- context [is_lower (Ascii ?a ?b ?c ?d ?e ?f ?g ?h)] =>
      let t := constr:(is_lower (Ascii a b c d e f g h)) in let v := eval vm_compute in t in change t with v
  | |- context [to_upper (Ascii ?a ?b ?c ?d ?e ?f ?g ?h)] =>
      let t := constr:(to_upper (Ascii a b c d e f g h)) in let v := eval vm_compute in t in change t with v
  | |- context [to_lower (Ascii ?a ?b ?c ?d ?e ?f ?g ?h)] =>
      let t := constr:(to_lower (Ascii a b c d e f g h)) in let v := eval vm_compute in t in change t with v
  | |- context [@assoc_chr ascii (Ascii ?a ?b ?c ?d ?e ?f ?g ?h) ?l ?dflt] =>
      let t := constr:(@assoc_chr ascii (Ascii a b c d e f g h) l dflt) in let v := eval vm_compute in t in change t with v
  | |- context [cmd_coords (Ascii ?a ?b ?c ?d ?e ?f ?g ?h)] =>
      let t := constr:(cmd_coords (Ascii a b c d e f g h)) in let v := eval vm_compute in t in change t with v
  | |- context [Ascii.eqb (Ascii ?a ?b ?c ?d ?e ?f ?g ?h) (Ascii ?a' ?b' ?c' ?d' ?e' ?f' ?g' ?h')] =>
      let t := constr:(Ascii.eqb (Ascii a b c d e f g h) (Ascii a' b' c' d' e' f' g' h')) in
      let v := eval vm_compute in t in change t with v
  end.

Ltac list_ops :=
  cbn [nth nth_back upd fold_left List.length Nat.sub fst snd app map existsb assoc_chr find negb andb orb rev combine forallb].

Ltac crunch := repeat (eval_letters; cbv beta iota zeta; list_ops).

Ltac Rnorm := cbn [add sub mul div opp zero one of_Z ROps T]; change (T ROps) with R in *.

Lemma point_eta (p : Pt) : mkP (Point_x p) (Point_y p) = p.
Proof. destruct p; reflexivity. Qed.

(* ------------------------------------------------------------------ *)
(* emit_tracks: the code's position bookkeeping (_next_pos, z, M) is the standard's *)
Definition track (cur start : Pt) (c : cmdR) : Pt * Pt :=
  let next := if Ascii.eqb (to_lower (fst c)) "z" then start else _next_pos ROps cur (fst c) (snd c) in
  (next, if Ascii.eqb (to_upper (fst c)) "M" then next else start).

Lemma emit_tracks (i : ist) (c : cmdR) :
  wf_cmd c ->
  let i' := fst (interp_cmd i (fst c) (snd c)) in
  track (i_cur i) (i_start i) c = (i_cur i', i_start i').
Proof.
  destruct c as [l a]. intros [Hl Ha]. cbn [fst snd] in *.
  destruct i as [[cx cy] [sx sy] ct].
  split_letters Hl; fix_arity Ha a;
    unfold track, interp_cmd, _next_pos, at_, P, argn; cbn [fst snd i_cur i_start Point_x Point_y]; crunch; Rnorm;
    cbn [fst snd i_cur i_start Point_x Point_y];
    f_equal; try (apply point_eq; ring); reflexivity.
Qed.

(* ------------------------------------------------------------------ *)
(* generic simulation for callbacks that emit exactly one command       *)
Definition strip (out : list (Pt * ascii * list R)) : pathR := map (fun t => (snd (fst t), snd t)) out.
Definition lastprev (w : wst) : @prev_t ROps := match rev (w_out w) with [] => None | p :: _ => Some p end.

Lemma lastprev_snoc (w : wst) t : lastprev (mk_w (w_cur w) (w_start w) (w_out w ++ [t])) = Some t.
Proof. unfold lastprev. cbn [w_out]. rewrite rev_app_distr. reflexivity. Qed.

Definition cb1_t : Type := Pt -> Pt -> ascii -> list R -> @prev_t ROps -> cmdR.
Definition lift1 (f : cb1_t) : @callback ROps := fun s c l a p => [f s c l a p].

Definition first_fix (first : bool) (c : ascii) : ascii := if first && Ascii.eqb c "m" then "M" else c.

Lemma walk_step_lift1 (f : cb1_t) first (w : wst) c a :
  walk_step (lift1 f) first w (c, a) = emit w (f (w_start w) (w_cur w) (first_fix first c) a (lastprev w)).
Proof. reflexivity. Qed.

Section Sim.
  Variable f1 : cb1_t.
  Variable Inv : ist -> ist -> @prev_t ROps -> Prop.
  Variable psi : segR -> segR.
  (* an optional side condition on each input command in its interpreter state
     (used for the 1e-9 snapping of _rewrite_path); True for most rewrites *)
  Variable Pre : bool -> ist -> cmdR -> Prop.

  Fixpoint pre_all (first : bool) (i : ist) (p : pathR) : Prop :=
    match p with
    | [] => True
    | (c, a) :: r => Pre first i (first_fix first c, a) /\ pre_all false (fst (icmd i c a)) r
    end.

  (* local obligation: one command *)
  Definition step_ok : Prop :=
    forall (i o : ist) prev c a (first : bool),
      Inv i o prev -> wf_cmd (c, a) -> Pre first i (first_fix first c, a) ->
      (first = true -> i = istate0 /\ o = istate0 /\ prev = None) ->
      (first = false -> prev <> None) ->
      let out := f1 (i_start o) (i_cur o) (first_fix first c) a prev in
      wf_cmd out /\
      snd (interp_cmd o (fst out) (snd out)) = map psi (snd (interp_cmd i c a)) /\
      Inv (fst (interp_cmd i c a)) (fst (interp_cmd o (fst out) (snd out))) (Some (i_cur o, fst out, snd out)).

  Hypothesis Hinit : Inv istate0 istate0 None.
  Hypothesis Hstep : step_ok.

  Lemma sim_suffix (p : pathR) : forall (w : wst) (i o : ist) (first : bool),
    Inv i o (lastprev w) -> w_cur w = i_cur o -> w_start w = i_start o -> wf_path p -> pre_all first i p ->
    (first = true -> i = istate0 /\ o = istate0 /\ lastprev w = None) ->
    (first = false -> lastprev w <> None) ->
    exists tail, strip (w_out (walk_loop (lift1 f1) first w p)) = strip (w_out w) ++ tail /\
                 snd (interp_from o tail) = map psi (snd (interp_from i p)) /\ wf_path tail.
  Proof.
    induction p as [|[c a] r IH]; intros w i o first HI Hc Hs Hwf Hpre Hf Hnf.
    - exists []. cbn [walk_loop interp_from snd map]. rewrite app_nil_r. split; [reflexivity|split; [reflexivity|constructor]].
    - inversion Hwf as [|? ? Hca Hr]; subst. destruct Hpre as [Hp1 Hp2].
      cbn [walk_loop]. rewrite walk_step_lift1.
      rewrite Hs, Hc.
      destruct (Hstep i o (lastprev w) c a first HI Hca Hp1 Hf Hnf) as [Hwo [Hseg HI']].
      set (out := f1 (i_start o) (i_cur o) (first_fix first c) a (lastprev w)) in *.
      destruct out as [c2 a2] eqn:Eout. cbn [fst snd] in *.
      (* the walk's bookkeeping after emitting (c2, a2) *)
      pose proof (emit_tracks o (c2, a2) Hwo) as Htr. cbn [fst snd] in Htr. unfold track in Htr. cbn [fst snd] in Htr.
      injection Htr as Hcur' Hstart'.
      set (w1 := emit w (c2, a2)).
      assert (Hw1c : w_cur w1 = i_cur (fst (interp_cmd o c2 a2))).
      { unfold w1, emit. cbn [w_cur]. rewrite Hs, Hc. exact Hcur'. }
      assert (Hw1s : w_start w1 = i_start (fst (interp_cmd o c2 a2))).
      { unfold w1, emit. cbn [w_start]. rewrite Hs, Hc. exact Hstart'. }
      assert (Hw1p : lastprev w1 = Some (i_cur o, c2, a2)).
      { unfold w1, emit. unfold lastprev. cbn [w_out]. rewrite rev_app_distr. cbn [rev app]. rewrite Hc. reflexivity. }
      assert (Hw1o : strip (w_out w1) = strip (w_out w) ++ [(c2, a2)]).
      { unfold w1, emit, strip. cbn [w_out]. rewrite map_app. reflexivity. }
      destruct (IH w1 (fst (interp_cmd i c a)) (fst (interp_cmd o c2 a2)) false) as [tail [Ht1 [Ht2 Hwt]]].
      + rewrite Hw1p. exact HI'.
      + exact Hw1c.
      + exact Hw1s.
      + exact Hr.
      + exact Hp2.
      + discriminate.
      + intros _. rewrite Hw1p. discriminate.
      + exists ((c2, a2) :: tail). split.
        * rewrite Ht1, Hw1o, <- app_assoc. reflexivity.
        * cbn [interp_from].
          destruct (interp_cmd o c2 a2) as [o1 so] eqn:Eo. destruct (interp_cmd i c a) as [i1 si] eqn:Ei.
          cbn [fst snd] in *.
          destruct (interp_from o1 tail) as [o2 so2]. destruct (interp_from i1 r) as [i2 si2].
          cbn [snd] in *. split; [rewrite map_app, Hseg, Ht2; reflexivity|constructor; [exact Hwo|exact Hwt]].
  Qed.

  Theorem walk1_sim (p : pathR) :
    wf_path p -> pre_all true istate0 p -> interpR (walkR (lift1 f1) p) = map psi (interpR p).
  Proof.
    intros Hwf Hpre. unfold walk, interp.
    destruct (sim_suffix p (mk_w origin origin []) istate0 istate0 true) as [tail [Ht1 [Ht2 _]]];
      try reflexivity; try assumption; try (intros _; repeat split; reflexivity); try discriminate.
    match goal with |- snd (interp_from _ ?x) = _ =>
      change x with (strip (w_out (walk_loop (lift1 f1) true (mk_w origin origin []) p))) end.
    rewrite Ht1. cbn [w_out strip map app]. exact Ht2.
  Qed.

  (* ... and the rewritten path is again well formed (so that rewrites can be chained) *)
  Theorem walk1_wf (p : pathR) :
    wf_path p -> pre_all true istate0 p -> wf_path (walkR (lift1 f1) p).
  Proof.
    intros Hwf Hpre. unfold walk.
    destruct (sim_suffix p (mk_w origin origin []) istate0 istate0 true) as [tail [Ht1 [_ Hwt]]];
      try reflexivity; try assumption; try (intros _; repeat split; reflexivity); try discriminate.
    change (wf_path (strip (w_out (walk_loop (lift1 f1) true (mk_w origin origin []) p)))).
    rewrite Ht1. cbn [w_out strip map app]. exact Hwt.
  Qed.

  (* the output of the walk is the list of the callback's outputs: any per-command property lifts *)
  Lemma walk1_forall (Q : cmdR -> Prop) :
    (forall s c l a pv, Q (f1 s c l a pv)) -> forall p, Forall Q (walkR (lift1 f1) p).
  Proof.
    intros HQ p. unfold walk.
    assert (G : forall p w first, Forall Q (strip (w_out w)) -> Forall Q (strip (w_out (walk_loop (lift1 f1) first w p)))).
    { clear p. induction p as [|[c a] r IH]; intros w first Hw; cbn [walk_loop]; [exact Hw|].
      apply IH. rewrite walk_step_lift1. unfold emit.
      destruct (f1 _ _ _ _ _) as [c2 a2] eqn:E. cbn [w_out]. unfold strip. rewrite map_app. apply Forall_app. split; [exact Hw|].
      constructor; [|constructor]. cbn [fst snd]. rewrite <- E. apply HQ. }
    apply (G p (mk_w origin origin []) true). constructor.
  Qed.

  Lemma first_fix_letter first c : In c letters -> In (first_fix first c) letters.
  Proof.
    intro H. unfold first_fix. destruct (first && Ascii.eqb c "m"); [|exact H].
    unfold letters. cbn. tauto.
  Qed.

  (* same, when the property only holds for the 20 command letters *)
  Lemma walk1_forall_wf (Q : cmdR -> Prop) :
    (forall s c l a pv, In l letters -> Q (f1 s c l a pv)) ->
    forall p, Forall (fun c => In (fst c) letters) p -> Forall Q (walkR (lift1 f1) p).
  Proof.
    intros HQ p Hp. unfold walk.
    assert (G : forall p w first, Forall (fun c => In (fst c) letters) p -> Forall Q (strip (w_out w)) ->
                                  Forall Q (strip (w_out (walk_loop (lift1 f1) first w p)))).
    { clear p Hp. induction p as [|[c a] r IH]; intros w first Hp Hw; cbn [walk_loop]; [exact Hw|].
      inversion Hp as [|? ? Hc Hr]; subst. cbn [fst] in Hc.
      apply IH; [exact Hr|]. rewrite walk_step_lift1. unfold emit.
      destruct (f1 _ _ _ _ _) as [c2 a2] eqn:E. cbn [w_out]. unfold strip. rewrite map_app. apply Forall_app. split; [exact Hw|].
      constructor; [|constructor]. cbn [fst snd]. rewrite <- E. apply HQ. apply first_fix_letter. exact Hc. }
    apply (G p (mk_w origin origin []) true Hp). constructor.
  Qed.
End Sim.
