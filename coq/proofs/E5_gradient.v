(* proofs/E5_gradient.v — rewritten gradients assign the same parameter to every point (C06),
   exact arithmetic (rounding = identity). *)
From Coq Require Import ZArith List Bool Ascii String Reals Lra.
From Pico Require Import Num PyStr G_geom G_transform Gradient E1_affine E1_viewport.
Import ListNotations.
Local Open Scope R_scope.

Notation Rct := (Rect ROps).
Notation mkR := (@mk_Rect ROps).
Notation gradR := (@grad ROps).
Definition idR (x : R) : R := x.
Definition idA (a : Aff) : Aff := a.
Notation as_userE := (@as_user_space ROps).
Notation foldE := (@fold_translation ROps idR idA).
Notation transformedE := (@transformed_gradient ROps idR idA).

Definition pt_of (p : R * R) : Pt := mkP (fst p) (snd p).

(* where a point of gradient space lands in the shape's user space *)
Definition bbox_map (bbox : Rct) : Aff :=
  mkA (Rect_w bbox) 0 0 (Rect_h bbox) (Rect_x bbox) (Rect_y bbox).
Definition user_point (g : gradR) (bbox : Rct) (p : Pt) : Pt :=
  if g_bbox_units g then mapP (bbox_map bbox) (mapP (g_tf g) p) else mapP (g_tf g) p.

(* the linear gradient parameter of a gradient-space point *)
Definition lin_param (p1 p2 : R * R) (p : Pt) : R :=
  ((Point_x p - fst p1) * (fst p2 - fst p1) + (Point_y p - snd p1) * (snd p2 - snd p1)) /
  ((fst p2 - fst p1) * (fst p2 - fst p1) + (snd p2 - snd p1) * (snd p2 - snd p1)).
(* the radial parameter depends on the point and the two circles only through differences: any
   function of (p - f, c - f, r, fr) *)
Section Param.
  Variable radial_formula : R -> R -> R -> R -> R -> R -> R.
  Definition param (g : gradR) (p : Pt) : R :=
    if g_radial g
    then radial_formula (Point_x p - fst (g_p2 g)) (Point_y p - snd (g_p2 g))
                        (fst (g_p1 g) - fst (g_p2 g)) (snd (g_p1 g) - snd (g_p2 g)) (g_r g) (g_fr g)
    else lin_param (g_p1 g) (g_p2 g) p.

  Lemma unit_to_bbox (bbox : Rct) : Rect_w bbox <> 0 -> Rect_h bbox <> 0 ->
    Affine2D_rect_to_rect ROps (@unit_rect ROps) bbox "none" = Ok (bbox_map bbox).
  Proof.
    intros Hw Hh. unfold unit_rect. rewrite rect_to_rect_none; cbn [Rect_w Rect_h Rect_x Rect_y zero one ROps]; try lra; try assumption.
    unfold bbox_map. f_equal. apply affine_eq; field.
  Qed.

  (* bounding-box units -> user space: same place, same parameter *)
  Theorem as_user_space_same (g u : gradR) (bbox : Rct) : Rect_w bbox <> 0 -> Rect_h bbox <> 0 ->
    as_userE g bbox = Ok u ->
    g_bbox_units u = false /\ (forall p, user_point u bbox p = user_point g bbox p) /\ (forall p, param u p = param g p).
  Proof.
    intros Hw Hh. unfold as_user_space. destruct (g_bbox_units g) eqn:Eb.
    - rewrite (unit_to_bbox bbox Hw Hh). intro H. injection H as <-. cbn [g_bbox_units]. split; [reflexivity|]. split.
      + intro p. unfold user_point. cbn [g_bbox_units g_tf]. rewrite Eb.
        rewrite compose_ltr_cons, compose_ltr_cons, compose_ltr_nil, matmul_ident_l. rewrite matmul_map_point. reflexivity.
      + intro p. reflexivity.
    - intro H. injection H as <-. split; [exact Eb|]. split; reflexivity.
  Qed.

  (* a translation moves both the circles / end points and the point: the parameter is unchanged *)
  Lemma param_translate (g : gradR) dx dy (p : Pt) tf' :
    param (@mk_grad ROps (g_radial g) (fst (g_p1 g) + dx, snd (g_p1 g) + dy) (fst (g_p2 g) + dx, snd (g_p2 g) + dy) (g_r g) (g_fr g) tf' (g_bbox_units g))
          (mkP (Point_x p + dx) (Point_y p + dy)) = param g p.
  Proof.
    unfold param. cbn [g_radial g_p1 g_p2 g_r g_fr fst snd Point_x Point_y]. change (T ROps) with R in *. destruct (g_radial g).
    - f_equal; try reflexivity; ring.
    - unfold lin_param. cbn [fst snd Point_x Point_y]. f_equal; ring.
  Qed.

  (* folding the translation into the coordinates: whenever the decomposition recomposes exactly, every
     gradient-space point has a counterpart with the same user-space image and the same parameter *)
  Theorem fold_translation_same (g g' : gradR) :
    g_bbox_units g = false ->
    foldE g = Ok g' ->
    (forall tr ap, Affine2D_decompose_translation ROps (g_tf g) = Ok (tr, ap) -> matmul ap tr = g_tf g) ->
    exists dx dy : R, forall p : Pt,
      let p' := mkP (Point_x p + dx) (Point_y p + dy) in
      mapP (g_tf g') p' = mapP (g_tf g) p /\ param g' p' = param g p.
  Proof.
    intros Hu. unfold fold_translation. destruct (Affine2D_decompose_translation ROps (g_tf g)) as [[tr ap]|e] eqn:Ed; [|discriminate].
    intros H Hexact. injection H as <-. specialize (Hexact tr ap eq_refl).
    destruct (decompose_translation_parts _ _ _ Ed) as [Hap [[x [y Htr]] _]].
    assert (Htr' : tr = mkA 1 0 0 1 x y).
    { rewrite Htr, translate_spec, matmul_ident_l. reflexivity. }
    unfold idA, idR. cbn [g_tf].
    destruct (negb (Affine2D_eqb ROps tr ident)) eqn:Em.
    - exists x, y. intro p. cbv zeta. split.
      + rewrite <- Hexact. rewrite matmul_map_point. f_equal. rewrite Htr. destruct p as [px py]. rewrite translate_maps. reflexivity.
      + rewrite <- (param_translate g x y p ap). unfold param, lin_param. cbn [g_radial g_p1 g_p2 g_r g_fr].
        rewrite Htr'. cbn [Affine2D_a Affine2D_b Affine2D_c Affine2D_d Affine2D_e Affine2D_f fst snd Point_x Point_y]. change (T ROps) with R in *.
        destruct (g_radial g); f_equal; try reflexivity; ring.
    - (* the translation part is the identity: nothing moves *)
      apply negb_false_iff in Em. apply Affine2D_eqb_true in Em. exists 0, 0. intro p. cbv zeta. split.
      + rewrite <- Hexact, Em. rewrite matmul_ident_r. f_equal. destruct p as [px py]. cbn [Point_x Point_y]. change (T ROps) with R in *. apply point_eq; ring.
      + unfold param. cbn [g_radial g_p1 g_p2 g_r g_fr Point_x Point_y]. change (T ROps) with R in *. destruct (g_radial g).
        * f_equal; try reflexivity; ring.
        * unfold lin_param. cbn [Point_x Point_y]. f_equal; ring.
  Qed.
End Param.

(* the whole rewrite of _transformed_gradient (bounding-box units resolved, ancestor transform baked in,
   translation folded into the coordinates): every gradient-space point has a counterpart whose image
   under the new gradientTransform is the image of the original point under the ancestor transform,
   with the same gradient parameter — so every point of the transformed shape keeps its colour *)
Section Whole.
  Variable radial_formula : R -> R -> R -> R -> R -> R -> R.
  Notation param := (param radial_formula).

  Theorem transformed_gradient_same (g g' : gradR) (bbox : Rct) (ctm : Aff) :
    Rect_w bbox <> 0 -> Rect_h bbox <> 0 ->
    transformedE g bbox ctm = Ok g' ->
    (forall A tr ap, Affine2D_decompose_translation ROps A = Ok (tr, ap) -> matmul ap tr = A) ->
    exists dx dy : R, forall p : Pt,
      let p' := mkP (Point_x p + dx) (Point_y p + dy) in
      mapP (g_tf g') p' = mapP ctm (user_point g bbox p) /\ param g' p' = param g p.
  Proof.
    intros Hw Hh. unfold transformed_gradient. destruct (as_userE g bbox) as [u|e] eqn:Eu; [|discriminate].
    destruct (as_user_space_same radial_formula g u bbox Hw Hh Eu) as [Hub [Hup Hpar]].
    intros Hf Hexact. unfold idA in Hf.
    set (u2 := @mk_grad ROps (g_radial u) (g_p1 u) (g_p2 u) (g_r u) (g_fr u) (compose_ltr [g_tf u; ctm]) false) in *.
    destruct (fold_translation_same radial_formula u2 g' eq_refl Hf (fun tr ap H => Hexact _ tr ap H)) as [dx [dy H]].
    exists dx, dy. intro p. cbv zeta. destruct (H p) as [H1 H2]. cbv zeta in H1, H2. split.
    - rewrite H1. unfold u2. cbn [g_tf].
      rewrite compose_ltr_cons, compose_ltr_cons, compose_ltr_nil, matmul_ident_l, matmul_map_point.
      f_equal. rewrite <- Hup. unfold user_point. rewrite Hub. reflexivity.
    - rewrite H2. rewrite <- Hpar. unfold u2. reflexivity.
  Qed.
End Whole.

(* the decomposition recomposes exactly in its main branch (a away from 0, invertible matrix) *)
Theorem decompose_translation_exact_main (A tr ap : Aff) :
  Affine2D_decompose_translation ROps A = Ok (tr, ap) ->
  Rabs (Affine2D_a A) > of_dec ROps 1 (-9) -> Affine2D_a A * Affine2D_d A - Affine2D_b A * Affine2D_c A <> 0 ->
  (Affine2D_e A <> 0 \/ Affine2D_f A <> 0 -> Affine2D_almost_equals ROps A (mkA (Affine2D_a A) (Affine2D_b A) (Affine2D_c A) (Affine2D_d A) 0 0) (of_dec ROps 1 (-9)) = false) ->
  matmul ap tr = A.
Proof.
  intros Hd Ha Hdet Hne. unfold Affine2D_decompose_translation in Hd.
  destruct A as [a b c d e f]. cbn [Affine2D_a Affine2D_b Affine2D_c Affine2D_d Affine2D_e Affine2D_f] in *.
  cbn [of_Z ROps] in Hd.
  destruct (Affine2D_almost_equals ROps (mkA a b c d e f) (mkA a b c d 0 0) (of_dec ROps 1 (-9))) eqn:E0.
  - (* only possible when e = f = 0 *)
    inversion Hd; subst tr ap. destruct (Req_dec e 0) as [He|He]; [destruct (Req_dec f 0) as [Hf|Hf]|].
    + subst. rewrite matmul_ident_r. reflexivity.
    + specialize (Hne (or_intror Hf)). discriminate.
    + specialize (Hne (or_introl He)). discriminate.
  - assert (Hna : almost_equal ROps a 0 (of_dec ROps 1 (-9)) = false).
    { destruct (almost_equal ROps a 0 (of_dec ROps 1 (-9))) eqn:E; [|reflexivity].
      apply almost_equal_R in E. rewrite Rminus_0_r in E. lra. }
    rewrite Hna in Hd. cbn [negb] in Hd.
    destruct (Affine2D_almost_equals ROps _ (compose_ltr _) _) eqn:Et in Hd; [|discriminate Hd].
    inversion Hd; subst tr ap. rewrite translate_spec, matmul_ident_l.
    assert (a <> 0). { intro H0. subst a. rewrite Rabs_R0 in Ha. cbn [of_dec ROps] in Ha. pose proof (Rpow10_pos (-9)). lra. }
    unfold Affine2D_map_point. cbn [Affine2D_a Affine2D_b Affine2D_c Affine2D_d Affine2D_e Affine2D_f Point_x Point_y mul add sub div ROps of_Z].
    change (T ROps) with R in *.
    replace (a * 0 + c * 0 + e) with e by ring. replace (b * 0 + d * 0 + f) with f by ring.
    exact (decompose_translation_exact a b c d e f H Hdet).
Qed.

(* ------------------------------------------------------------------ templates *)
Local Open Scope string_scope.
Lemma tget_app (a b : tmap) k : tget (a ++ b)%list k = match tget a k with Some v => Some v | None => tget b k end.
Proof.
  unfold tget. induction a as [|[k0 v0] r IH]; cbn [app find fst snd]; [reflexivity|].
  destruct (k0 =? k); [reflexivity|exact IH].
Qed.

(* href resolution: an attribute of the gradient's own class is its own value if set, else the template's *)
Theorem inherit_fields_get (fields : list string) (own tmpl : tmap) (k : string) :
  tget (inherit_fields fields own tmpl) k =
  match tget own k with
  | Some v => Some v
  | None => if str_in k fields then tget tmpl k else None
  end.
Proof.
  unfold inherit_fields. rewrite tget_app. destruct (tget own k) as [v|] eqn:Eo; [reflexivity|].
  induction fields as [|f r IH]; cbn [flat_map str_in existsb]; [reflexivity|].
  rewrite tget_app. fold (str_in k r).
  destruct (String.eqb k f) eqn:Ekf.
  - apply String.eqb_eq in Ekf. subst f. rewrite Eo.
    destruct (tget tmpl k) as [v|] eqn:Et.
    + unfold tget at 1. cbn [find fst snd]. rewrite String.eqb_refl. reflexivity.
    + cbn [orb]. unfold tget at 1. cbn [find]. rewrite IH. destruct (str_in k r); reflexivity.
  - cbn [orb].
    destruct (tget own f) as [vo|]; [cbn [tget find]; exact IH|].
    destruct (tget tmpl f) as [vt|]; [|cbn [tget find]; exact IH].
    unfold tget at 1. cbn [find fst]. rewrite String.eqb_sym, Ekf. exact IH.
Qed.
