(* proofs/E5_clip.v — clip_to_viewbox cuts every shape to exactly its interior inside the viewBox
   (C19), relative to the engine contract (set operations, bounds contain the interior). *)
From Coq Require Import ZArith Reals Lra List Bool Ascii String.
From Pico Require Import Num PyStr G_geom G_transform Walk Skia Shape Clip E1_affine E1_viewport E1_rect E3_walk E5_pathops E5_paint.
Import ListNotations.
Local Open Scope string_scope.

Section ClipContract.
  Variable inside : pathR -> rule -> Pt -> Prop.
  Variable sk : @skia ROps.
  Hypothesis op_contract : forall k p1 r1 p2 r2 q,
    sk_op sk k p1 r1 p2 r2 = Some q -> forall r pt, inside q r pt <-> opsem k (inside p1 r1 pt) (inside p2 r2 pt).
  Hypothesis simplify_contract : forall p r q,
    sk_simplify sk p r = Some q -> forall r' pt, inside q r' pt <-> inside p r pt.
  (* the (open) interior of a path lies strictly inside its bounds *)
  Hypothesis bounds_contract : forall p r pt,
    inside p r pt ->
    let '(x1, y1, x2, y2) := sk_bounds sk p in
    (x1 < Point_x pt < x2 /\ y1 < Point_y pt < y2)%R.
  Hypothesis bounds_ordered : forall p,
    let '(x1, y1, x2, y2) := sk_bounds sk p in (x1 <= x2 /\ y1 <= y2)%R.
  (* the interior of the rectangle path is the open rectangle *)
  Hypothesis rect_interior : forall (r : Rct) pt,
    inside (as_cmd_seq RMath (rect_path r)) NonZero pt <-> in_rect_open r (Point_x pt) (Point_y pt).

  (* a path without commands has no interior *)
  Hypothesis empty_no_interior : forall r pt, ~ inside [] r pt.

  Definition shape_inside (sh : shapeR) (r : rule) (pt : Pt) : Prop := inside (as_cmd_seq RMath (s_d sh)) r pt.

  Lemma bbox_contains (sh : shapeR) bbox r pt :
    shape_bbox RMath sk sh = Ok bbox -> shape_inside sh r pt -> in_rect_open bbox (Point_x pt) (Point_y pt).
  Proof.
    unfold shape_bbox, bounding_box. destruct (negb (skia_path_ok _)); [discriminate|].
    intros H Hin. pose proof (bounds_contract _ r pt Hin) as Hb.
    destruct (sk_bounds sk (as_cmd_seq RMath (s_d sh))) as [[[x1 y1] x2] y2].
    injection H as <-. unfold in_rect_open. cbn. cbn in Hb. lra.
  Qed.

  (* a dropped shape had nothing inside the viewBox; a kept one is cut to exactly the viewBox.
     Two ways to be dropped: the box misses the viewBox (nothing of the shape is inside it), or the box reaches in but the
     intersection with it came back empty (nothing of the normalised outline lies in viewBox /\ box) *)
  Theorem clip_shape_dropped (vb : Rct) (sh : shapeR) r bbox :
    (0 <= Rect_w vb)%R -> (0 <= Rect_h vb)%R ->
    rule_of_string (s_fill_rule sh) = Some r -> shape_bbox RMath sk sh = Ok bbox ->
    clip_shape RMath sk vb sh = Ok None ->
    (forall pt, ~ (shape_inside sh r pt /\ in_rect_open vb (Point_x pt) (Point_y pt))) \/
    (forall pt, ~ (inside (as_cmd_seq RMath (absolute (s_d sh))) r pt /\
                   in_rect_open vb (Point_x pt) (Point_y pt) /\ in_rect_open bbox (Point_x pt) (Point_y pt))).
  Proof.
    intros Hw Hh Hr Eb. unfold clip_shape. rewrite Eb.
    assert (Hbn : (0 <= Rect_w bbox)%R /\ (0 <= Rect_h bbox)%R).
    { revert Eb. unfold shape_bbox, bounding_box. destruct (negb (skia_path_ok _)); [discriminate|].
      pose proof (bounds_ordered (as_cmd_seq RMath (s_d sh))) as Hb.
      destruct (sk_bounds sk (as_cmd_seq RMath (s_d sh))) as [[[x1 y1] x2] y2].
      intro H. injection H as <-. cbn. lra. }
    destruct Hbn as [Hbw Hbh].
    destruct (Rect_intersection ROps vb bbox) as [isct|] eqn:Ei.
    - destruct (Rect_eqb ROps bbox isct); [discriminate|]. rewrite Hr.
      destruct (do_pathop sk OpIntersection _) as [[q|]|e] eqn:Ed; try discriminate.
      destruct q as [|c q]; [|discriminate].
      intros _. right. intros pt [Hs [Hv Hb]].
      destruct (intersection_some_open vb bbox isct Hw Hh Hbw Hbh Ei) as [_ [_ Hiff]].
      pose proof (do_pathop_sem inside sk op_contract simplify_contract _ _ _ _ _ Ed NonZero pt) as Hsem.
      cbn [fold_sem fold_left fst snd opsem] in Hsem.
      apply (empty_no_interior NonZero pt). apply Hsem. split; [exact Hs|]. apply rect_interior, Hiff. tauto.
    - intros _. left. intros pt [Hin Hvb].
      pose proof (bbox_contains sh bbox r pt Eb Hin) as Hbb.
      exact (intersection_none vb bbox Hw Hh Hbw Hbh Ei _ _ (conj Hvb Hbb)).
  Qed.

  Lemma Rect_eqb_true (a b : Rct) : Rect_eqb ROps a b = true -> a = b.
  Proof.
    destruct a, b. unfold Rect_eqb. cbn.
    rewrite !andb_true_iff, !Reqb_true. intros [[[-> ->] ->] ->]. reflexivity.
  Qed.

  Lemma bbox_nonneg (sh : shapeR) bbox :
    shape_bbox RMath sk sh = Ok bbox -> (0 <= Rect_w bbox)%R /\ (0 <= Rect_h bbox)%R.
  Proof.
    unfold shape_bbox, bounding_box. destruct (negb (skia_path_ok _)); [discriminate|].
    pose proof (bounds_ordered (as_cmd_seq RMath (s_d sh))) as Hb.
    destruct (sk_bounds sk (as_cmd_seq RMath (s_d sh))) as [[[x1 y1] x2] y2].
    intro H. injection H as <-. cbn. lra.
  Qed.

  Theorem clip_shape_kept (vb : Rct) (sh sh' : shapeR) r bbox :
    (0 <= Rect_w vb)%R -> (0 <= Rect_h vb)%R ->
    rule_of_string (s_fill_rule sh) = Some r -> shape_bbox RMath sk sh = Ok bbox ->
    clip_shape RMath sk vb sh = Ok (Some sh') ->
    (* entirely inside: untouched *)
    (sh' = sh /\ forall pt, shape_inside sh r pt -> in_rect_open vb (Point_x pt) (Point_y pt)) \/
    (* straddling the border: paint and identity kept, geometry = subject /\ viewBox /\ bounds *)
    (s_fill_rule sh' = "nonzero" /\ s_fill sh' = s_fill sh /\ s_opacity sh' = s_opacity sh /\ s_id sh' = s_id sh /\
     forall r' pt, inside (s_d sh') r' pt <->
                   inside (as_cmd_seq RMath (absolute (s_d sh))) r pt /\
                   in_rect_open vb (Point_x pt) (Point_y pt) /\ in_rect_open bbox (Point_x pt) (Point_y pt)).
  Proof.
    intros Hw Hh Hr Eb. unfold clip_shape. rewrite Eb.
    destruct (bbox_nonneg sh bbox Eb) as [Hbw Hbh].
    destruct (Rect_intersection ROps vb bbox) as [isct|] eqn:Ei; [|discriminate].
    destruct (intersection_some_open vb bbox isct Hw Hh Hbw Hbh Ei) as [_ [_ Hiff]].
    destruct (Rect_eqb ROps bbox isct) eqn:Ee.
    - intro H. injection H as <-. left. split; [reflexivity|]. intros pt Hin.
      apply Rect_eqb_true in Ee. subst isct.
      pose proof (bbox_contains sh bbox r pt Eb Hin) as Hbb. apply Hiff in Hbb. tauto.
    - rewrite Hr.
      destruct (do_pathop sk OpIntersection _) as [[q|]|e] eqn:Ed; try discriminate.
      destruct q as [|c0 q0]; [discriminate|]. set (q := c0 :: q0) in *.
      intro H. injection H as <-. right. cbn [with_geom s_fill_rule s_fill s_opacity s_id s_d].
      split; [reflexivity|]. split; [reflexivity|]. split; [reflexivity|]. split; [reflexivity|].
      intros r' pt.
      pose proof (do_pathop_sem inside sk op_contract simplify_contract _ _ _ _ _ Ed r' pt) as Hs.
      cbn [fold_sem fold_left fst snd opsem] in Hs. rewrite Hs, rect_interior, Hiff. tauto.
  Qed.
End ClipContract.

(* a shape that stays either stays as it is or carries the (non-empty) intersection *)
Theorem clip_shape_kept_nonempty (sk : @skia ROps) (vb : Rct) (sh sh' : shapeR) :
  clip_shape RMath sk vb sh = Ok (Some sh') -> sh' = sh \/ s_d sh' <> [].
Proof.
  unfold clip_shape. destruct (shape_bbox RMath sk sh) as [bbox|e]; [|discriminate].
  destruct (Rect_intersection ROps vb bbox) as [isct|]; [|discriminate].
  destruct (Rect_eqb ROps bbox isct).
  - intro H. injection H as <-. left. reflexivity.
  - destruct (rule_of_string (s_fill_rule sh)); [|discriminate].
    destruct (do_pathop sk OpIntersection _) as [[q|]|e]; try discriminate.
    destruct q as [|c q]; [discriminate|]. intro H. injection H as <-. right. cbn [with_geom s_d]. discriminate.
Qed.

(* ... for the whole document: every shape of the clipped list is one of the source shapes, untouched, or carries geometry *)
Theorem clip_shapes_nonempty (sk : @skia ROps) (vb : Rct) (l out : list shapeR) :
  clip_shapes RMath sk vb l = Ok out -> Forall (fun s' => In s' l \/ s_d s' <> []) out.
Proof.
  revert out. induction l as [|sh r IH]; intros out; cbn [clip_shapes].
  - intro H. injection H as <-. constructor.
  - destruct (clip_shape RMath sk vb sh) as [o|e] eqn:E; [|discriminate].
    destruct (clip_shapes RMath sk vb r) as [t|e]; [|discriminate].
    intro H. injection H as <-.
    assert (Ht : Forall (fun s' => In s' (sh :: r) \/ s_d s' <> []) t).
    { eapply Forall_impl; [|apply IH; reflexivity]. intros a [Ha|Ha]; [left; right; exact Ha|right; exact Ha]. }
    destruct o as [s'|]; [|exact Ht].
    constructor; [|exact Ht].
    destruct (clip_shape_kept_nonempty sk vb sh s' E) as [->|Hn]; [left; left; reflexivity|right; exact Hn].
Qed.

(* the painting order is kept: the clipped list is the source list, shape by shape, with the dropped ones left out *)
Theorem clip_shapes_keeps_order (sk : @skia ROps) (vb : Rct) (l out : list shapeR) :
  clip_shapes RMath sk vb l = Ok out ->
  out = flat_map (fun sh => match clip_shape RMath sk vb sh with Ok (Some s) => [s] | _ => [] end) l.
Proof.
  revert out. induction l as [|sh r IH]; intros out; cbn [clip_shapes flat_map].
  - intro H. injection H as <-. reflexivity.
  - destruct (clip_shape RMath sk vb sh) as [o|e]; [|discriminate].
    destruct (clip_shapes RMath sk vb r) as [t|e]; [|discriminate].
    intro H. injection H as <-. rewrite (IH t eq_refl). destruct o; reflexivity.
Qed.
