(* proofs/E3_chain.v — the rewrites compose (C09): the normal form handed to Skia, as_cmd_seq =
   arcs_to_cubics . absolute . expand_shorthand . explicit_lines, describes the same curve as its input
   for every well-formed path without arcs (arcs: C12), and consists of M L C Q Z commands only. *)
From Coq Require Import ZArith Reals Lra Lia List Bool Ascii String FunctionalExtensionality.
From Pico Require Import Num PyStr G_geom G_transform G_arc G_meta G_types Arc Walk PathSem E1_affine E3_walk E3_rewrites E3_shorthand.
Import ListNotations.
Local Open Scope char_scope.

(* a per-command property of the output that follows from a property of the input letter *)
Lemma walk1_forall_rel (f1 : cb1_t) (Qin : ascii -> Prop) (Q : cmdR -> Prop) :
  (Qin "m" -> Qin "M") ->
  (forall s c l a pv, Qin l -> Q (f1 s c l a pv)) ->
  forall p, Forall (fun c => Qin (fst c)) p -> Forall Q (walkR (lift1 f1) p).
Proof.
  intros Hm HQ p Hp. unfold walk.
  assert (G : forall p w first, Forall (fun c => Qin (fst c)) p -> Forall Q (strip (w_out w)) ->
                                Forall Q (strip (w_out (walk_loop (lift1 f1) first w p)))).
  { clear p Hp. induction p as [|[c a] r IH]; intros w first Hp Hw; cbn [walk_loop]; [exact Hw|].
    inversion Hp as [|? ? Hc Hr]; subst. cbn [fst] in Hc.
    apply IH; [exact Hr|]. rewrite walk_step_lift1. unfold emit.
    destruct (f1 _ _ _ _ _) as [c2 a2] eqn:E. cbn [w_out]. unfold strip. rewrite map_app. apply Forall_app. split; [exact Hw|].
    constructor; [|constructor]. cbn [fst snd]. rewrite <- E. apply HQ.
    unfold first_fix. destruct (first && Ascii.eqb c "m") eqn:Ef; [|exact Hc].
    apply andb_true_iff in Ef. destruct Ef as [_ Ef]. apply Ascii.eqb_eq in Ef. subst c. apply Hm. exact Hc. }
  apply (G p (mk_w origin origin []) true Hp). constructor.
Qed.

(* well-formedness is preserved, so the rewrites can be chained *)
Theorem explicit_lines_wf (p : pathR) : wf_path p -> wf_path (explicit_lines (N:=ROps) p).
Proof.
  intro H. unfold explicit_lines. rewrite explicit_is_lift1.
  apply (walk1_wf f_explicit (fun i o _ => i = o) (fun s => s) no_pre eq_refl explicit_step p H (no_pre_all _ _ _)).
Qed.

Theorem expand_shorthand_wf (p : pathR) : wf_path p -> wf_path (expand_shorthand (N:=ROps) p).
Proof.
  intro H. unfold expand_shorthand. rewrite expand_is_lift1.
  apply (walk1_wf f_expand inv_expand (fun s => s) no_pre); try assumption.
  - repeat split.
  - apply expand_step.
  - apply no_pre_all.
Qed.

Theorem absolute_wf (p : pathR) :
  wf_path p -> pre_all (pre_nosnap (_relative_to_absolute ROps)) true istate0 p -> wf_path (absolute (N:=ROps) p).
Proof.
  intros H Hp. unfold absolute. rewrite rewrite_is_lift1.
  apply (walk1_wf _ (fun i o _ => i = o) (fun s => s) _ eq_refl (rw_step_generic _ abs_local) p H Hp).
Qed.

(* ------------------------------------------------------------------ letters along the chain *)
Definition S0 : list ascii := ["M";"m";"L";"l";"H";"h";"V";"v";"C";"c";"S";"s";"Q";"q";"T";"t";"Z";"z"].   (* no arcs *)
Definition S1 : list ascii := ["M";"m";"L";"l";"C";"c";"S";"s";"Q";"q";"T";"t";"Z";"z"].                   (* ... no H/V *)
Definition S2 : list ascii := ["M";"m";"L";"l";"C";"c";"Q";"q";"Z";"z"].                                   (* ... no S/T *)
Definition S3 : list ascii := ["M";"L";"C";"Q";"Z"].                                                         (* ... absolute *)

Ltac split_set H := cbn [In] in H; repeat (destruct H as [<-|H]); [..|contradiction].
Ltac in_set := cbn [fst In]; tauto.

Lemma explicit_S s cur l (a : list R) pv : In l S0 -> In (fst (f_explicit s cur l a pv)) S1.
Proof. intro H. unfold f_explicit, _explicit_lines_callback, S0, S1 in *. split_set H; crunch; in_set. Qed.

Lemma expand_S s cur l (a : list R) pv : In l S1 -> In (fst (f_expand s cur l a pv)) S2.
Proof.
  intro H. unfold f_expand, cb_expand_shorthand, S1, S2 in *.
  destruct pv as [[[pp pc] pa]|]; split_set H;
    unfold expand_shorthand_callback, _relative_to_absolute, _rewrite_coords; crunch; cbn [fst snd]; crunch;
    repeat match goal with |- context [if ?b then _ else _] => destruct b end; in_set.
Qed.

Lemma abs_S s cur l (a : list R) pv : In l S2 -> In (fst (f_rewrite (_relative_to_absolute ROps) s cur l a pv)) S3.
Proof.
  intro H. unfold f_rewrite, rewrite_callback.
  destruct (_relative_to_absolute ROps cur l a) as [c1 a1] eqn:E.
  assert (H1 : In c1 S3).
  { unfold _relative_to_absolute, _rewrite_coords, S2, S3 in *. split_set H; revert E; crunch; intro E; injection E as <- _; in_set. }
  destruct (negb (Point_eqb ROps (_next_pos ROps cur c1 a1) s) && Point_almost_equals ROps (_next_pos ROps cur c1 a1) s (of_dec ROps 1 (-9))).
  - unfold _move_endpoint, _explicit_lines_callback, S3 in *.
    split_set H1; crunch; repeat match goal with |- context [if ?b then _ else _] => destruct b end; in_set.
  - exact H1.
Qed.

(* ------------------------------------------------------------------ arcs_to_cubics leaves arc-free absolute paths alone *)
Section WalkIdR.
  (* (the generic statement of E3_idem.walk_id, for the callback with the arc parameter) *)
  Variable MO : MathOps ROps.

  Lemma arcs_cb_id start cur l (a : list R) prev : to_upper l <> "A" -> cb_arcs_to_cubics MO start cur l a prev = [(l, a)].
  Proof.
    intro H. unfold cb_arcs_to_cubics.
    destruct (Ascii.eqb l "a") eqn:E1; [apply Ascii.eqb_eq in E1; subst; exfalso; apply H; reflexivity|].
    destruct (Ascii.eqb l "A") eqn:E2; [apply Ascii.eqb_eq in E2; subst; exfalso; apply H; reflexivity|].
    reflexivity.
  Qed.

  Lemma arcs_loop_id (p : pathR) : forall first (w : wst),
    Forall (fun c => to_upper (fst c) <> "A" /\ fst c <> "m") p ->
    strip (w_out (walk_loop (cb_arcs_to_cubics MO) first w p)) = strip (w_out w) ++ p.
  Proof.
    induction p as [|[c a] r IH]; intros first w H; cbn [walk_loop]; [rewrite app_nil_r; reflexivity|].
    inversion H as [|? ? [Hc Hm] Hr]; subst. cbn [fst] in *.
    assert (Hstep : walk_step (cb_arcs_to_cubics MO) first w (c, a) = emit w (c, a)).
    { unfold walk_step. destruct (Ascii.eqb c "m") eqn:E; [apply Ascii.eqb_eq in E; contradiction|].
      rewrite andb_false_r. rewrite arcs_cb_id by exact Hc. reflexivity. }
    rewrite Hstep, IH by exact Hr. unfold emit, strip. destruct w as [cur start out]. cbn [w_out].
    rewrite map_app. cbn [map fst snd]. rewrite <- app_assoc. reflexivity.
  Qed.

  Theorem arcs_to_cubics_id (p : pathR) :
    Forall (fun c => to_upper (fst c) <> "A" /\ fst c <> "m") p -> arcs_to_cubics MO p = p.
  Proof. intro H. unfold arcs_to_cubics, walk. exact (arcs_loop_id p true (mk_w origin origin []) H). Qed.
End WalkIdR.

(* ------------------------------------------------------------------ the chain *)
Theorem as_cmd_seq_preserves (MO : MathOps ROps) (p : pathR) :
  wf_path p -> Forall (fun c => In (fst c) S0) p ->
  pre_all (pre_nosnap (_relative_to_absolute ROps)) true istate0 (expand_shorthand (N:=ROps) (explicit_lines (N:=ROps) p)) ->
  interpR (as_cmd_seq MO p) = interpR p /\ Forall (fun c => In (fst c) S3) (as_cmd_seq MO p).
Proof.
  intros Hwf Hna Hsnap. unfold as_cmd_seq.
  set (p1 := explicit_lines (N:=ROps) p) in *. set (p2 := expand_shorthand (N:=ROps) p1) in *. set (p3 := absolute (N:=ROps) p2).
  assert (W1 : wf_path p1) by (apply explicit_lines_wf; exact Hwf).
  assert (W2 : wf_path p2) by (apply expand_shorthand_wf; exact W1).
  assert (N1 : Forall (fun c => In (fst c) S1) p1).
  { unfold p1, explicit_lines. rewrite explicit_is_lift1.
    apply (walk1_forall_rel f_explicit (fun l => In l S0) (fun c => In (fst c) S1)); [unfold S0; cbn; tauto| |exact Hna].
    intros; apply explicit_S; assumption. }
  assert (N2 : Forall (fun c => In (fst c) S2) p2).
  { unfold p2, expand_shorthand. rewrite expand_is_lift1.
    apply (walk1_forall_rel f_expand (fun l => In l S1) (fun c => In (fst c) S2)); [unfold S1; cbn; tauto| |exact N1].
    intros; apply expand_S; assumption. }
  assert (N3 : Forall (fun c => In (fst c) S3) p3).
  { unfold p3, absolute. rewrite rewrite_is_lift1.
    apply (walk1_forall_rel _ (fun l => In l S2) (fun c => In (fst c) S3)); [unfold S2; cbn; tauto| |exact N2].
    intros; apply abs_S; assumption. }
  assert (Hid : arcs_to_cubics MO p3 = p3).
  { apply arcs_to_cubics_id. eapply Forall_impl; [|exact N3]. intros [c a] Hc. unfold S3 in Hc. cbn [fst In] in *.
    repeat (destruct Hc as [<-|Hc]); try contradiction; split; discriminate. }
  rewrite Hid. split; [|exact N3].
  unfold p3. rewrite (absolute_preserves p2 W2 Hsnap). unfold p2. rewrite (expand_shorthand_preserves p1 W1).
  unfold p1. apply explicit_lines_preserves. exact Hwf.
Qed.
