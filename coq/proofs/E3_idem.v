(* proofs/E3_idem.v — the path half of idempotence (C07): on a path in pico normal form
   (absolute M/L/C/Q/A/Z, numbers rounded to nd <= 8 digits) every path rewrite of the pipeline
   is the identity, and rounding a rounded number changes nothing. *)
From Coq Require Import ZArith List Bool Ascii String Reals Lra Lia.
From Pico Require Import Num PyStr G_geom G_transform G_arc G_meta G_types Arc Walk PathSem E3_walk E3_rewrites.
Import ListNotations.
Local Open Scope R_scope.
Local Open Scope char_scope.

(* ------------------------------------------------------------------ rounding *)
Lemma Rfloor_IZR z : Rfloor (IZR z) = z.
Proof.
  unfold Rfloor. assert (H : up (IZR z) = (z + 1)%Z).
  { symmetry. apply tech_up; rewrite plus_IZR; lra. }
  rewrite H. lia.
Qed.

Lemma Rround_he_IZR z : Rround_he (IZR z) = z.
Proof.
  unfold Rround_he. rewrite Rfloor_IZR. destruct (Rlt_dec (IZR z - IZR z) (1 / 2)) as [_|H]; [reflexivity|].
  exfalso. apply H. lra.
Qed.

Definition rounded (nd : Z) (x : R) : Prop := exists k : Z, x = IZR k / Rpow10 nd.

Lemma Rround_nd_rounded nd x : rounded nd (Rround_nd nd x).
Proof. unfold Rround_nd. eexists. reflexivity. Qed.

Lemma Rround_nd_fix nd x : rounded nd x -> Rround_nd nd x = x.
Proof.
  intros [k ->]. unfold Rround_nd. pose proof (Rpow10_pos nd) as Hp.
  replace (IZR k / Rpow10 nd * Rpow10 nd) with (IZR k) by (unfold Rdiv; rewrite Rmult_assoc, Rinv_l by lra; rewrite Rmult_1_r; reflexivity).
  rewrite Rround_he_IZR. reflexivity.
Qed.

Theorem Rround_nd_idem nd x : Rround_nd nd (Rround_nd nd x) = Rround_nd nd x.
Proof. apply Rround_nd_fix. apply Rround_nd_rounded. Qed.

Theorem round_path_idem nd (p : @path ROps) : round_path nd (round_path nd p) = round_path nd p.
Proof.
  unfold round_path. rewrite map_map. apply map_ext. intros [c a]. cbn [fst snd]. f_equal.
  rewrite map_map. apply map_ext. intro x. apply Rround_nd_idem.
Qed.

(* two numbers rounded to nd <= 8 digits that lie within 1e-9 of each other are equal *)
Lemma powerRZ_10_8 : powerRZ 10 8 = 100000000.
Proof. unfold powerRZ. replace (Pos.to_nat 8) with 8%nat by reflexivity. simpl pow. lra. Qed.
Lemma Rpow10_le8 nd : (nd <= 8)%Z -> Rpow10 nd <= 100000000.
Proof.
  intro H. unfold Rpow10. rewrite <- powerRZ_10_8.
  assert (E : powerRZ 10 8 = powerRZ 10 nd * powerRZ 10 (8 - nd)).
  { rewrite <- powerRZ_add by lra. f_equal. lia. }
  assert (G : 1 <= powerRZ 10 (8 - nd)).
  { replace (8 - nd)%Z with (Z.of_nat (Z.to_nat (8 - nd))) by lia. rewrite <- pow_powerRZ. apply pow_R1_Rle. lra. }
  pose proof (powerRZ_lt 10 nd ltac:(lra)) as Hp. rewrite E. nra.
Qed.

Lemma rounded_sep nd x y : (nd <= 8)%Z -> rounded nd x -> rounded nd y ->
  Rabs (x - y) <= eps9 -> x = y.
Proof.
  intros Hnd [a ->] [b ->] H. pose proof (Rpow10_pos nd) as Hp. pose proof (Rpow10_le8 nd Hnd) as Hle.
  assert (He : eps9 = / 1000000000).
  { unfold eps9. cbn [of_dec ROps]. unfold Rpow10, powerRZ. replace (Pos.to_nat 9) with 9%nat by reflexivity. simpl pow. lra. }
  rewrite He in H.
  replace (IZR a / Rpow10 nd - IZR b / Rpow10 nd) with ((IZR a - IZR b) / Rpow10 nd) in H by (unfold Rdiv; ring).
  assert (Hab : Rabs (IZR a - IZR b) < 1).
  { unfold Rdiv in H. rewrite Rabs_mult in H. rewrite (Rabs_pos_eq (/ Rpow10 nd)) in H by (left; apply Rinv_0_lt_compat; exact Hp).
    assert (Rabs (IZR a - IZR b) <= / 1000000000 * Rpow10 nd).
    { apply (Rmult_le_reg_r (/ Rpow10 nd)); [apply Rinv_0_lt_compat; exact Hp|].
      rewrite Rmult_assoc. rewrite Rinv_r by lra. lra. }
    lra. }
  rewrite <- minus_IZR in Hab. rewrite <- abs_IZR in Hab. apply lt_IZR in Hab.
  assert (a = b) by lia. subst. reflexivity.
Qed.

(* ------------------------------------------------------------------ walks that change nothing *)
Section WalkId.
  Context {N : NumOps}.
  Variable cb : @callback N.
  Variable P : @command N -> Prop.
  Variable Inv : Point N -> Point N -> Prop.     (* current position, subpath start *)
  Hypothesis Hm : forall c, P c -> fst c <> "m".
  Hypothesis Hcb : forall start cur c prev, Inv cur start -> P c -> cb start cur (fst c) (snd c) prev = [c].
  Hypothesis Hinv : forall st c, Inv (w_cur st) (w_start st) -> P c -> Inv (w_cur (emit st c)) (w_start (emit st c)).

  Definition strip_out (o : list (Point N * ascii * list (T N))) : @path N := map (fun t => (snd (fst t), snd t)) o.

  Lemma walk_loop_id p : forall first st, Forall P p -> Inv (w_cur st) (w_start st) ->
    strip_out (w_out (walk_loop cb first st p)) = strip_out (w_out st) ++ p.
  Proof.
    induction p as [|[c a] r IH]; intros first st HP HI; cbn [walk_loop].
    - rewrite app_nil_r. reflexivity.
    - inversion HP as [|? ? Hc Hr]; subst.
      assert (Hstep : walk_step cb first st (c, a) = emit st (c, a)).
      { unfold walk_step. pose proof (Hm _ Hc) as Hne. cbn [fst] in Hne.
        destruct (Ascii.eqb c "m") eqn:E; [apply Ascii.eqb_eq in E; contradiction|].
        rewrite andb_false_r. rewrite (Hcb (w_start st) (w_cur st) (c, a) _ HI Hc). reflexivity. }
      rewrite Hstep. rewrite IH; [|exact Hr|apply Hinv; assumption].
      unfold emit. destruct st as [cur start out]. cbn [w_out w_cur w_start].
      unfold strip_out. rewrite map_app. cbn [map fst snd]. rewrite <- app_assoc. reflexivity.
  Qed.

  Theorem walk_id p : Forall P p -> Inv origin origin -> walk cb p = p.
  Proof. intros HP HI. unfold walk. exact (walk_loop_id p true (mk_w origin origin []) HP HI). Qed.
End WalkId.

Definition pico_letters : list ascii := ["M"; "L"; "C"; "Q"; "A"; "Z"].
Definition pico_cmd {N : NumOps} (c : @command N) : Prop := In (fst c) pico_letters.

Ltac split_pico H := unfold pico_cmd, pico_letters in H; cbn [In fst] in H; repeat (destruct H as [<-|H]); [..|contradiction].

Lemma pico_not_m {N : NumOps} (c : @command N) : pico_cmd c -> fst c <> "m".
Proof. destruct c as [l a]. intro H. split_pico H; cbn [fst]; discriminate. Qed.

(* explicit_lines and expand_shorthand leave any pico path alone (whatever the numbers) *)
Theorem explicit_lines_id {N : NumOps} (p : @path N) : Forall pico_cmd p -> explicit_lines p = p.
Proof.
  intro H. unfold explicit_lines. apply (walk_id cb_explicit_lines pico_cmd (fun _ _ => True)); try assumption; try tauto.
  - apply pico_not_m.
  - intros start cur [l a] prev _ Hc. cbn [fst snd]. unfold cb_explicit_lines, _explicit_lines_callback.
    split_pico Hc; crunch; reflexivity.
Qed.

Theorem expand_shorthand_id {N : NumOps} (p : @path N) : Forall pico_cmd p -> expand_shorthand p = p.
Proof.
  intro H. unfold expand_shorthand. apply (walk_id cb_expand_shorthand pico_cmd (fun _ _ => True)); try assumption; try tauto.
  - apply pico_not_m.
  - intros start cur [l a] prev _ Hc. cbn [fst snd]. unfold cb_expand_shorthand.
    destruct prev as [[[pp pc] pa]|]; unfold expand_shorthand_callback; split_pico Hc; crunch; reflexivity.
Qed.

(* absolute: needs the numbers to be rounded (otherwise an end point within 1e-9 of the subpath
   start is snapped onto it) *)
Definition rpt nd (p : Point ROps) : Prop := rounded nd (Point_x p) /\ rounded nd (Point_y p).
Definition pico_rounded nd (c : @command ROps) : Prop :=
  @pico_cmd ROps c /\ num_args (fst c) = Some (List.length (snd c)) /\ Forall (rounded nd) (snd c).

Lemma rounded_0 nd : rounded nd 0.
Proof. exists 0%Z. unfold Rdiv. rewrite Rmult_0_l. reflexivity. Qed.

Lemma nosnap_rounded nd (np s : Point ROps) : (nd <= 8)%Z -> rpt nd np -> rpt nd s ->
  negb (Point_eqb ROps np s) && Point_almost_equals ROps np s eps9 = false.
Proof.
  intros Hnd [Hx Hy] [Hsx Hsy].
  destruct (Point_almost_equals ROps np s eps9) eqn:E; [|apply andb_false_r].
  unfold Point_almost_equals, almost_equal in E. apply andb_true_iff in E. destruct E as [E1 E2].
  cbn [leb ROps sub] in E1, E2. apply Rleb_true in E1, E2.
  assert (Hax : forall v : R, @pyabs ROps v = Rabs v).
  { intro v. unfold pyabs. cbn [ltb ROps zero opp]. unfold Rabs. destruct (Rltb v 0) eqn:El.
    - apply Rltb_true in El. destruct (Rcase_abs v); [reflexivity|lra].
    - apply Rltb_false in El. destruct (Rcase_abs v); [lra|reflexivity]. }
  rewrite Hax in E1, E2.
  pose proof (rounded_sep nd _ _ Hnd Hx Hsx E1) as X. pose proof (rounded_sep nd _ _ Hnd Hy Hsy E2) as Y.
  unfold Point_eqb. cbn [eqb ROps]. rewrite X, Y. rewrite !Reqb_refl. reflexivity.
Qed.

Lemma rounded_0plus nd x : rounded nd x -> rounded nd (0 + x).
Proof. rewrite Rplus_0_l. tauto. Qed.

Ltac pick_rounded :=
  repeat match goal with
  | H : Forall (rounded _) (_ :: _) |- _ => inversion H; clear H; subst
  end.

Theorem absolute_id nd (p : @path ROps) : (nd <= 8)%Z -> Forall (pico_rounded nd) p -> @absolute ROps p = p.
Proof.
  intros Hnd H. unfold absolute.
  apply (walk_id (cb_rewrite (_relative_to_absolute ROps)) (pico_rounded nd) (fun cur start => rpt nd cur /\ rpt nd start)); try assumption.
  - intros c [Hc _]. apply pico_not_m. exact Hc.
  - (* the callback returns the command unchanged *)
    intros start cur [l a] prev [Hcur Hstart] [Hc [Ha Hr]]. cbn [fst snd] in *.
    unfold cb_rewrite, rewrite_callback.
    assert (E : _relative_to_absolute ROps cur l a = (l, a)).
    { unfold _relative_to_absolute, _rewrite_coords. split_pico Hc; crunch; reflexivity. }
    rewrite E.
    assert (Hnp : rpt nd (_next_pos ROps cur l a)).
    { destruct Hcur as [Hcx Hcy]. unfold _next_pos, rpt.
      split_pico Hc; fix_arity Ha a; crunch; Rnorm; cbn [Point_x Point_y]; pick_rounded;
        split; try apply rounded_0plus; assumption. }
    fold eps9. rewrite (nosnap_rounded nd _ _ Hnd Hnp Hstart). reflexivity.
  - (* positions stay rounded *)
    intros [cur start out] [l a] [Hcur Hstart] [Hc [Ha Hr]]. cbn [fst snd w_cur w_start] in *.
    unfold emit. cbn [w_cur w_start].
    destruct Hcur as [Hcx Hcy]. destruct Hstart as [Hsx Hsy].
    unfold _next_pos, rpt.
    split_pico Hc; fix_arity Ha a; crunch; Rnorm; cbn [Point_x Point_y]; pick_rounded;
      repeat split; try apply rounded_0plus; assumption.
  - split; split; apply rounded_0.
Qed.

(* rounding produces exactly the premise of absolute_id *)
Lemma round_path_rounded nd (p : @path ROps) :
  Forall (fun c : @command ROps => @pico_cmd ROps c /\ num_args (fst c) = Some (List.length (snd c))) p ->
  Forall (pico_rounded nd) (@round_path ROps nd p).
Proof.
  intro H. unfold round_path. apply Forall_map. eapply Forall_impl; [|exact H].
  intros [l a] [Hc Ha]. unfold pico_rounded, pico_cmd in *. cbn [fst snd] in *. split; [exact Hc|]. split; [rewrite map_length; exact Ha|].
  apply Forall_map. apply Forall_forall. intros x _. apply Rround_nd_rounded.
Qed.

(* the path half of idempotence: after one pass (pico letters, rounded to nd <= 8 digits) the path
   rewrites of a second pass change nothing *)
Theorem pico_path_fixed nd (p : @path ROps) : (nd <= 8)%Z ->
  Forall (fun c : @command ROps => @pico_cmd ROps c /\ num_args (fst c) = Some (List.length (snd c))) p ->
  let q := @round_path ROps nd p in
  @explicit_lines ROps q = q /\ @expand_shorthand ROps q = q /\ @absolute ROps q = q /\ @round_path ROps nd q = q.
Proof.
  intros Hnd H q. pose proof (round_path_rounded nd p H) as Hq. fold q in Hq.
  assert (Hl : Forall (@pico_cmd ROps) q) by (eapply Forall_impl; [|exact Hq]; intros c Hc; exact (proj1 Hc)).
  repeat split.
  - apply explicit_lines_id. exact Hl.
  - apply expand_shorthand_id. exact Hl.
  - apply (absolute_id nd); assumption.
  - apply round_path_idem.
Qed.
