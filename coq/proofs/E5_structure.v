(* proofs/E5_structure.v — the transform that reaches every element is the product of the
   transforms along its ancestor chain, parent first (C02); use and nested-svg transforms. *)
From Coq Require Import ZArith Reals Lra List Bool Ascii String.
From Pico Require Import Num PyStr G_geom G_transform Structure E1_affine E1_viewport.
Import ListNotations.
Local Open Scope R_scope.

Notation tnodeR := (@tnode ROps).

Lemma element_transform_spec (own : option Aff) cur p :
  mapP (element_transform own cur) p = mapP cur (match own with Some t => mapP t p | None => p end).
Proof.
  destruct own as [t|]; cbn [element_transform]; [|reflexivity].
  rewrite compose_ltr_applies_first_first. reflexivity.
Qed.

(* the chain of own transforms from the root's child down to a node, following child indices *)
Fixpoint chain_at (t : tnodeR) (path : list nat) : option (list (option Aff)) :=
  match t, path with
  | TN own _, [] => Some [own]
  | TN own kids, i :: r => match nth_error kids i with
                           | Some k => match chain_at k r with Some c => Some (own :: c) | None => None end
                           | None => None
                           end
  end.

(* mapping a point through a chain: the element's own transform first, then each ancestor's *)
Definition through (chain : list (option Aff)) (p : Pt) : Pt :=
  fold_right (fun o q => match o with Some t => mapP t q | None => q end) p chain.

Fixpoint ctm_at (cur : Aff) (t : tnodeR) (path : list nat) : option Aff :=
  match t, path with
  | TN own _, [] => Some (element_transform own cur)
  | TN own kids, i :: r => match nth_error kids i with
                           | Some k => ctm_at (element_transform own cur) k r
                           | None => None
                           end
  end.

Theorem ctm_accumulates : forall path (t : tnodeR) cur m chain p,
  ctm_at cur t path = Some m -> chain_at t path = Some chain ->
  mapP m p = mapP cur (through chain p).
Proof.
  induction path as [|i r IH]; intros [own kids] cur m chain p Hm Hc; cbn [ctm_at chain_at] in *.
  - injection Hm as <-. injection Hc as <-. cbn [through fold_right]. apply element_transform_spec.
  - destruct (nth_error kids i) as [k|] eqn:Ek; [|discriminate].
    destruct (chain_at k r) as [c|] eqn:Ec; [|discriminate]. injection Hc as <-.
    cbn [through fold_right]. rewrite (IH k _ m c p Hm Ec). rewrite element_transform_spec. reflexivity.
Qed.

(* a <use>: the referenced content is first moved by (x, y), then mapped by the use's transform *)
Theorem use_transform_spec x y (own : option Aff) px py :
  mapP (use_transform (N:=ROps) x y own) (mkP px py) =
  match own with Some t => mapP t (mkP (px + x) (py + y)) | None => mkP (px + x) (py + y) end.
Proof.
  unfold use_transform. destruct own as [t|].
  - rewrite compose_ltr_applies_first_first. cbn [fold_left]. rewrite translate_maps. reflexivity.
  - apply translate_maps.
Qed.

(* a nested <svg> with a viewBox: the SVG viewport transform, then the element's own transform;
   without a viewBox: translation to the viewport origin *)
Theorem unnest_transform_viewbox x y w h (vb : Rct) xa ya slice (own : option Aff) p :
  Rect_w vb <> 0 -> Rect_h vb <> 0 -> w <> 0 -> h <> 0 ->
  exists m, unnest_transform (N:=ROps) x y w h (Some vb) (par_string xa ya slice) own = Ok m /\
            mapP m p = match own with
                       | Some o => mapP o (mapP (spec_viewport vb (mkR x y w h) xa ya slice) p)
                       | None => mapP (spec_viewport vb (mkR x y w h) xa ya slice) p
                       end.
Proof.
  intros H1 H2 H3 H4. unfold unnest_transform.
  rewrite (rect_to_rect_aligned vb (mkR x y w h) xa ya slice H1 H2) by (cbn; assumption).
  destruct own as [o|]; eexists; (split; [reflexivity|]).
  - rewrite compose_ltr_applies_first_first. reflexivity.
  - reflexivity.
Qed.

Theorem unnest_transform_no_viewbox x y w h par (own : option Aff) px py :
  exists m, unnest_transform (N:=ROps) x y w h None par own = Ok m /\
            mapP m (mkP px py) = match own with Some o => mapP o (mkP (px + x) (py + y)) | None => mkP (px + x) (py + y) end.
Proof.
  unfold unnest_transform. destruct own as [o|]; eexists; (split; [reflexivity|]).
  - rewrite compose_ltr_applies_first_first. cbn [fold_left]. rewrite translate_maps. reflexivity.
  - apply translate_maps.
Qed.
