(* proofs/E5_gate.v — what passing checkpicosvg guarantees (C01, structural half; C08, unique ids). *)
From Coq Require Import ZArith List Bool Ascii String Lia.
From Pico Require Import Num PyStr CheckPico.
Import ListNotations.
Local Open Scope string_scope.

(* the shapes of element paths the allow-list admits (no text) *)
Inductive path_shape : xpath -> Prop :=
| ps_root : path_shape [("svg", O)]
| ps_defs : path_shape [("svg", O); ("defs", O)]
| ps_grad t n : t = "linearGradient" \/ t = "radialGradient" -> path_shape [("svg", O); ("defs", O); (t, n)]
| ps_stop t n m : t = "linearGradient" \/ t = "radialGradient" -> path_shape [("svg", O); ("defs", O); (t, n); ("stop", m)]
| ps_pg s rest : Forall (fun x => fst x = "path" \/ fst x = "g") (s :: rest) -> path_shape (("svg", O) :: s :: rest).

Lemma is_pg_spec s : is_pg s = true <-> fst s = "path" \/ fst s = "g".
Proof. unfold is_pg. rewrite orb_true_iff, !String.eqb_eq. tauto. Qed.

Lemma forallb_pg l : forallb is_pg l = true <-> Forall (fun x => fst x = "path" \/ fst x = "g") l.
Proof.
  induction l as [|x r IH]; cbn [forallb]; [split; constructor|].
  rewrite andb_true_iff, is_pg_spec, IH. split; [intros [H1 H2]; constructor; assumption|intro H; inversion H; tauto].
Qed.

Lemma grad_spec t : is_grad t = true <-> t = "linearGradient" \/ t = "radialGradient".
Proof. unfold is_grad. rewrite orb_true_iff, !String.eqb_eq. tauto. Qed.

Theorem allowed_sound (p : xpath) : allowed false p = true -> path_shape p.
Proof.
  unfold allowed. destruct p as [|[t0 n0] rest]; [discriminate|].
  intro H. apply andb_true_iff in H. destruct H as [H0 H]. apply andb_true_iff in H0. destruct H0 as [Ht0 Hn0].
  apply String.eqb_eq in Ht0. apply Nat.eqb_eq in Hn0. subst t0 n0.
  destruct rest as [|[t1 n1] r1]; [constructor|].
  cbn [andb] in H. rewrite orb_false_r in H. apply orb_true_iff in H. destruct H as [H|H].
  - apply andb_true_iff in H. destruct H as [H Hd]. apply andb_true_iff in H. destruct H as [Ht1 Hn1].
    apply String.eqb_eq in Ht1. apply Nat.eqb_eq in Hn1. subst t1 n1.
    unfold defs_tail in Hd. destruct r1 as [|[t2 n2] [|[t3 n3] [|? ?]]]; try discriminate.
    + constructor.
    + apply ps_grad. apply grad_spec. exact Hd.
    + apply andb_true_iff in Hd. destruct Hd as [Hg Hs]. apply String.eqb_eq in Hs. subst t3. apply ps_stop. apply grad_spec. exact Hg.
  - apply ps_pg. apply forallb_pg. exact H.
Qed.

(* ---------------------------------------------------------------- pruning (drop_unsupported) *)
(* same tags, indices not larger: what pruning does to the path of a surviving element *)
Definition le_seg (s' s : seg) : Prop := fst s' = fst s /\ snd s' <= snd s.
Definition le_path (p' p : xpath) : Prop := Forall2 le_seg p' p.

Lemma le_path_forallb (f : seg -> bool) p' p : (forall s' s, le_seg s' s -> f s = true -> f s' = true) ->
  le_path p' p -> forallb f p = true -> forallb f p' = true.
Proof.
  intros Hf H. induction H as [|s' s r' r Hs Hr IH]; cbn [forallb]; [tauto|].
  intro E. apply andb_true_iff in E. destruct E as [E1 E2]. rewrite (Hf _ _ Hs E1), (IH E2). reflexivity.
Qed.
Lemma is_pg_le s' s : le_seg s' s -> is_pg s = true -> is_pg s' = true.
Proof. intros [Ht _]. unfold is_pg. rewrite Ht. tauto. Qed.
Lemma is_text0_le s' s : le_seg s' s -> is_text0 s = is_text0 s'.
Proof. intros [Ht _]. unfold is_text0. rewrite Ht. reflexivity. Qed.
Lemma is_text1_le s' s : le_seg s' s -> is_text1 s = true -> is_text1 s' = true.
Proof. intros [Ht _]. unfold is_text1. rewrite Ht. tauto. Qed.
Lemma drop_while_le p' p : le_path p' p -> le_path (drop_while is_text0 p') (drop_while is_text0 p).
Proof.
  intro H. induction H as [|s' s r' r Hs Hr IH]; cbn [drop_while]; [constructor|].
  rewrite (is_text0_le s' s Hs). destruct (is_text0 s'); [exact IH|constructor; assumption].
Qed.
Lemma defs_tail_le r' r : le_path r' r -> defs_tail r = true -> defs_tail r' = true.
Proof.
  intros H. unfold defs_tail.
  destruct H as [|[t' n'] [t n] r1' r1 [Ht _] H1]; [tauto|]. cbn [fst] in Ht. subst t'.
  destruct H1 as [|[s' m'] [s0 m] r2' r2 [Hs _] H2]; [tauto|]. cbn [fst] in Hs. subst s'.
  destruct H2; [tauto|discriminate].
Qed.

(* the allow-list looks at indices only for svg[0] and defs[0]: shrinking indices keeps a path allowed *)
Theorem allowed_le at_ p' p : le_path p' p -> allowed at_ p = true -> allowed at_ p' = true.
Proof.
  intros H. unfold allowed.
  destruct H as [|[t0' n0'] [t0 n0] r' r [Ht0 Hn0] Hr]; [tauto|]. cbn [fst snd] in *. subst t0'.
  intro Ha. apply andb_true_iff in Ha. destruct Ha as [Ha Hrest]. apply andb_true_iff in Ha. destruct Ha as [E0 En0].
  apply Nat.eqb_eq in En0. subst n0. assert (n0' = O) by lia. subst n0'. rewrite E0. cbn [Nat.eqb andb].
  destruct Hr as [|[t1' n1'] [t1 n1] r1' r1 [Ht1 Hn1] Hr1]; [reflexivity|]. cbn [fst snd] in *. subst t1'.
  assert (Hle : le_path ((t1, n1') :: r1') ((t1, n1) :: r1)) by (constructor; [split; [reflexivity|exact Hn1]|exact Hr1]).
  apply orb_true_iff in Hrest. destruct Hrest as [Hrest|Htext].
  - apply orb_true_iff in Hrest. destruct Hrest as [Hdefs|Hpg].
    + apply andb_true_iff in Hdefs. destruct Hdefs as [Hd Htail]. apply andb_true_iff in Hd. destruct Hd as [Ed En1].
      apply Nat.eqb_eq in En1. subst n1. assert (n1' = O) by lia. subst n1'.
      apply orb_true_iff. left. apply orb_true_iff. left.
      apply andb_true_iff. split; [apply andb_true_iff; split; [exact Ed|reflexivity]|exact (defs_tail_le r1' r1 Hr1 Htail)].
    + apply orb_true_iff. left. apply orb_true_iff. right. exact (le_path_forallb is_pg _ _ is_pg_le Hle Hpg).
  - apply andb_true_iff in Htext. destruct Htext as [Ht H1]. apply andb_true_iff in Ht. destruct Ht as [Hat H0].
    apply orb_true_iff. right. apply andb_true_iff. split; [apply andb_true_iff; split; [exact Hat|]|].
    + rewrite <- (is_text0_le (t1, n1') (t1, n1)) by (split; [reflexivity|exact Hn1]). exact H0.
    + exact (le_path_forallb is_text1 _ _ is_text1_le (drop_while_le _ _ Hle) H1).
Qed.

(* the gate: every element path has one of the admitted shapes, the single defs exists, ids are unique *)
Lemma dup_ids_false seen l : dup_ids seen l = false ->
  NoDup (fold_right (fun o acc => match o with Some i => i :: acc | None => acc end) [] l) /\
  Forall (fun o => match o with Some i => ~ In i seen | None => True end) l.
Proof.
  revert seen. induction l as [|[i|] r IH]; intros seen H; cbn [dup_ids fold_right] in *.
  - split; constructor.
  - destruct (str_in i seen) eqn:E; [discriminate|].
    destruct (IH (i :: seen) H) as [Hnd Hall]. split.
    + constructor; [|exact Hnd]. intro Hin.
      assert (G : forall l0, Forall (fun o => match o with Some j => ~ In j (i :: seen) | None => True end) l0 ->
                  ~ In i (fold_right (fun o acc => match o with Some j => j :: acc | None => acc end) [] l0)).
      { induction l0 as [|[j|] l0 IH0]; intros HF; cbn [fold_right]; [tauto| |inversion HF; auto].
        inversion HF as [|? ? Hj Hr]; subst. intros [->|Hin0]; [apply Hj; left; reflexivity|exact (IH0 Hr Hin0)]. }
      exact (G r Hall Hin).
    + constructor.
      * intro Hin. unfold str_in in E. 
        assert (existsb (String.eqb i) seen = true) by (apply existsb_exists; exists i; split; [exact Hin|apply String.eqb_refl]).
        congruence.
      * eapply Forall_impl; [|exact Hall]. intros [j|] Hj; [|exact I]. intro Hin. apply Hj. right. exact Hin.
  - destruct (IH seen H) as [Hnd Hall]. split; [exact Hnd|constructor; [exact I|exact Hall]].
Qed.

Theorem gate_sound (root : xnode) :
  gate_ok false root = true ->
  Forall (fun c => path_shape (fst c)) (all_contexts root) /\
  Exists (fun c => fst c = [("svg", O); ("defs", O)]) (all_contexts root) /\
  NoDup (fold_right (fun o acc => match o with Some i => i :: acc | None => acc end) [] (map snd (all_contexts root))).
Proof.
  unfold gate_ok. intro H. apply andb_true_iff in H. destruct H as [H H3]. apply andb_true_iff in H. destruct H as [H1 H2].
  split; [|split].
  - apply Forall_forall. intros c Hc. apply allowed_sound. rewrite forallb_forall in H1. exact (H1 c Hc).
  - apply existsb_exists in H2. destruct H2 as [[pth oid] [Hc Hm]]. apply Exists_exists. exists (pth, oid). split; [exact Hc|].
    cbn [fst] in *. unfold is_defs_path in Hm.
    destruct pth as [|[t0 [|n0]] [|[t1 [|n1]] [|? ?]]]; try discriminate.
    apply andb_true_iff in Hm. destruct Hm as [Ha Hb]. apply String.eqb_eq in Ha, Hb. subst. reflexivity.
  - apply negb_true_iff in H3. exact (proj1 (dup_ids_false [] _ H3)).
Qed.

(* ---------------------------------------------------------------- drop_unsupported leaves only allowed paths *)
Lemma count_tag_app t l n : count_tag t (l ++ [n])%list = count_tag t l + (if xtag n =? t then 1 else 0).
Proof. induction l as [|x r IH]; cbn [app count_tag]; [lia|]. rewrite IH. lia. Qed.

Lemma prune_tag fuel at_ here n : xtag (prune fuel at_ here n) = xtag n.
Proof. destruct fuel; [reflexivity|]. destruct n. reflexivity. Qed.
Lemma prune_id fuel at_ here n : xid (prune fuel at_ here n) = xid n.
Proof. destruct fuel; [reflexivity|]. destruct n. reflexivity. Qed.

Lemma index_kids_tag seen kids : Forall (fun sn => fst (fst sn) = xtag (snd sn)) (index_kids seen kids).
Proof. revert seen. induction kids as [|n r IH]; intro seen; cbn [index_kids]; constructor; [reflexivity|apply IH]. Qed.

Lemma index_kids_In seen kids sn : In sn (index_kids seen kids) -> In (snd sn) kids.
Proof.
  revert seen. induction kids as [|n r IH]; intro seen; cbn [index_kids In]; [tauto|].
  intros [<-|H]; [left; reflexivity|right; exact (IH _ H)].
Qed.

(* re-indexing the kept (and rewritten) children gives the same tags and indices that are not larger *)
Lemma reindex_le (Pk : seg * xnode -> bool) (g : seg * xnode -> xnode) :
  (forall sn, xtag (g sn) = xtag (snd sn)) ->
  forall kids seen seen', (forall t, count_tag t seen' <= count_tag t seen) ->
  Forall2 (fun new old => le_seg (fst new) (fst old) /\ snd new = g old)
          (index_kids seen' (map g (filter Pk (index_kids seen kids)))) (filter Pk (index_kids seen kids)).
Proof.
  intros Hg. induction kids as [|n r IH]; intros seen seen' Hc; cbn [index_kids filter map]; [constructor|].
  destruct (Pk (xtag n, count_tag (xtag n) seen, n)) eqn:E.
  - cbn [map index_kids]. constructor.
    + cbn [fst snd]. rewrite Hg. cbn [snd]. split; [split; [reflexivity|apply Hc]|reflexivity].
    + apply IH. intro t. rewrite !count_tag_app. rewrite Hg. cbn [snd]. specialize (Hc t). lia.
  - apply IH. intro t. rewrite count_tag_app. specialize (Hc t). lia.
Qed.

Lemma depth_kid t i kids k : In k kids -> depth k < depth (XN t i kids).
Proof.
  cbn [depth]. induction kids as [|x r IH]; [contradiction|]. cbn [fold_right In].
  intros [->|H]; [lia|]. specialize (IH H). lia.
Qed.

Lemma le_path_app p' p s' s : le_path p' p -> le_seg s' s -> le_path (p' ++ [s'])%list (p ++ [s])%list.
Proof. intros H Hs. induction H; cbn [app]; constructor; try assumption. constructor. Qed.

Lemma Forall2_In_l {A B} (R : A -> B -> Prop) l l' : Forall2 R l l' -> forall a, In a l -> exists b, In b l' /\ R a b.
Proof.
  induction 1 as [|x y r r' Hxy H IH]; intros a Ha; [contradiction|].
  destruct Ha as [->|Ha]; [exists y; split; [left; reflexivity|exact Hxy]|].
  destruct (IH a Ha) as [b [Hb Hr]]. exists b. split; [right; exact Hb|exact Hr].
Qed.

Theorem prune_contexts_allowed at_ : forall f2 f1 n here here',
  depth n <= f1 -> le_path here' here -> allowed at_ here = true ->
  Forall (fun c => allowed at_ (fst c) = true) (contexts f2 here' (prune f1 at_ here n)).
Proof.
  induction f2 as [|f2 IH]; intros f1 n here here' Hd Hle Ha; cbn [contexts]; [constructor|].
  destruct n as [t i kids]. destruct f1 as [|f1]; [cbn [depth] in Hd; lia|].
  cbn [prune xtag xid xkids]. constructor; [cbn [fst]; exact (allowed_le at_ _ _ Hle Ha)|].
  set (Pk := fun sn : seg * xnode => allowed at_ (here ++ [fst sn])%list).
  set (g := fun sn : seg * xnode => prune f1 at_ (here ++ [fst sn])%list (snd sn)).
  pose proof (reindex_le Pk g (fun sn => prune_tag f1 at_ _ (snd sn)) kids [] [] (fun _ => le_n _)) as HR.
  apply Forall_flat_map. apply Forall_forall. intros new Hnew.
  destruct (Forall2_In_l _ _ _ HR new Hnew) as [old [Hold [Hseg Hsnd]]].
  apply filter_In in Hold. destruct Hold as [Hin HPk].
  rewrite Hsnd. unfold g.
  apply IH.
  - pose proof (depth_kid t i kids (snd old) (index_kids_In [] kids old Hin)) as Hk. lia.
  - apply le_path_app; assumption.
  - exact HPk.
Qed.

(* hence: after drop_unsupported every remaining element has an allowed path, i.e. the gate can only still
   complain about a missing defs or duplicate ids *)
Corollary prune_all_allowed at_ root :
  Forall (fun c => allowed at_ (fst c) = true) (all_contexts (prune (depth root) at_ [("svg", O)] root)).
Proof.
  unfold all_contexts. apply prune_contexts_allowed; [apply le_n| |reflexivity].
  constructor; [split; [reflexivity|apply le_n]|constructor].
Qed.
