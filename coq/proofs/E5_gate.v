(* proofs/E5_gate.v — what passing checkpicosvg guarantees (C01, structural half; C08, unique ids). *)
From Coq Require Import ZArith List Bool Ascii String.
From Pico Require Import Num PyStr CheckPico.
Import ListNotations.
Local Open Scope string_scope.

(* the shapes of element paths the allow-list admits (no text) *)
Inductive path_shape : xpath -> Prop :=
| ps_root : path_shape [("svg", O)]
| ps_defs : path_shape [("svg", O); ("defs", O)]
| ps_grad t n : t = "linearGradient" \/ t = "radialGradient" -> path_shape [("svg", O); ("defs", O); (t, n)]
| ps_stop t n m : t = "linearGradient" \/ t = "radialGradient" -> path_shape [("svg", O); ("defs", O); (t, n); ("stop", m)]
| ps_pg s rest : Forall (fun x => fst x = "path" \/ fst x = "g") (s :: rest) -> path_shape (("svg", O) :: s :: rest).

Lemma is_pg_spec s : is_pg s = true <-> fst s = "path" \/ fst s = "g".
Proof. unfold is_pg. rewrite orb_true_iff, !String.eqb_eq. tauto. Qed.

Lemma forallb_pg l : forallb is_pg l = true <-> Forall (fun x => fst x = "path" \/ fst x = "g") l.
Proof.
  induction l as [|x r IH]; cbn [forallb]; [split; constructor|].
  rewrite andb_true_iff, is_pg_spec, IH. split; [intros [H1 H2]; constructor; assumption|intro H; inversion H; tauto].
Qed.

Lemma grad_spec t : (t =? "linearGradient") || (t =? "radialGradient") = true <-> t = "linearGradient" \/ t = "radialGradient".
Proof. rewrite orb_true_iff, !String.eqb_eq. tauto. Qed.

Theorem allowed_sound (p : xpath) : allowed false p = true -> path_shape p.
Proof.
  unfold allowed.
  destruct p as [|[t0 n0] r0]; [discriminate|].
  destruct (t0 =? "svg") eqn:E0; [apply String.eqb_eq in E0; subst t0|].
  2:{ (* first segment is not svg: the match falls through to false *)
      intro H. exfalso. revert H.
      destruct t0 as [|c t0']; [discriminate|].
      repeat (match goal with |- context [match ?x with _ => _ end] => destruct x end; try discriminate). }
  destruct n0 as [|n0]; [|destruct r0 as [|[? ?] ?]; discriminate].
  destruct r0 as [|[t1 n1] r1]; [intros _; constructor|].
  cbn [andb]. 
  intro H.
  (* case analysis on whether the second segment is defs[0] *)
  destruct (t1 =? "defs") eqn:E1.
  - apply String.eqb_eq in E1. subst t1.
    destruct n1 as [|n1].
    + destruct r1 as [|[t2 n2] r2]; [constructor|].
      destruct r2 as [|[t3 n3] r3].
      * apply ps_grad. apply grad_spec. exact H.
      * destruct r3 as [|? ?].
        -- destruct (t3 =? "stop") eqn:E3.
           ++ apply String.eqb_eq in E3. subst t3. apply ps_stop. apply grad_spec. exact H.
           ++ (* not a stop: only the generic path/g clause can accept, but "defs" is neither *)
              exfalso. revert H. cbn [forallb is_pg fst]. cbn. 
              repeat (match goal with |- context [match ?x with _ => _ end] => destruct x end; try discriminate); cbn; try discriminate.
        -- exfalso. revert H. cbn [forallb is_pg fst]. cbn.
           repeat (match goal with |- context [match ?x with _ => _ end] => destruct x end; try discriminate); cbn; try discriminate.
    + exfalso. revert H. cbn [forallb is_pg fst]. cbn. discriminate.
  - (* generic clause *)
    apply ps_pg. apply forallb_pg.
    revert H.
    destruct t1 as [|c1 t1']; cbn in *; try discriminate;
    repeat (match goal with |- context [match ?x with _ => _ end] => destruct x end; try discriminate); cbn; intro H; try exact H; try discriminate;
    rewrite ?orb_false_r in H; exact H.
Qed.

(* the gate: every element path has one of the admitted shapes, the single defs exists, ids are unique *)
Lemma dup_ids_false seen l : dup_ids seen l = false ->
  NoDup (fold_right (fun o acc => match o with Some i => i :: acc | None => acc end) [] l) /\
  Forall (fun o => match o with Some i => ~ In i seen | None => True end) l.
Proof.
  revert seen. induction l as [|[i|] r IH]; intros seen H; cbn [dup_ids fold_right] in *.
  - split; constructor.
  - destruct (str_in i seen) eqn:E; [discriminate|].
    destruct (IH (i :: seen) H) as [Hnd Hall]. split.
    + constructor; [|exact Hnd]. intro Hin.
      assert (G : forall l0, Forall (fun o => match o with Some j => ~ In j (i :: seen) | None => True end) l0 ->
                  ~ In i (fold_right (fun o acc => match o with Some j => j :: acc | None => acc end) [] l0)).
      { induction l0 as [|[j|] l0 IH0]; intros HF; cbn [fold_right]; [tauto| |inversion HF; auto].
        inversion HF as [|? ? Hj Hr]; subst. intros [->|Hin0]; [apply Hj; left; reflexivity|exact (IH0 Hr Hin0)]. }
      exact (G r Hall Hin).
    + constructor.
      * intro Hin. unfold str_in in E. 
        assert (existsb (String.eqb i) seen = true) by (apply existsb_exists; exists i; split; [exact Hin|apply String.eqb_refl]).
        congruence.
      * eapply Forall_impl; [|exact Hall]. intros [j|] Hj; [|exact I]. intro Hin. apply Hj. right. exact Hin.
  - destruct (IH seen H) as [Hnd Hall]. split; [exact Hnd|constructor; [exact I|exact Hall]].
Qed.

Theorem gate_sound (root : xnode) :
  gate_ok false root = true ->
  Forall (fun c => path_shape (fst c)) (all_contexts root) /\
  Exists (fun c => fst c = [("svg", O); ("defs", O)]) (all_contexts root) /\
  NoDup (fold_right (fun o acc => match o with Some i => i :: acc | None => acc end) [] (map snd (all_contexts root))).
Proof.
  unfold gate_ok. intro H. apply andb_true_iff in H. destruct H as [H H3]. apply andb_true_iff in H. destruct H as [H1 H2].
  split; [|split].
  - apply Forall_forall. intros c Hc. apply allowed_sound. rewrite forallb_forall in H1. exact (H1 c Hc).
  - apply existsb_exists in H2. destruct H2 as [[pth oid] [Hc Hm]]. apply Exists_exists. exists (pth, oid). split; [exact Hc|].
    cbn [fst] in *. unfold is_defs_path in Hm.
    destruct pth as [|[t0 [|n0]] [|[t1 [|n1]] [|? ?]]]; try discriminate.
    apply andb_true_iff in Hm. destruct Hm as [Ha Hb]. apply String.eqb_eq in Ha, Hb. subst. reflexivity.
  - apply negb_true_iff in H3. exact (proj1 (dup_ids_false [] _ H3)).
Qed.
